package multiplex

// C19 - a limited user's throughput never exceeds the configured rates.
//
// Real Sessions that share one LimitedValve (MakeValve(rx, tx)) talk to unlimited peer sessions over an
// in-memory network (verifkit.VNet) inside a testing/synctest bubble. The bucket is created inside the
// bubble with ratelimit's default clock, so Bucket.Wait sleeps on the bubble's virtual clock and every
// time stamp is exact. Recorded, in time order:
//   tx: every chunk the limited side hands to the network (VNet.Tap, called under the network lock at the
//       Write that follows txWait), counted without the 5-byte record header common.TLSConn adds below
//       the switchboard;
//   rx: every frame handed to the limited session after rxWait: the limited sessions' payload AEAD is
//       wrapped by a pass-through that notes time and size when Session.recvDataFromRemote opens the frame
//       (the first thing it does; nothing in /repo is modified).
// The events go to trace.ndjson for TLC (spec/TokenBucketTrace.tla). The driver also evaluates the bound
// itself in a second, independent formulation: a sliding window over all pairs of events, in nanoseconds.

import (
	"crypto/cipher"
	"encoding/json"
	"fmt"
	"io"
	"net"
	"os"
	"path/filepath"
	"runtime"
	"sort"
	"strings"
	"sync"
	"sync/atomic"
	"testing"
	"testing/synctest"
	"time"

	"github.com/cbeuw/Cloak/internal/common"
	kit "github.com/cbeuw/Cloak/internal/verifkit"
	"github.com/juju/ratelimit"
	log "github.com/sirupsen/logrus"
)

// c19Dir describes the load of one direction (tx: limited side writes, rx: peers write).
type c19Dir struct {
	Rate    int64  `json:"rate"`    // B/s configured in MakeValve
	Pattern string `json:"pattern"` // backlog | bursty | mixed | idle
	Size    int    `json:"size"`    // bytes per Stream.Write; 0 = three full frames per call
}

type c19Scn struct {
	ID       int    `json:"id"`
	Sessions int    `json:"sessions"`
	Conns    int    `json:"conns"`
	Streams  int    `json:"streams"`
	Link     string `json:"link"`   // tls: byte-stream link wrapped in common.NewTLSConn; msg: message-mode link
	Method   byte   `json:"method"` // payload AEAD
	Tx       c19Dir `json:"tx"`
	Rx       c19Dir `json:"rx"`
	DurS     int    `json:"dur_s"`
	Seed     int64  `json:"seed"`
	// Timeout: the limited sessions have a 3 s inactivity time-out; session 0 carries the tx pattern, on every other
	// session the peer opens a stream, writes once and closes it after 1 s, so those sessions are closed by
	// checkTimeout (closing notice through send) while session 0 keeps the bucket empty
	Timeout bool `json:"timeout,omitempty"`
	// Race (real parallelism): after an idle period (full buckets) M senders of the user, released by a spin barrier,
	// each send one frame of 0.8 x burst; Rounds times. Tx/Rx patterns are ignored.
	Race   int `json:"race_senders,omitempty"`
	Rounds int `json:"rounds,omitempty"`
	// CloseStreams: the user opens this many extra streams (one small message each); half-way through, the limited side
	// closes them all at once while its bucket is empty: stream-closing frames are bytes sent to the user like any others
	CloseStreams int `json:"close_streams,omitempty"`
}

type c19Ev struct {
	kind string // pass | backlog.start | backlog.end
	dir  string
	ns   int64
	n    int
}

// c19Rec collects the events of one scenario; the time stamp is taken under the recorder's lock, so the
// list is in time order.
type c19Rec struct {
	mu    sync.Mutex
	t0    time.Time
	evs   []c19Ev
	blOn  map[string]bool
	blEnd map[string]bool
}

func (r *c19Rec) add(kind, dir string, n int) {
	r.mu.Lock()
	r.evs = append(r.evs, c19Ev{kind: kind, dir: dir, ns: int64(time.Since(r.t0)), n: n})
	r.mu.Unlock()
}

func (r *c19Rec) startBacklog(dir string) {
	r.mu.Lock()
	if !r.blOn[dir] && !r.blEnd[dir] {
		r.blOn[dir] = true
		r.evs = append(r.evs, c19Ev{kind: "backlog.start", dir: dir, ns: int64(time.Since(r.t0))})
	}
	r.mu.Unlock()
}

func (r *c19Rec) endBacklog(dir string) {
	r.mu.Lock()
	if r.blOn[dir] && !r.blEnd[dir] {
		r.blEnd[dir] = true
		r.evs = append(r.evs, c19Ev{kind: "backlog.end", dir: dir, ns: int64(time.Since(r.t0))})
	}
	r.mu.Unlock()
}

// c19AEAD passes every call through to the real cipher and notes the frames the session opens.
type c19AEAD struct {
	cipher.AEAD
	rec *c19Rec
}

func (a c19AEAD) Open(dst, nonce, ciphertext, additionalData []byte) ([]byte, error) {
	a.rec.add("pass", "rx", frameHeaderLength+len(ciphertext))
	return a.AEAD.Open(dst, nonce, ciphertext, additionalData)
}

// c19Load is the shared state of the writers of one direction.
type c19Load struct {
	dir     string
	d       c19Dir
	budget  int64 // writers stop after about this many frame bytes (keeps a run finite when nothing limits it)
	written atomic.Int64
	stop    *atomic.Bool
	rec     *c19Rec
}

func (l *c19Load) patternOf(sess, strm int) string {
	switch l.d.Pattern {
	case "mixed":
		if sess == 0 && strm == 0 {
			return "backlog"
		}
		return "bursty"
	}
	return l.d.Pattern
}

var c19Sizes = []int{1, 100, 1400, 16000, 0}

// write pushes data on st according to the pattern until the scenario stops.
func (l *c19Load) write(st io.Writer, pattern string, maxUnit int, rng *kit.Rng, first bool) {
	size := l.d.Size
	mk := func(sz int) []byte {
		if sz == 0 {
			sz = 3 * maxUnit
		}
		return rng.Bytes(sz)
	}
	put := func(b []byte) bool {
		if l.stop.Load() {
			return false
		}
		if l.written.Add(int64(len(b))+30) > l.budget { // +30: header and tag of the frame the write becomes
			l.rec.endBacklog(l.dir)
			return false
		}
		_, err := st.Write(b)
		return err == nil
	}
	switch pattern {
	case "idle":
		if first { // the stream has to exist on the other side
			put(mk(100))
		}
	case "backlog":
		buf := mk(size)
		l.rec.startBacklog(l.dir)
		for put(buf) {
		}
	case "bursty":
		for {
			sz := size
			if l.d.Pattern == "mixed" {
				sz = c19Sizes[rng.Intn(len(c19Sizes))]
			}
			buf := mk(sz)
			for k := 1 + rng.Intn(12); k > 0; k-- {
				if !put(buf) {
					return
				}
			}
			idle := time.Duration(500+rng.Intn(4500)) * time.Millisecond
			for idle > 0 && !l.stop.Load() { // idle for seconds, in slices so that a stop is noticed
				step := 250 * time.Millisecond
				if step > idle {
					step = idle
				}
				time.Sleep(step)
				idle -= step
			}
			if l.stop.Load() {
				return
			}
		}
	}
}

type c19Outcome struct {
	Evs      []c19Ev
	Bytes    map[string]int64
	AppBytes map[string]int64 // payload bytes the applications read on each side
	Err      string
}

// c19RunScenario runs one scenario inside the caller's bubble and returns what was recorded.
func c19RunScenario(sc c19Scn) c19Outcome {
	rec := &c19Rec{t0: time.Now(), blOn: map[string]bool{}, blEnd: map[string]bool{}}
	valve := MakeValve(sc.Rx.Rate, sc.Tx.Rate) // created inside the bubble: its clock is the virtual clock
	vn := kit.NewVNet()
	hdr := 0
	if sc.Link == "tls" {
		hdr = 5
	}
	vn.Tap = func(ev kit.TapEvent) {
		if ev.Kind == "w" && ev.From == 1 && len(ev.Data) > hdr {
			rec.add("pass", "tx", len(ev.Data)-hdr)
		}
	}
	var stop atomic.Bool
	dur := time.Duration(sc.DurS) * time.Second
	mkLoad := func(dir string, d c19Dir) *c19Load {
		return &c19Load{dir: dir, d: d, budget: 2*(d.Rate*int64(sc.DurS)+d.Rate) + 3*16401, stop: &stop, rec: rec}
	}
	txLoad, rxLoad := mkLoad("tx", sc.Tx), mkLoad("rx", sc.Rx)
	var wgAll sync.WaitGroup
	var writers atomic.Int64 // polled, not a WaitGroup: streams may still be accepted while the driver waits
	var appLim, appPeer atomic.Int64
	drain := func(st io.Reader, cnt *atomic.Int64) {
		defer wgAll.Done()
		buf := make([]byte, 1<<16)
		for {
			n, err := st.Read(buf)
			cnt.Add(int64(n))
			if err != nil {
				return
			}
		}
	}
	var limited, peers []*Session
	var links []*kit.VLink
	var extraMu sync.Mutex
	var extras []*Stream
	for s := 0; s < sc.Sessions; s++ {
		var key [32]byte
		copy(key[:], kit.NewRng(sc.Seed*131+int64(s)).Bytes(32))
		mk := func(wrap bool, v Valve) (*Session, error) {
			obfs, err := MakeObfuscator(sc.Method, key)
			if err != nil {
				return nil, err
			}
			if wrap {
				if obfs.payloadCipher == nil {
					return nil, fmt.Errorf("rx is observed through the payload cipher: method %d has none", sc.Method)
				}
				obfs.payloadCipher = c19AEAD{AEAD: obfs.payloadCipher, rec: rec}
			}
			idle := 1000000 * time.Second
			if sc.Timeout && wrap {
				idle = 3 * time.Second
			}
			return MakeSession(uint32(100+s), SessionConfig{Obfuscator: obfs, Valve: v, MsgOnWireSizeLimit: 16401,
				InactivityTimeout: idle}), nil
		}
		lim, err := mk(true, valve)
		if err != nil {
			return c19Outcome{Err: err.Error()}
		}
		peer, err := mk(false, UNLIMITED_VALVE)
		if err != nil {
			return c19Outcome{Err: err.Error()}
		}
		limited, peers = append(limited, lim), append(peers, peer)
		for c := 0; c < sc.Conns; c++ {
			l := vn.NewLink(false, sc.Link == "msg")
			l.Bound = 2048 // backpressure: an unlimited writer cannot run ahead of the reader without bound
			links = append(links, l)
			if sc.Link == "tls" {
				peer.AddConnection(common.NewTLSConn(l.End(0)))
				lim.AddConnection(common.NewTLSConn(l.End(1)))
			} else {
				peer.AddConnection(l.End(0))
				lim.AddConnection(l.End(1))
			}
		}
		// limited side: accept the user's streams, read them, and write back according to the tx pattern
		wgAll.Add(1)
		go func(s int, lim *Session) {
			defer wgAll.Done()
			for k := 0; ; k++ {
				conn, err := lim.Accept()
				if err != nil {
					return
				}
				st := conn.(*Stream)
				if sc.CloseStreams > 0 && k >= sc.Streams {
					extraMu.Lock()
					extras = append(extras, st)
					extraMu.Unlock()
					wgAll.Add(1)
					go drain(st, &appLim)
					continue
				}
				wgAll.Add(2)
				go drain(st, &appLim)
				writers.Add(1)
				go func(k int) {
					defer wgAll.Done()
					defer writers.Add(-1)
					pat := txLoad.patternOf(s, k)
					if sc.Timeout && s > 0 {
						pat = "idle"
					}
					txLoad.write(st, pat, lim.maxStreamUnitWrite, kit.NewRng(sc.Seed*7919+int64(s*64+k)), false)
				}(k)
			}
		}(s, lim)
		// peer side: open the streams, write according to the rx pattern, read what comes back
		for k := 0; k < sc.Streams; k++ {
			st, err := peer.OpenStream()
			if err != nil {
				return c19Outcome{Err: "OpenStream: " + err.Error()}
			}
			wgAll.Add(2)
			go drain(st, &appPeer)
			writers.Add(1)
			go func(s, k int) {
				defer wgAll.Done()
				defer writers.Add(-1)
				pat := rxLoad.patternOf(s, k)
				rng := kit.NewRng(sc.Seed*104729 + int64(s*64+k))
				if sc.Timeout && s > 0 { // one message, then the stream goes: the limited session is left without streams
					rxLoad.write(st, "idle", peer.maxStreamUnitWrite, rng, true)
					time.Sleep(time.Second)
					st.Close()
					return
				}
				rxLoad.write(st, pat, peer.maxStreamUnitWrite, rng, true)
			}(s, k)
		}
	}
	if sc.CloseStreams > 0 {
		for _, peer := range peers {
			for j := 0; j < sc.CloseStreams; j++ {
				st, err := peer.OpenStream()
				if err != nil {
					return c19Outcome{Err: "OpenStream: " + err.Error()}
				}
				st.Write([]byte("extra-stream"))
				wgAll.Add(1)
				go drain(st, &appPeer)
			}
		}
		time.Sleep(dur / 2)
		extraMu.Lock()
		ex := append([]*Stream(nil), extras...)
		extraMu.Unlock()
		for _, st := range ex {
			go st.Close()
		}
		time.Sleep(dur - dur/2)
	} else {
		time.Sleep(dur)
	}
	rec.endBacklog("tx")
	rec.endBacklog("rx")
	// the user's sessions are closed by the limited side while its writers are in the middle of their writes and
	// (backlogged patterns) the bucket is empty: the closing notices are bytes sent to the user like any others
	for _, l := range limited {
		l.Close()
	}
	stop.Store(true)
	for writers.Load() > 0 { // a writer inside txWait finishes its message first (virtual time)
		time.Sleep(10 * time.Millisecond)
	}
	time.Sleep(100 * time.Millisecond) // what is in flight reaches the other side
	for _, p := range peers {
		p.Close()
	}
	for _, l := range links {
		l.End(0).Close()
		l.End(1).Close()
	}
	wgAll.Wait()
	// Cloak's own goroutines (deplex inside rxWait, a Close inside txWait) must have left before the bubble's
	// main goroutine returns, and the virtual clock only runs while it is alive: the debt of a bucket is at
	// most (connections x one record) / rate < 2 minutes
	time.Sleep(20 * time.Minute)
	synctest.Wait()
	rec.mu.Lock()
	defer rec.mu.Unlock()
	out := c19Outcome{Evs: rec.evs, Bytes: map[string]int64{}, AppBytes: map[string]int64{"limited": appLim.Load(), "peer": appPeer.Load()}}
	for _, e := range rec.evs {
		if e.kind == "pass" {
			out.Bytes[e.dir] += int64(e.n)
		}
	}
	return out
}

// c19RunRace: the real-parallelism stage. The bubble's goroutines run on all processors; a spin barrier lines the
// senders up (nobody is durably blocked meanwhile, so the virtual clock stands still), then each sends ONE frame of
// 0.8 x burst into full buckets: tx senders hand a ready-made frame to switchboard.send (nothing between barrier and
// limiter) or, every fourth round, call Stream.Write on their own stream; rx senders are peer goroutines
// that each put one ready-made record on their own connection, so that the limited side's deplex goroutines reach
// rxWait together. Exactly one frame fits the bucket; the others have to wait their turn. The recorded events go
// through the same oracle and the same TLC trace specification as every other scenario.
func c19RunRace(sc c19Scn) c19Outcome {
	rec := &c19Rec{t0: time.Now(), blOn: map[string]bool{}, blEnd: map[string]bool{}}
	valve := MakeValve(sc.Rx.Rate, sc.Tx.Rate)
	vn := kit.NewVNet()
	vn.Tap = func(ev kit.TapEvent) {
		if ev.Kind == "w" && ev.From == 1 && len(ev.Data) > 5 {
			rec.add("pass", "tx", len(ev.Data)-5)
		}
	}
	var wgAll sync.WaitGroup
	var appLim, appPeer atomic.Int64
	drain := func(st io.Reader, cnt *atomic.Int64) {
		defer wgAll.Done()
		buf := make([]byte, 1<<16)
		for {
			n, err := st.Read(buf)
			cnt.Add(int64(n))
			if err != nil {
				return
			}
		}
	}
	acceptAll := func(sesh *Session, cnt *atomic.Int64) {
		defer wgAll.Done()
		for {
			conn, err := sesh.Accept()
			if err != nil {
				return
			}
			wgAll.Add(1)
			go drain(conn, cnt)
		}
	}
	m := sc.Race
	var limited, peers []*Session
	var peerConns []net.Conn // one per connection, the peer's end as its switchboard sees it
	var peerOf []*Session
	var links []*kit.VLink
	for s := 0; s < sc.Sessions; s++ {
		var key [32]byte
		copy(key[:], kit.NewRng(sc.Seed*131+int64(s)).Bytes(32))
		obfsL, _ := MakeObfuscator(sc.Method, key)
		obfsP, _ := MakeObfuscator(sc.Method, key)
		if obfsL.payloadCipher == nil {
			return c19Outcome{Err: "race stage needs an AEAD"}
		}
		obfsL.payloadCipher = c19AEAD{AEAD: obfsL.payloadCipher, rec: rec}
		lim := MakeSession(uint32(100+s), SessionConfig{Obfuscator: obfsL, Valve: valve, MsgOnWireSizeLimit: 16401, InactivityTimeout: 1000000 * time.Second})
		peer := MakeSession(uint32(100+s), SessionConfig{Obfuscator: obfsP, Valve: UNLIMITED_VALVE, MsgOnWireSizeLimit: 16401, InactivityTimeout: 1000000 * time.Second})
		limited, peers = append(limited, lim), append(peers, peer)
		for c := 0; c < sc.Conns; c++ {
			l := vn.NewLink(false, false)
			links = append(links, l)
			pc := common.NewTLSConn(l.End(0))
			peer.AddConnection(pc)
			lim.AddConnection(common.NewTLSConn(l.End(1)))
			peerConns, peerOf = append(peerConns, pc), append(peerOf, peer)
		}
		wgAll.Add(2)
		go acceptAll(lim, &appLim)
		go acceptAll(peer, &appPeer)
	}
	txFrame := int(sc.Tx.Rate * 8 / 10)
	rxFrame := int(sc.Rx.Rate * 8 / 10)
	// tx senders: stream i lives on session i % S and is opened by the limited side
	txStreams := make([]*Stream, m)
	for i := range txStreams {
		st, err := limited[i%len(limited)].OpenStream()
		if err != nil {
			return c19Outcome{Err: err.Error()}
		}
		txStreams[i] = st
	}
	payload := kit.NewRng(sc.Seed).Bytes(16400)
	// the racers spin without yielding (that is what lines them up to well under a microsecond), so there must be
	// fewer of them than processors: the driver and the bubble's other goroutines need one too
	maxRacers := runtime.GOMAXPROCS(0) - 5
	if maxRacers < 2 {
		maxRacers = 2
	}
	race := func(r, n int, prepare func(i int) func()) {
		if n > maxRacers {
			n = maxRacers
		}
		var arrived, armed, tight, gate atomic.Int32
		var round sync.WaitGroup
		for i := 0; i < n; i++ {
			round.Add(1)
			go func(i int) {
				defer round.Done()
				shoot := prepare(i)
				arrived.Add(1)
				for armed.Load() == 0 { // politely, until everybody is here
					runtime.Gosched()
				}
				tight.Add(1)
				for gate.Load() == 0 { // then without yielding, for the few microseconds until the release
				}
				shoot()
			}(i)
		}
		for int(arrived.Load()) < n {
			runtime.Gosched()
		}
		// observers that keep asking the user's buckets for their balance (Bucket.Available, the library's metrics call:
		// it changes nothing a Take would not) while the racers go through: the bucket's lock is then contended, which
		// stretches the time any sender spends between two calls on the bucket from nanoseconds to microseconds
		var jamStop atomic.Bool
		var jam sync.WaitGroup
		for j := 0; j < 3; j++ {
			jam.Add(1)
			go func() {
				defer jam.Done()
				for !jamStop.Load() {
					valve.txtb.Available()
					valve.rxtb.Available()
				}
			}()
		}
		defer func() { jamStop.Store(true); jam.Wait() }()
		armed.Store(1)
		for int(tight.Load()) < n {
			runtime.Gosched()
		}
		rec.add("round", "", r)
		gate.Store(1)
		for w := 0; w < 2000 && !jamStop.Load(); w++ { // the observers stay for the first instants only
			runtime.Gosched()
		}
		jamStop.Store(true)
		round.Wait()
	}
	for r := 0; r < sc.Rounds; r++ {
		// idle until both buckets are full again: the debt of a round is at most m frames
		time.Sleep(time.Duration(m)*time.Second + 1500*time.Millisecond)
		race(r, m, func(i int) func() {
			st := txStreams[i]
			if r%4 == 3 { // the application's way in: Stream.Write (encrypts between barrier and limiter)
				return func() { st.Write(payload[:txFrame-frameHeaderLength-16]) }
			}
			// a frame of a stream of its own, encrypted before the barrier; what follows is switchboard.send alone
			sesh := limited[i%len(limited)]
			buf := make([]byte, 16401)
			f := &Frame{StreamID: uint32(5000 + i), Seq: uint64(5 + r), Payload: payload[:txFrame-frameHeaderLength-16]}
			n, err := sesh.obfuscate(f, buf, 0)
			if err != nil {
				return func() {}
			}
			assigned := new(net.Conn)
			return func() { sesh.sb.send(buf[:n], assigned) }
		})
		nrx := m
		if nrx > len(peerConns) {
			nrx = len(peerConns)
		}
		if r%3 != 0 { // the rx race is looser by nature (the deplex goroutines are woken one after the other)
			continue
		}
		race(r, nrx, func(i int) func() {
			buf := make([]byte, 16401)
			f := &Frame{StreamID: uint32(7000 + i), Seq: uint64(r / 3), Payload: payload[:rxFrame-frameHeaderLength-16]}
			n, err := peerOf[i].obfuscate(f, buf, 0)
			if err != nil {
				return func() {}
			}
			return func() { peerConns[i].Write(buf[:n]) }
		})
	}
	time.Sleep(time.Duration(m)*time.Second + 2*time.Second)
	for _, l := range limited {
		l.Close()
	}
	for _, p := range peers {
		p.Close()
	}
	for _, l := range links {
		l.End(0).Close()
		l.End(1).Close()
	}
	wgAll.Wait()
	time.Sleep(20 * time.Minute)
	synctest.Wait()
	rec.mu.Lock()
	defer rec.mu.Unlock()
	out := c19Outcome{Evs: rec.evs, Bytes: map[string]int64{}, AppBytes: map[string]int64{"limited": appLim.Load(), "peer": appPeer.Load()}}
	for _, e := range rec.evs {
		if e.kind == "pass" {
			out.Bytes[e.dir] += int64(e.n)
		}
	}
	return out
}

// ------------------------------------------------------------------------------------ the oracle

type c19Finding struct {
	Key  string
	What string
	Info map[string]any
}

type c19DirStats struct {
	Events  int   `json:"events"`
	Bytes   int64 `json:"bytes"`
	MaxMsg  int   `json:"maxmsg"`
	Relax   int   `json:"relax"`
	PeakQ   int64 `json:"peak_queue"` // largest excess of an interval over rate*t, bytes
	Engaged bool  `json:"engaged"`    // the bucket ran dry at least once
}

// c19Check evaluates the statement on the events of one direction: every pair of events (i <= j) bounds an
// interval [t_i, t_j] that carries the bytes of events i..j; and inside a backlogged phase every stretch of
// >= 5 s between two events must carry at least 0.98*rate*t minus one message.
func c19Check(dir string, rate int64, evs []c19Ev) (st c19DirStats, fs []c19Finding) {
	var t []int64
	var pre []int64 // pre[k] = bytes of passes 0..k-1
	pre = append(pre, 0)
	var blStart, blEnd int64 = -1, -1
	for _, e := range evs {
		if e.dir != dir {
			continue
		}
		switch e.kind {
		case "pass":
			t = append(t, e.ns)
			pre = append(pre, pre[len(pre)-1]+int64(e.n))
			if e.n > st.MaxMsg {
				st.MaxMsg = e.n
			}
		case "backlog.start":
			blStart = e.ns
		case "backlog.end":
			blEnd = e.ns
		}
	}
	n := len(t)
	st.Events, st.Bytes = n, pre[n]
	burst := rate // one second's worth
	if int64(st.MaxMsg) > burst {
		st.Relax = st.MaxMsg // low-rate run: a single message is larger than the burst
	}
	// allowance in units of byte*ns: (burst*1.01 + relax) * 1e9
	allow := (burst*101/100 + int64(st.Relax)) * 1e9
	worst := int64(-1 << 62)
	var wi, wj int
	for i := 0; i < n; i++ {
		if i > 0 && t[i-1] == t[i] {
			continue // the interval starting one event earlier has the same length and more bytes
		}
		for j := i; j < n; j++ {
			ex := (pre[j+1]-pre[i])*1e9 - rate*(t[j]-t[i])
			if ex > worst {
				worst, wi, wj = ex, i, j
			}
		}
	}
	if n > 0 {
		st.PeakQ = worst / 1e9
		st.Engaged = st.Bytes > burst
		if worst > allow {
			fs = append(fs, c19Finding{Key: dir + "-exceeds",
				What: fmt.Sprintf("%s: %d bytes passed in the %.3f ms from t=%.3f ms to t=%.3f ms; the configured %d B/s allow %d (rate*t) + %d (one second of burst, +1%%) + %d (one message larger than the burst)",
					dir, pre[wj+1]-pre[wi], float64(t[wj]-t[wi])/1e6, float64(t[wi])/1e6, float64(t[wj])/1e6, rate,
					rate*(t[wj]-t[wi])/1e9, burst*101/100, st.Relax),
				Info: map[string]any{"dir": dir, "from_ms": float64(t[wi]) / 1e6, "to_ms": float64(t[wj]) / 1e6, "bytes": pre[wj+1] - pre[wi],
					"excess_over_rate_t": worst / 1e9, "allowed_excess": allow / 1e9}})
		}
	}
	// lower bound over the backlogged phase; the phase borders count as zero-length events
	if blStart >= 0 && blEnd > blStart {
		var bt []int64
		var bp []int64 // bp[k] = bytes passed strictly before border/event k (in record order)
		bt, bp = append(bt, blStart), append(bp, 0)
		var acc int64
		var sizes []int64
		sizes = append(sizes, 0)
		for k := 0; k < n; k++ {
			if t[k] < blStart || t[k] > blEnd {
				continue
			}
			bt, bp = append(bt, t[k]), append(bp, acc)
			sz := pre[k+1] - pre[k]
			sizes = append(sizes, sz)
			acc += sz
		}
		bt, bp, sizes = append(bt, blEnd), append(bp, acc), append(sizes, 0)
		m := len(bt)
		for i := 0; i < m; i++ {
			for j := m - 1; j > i; j-- {
				dt := bt[j] - bt[i]
				if dt < 5e9 {
					break
				}
				got := bp[j] - bp[i] - sizes[i] // events strictly between i and j
				// 0.98*rate*dt - maxmsg, in byte*ns
				need := rate*dt/100*98 - int64(st.MaxMsg)*1e9
				if got*1e9 < need {
					fs = append(fs, c19Finding{Key: dir + "-starved",
						What: fmt.Sprintf("%s: a backlogged sender got %d bytes through between t=%.3f ms and t=%.3f ms (%.3f s); 0.98 x %d B/s minus one message (%d) is %d",
							dir, got, float64(bt[i])/1e6, float64(bt[j])/1e6, float64(dt)/1e9, rate, st.MaxMsg, need/1e9),
						Info: map[string]any{"dir": dir, "from_ms": float64(bt[i]) / 1e6, "to_ms": float64(bt[j]) / 1e6, "bytes": got, "needed": need / 1e9}})
					return
				}
			}
		}
	}
	return
}

// c19Emit writes one scenario to the TLC trace: reset (with the parameters of the bound), then the events
// with their time stamps floored to the millisecond.
func c19Emit(tw *kit.TraceWriter, sc c19Scn, evs []c19Ev, tx, rx c19DirStats) {
	par := func(d c19Dir, s c19DirStats) map[string]any {
		return map[string]any{"rpm": d.Rate / 1000, "burst": d.Rate, "relax": s.Relax, "maxmsg": s.MaxMsg}
	}
	tw.Emit(map[string]any{"ev": "reset", "scn": sc.ID, "tx": par(sc.Tx, tx), "rx": par(sc.Rx, rx)})
	for _, e := range evs {
		if e.kind == "round" {
			continue // marker of the race stage, for the driver's statistics only
		}
		m := map[string]any{"ev": e.kind, "dir": e.dir, "t": e.ns / 1e6}
		if e.kind == "pass" {
			m["n"] = e.n
		}
		tw.Emit(m)
	}
}

// ------------------------------------------------------------------------------------ scenarios

func c19EstimateEvents(d c19Dir, durS int) int64 {
	if d.Pattern == "idle" {
		return 10
	}
	frame := int64(d.Size + 14 + 16)
	if d.Size == 0 || d.Size > 16000 {
		frame = 16300
	}
	n := (d.Rate*int64(durS) + d.Rate) / frame
	if d.Pattern == "bursty" {
		n /= 2
	}
	return n
}

func c19Scenarios(seed int64, thorough bool) []c19Scn {
	B, U, M, I := "backlog", "bursty", "mixed", "idle"
	base := []c19Scn{
		{Sessions: 1, Conns: 1, Streams: 1, Link: "tls", Method: EncryptionMethodAES256GCM, Tx: c19Dir{20000, B, 1400}, Rx: c19Dir{100000, B, 1400}, DurS: 15},
		{Sessions: 2, Conns: 3, Streams: 2, Link: "tls", Method: EncryptionMethodChaha20Poly1305, Tx: c19Dir{100000, B, 16000}, Rx: c19Dir{20000, M, 1400}, DurS: 12},
		{Sessions: 3, Conns: 4, Streams: 3, Link: "msg", Method: EncryptionMethodAES128GCM, Tx: c19Dir{20000, M, 1400}, Rx: c19Dir{2000, B, 100}, DurS: 20},
		{Sessions: 1, Conns: 2, Streams: 2, Link: "tls", Method: EncryptionMethodAES256GCM, Tx: c19Dir{2000, B, 16000}, Rx: c19Dir{20000, U, 1400}, DurS: 40},
		{Sessions: 2, Conns: 1, Streams: 1, Link: "tls", Method: EncryptionMethodChaha20Poly1305, Tx: c19Dir{2000, B, 1}, Rx: c19Dir{100000, B, 0}, DurS: 20},
		{Sessions: 1, Conns: 4, Streams: 3, Link: "msg", Method: EncryptionMethodAES128GCM, Tx: c19Dir{100000, U, 0}, Rx: c19Dir{2000, B, 16000}, DurS: 30},
		{Sessions: 3, Conns: 2, Streams: 1, Link: "tls", Method: EncryptionMethodAES256GCM, Tx: c19Dir{20000, B, 1}, Rx: c19Dir{100000, U, 100}, DurS: 10},
		{Sessions: 2, Conns: 2, Streams: 2, Link: "msg", Method: EncryptionMethodChaha20Poly1305, Tx: c19Dir{100000, B, 1400}, Rx: c19Dir{20000, B, 100}, DurS: 10},
		{Sessions: 1, Conns: 3, Streams: 2, Link: "tls", Method: EncryptionMethodAES128GCM, Tx: c19Dir{20000, I, 100}, Rx: c19Dir{2000, M, 1400}, DurS: 25},
	}
	// sessions closed while the bucket is empty, at rates where one closing notice is a large part of the allowance
	base = append(base,
		c19Scn{Sessions: 16, Conns: 1, Streams: 1, Link: "tls", Method: EncryptionMethodAES256GCM, Tx: c19Dir{2000, B, 100}, Rx: c19Dir{20000, I, 100}, DurS: 10},
		c19Scn{Sessions: 32, Conns: 1, Streams: 1, Link: "msg", Method: EncryptionMethodChaha20Poly1305, Tx: c19Dir{1000, B, 100}, Rx: c19Dir{20000, I, 100}, DurS: 10},
		c19Scn{Sessions: 4, Conns: 2, Streams: 1, Link: "tls", Method: EncryptionMethodAES128GCM, Tx: c19Dir{5000, B, 1400}, Rx: c19Dir{2000, I, 100}, DurS: 10},
		c19Scn{Sessions: 9, Conns: 1, Streams: 1, Link: "tls", Method: EncryptionMethodAES256GCM, Tx: c19Dir{2000, B, 100}, Rx: c19Dir{20000, I, 100}, DurS: 12, Timeout: true},
		// real parallelism into full buckets
		c19Scn{Sessions: 2, Conns: 2, Streams: 1, Link: "tls", Method: EncryptionMethodAES256GCM, Tx: c19Dir{4000, B, 100}, Rx: c19Dir{200000, I, 100}, DurS: 10, CloseStreams: 150},
		c19Scn{Sessions: 4, Conns: 2, Streams: 1, Link: "tls", Method: EncryptionMethodAES256GCM, Tx: c19Dir{20000, "race", 0}, Rx: c19Dir{5000, "race", 0}, Race: 8, Rounds: 150},
		c19Scn{Sessions: 4, Conns: 4, Streams: 1, Link: "tls", Method: EncryptionMethodChaha20Poly1305, Tx: c19Dir{2000, "race", 0}, Rx: c19Dir{20000, "race", 0}, Race: 6, Rounds: 150},
		c19Scn{Sessions: 1, Conns: 2, Streams: 1, Link: "tls", Method: EncryptionMethodAES128GCM, Tx: c19Dir{5000, "race", 0}, Rx: c19Dir{2000, "race", 0}, Race: 3, Rounds: 150})
	if thorough {
		for i := range base {
			if base[i].Race > 0 {
				base[i].Rounds = 600
			}
		}
	}
	nfixed := len(base)
	rng := kit.NewRng(seed)
	rates := []int64{2000, 20000, 100000}
	pats := []string{B, B, U, M}
	extra, evBudget := 5, int64(3000)
	if thorough {
		extra, evBudget = 60, 25000
	}
	for len(base) < nfixed+extra {
		sc := c19Scn{Sessions: 1 + rng.Intn(3), Conns: 1 + rng.Intn(4), Streams: 1 + rng.Intn(3),
			Link: []string{"tls", "msg"}[rng.Intn(2)], Method: byte(1 + rng.Intn(3)), DurS: 10 + rng.Intn(31)}
		ti := rng.Intn(3)
		ri := (ti + 1 + rng.Intn(2)) % 3 // different values for the two directions
		sc.Tx = c19Dir{rates[ti], pats[rng.Intn(len(pats))], c19Sizes[rng.Intn(len(c19Sizes))]}
		sc.Rx = c19Dir{rates[ri], pats[rng.Intn(len(pats))], c19Sizes[rng.Intn(len(c19Sizes))]}
		if c19EstimateEvents(sc.Tx, sc.DurS)+c19EstimateEvents(sc.Rx, sc.DurS) > evBudget {
			sc.DurS = 10
			if c19EstimateEvents(sc.Tx, sc.DurS)+c19EstimateEvents(sc.Rx, sc.DurS) > evBudget {
				continue
			}
		}
		base = append(base, sc)
	}
	for i := range base {
		base[i].ID = i + 1
		base[i].Seed = seed*1000 + int64(i)
	}
	return base
}

func c19Sig(sc c19Scn) string {
	sc.ID, sc.Seed = 0, 0
	b, _ := json.Marshal(sc)
	return string(b)
}

// c19Evaluate runs the scenario in its own bubble and applies the oracle.
func c19Evaluate(t *testing.T, sc c19Scn) (out c19Outcome, tx, rx c19DirStats, fs []c19Finding) {
	synctest.Test(t, func(t *testing.T) {
		if sc.Race > 0 {
			out = c19RunRace(sc)
		} else {
			out = c19RunScenario(sc)
		}
	})
	if out.Err != "" {
		return
	}
	var f1, f2 []c19Finding
	tx, f1 = c19Check("tx", sc.Tx.Rate, out.Evs)
	rx, f2 = c19Check("rx", sc.Rx.Rate, out.Evs)
	fs = append(f1, f2...)
	return
}

func TestVerifC19Trace(t *testing.T) {
	log.SetOutput(io.Discard)
	log.SetLevel(log.PanicLevel)
	res := kit.NewResult()
	defer func() { res.Save(true) }()
	if rp := kit.Env("VERIF_REPLAY", ""); rp != "" {
		c19ReplayFile(t, rp)
		return
	}
	nfiles := kit.EnvInt("VERIF_C19_FILES", 3)
	var tws []*kit.TraceWriter
	for i := 0; i < nfiles; i++ {
		tws = append(tws, kit.NewTraceWriter(fmt.Sprintf("trace%d.ndjson", i)))
	}
	defer func() {
		for _, tw := range tws {
			tw.Close()
		}
	}()
	load := make([]int, nfiles)
	scs := c19Scenarios(kit.Seed(), kit.Thorough())
	if b, err := json.Marshal(scs); err == nil { // lets the Python side name the parameters of any scenario
		os.WriteFile(filepath.Join(kit.OutDir(), "scenarios.json"), b, 0o644)
	}
	only := kit.Env("VERIF_C19_ONLY", "") // development aid: comma-separated scenario ids
	for _, sc := range scs {
		if only != "" && !strings.Contains(","+only+",", fmt.Sprintf(",%d,", sc.ID)) {
			continue
		}
		res.SetRunning(sc, false)
		t0 := time.Now()
		out, tx, rx, fs := c19Evaluate(t, sc)
		if out.Err != "" {
			t.Fatalf("scenario %d: %s", sc.ID, out.Err)
		}
		res.Stat("real_us", int64(time.Since(t0)/time.Microsecond))
		// a scenario counts as non-trivial when the limiter was actually engaged in some direction
		res.Count(c19Sig(sc), tx.Engaged || rx.Engaged)
		res.Stat("events_tx", int64(tx.Events))
		res.Stat("events_rx", int64(rx.Events))
		res.Stat("bytes_tx", tx.Bytes)
		res.Stat("bytes_rx", rx.Bytes)
		if tx.Engaged {
			res.Stat("engaged_tx", 1)
		}
		if rx.Engaged {
			res.Stat("engaged_rx", 1)
		}
		if tx.Relax > 0 || rx.Relax > 0 {
			res.Stat("lowrate_relaxed_dirs", 1)
		}
		res.Stat("virtual_s", int64(sc.DurS))
		if sc.Race > 0 { // logged, never deciding: rounds in which more than one frame left at the instant of the release
			var at int64 = -1
			cnt := map[string]int{}
			flush := func() {
				for d, c := range cnt {
					if c > 1 {
						res.Stat("race_rounds_with_several_frames_at_once_"+d, 1)
					}
				}
				cnt = map[string]int{}
			}
			for _, e := range out.Evs {
				if e.kind == "round" {
					flush()
					at = e.ns
					res.Stat("race_rounds", 1)
				} else if e.kind == "pass" && e.ns == at {
					cnt[e.dir]++
				}
			}
			flush()
		}
		res.Sample(map[string]any{"scenario": sc, "tx": tx, "rx": rx, "app_bytes": out.AppBytes}, 6)
		// at 2 kB/s a 16 kB frame takes 8 s and the first frame of a stream may queue behind others: an application
		// that has read nothing yet is slow, not dead; a scenario in which no frame reached the limited side is
		if rx.Events == 0 || (sc.Tx.Pattern != "idle" && tx.Events == 0) {
			res.Note("scenario %d moved no data (rx %d frames, tx %d chunks, app %v)", sc.ID, rx.Events, tx.Events, out.AppBytes)
			res.Stat("dead_scenarios", 1)
		}
		for _, f := range fs {
			res.Violate(f.Key, f.What, map[string]any{"scenario": sc, "finding": f.Info, "tx": tx, "rx": rx})
		}
		// spread the scenarios over the trace files so that TLC can validate them in parallel
		k := 0
		for i := range load {
			if load[i] < load[k] {
				k = i
			}
		}
		load[k] += len(out.Evs)
		c19Emit(tws[k], sc, out.Evs, tx, rx)
	}
	res.Stat("scenarios", int64(len(scs)))
	if in := kit.Env("VERIF_IN", ""); in != "" { // same process: the model's Take arithmetic against the library
		if err := c19BucketReplay(res, in); err != nil {
			t.Fatal(err)
		}
	}
	var n int64
	for _, tw := range tws {
		n += tw.Events()
	}
	res.Stat("trace_events", n)
}

func c19ReplayFile(t *testing.T, path string) {
	var rf struct {
		Replay struct {
			Scenario c19Scn `json:"scenario"`
		} `json:"replay"`
	}
	raw, err := os.ReadFile(path)
	if err != nil {
		t.Fatal(err)
	}
	if err := json.Unmarshal(raw, &rf); err != nil {
		t.Fatal(err)
	}
	sc := rf.Replay.Scenario
	if sc.Sessions == 0 {
		t.Fatalf("replay file carries no scenario")
	}
	out, tx, rx, fs := c19Evaluate(t, sc)
	if out.Err != "" {
		t.Fatal(out.Err)
	}
	fmt.Printf("scenario %+v\n tx %+v\n rx %+v\n app %v\n", sc, tx, rx, out.AppBytes)
	keys := []string{}
	for _, f := range fs {
		fmt.Printf("FINDING %s: %s\n", f.Key, f.What)
		keys = append(keys, f.Key)
	}
	sort.Strings(keys)
	fmt.Printf("REPLAY-RESULT keys=%q\n", keys)
}

// ------------------------------------------------------------------------------------ model <-> library

// Behaviours of spec/TokenBucketGen.tla replayed on a real ratelimit.Bucket with a scripted clock: the library
// must answer every Take with the wake-up instant (and leave the number of tokens) the model computed. A
// difference means TokenBucket.tla does not describe juju/ratelimit: model drift, not a verdict about C19.

type c19Step struct {
	W     string `json:"w"`
	N     int64  `json:"n"`
	Now   int64  `json:"now"`
	Wake  int64  `json:"wake"`
	Avail int64  `json:"avail"`
}

type c19Beh struct {
	Quantum int64     `json:"quantum"`
	Fi      int64     `json:"fi"`
	Cap     int64     `json:"cap"`
	Steps   []c19Step `json:"steps"`
}

type c19Clock struct{ now time.Time }

func (c *c19Clock) Now() time.Time        { return c.now }
func (c *c19Clock) Sleep(d time.Duration) { c.now = c.now.Add(d) }

func c19ReplayBucket(b *c19Beh, unit, jitter time.Duration) string {
	start := time.Unix(1700000000, 0)
	clk := &c19Clock{now: start}
	tb := ratelimit.NewBucketWithQuantumAndClock(time.Duration(b.Fi)*unit, b.Cap, b.Quantum, clk)
	for i, st := range b.Steps {
		clk.now = start.Add(time.Duration(st.Now)*unit + jitter) // anywhere inside the model's clock unit
		d := tb.Take(st.N)
		wake := clk.now // no wait
		if d > 0 {
			wake = clk.now.Add(d)
		}
		want := start.Add(time.Duration(st.Wake) * unit)
		if st.Wake == st.Now {
			want = clk.now
		}
		if !wake.Equal(want) {
			return fmt.Sprintf("step %d Take(%d) at %d: the library says proceed at +%v, the model at clock %d (+%v)", i, st.N, st.Now, wake.Sub(start), st.Wake, want.Sub(start))
		}
		if got := tb.Available(); got != st.Avail {
			return fmt.Sprintf("step %d Take(%d) at %d: the library holds %d tokens, the model %d", i, st.N, st.Now, got, st.Avail)
		}
	}
	return ""
}

// c19BucketReplay replays every behaviour of the file in 4 concretisations of the model's clock unit.
func c19BucketReplay(res *kit.Result, path string) error {
	idx := 0
	err := kit.ReadLines(path, func(line []byte) error {
		var b c19Beh
		if err := json.Unmarshal(line, &b); err != nil {
			return err
		}
		idx++
		waited := false
		for _, st := range b.Steps {
			waited = waited || st.Wake > st.Now
		}
		for ci, c := range []struct{ unit, jitter time.Duration }{{time.Millisecond, 0}, {10 * time.Microsecond, 9999 * time.Nanosecond},
			{time.Nanosecond, 0}, {time.Second, 400 * time.Millisecond}} {
			res.Count(string(line), waited)
			if msg := c19ReplayBucket(&b, c.unit, c.jitter); msg != "" {
				res.Stat("drift", 1)
				res.Note("behaviour %d, concretisation %d: %s", idx, ci, msg)
			}
		}
		if idx%97 == 1 {
			res.Sample(map[string]any{"bucket_behaviour": json.RawMessage(append([]byte{}, line...))}, 8)
		}
		return nil
	})
	res.Stat("bucket_behaviours", int64(idx))
	return err
}

func TestVerifC19Bucket(t *testing.T) {
	res := kit.NewResult()
	defer func() { res.Save(true) }()
	if err := c19BucketReplay(res, kit.Env("VERIF_IN", "")); err != nil {
		t.Fatal(err)
	}
}
