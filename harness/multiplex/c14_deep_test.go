package multiplex

// C14, deep backlogs ("every datagram written on an open stream of a healthy session comes out whole, once"): a consumer
// that is away while hundreds of datagrams (several MiB) queue up on its stream, then drains. DatagramPipe.tla holds for
// every queue length; the replayed behaviours keep the queue short, this stage does not.

import (
	"bytes"
	"fmt"
	"testing"
	"time"

	kit "github.com/cbeuw/Cloak/internal/verifkit"
)

func TestVerifC14DeepBacklog(t *testing.T) {
	res := kit.NewResult()
	defer func() { res.Save(true) }()
	type cs struct{ n, size, readFirst int }
	cases := []cs{{400, 16000, 0}, {700, 16000, 7}, {6000, 1200, 3}, {20000, 1, 0}, {300, 16355, 64}}
	if kit.Thorough() {
		cases = append(cases, cs{4000, 16000, 100}, cs{200000, 9, 1000})
	}
	for ci, c := range cases {
		p := NewDatagramBufferedPipe()
		mk := func(i int) []byte {
			b := make([]byte, c.size)
			kit.FillToken(b, uint64(i)+1)
			if c.size >= 4 {
				b[0], b[1], b[2], b[3] = byte(i>>24), byte(i>>16), byte(i>>8), byte(i)
			}
			return b
		}
		buf := make([]byte, 20480)
		next := 0
		bad := ""
		readOne := func() bool {
			p.SetReadDeadline(time.Now().Add(3 * time.Second))
			n, err := p.Read(buf)
			if err != nil {
				bad = fmt.Sprintf("datagram %d of %d (%d bytes each) never came out: %v", next, c.n, c.size, err)
				return false
			}
			if !bytes.Equal(buf[:n], mk(next)) {
				bad = fmt.Sprintf("datagram %d of %d: %d bytes came out that are not the %d bytes written", next, c.n, n, c.size)
				return false
			}
			next++
			return true
		}
		// the consumer reads a few, then falls behind for the whole burst
		w := 0
		for ; w < c.readFirst; w++ {
			p.Write(&Frame{StreamID: 1, Seq: uint64(w), Payload: mk(w)})
		}
		for next < c.readFirst && readOne() {
		}
		for ; w < c.n && bad == ""; w++ {
			if _, err := p.Write(&Frame{StreamID: 1, Seq: uint64(w), Payload: mk(w)}); err != nil {
				bad = fmt.Sprintf("the pipe refused datagram %d: %v", w, err)
			}
		}
		for bad == "" && next < c.n && readOne() {
		}
		res.Count(fmt.Sprintf("deep %d x %d after %d", c.n, c.size, c.readFirst), true)
		res.Stat("deep_datagrams", int64(c.n))
		if bad != "" {
			res.Violate("dgram-lost", fmt.Sprintf("a consumer that was away while %d datagrams queued up: %s", c.n-c.readFirst, bad), map[string]any{"case": ci, "n": c.n, "size": c.size, "read_first": c.readFirst})
		}
		p.Close()
	}
}
