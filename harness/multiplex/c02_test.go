package multiplex

// C02 - reassembly is independent of arrival order.
// B1: behaviours exported by TLC from spec/ReassemblyGen.tla are stepped through the real
//     streamBuffer; every Write return value and every Read output is compared with the model.
// B2: a writer goroutine and a reader goroutine hammer one streamBuffer in parallel and record
//     call/return events which TLC validates against spec/ReassemblyTrace.tla.

import (
	"bytes"
	"encoding/binary"
	"encoding/json"
	"errors"
	"fmt"
	"io"
	"math"
	"os"
	"sync"
	"sync/atomic"
	"testing"
	"time"

	kit "github.com/cbeuw/Cloak/internal/verifkit"
)

type c02Step struct {
	A   string `json:"a"`
	I   int    `json:"i"`
	Tbc bool   `json:"tbc"`
	Err bool   `json:"err"`
	Got []int  `json:"got"`
}

type c02Behaviour struct {
	CloseIdx int       `json:"closeIdx"`
	N        int       `json:"n"`
	Steps    []c02Step `json:"steps"`
}

type c02Conc struct {
	Base  uint64 `json:"base"`
	Sizes []int  `json:"sizes"`
}

func c02Concretisations(n int, idx int, all bool) []c02Conc {
	bases := []uint64{0, 1<<32 - 3, math.MaxUint64 - uint64(n) - 1, 1 << 32, 1<<63 - 2}
	// payload sizes include 0: the sender never emits an empty data frame, but the decoder accepts one from a foreign
	// peer and it must consume its sequence number like any other ("all ... payload sizes")
	sizeSets := [][]int{{1}, {2, 1, 17}, {0, 3, 0}, {17, 4096, 1, 2}, {4096}, {5, 0}, {255, 256, 1}}
	var out []c02Conc
	mk := func(b uint64, ss []int) c02Conc {
		sizes := make([]int, n)
		for i := range sizes {
			sizes[i] = ss[i%len(ss)]
		}
		return c02Conc{Base: b, Sizes: sizes}
	}
	if all {
		for bi, b := range bases {
			out = append(out, mk(b, sizeSets[bi%len(sizeSets)]), mk(b, sizeSets[(bi+2)%len(sizeSets)]))
		}
		return out
	}
	out = append(out, mk(bases[idx%len(bases)], sizeSets[(idx/len(bases))%len(sizeSets)]))
	out = append(out, mk(bases[(idx+2)%len(bases)], sizeSets[(idx+1)%len(sizeSets)]))
	return out
}

// c02Run steps one behaviour through a fresh streamBuffer. It returns a violation key ("" if none),
// a description and the observed table.
func c02Run(b *c02Behaviour, c c02Conc) (key, what string, table []string) {
	sb := NewStreamBuffer()
	if c.Base != 0 {
		sb.nextRecvSeq = c.Base // a stream that has already carried Base frames
	}
	maxSize := 0
	for _, s := range c.Sizes {
		if s > maxSize {
			maxSize = s
		}
	}
	scratch := make([]byte, maxSize) // the reused receive buffer of switchboard.deplex
	closeSeen := false
	arrived := map[int]bool{}
	for si, st := range b.Steps {
		switch st.A {
		case "Arrive":
			sz := c.Sizes[st.I]
			kit.FillToken(scratch[:sz], uint64(st.I))
			f := &Frame{StreamID: 7, Seq: c.Base + uint64(st.I), Payload: scratch[:sz]}
			if st.I == b.CloseIdx {
				f.Closing = closingStream
			}
			tbc, err := sb.Write(f)
			arrived[st.I] = true
			for i := range scratch { // deplex overwrites its buffer with the next record
				scratch[i] = 0xEE
			}
			table = append(table, fmt.Sprintf("step %d Arrive(%d): expected tbc=%v err=%v observed tbc=%v err=%v", si, st.I, st.Tbc, st.Err, tbc, err))
			if tbc && !st.Tbc {
				// close reported although a lower-numbered frame has not been handed over
				missing := false
				for j := 0; j < b.CloseIdx; j++ {
					if !arrived[j] {
						missing = true
					}
				}
				if missing || b.CloseIdx < 0 {
					return "close-early", fmt.Sprintf("Write reported toBeClosed at step %d while lower frames are missing", si), table
				}
				return "close-early", fmt.Sprintf("Write reported toBeClosed at step %d before the closing frame was next in line", si), table
			}
			if tbc {
				closeSeen = true
			}
		case "Read":
			want := []byte{}
			for _, g := range st.Got {
				want = append(want, kit.TokenBytes(uint64(g), c.Sizes[g])...)
			}
			got := make([]byte, 0, len(want))
			buf := make([]byte, len(want))
			sb.SetReadDeadline(time.Now().Add(3 * time.Second))
			for len(got) < len(want) {
				n, err := sb.Read(buf[:len(want)-len(got)])
				got = append(got, buf[:n]...)
				if err != nil {
					table = append(table, fmt.Sprintf("step %d Read: expected %d bytes of units %v, got %d then %v", si, len(want), st.Got, len(got), err))
					if errors.Is(err, ErrTimeout) {
						return "output-incomplete", fmt.Sprintf("units %v are owed to the reader at step %d but not readable", st.Got, si), table
					}
					return "output-incomplete", fmt.Sprintf("Read failed with %v at step %d", err, si), table
				}
			}
			sb.SetReadDeadline(time.Time{})
			table = append(table, fmt.Sprintf("step %d Read: expected units %v (%d bytes) observed equal=%v", si, st.Got, len(want), bytes.Equal(got, want)))
			if !bytes.Equal(got, want) {
				return "output-wrong", fmt.Sprintf("bytes read at step %d are not the payloads of units %v in sequence order", si, st.Got), table
			}
		}
	}
	// every frame has arrived and the model says everything was read: nothing else may come out
	sb.Close()
	rest, err := io.ReadAll(readerFunc(sb.Read))
	if len(rest) != 0 {
		table = append(table, fmt.Sprintf("end: %d surplus bytes (%v)", len(rest), err))
		return "output-surplus", "bytes beyond the concatenation of all payloads came out of the buffer", table
	}
	if b.CloseIdx >= 0 && !closeSeen {
		table = append(table, "end: closing frame never reported")
		return "close-not-reported", "all frames arrived but the stream-closing frame never took effect", table
	}
	return "", "", table
}

type readerFunc func([]byte) (int, error)

func (f readerFunc) Read(p []byte) (int, error) { return f(p) }

func c02Nontrivial(b *c02Behaviour) bool {
	// non-trivial: at least one frame arrives ahead of its turn
	maxSeen := -1
	for _, st := range b.Steps {
		if st.A == "Arrive" {
			if st.I < maxSeen {
				return true
			}
			if st.I > maxSeen {
				maxSeen = st.I
			}
		}
	}
	return false
}

func TestVerifC02Replay(t *testing.T) {
	res := kit.NewResult()
	defer func() { res.Save(true) }()
	if rp := kit.Env("VERIF_REPLAY", ""); rp != "" {
		c02ReplayFile(t, rp)
		return
	}
	idx := 0
	err := kit.ReadLines(kit.Env("VERIF_IN", ""), func(line []byte) error {
		var b c02Behaviour
		if err := json.Unmarshal(line, &b); err != nil {
			return err
		}
		idx++
		if res.NumViolations() > 20 {
			return nil // enough evidence; every further failing case costs a read time-out
		}
		for _, c := range c02Concretisations(b.N, idx, kit.Thorough() && b.N <= 6) {
			key, what, table := c02Run(&b, c)
			res.Count(string(line), c02Nontrivial(&b))
			if key != "" {
				res.Violate(key, what, map[string]any{"behaviour": b, "concretisation": c, "table": table})
			}
		}
		if idx%997 == 1 {
			res.Sample(map[string]any{"behaviour": json.RawMessage(append([]byte{}, line...))}, 3)
		}
		return nil
	})
	if err != nil {
		t.Fatal(err)
	}
	res.Stat("behaviours", int64(idx))
}

func c02ReplayFile(t *testing.T, path string) {
	var rf struct {
		Replay struct {
			Behaviour      c02Behaviour `json:"behaviour"`
			Concretisation c02Conc      `json:"concretisation"`
		} `json:"replay"`
	}
	raw, err := os.ReadFile(path)
	if err != nil {
		t.Fatal(err)
	}
	if err := json.Unmarshal(raw, &rf); err != nil {
		t.Fatal(err)
	}
	key, what, table := c02Run(&rf.Replay.Behaviour, rf.Replay.Concretisation)
	for _, l := range table {
		fmt.Println(l)
	}
	fmt.Printf("REPLAY-RESULT key=%q what=%q\n", key, what)
}

// ------------------------------------------------------------------------------------------- B2

func TestVerifC02Trace(t *testing.T) {
	res := kit.NewResult()
	defer func() { res.Save(true) }()
	tw := kit.NewTraceWriter("trace.ndjson")
	defer tw.Close()
	rng := kit.NewRng(kit.Seed())
	rounds := 60
	if kit.Thorough() {
		rounds = 400
	}
	if kit.Env("C02_DEEP_ONLY", "") == "1" { // the deep-backlog rounds alone (also run under C01)
		rounds = 5
	}
	for r := 0; r < rounds && res.NumViolations() < 3; r++ {
		n := []int{3, 8, 12, 40, 120}[rng.Intn(5)]
		closeIdx := -1
		if rng.Intn(3) > 0 {
			closeIdx = n - 1
		}
		size := []int{9, 10, 17, 300}[rng.Intn(4)] // >= 9: the unit id is recoverable from the bytes
		base := []uint64{0, 1<<32 - 3, math.MaxUint64 - uint64(n) - 1}[rng.Intn(3)]
		order := rng.Perm(n)
		deep := ""
		if r < 5 {
			// deep backlogs ("for all N" includes large N): thousands of frames parked behind a late one, a second gap
			// further on, the closing frame parked early, a consumer that has already drained a prefix
			n = []int{5000, 9000, 700, 6000, 5000}[r]
			if !kit.Thorough() && r >= 3 {
				n = 1200
			}
			closeIdx = n - 1
			if r == 2 {
				closeIdx = -1
			}
			size = 9
			base = []uint64{0, 1<<32 - 3, math.MaxUint64 - uint64(n) - 1}[r%3] // no wrap inside a stream's life
			order = order[:0]
			switch r {
			case 0: // everything but frame 0, then frame 0
				deep = "hold-first"
				for i := 1; i < n; i++ {
					order = append(order, i)
				}
				order = append(order, 0)
			case 1: // closing frame first, two late frames (0 and 95%), first gap filled before the second
				deep = "two-gaps"
				late2 := n * 95 / 100
				order = append(order, n-1)
				for i := 1; i < n-1; i++ {
					if i != late2 {
						order = append(order, i)
					}
				}
				order = append(order, 0, late2)
			case 2: // strictly reversed
				deep = "reversed"
				for i := n - 1; i >= 0; i-- {
					order = append(order, i)
				}
			case 3: // a prefix in order (drained by the reader), then a burst behind a gap, again and again
				deep = "drained-prefix-bursts"
				for lo := 0; lo < n; lo += 300 {
					hi := min(lo+300, n)
					for i := lo; i < min(lo+10, hi); i++ {
						order = append(order, i)
					}
					for i := lo + 11; i < hi; i++ {
						order = append(order, i)
					}
					if lo+10 < hi {
						order = append(order, lo+10)
					}
				}
			default: // blocks of 257 delivered back to front
				deep = "blocks-reversed"
				for lo := (n - 1) / 257 * 257; lo >= 0; lo -= 257 {
					for i := lo; i < min(lo+257, n); i++ {
						order = append(order, i)
					}
				}
			}
		}
		if deep == "" && rng.Intn(2) == 0 { // mostly-in-order with local swaps: exercises the fast path/slow path mix
			order = make([]int, n)
			for i := range order {
				order[i] = i
			}
			for k := 0; k < n/3; k++ {
				a := rng.Intn(n - 1)
				order[a], order[a+1] = order[a+1], order[a]
			}
		}
		// deep rounds are judged by the driver's own formulation only (TLC on 10^4 events over 10^3-element sets takes minutes)
		emit := func(m map[string]any) {
			if deep == "" {
				tw.Emit(m)
			}
		}
		emit(map[string]any{"ev": "Reset", "closeIdx": closeIdx})
		sb := NewStreamBuffer()
		sb.nextRecvSeq = base
		nData := n
		if closeIdx >= 0 {
			nData = n - 1
		}
		done := make(chan string, 1)
		go func() { // reader
			read := 0
			buf := make([]byte, size*(1+int(base%5)))
			for read < nData {
				emit(map[string]any{"ev": "R.call"})
				sb.SetReadDeadline(time.Now().Add(5 * time.Second))
				k, err := sb.Read(buf)
				if err != nil {
					done <- fmt.Sprintf("reader: %v after %d units", err, read)
					return
				}
				if k%size != 0 {
					done <- fmt.Sprintf("reader: got %d bytes, not a multiple of the unit size %d", k, size)
					return
				}
				got := []int{}
				for j := 0; j < k/size; j++ {
					got = append(got, read+j)
				}
				// decode which units these are from the bytes themselves
				for j := range got {
					unit := buf[j*size : (j+1)*size]
					id := -1
					if unit[0] == 0xA5 {
						cand := binary.BigEndian.Uint64(unit[1:9])
						if cand < uint64(n) && bytes.Equal(unit, kit.TokenBytes(cand, size)) {
							id = int(cand)
						}
					}
					got[j] = id
					if id != read+j { // second formulation of the oracle, independent of TLC
						emit(map[string]any{"ev": "R.ret", "got": got})
						done <- fmt.Sprintf("reader: unit %d of the output is unit %d of the input", read+j, id)
						return
					}
				}
				emit(map[string]any{"ev": "R.ret", "got": got})
				read += k / size
			}
			done <- ""
		}()
		// 1, 2 or 4 writer goroutines (one deplex goroutine per connection) take the frames in the chosen order
		nw := []int{1, 1, 2, 4}[rng.Intn(4)]
		if deep != "" {
			nw = 1
			res.Stat("deep_rounds", 1)
			res.Stat("deep_frames", int64(n))
		}
		var next atomic.Int64
		var wwg sync.WaitGroup
		for w := 0; w < nw; w++ {
			wwg.Add(1)
			go func(w int) {
				defer wwg.Done()
				scratch := make([]byte, size)
				for {
					k := int(next.Add(1)) - 1
					if k >= len(order) {
						return
					}
					i := order[k]
					kit.FillToken(scratch, uint64(i))
					f := &Frame{StreamID: 3, Seq: base + uint64(i), Payload: scratch}
					if i == closeIdx {
						f.Closing = closingStream
					}
					emit(map[string]any{"ev": "W.call", "w": w, "i": i})
					tbc, err := sb.Write(f)
					emit(map[string]any{"ev": "W.ret", "w": w, "tbc": tbc, "err": err != nil})
					if tbc {
						// as Stream.recvFrame does on the same goroutine: the close takes effect right behind the last payload.
						// A reader parked in Read must still be handed every payload before it sees the end of the stream.
						sb.Close()
					}
					for j := range scratch {
						scratch[j] = 0xEE
					}
				}
			}(w)
		}
		wwg.Wait()
		msg := <-done
		res.Count(fmt.Sprint(order[:min(len(order), 400)], len(order), closeIdx, size), true)
		if msg != "" {
			ord := order
			if len(ord) > 64 {
				ord = ord[:64]
			}
			res.Violate("output-incomplete", "concurrent reader: "+msg+" "+deep, map[string]any{"order": ord, "n": n, "family": deep, "closeIdx": closeIdx, "size": size, "base": base})
		}
		if r >= 5 && r < 7 {
			res.Sample(map[string]any{"order": order, "closeIdx": closeIdx, "unit_size": size, "base": base}, 2)
		}
	}
	res.Stat("trace_events", tw.Events())
}
