package multiplex

// C13 - unique, gap-free sequence numbers in write order.
// B3 (gate): one sender is parked at the hook between encode and Seq++ (it holds the stream's write mutex);
//     a second sender (Write / ReadFrom / Close) is started on the same stream. With the mutex in place the
//     second cannot reach the hook. Both are then released and the wire is decoded: a duplicated
//     (stream id, seq) pair is the violation (a property-level observation, not a lock-discipline opinion).
// B2 (stress): many goroutines mix Write, ReadFrom and Close on several streams over 8 connections with
//     real parallelism; the wire tap is decoded in wire order, checked by the driver and written as a trace
//     that TLC validates against spec/MuxWireTrace.tla.

import (
	"bytes"
	"fmt"
	"io"
	"sync"
	"sync/atomic"
	"testing"
	"testing/synctest"
	"time"

	"github.com/cbeuw/Cloak/internal/common"

	"github.com/cbeuw/Cloak/internal/verifhook"
	kit "github.com/cbeuw/Cloak/internal/verifkit"
	log "github.com/sirupsen/logrus"
)

// c13CheckWire is the driver's own formulation of the property on the decoded wire
func c13CheckWire(wire []c13Wire, failed map[string]bool, quietAt map[string]int) (key, what string) {
	type k struct {
		e   string
		sid uint32
	}
	next := map[k]uint64{}
	seen := map[k]map[uint64]bool{}
	closed := map[k]bool{}
	for i, f := range wire {
		if f.Sid == 0xffffffff {
			continue
		}
		kk := k{f.E, f.Sid}
		if seen[kk] == nil {
			seen[kk] = map[uint64]bool{}
		}
		if seen[kk][f.Seq] {
			return "seq-duplicate", fmt.Sprintf("%s put (stream %d, seq %d) on the wire twice (wire position %d): the per-message nonce is reused", f.E, f.Sid, f.Seq, i)
		}
		seen[kk][f.Seq] = true
		// once every write on the stream had completed and Close was called (wire position quietAt), the only
		// frame allowed is the closing frame, once. (A ReadFrom racing with Close may legitimately trail it.)
		if q, ok := quietAt[fmt.Sprintf("%s/%d", f.E, f.Sid)]; ok && i >= q && (closed[kk] || f.Closing != closingStream) {
			return "close-not-last", fmt.Sprintf("%s sent seq %d (closing=%d) of stream %d after every write had completed and the stream was closed", f.E, f.Seq, f.Closing, f.Sid)
		}
		if f.Seq < next[kk] {
			return "seq-order", fmt.Sprintf("%s sent seq %d of stream %d after seq %d", f.E, f.Seq, f.Sid, next[kk]-1)
		}
		if f.Seq > next[kk] && !failed[fmt.Sprintf("%s/%d", f.E, f.Sid)] {
			return "seq-gap", fmt.Sprintf("%s skipped seq %d..%d of stream %d without a failed send", f.E, next[kk], f.Seq-1, f.Sid)
		}
		next[kk] = f.Seq + 1
		if f.Closing == closingStream {
			closed[kk] = true
		}
	}
	// data frames carry the written bytes in the order the writes were accepted: every call's payload is filled with
	// one tag byte, so the frames of one Write call must form one contiguous run on the wire of its stream
	lastTag := map[k]byte{}
	done := map[k]map[byte]bool{}
	for _, f := range wire {
		if f.Sid == 0xffffffff || f.Closing != closingNothing || len(f.Payload) == 0 {
			continue
		}
		kk := k{f.E, f.Sid}
		tag := f.Payload[0]
		for _, b := range f.Payload {
			if b != tag {
				tag = 0 // not one of the tagged payloads (e.g. echo data)
				break
			}
		}
		if tag == 0 {
			continue
		}
		if done[kk] == nil {
			done[kk] = map[byte]bool{}
		}
		if lt, ok := lastTag[kk]; ok && lt != tag {
			done[kk][lt] = true
		}
		if done[kk][tag] {
			return "write-interleaved", fmt.Sprintf("%s: the frames of one Write call (tag %d) on stream %d are interrupted by another call's frame: bytes are not on the wire in the order the writes were accepted", f.E, tag, f.Sid)
		}
		lastTag[kk] = tag
	}
	return "", ""
}


// c13ChunkReader is the source of a ReadFrom call. ReadFrom takes the stream's write mutex once per Read of its
// source, i.e. once per frame: every Read is one accepted write of its own, so every Read hands out its own tag
// (a chunk longer than a frame continues with tag+1, +2, ...). Only the frames of ONE Write call are contiguous.
type c13ChunkReader struct {
	chunks [][]byte
	part   byte
}

func (r *c13ChunkReader) Read(b []byte) (int, error) {
	if len(r.chunks) == 0 {
		return 0, io.EOF
	}
	n := copy(b, r.chunks[0])
	for i := 0; i < n; i++ {
		b[i] += r.part
	}
	if n == len(r.chunks[0]) {
		r.chunks = r.chunks[1:]
		r.part = 0
	} else {
		r.chunks[0] = r.chunks[0][n:]
		r.part++
	}
	return n, nil
}

func c13Do(kind string, st *Stream, sz int, tag byte) error {
	switch kind {
	case "Write":
		_, err := st.Write(c13Fill(sz, tag))
		return err
	case "ReadFrom":
		_, err := st.ReadFrom(&c13ChunkReader{chunks: [][]byte{c13Fill(sz, tag), c13Fill(7, tag+100)}})
		if err == io.EOF {
			return nil
		}
		return err
	default:
		return st.Close()
	}
}

func TestVerifC13Gate(t *testing.T) {
	log.SetOutput(io.Discard)
	log.SetLevel(log.PanicLevel)
	res := kit.NewResult()
	defer func() { res.Save(true) }()
	kinds := []string{"Write", "ReadFrom", "Close"}
	methods := []byte{EncryptionMethodPlain, EncryptionMethodAES256GCM, EncryptionMethodChaha20Poly1305, EncryptionMethodAES128GCM}
	round := 0
	for _, ka := range kinds {
		for _, kb := range kinds {
			if ka == "Close" && kb == "Close" {
				continue // the second Close is refused by the closed flag, it never sends
			}
			for _, szA := range []int{1, 20000, 70000} {
				if szA == 70000 && ka != "Write" {
					continue
				}
				round++
				p := c13NewPair(2, methods[round%4], int64(round))
				if szA == 70000 {
					// a slow network: each record takes 2 ms, so a writer that re-acquires the mutex per frame
					// (instead of holding it for the whole call) lets the waiting sender in between two frames
					inner := p.vn.Tap
					p.vn.Tap = func(ev kit.TapEvent) {
						inner(ev)
						if ev.Kind == "w" {
							time.Sleep(2 * time.Millisecond)
						}
					}
				}
				st, err := p.c.OpenStream()
				if err != nil {
					t.Fatal(err)
				}
				st.Write([]byte{1}) // seq 0: the stream exists at the peer
				var arrivals atomic.Int32
				gate := make(chan struct{})
				verifhook.Set(func(point string, args ...uint64) {
					if point != "stream.send.encoded" || uint32(args[0]) != st.id {
						return
					}
					if arrivals.Add(1) == 1 {
						<-gate // the first sender parks between encode and Seq++, holding writingM
					}
				})
				var wg sync.WaitGroup
				wg.Add(1)
				go func() { defer wg.Done(); c13Do(ka, st, szA, 10) }()
				deadline := time.Now().Add(5 * time.Second)
				for arrivals.Load() == 0 && time.Now().Before(deadline) {
					time.Sleep(time.Millisecond)
				}
				parked := arrivals.Load() >= 1
				wg.Add(1)
				go func() { defer wg.Done(); c13Do(kb, st, 33, 20) }()
				time.Sleep(60 * time.Millisecond) // grace period: with the mutex the second sender cannot arrive
				second := arrivals.Load() >= 2
				close(gate)
				done := make(chan struct{})
				go func() { wg.Wait(); close(done) }()
				select {
				case <-done:
				case <-time.After(10 * time.Second):
				}
				verifhook.Set(nil)
				time.Sleep(5 * time.Millisecond)
				p.mu.Lock()
				wire := append([]c13Wire(nil), p.wire...)
				p.mu.Unlock()
				key, what := c13CheckWire(wire, map[string]bool{}, map[string]int{})
				sig := fmt.Sprintf("%s|%s|%d", ka, kb, szA)
				res.Count(sig, true)
				res.Stat("gate_rounds", 1)
				if second {
					res.Stat("second_sender_reached_gate", 1)
				}
				if !parked {
					res.Note("round %s: the first sender never reached the schedule point", sig)
				}
				if key != "" {
					res.Violate(key, fmt.Sprintf("%s parked between encode and Seq++, concurrent %s on the same stream: %s", ka, kb, what),
						map[string]any{"first": ka, "second": kb, "size": szA, "second_reached_gate": second, "wire": c13WireSummary(wire)})
				}
				if round <= 2 {
					res.Sample(map[string]any{"first": ka, "second": kb, "size": szA, "second_reached_gate": second, "wire": c13WireSummary(wire)}, 2)
				}
				p.close()
			}
		}
	}
}

func c13WireSummary(w []c13Wire) []string {
	var out []string
	for _, f := range w {
		out = append(out, fmt.Sprintf("%s sid=%d seq=%d cl=%d len=%d", f.E, f.Sid, f.Seq, f.Closing, len(f.Payload)))
	}
	if len(out) > 60 {
		out = out[:60]
	}
	return out
}

func TestVerifC13Stress(t *testing.T) {
	log.SetOutput(io.Discard)
	log.SetLevel(log.PanicLevel)
	res := kit.NewResult()
	defer func() { res.Save(true) }()
	tw := kit.NewTraceWriter("trace.ndjson")
	defer tw.Close()
	rng := kit.NewRng(kit.Seed())
	rounds := 12
	if kit.Thorough() {
		rounds = 120
	}
	methods := []byte{EncryptionMethodPlain, EncryptionMethodAES256GCM, EncryptionMethodChaha20Poly1305, EncryptionMethodAES128GCM}
	for r := 0; r < rounds; r++ {
		nconn := []int{1, 2, 8}[rng.Intn(3)]
		p := c13NewPair(nconn, methods[r%4], kit.Seed()*1000+int64(r))
		nstreams := 1 + rng.Intn(4)
		failConn := rng.Intn(4) == 0
		var wg sync.WaitGroup
		var failedMu sync.Mutex
		failed := map[string]bool{}
		quietAt := map[string]int{}
		// the server side drains and echoes a little so that both directions carry frames
		go func() {
			for {
				conn, err := p.s.Accept()
				if err != nil {
					return
				}
				go func(st *Stream) {
					buf := make([]byte, 65536)
					for {
						n, err := st.Read(buf)
						if err != nil {
							return
						}
						if n%3 == 0 {
							if _, err := st.Write(buf[:1+n%50]); err != nil {
								failedMu.Lock()
								failed[fmt.Sprintf("s/%d", st.id)] = true
								failedMu.Unlock()
							}
						}
					}
				}(conn.(*Stream))
			}
		}()
		for s := 0; s < nstreams; s++ {
			st, err := p.c.OpenStream()
			if err != nil {
				break
			}
			go func(st *Stream) { // drain echoes
				buf := make([]byte, 65536)
				for {
					if _, err := st.Read(buf); err != nil {
						return
					}
				}
			}(st)
			nw := 2 + rng.Intn(3)
			var swg sync.WaitGroup
			for w := 0; w < nw; w++ {
				seed := rng.Uint64()
				swg.Add(1)
				wg.Add(1)
				go func(st *Stream, w int, seed uint64) {
					defer wg.Done()
					defer swg.Done()
					lr := kit.NewRng(int64(seed))
					for j := 0; j < 6; j++ {
						tag := byte(1 + (w*6+j)%120)
						sz := []int{1, 13, 1400, 16132, 16133, 40000}[lr.Intn(6)]
						var err error
						if lr.Intn(3) == 0 {
							chunks := [][]byte{c13Fill(min(sz, 16000), tag), c13Fill(1+lr.Intn(3000), tag+125)}
							_, err = st.ReadFrom(&c13ChunkReader{chunks: chunks})
							if err == io.EOF {
								err = nil
							}
						} else {
							_, err = st.Write(c13Fill(sz, tag))
						}
						if err != nil {
							failedMu.Lock()
							failed[fmt.Sprintf("c/%d", st.id)] = true
							failedMu.Unlock()
							return
						}
					}
				}(st, w, seed)
			}
			closeEarly := rng.Intn(3) == 0
			closeDelay := time.Duration(rng.Intn(3)) * time.Millisecond
			wg.Add(1)
			go func(st *Stream) {
				defer wg.Done()
				if !closeEarly {
					swg.Wait()
					p.mu.Lock()
					pos := len(p.wire)
					p.mu.Unlock()
					failedMu.Lock()
					quietAt[fmt.Sprintf("c/%d", st.id)] = pos
					failedMu.Unlock()
				} else {
					time.Sleep(closeDelay)
				}
				if err := st.Close(); err != nil {
					failedMu.Lock()
					failed[fmt.Sprintf("c/%d", st.id)] = true
					failedMu.Unlock()
				}
			}(st)
		}
		if failConn {
			go func() {
				time.Sleep(2 * time.Millisecond)
				p.links[0].Fail()
			}()
		}
		done := make(chan struct{})
		go func() { wg.Wait(); close(done) }()
		select {
		case <-done:
		case <-time.After(60 * time.Second):
			res.Note("round %d: writers did not finish within 60 s", r)
		}
		time.Sleep(5 * time.Millisecond)
		p.close()
		time.Sleep(2 * time.Millisecond)
		p.mu.Lock()
		wire := append([]c13Wire(nil), p.wire...)
		p.mu.Unlock()
		tw.Emit(map[string]any{"ev": "Reset"})
		failedMu.Lock()
		for k := range failed {
			var e string
			var sid uint32
			fmt.Sscanf(k, "%1s/%d", &e, &sid)
			tw.Emit(map[string]any{"ev": "F", "e": e, "sid": sid})
		}
		fcopy := map[string]bool{}
		for k, v := range failed {
			fcopy[k] = v
		}
		failedMu.Unlock()
		qcopy := map[string]int{}
		failedMu.Lock()
		for k, v := range quietAt {
			qcopy[k] = v
		}
		failedMu.Unlock()
		for i, f := range wire {
			for k, pos := range qcopy {
				if pos == i {
					var e string
					var sid uint32
					fmt.Sscanf(k, "%1s/%d", &e, &sid)
					tw.Emit(map[string]any{"ev": "Q", "e": e, "sid": sid})
				}
			}
			if f.Sid == 0xffffffff {
				continue
			}
			tw.Emit(map[string]any{"ev": "W", "e": f.E, "sid": f.Sid, "seq": f.Seq, "cl": f.Closing, "len": len(f.Payload)})
		}
		key, what := c13CheckWire(wire, fcopy, qcopy)
		res.Count(fmt.Sprintf("round%d-%d-%d", r, nconn, nstreams), true)
		res.Stat("wire_frames", int64(len(wire)))
		if p.bad != "" {
			res.Violate("wire-undecodable", p.bad, nil)
		}
		if key != "" {
			res.Violate(key, what, map[string]any{"round": r, "nconn": nconn, "streams": nstreams, "wire": c13WireSummary(wire)})
		}
		if r < 1 {
			res.Sample(map[string]any{"round": r, "nconn": nconn, "streams": nstreams, "wire_head": c13WireSummary(wire)[:min(12, len(wire))]}, 1)
		}
	}
	res.Stat("trace_events", tw.Events())
}

// TestVerifC13CloseSweep: "a close puts a closing frame on the wire numbered after every frame of the writes that
// completed before it", over many closes. The closing frame's payload is a random amount of random filler, so whether
// a close reaches the wire must not depend on that draw: thousands of streams are opened, written to (0..2 writes),
// and closed on a healthy session, by the opener or by the acceptor; every Close must return nil and the decoded wire
// must show, for that stream and direction, the data frames 0..k-1 and then exactly one closing frame numbered k.
func TestVerifC13CloseSweep(t *testing.T) {
	log.SetOutput(io.Discard)
	log.SetLevel(log.PanicLevel)
	res := kit.NewResult()
	defer func() { res.Save(true) }()
	rng := kit.NewRng(kit.Seed())
	total := 3000
	if kit.Thorough() {
		total = 30000
	}
	methods := []byte{EncryptionMethodPlain, EncryptionMethodAES256GCM, EncryptionMethodChaha20Poly1305, EncryptionMethodAES128GCM}
	per := 250
	for r := 0; r*per < total; r++ {
		p := c13NewPair(1+rng.Intn(3), methods[r%4], kit.Seed()*77+int64(r))
		type plan struct {
			sid      uint32
			nwrites  int
			byServer bool
		}
		var plans []plan
		bad := false
		for i := 0; i < per && !bad; i++ {
			st, err := p.c.OpenStream()
			if err != nil {
				res.Note("round %d: OpenStream: %v", r, err)
				break
			}
			pl := plan{sid: st.id, nwrites: 1 + rng.Intn(2), byServer: rng.Intn(3) == 0}
			if !pl.byServer && rng.Intn(4) == 0 {
				pl.nwrites = 0 // a stream closed before anything was written: the closing frame is number 0
			}
			for wn := 0; wn < pl.nwrites; wn++ {
				if _, err := st.Write(c13Fill(1+rng.Intn(40), byte(1+wn))); err != nil {
					res.Violate("close-sweep-write", fmt.Sprintf("Write on a fresh stream of a healthy session failed: %v", err), nil)
					bad = true
				}
			}
			closer, who := st, "c"
			if pl.byServer {
				// streams are queued in order of arrival; those the client already closed come out of Accept too
				var acc *Stream
				for acc == nil {
					conn, err := p.s.Accept()
					if err != nil {
						res.Note("round %d: Accept: %v", r, err)
						break
					}
					if conn.(*Stream).id == st.id {
						acc = conn.(*Stream)
					}
				}
				if acc == nil {
					break
				}
				closer, who = acc, "s"
			}
			if err := closer.Close(); err != nil {
				res.Violate("close-frame-missing", fmt.Sprintf("%s: Close of open stream %d on a healthy session failed: %v", who, st.id, err),
					map[string]any{"round": r, "stream": st.id, "closer": who})
				bad = true
			}
			plans = append(plans, pl)
			res.Count(fmt.Sprintf("close-%s-%d", who, pl.nwrites), true)
		}
		time.Sleep(5 * time.Millisecond)
		p.mu.Lock()
		wire := append([]c13Wire(nil), p.wire...)
		p.mu.Unlock()
		for _, pl := range plans {
			e, wantSeq := "c", uint64(pl.nwrites)
			if pl.byServer {
				e, wantSeq = "s", 0
			}
			var closing []uint64
			data := 0
			for _, f := range wire {
				if f.E != e || f.Sid != pl.sid {
					continue
				}
				if f.Closing == closingStream {
					closing = append(closing, f.Seq)
				} else {
					data++
				}
			}
			if len(closing) != 1 || closing[0] != wantSeq {
				key := "close-frame-missing"
				if len(closing) > 0 {
					key = "close-not-last"
				}
				res.Violate(key, fmt.Sprintf("%s closed stream %d after %d completed writes on a healthy session: closing frames on the wire carry numbers %v, want exactly [%d] (%d data frames seen)",
					e, pl.sid, pl.nwrites, closing, wantSeq, data), map[string]any{"round": r, "stream": pl.sid, "closer": e})
			}
		}
		if k, what := c13CheckWire(wire, nil, nil); k != "" {
			res.Violate(k, what, map[string]any{"round": r})
		}
		if p.bad != "" {
			res.Violate("wire-undecodable", p.bad, nil)
		}
		res.Stat("closes", int64(len(plans)))
		p.close()
		if bad {
			break
		}
	}
}

// TestVerifC13LateFrame: "no two messages sent by one endpoint under one session key share a (stream id, sequence
// number) pair" over the life of a session, not only of a stream. A stream is used and closed (actively or by the
// peer), the session lives on through another stream for many inactivity periods (virtual clock), and then a late or
// replayed frame carrying the dead stream's id arrives. Whatever the endpoint does with it, it must never put
// (id, 0), (id, 1), ... on the wire a second time: if the frame re-creates a stream that the application accepts and
// writes to, the numbering of that id starts again from zero under the same key.
func TestVerifC13LateFrame(t *testing.T) {
	log.SetOutput(io.Discard)
	log.SetLevel(log.PanicLevel)
	res := kit.NewResult()
	defer func() { res.Save(true) }()
	methods := []byte{EncryptionMethodPlain, EncryptionMethodAES256GCM, EncryptionMethodChaha20Poly1305, EncryptionMethodAES128GCM}
	scen := 0
	for _, unordered := range []bool{false, true} {
		for _, closer := range []string{"c", "s"} {
			for _, wait := range []time.Duration{0, 90 * time.Minute, 100 * time.Hour} {
				scen++
				method := methods[scen%4]
				synctest.Test(t, func(t *testing.T) {
					p := &c13Pair{vn: kit.NewVNet()}
					var key [32]byte
					copy(key[:], kit.NewRng(int64(scen)).Bytes(32))
					mk := func() *Session {
						o, _ := MakeObfuscator(method, key)
						return MakeSession(11, SessionConfig{Obfuscator: o, Unordered: unordered, MsgOnWireSizeLimit: 16401, InactivityTimeout: time.Hour})
					}
					p.c, p.s = mk(), mk()
					p.vn.Tap = func(ev kit.TapEvent) {
						if ev.Kind != "w" || len(ev.Data) < 5 {
							return
						}
						e, sesh := "c", p.c
						if ev.From == 1 {
							e, sesh = "s", p.s
						}
						var f Frame
						if err := sesh.deobfuscate(&f, append([]byte(nil), ev.Data[5:]...)); err != nil {
							p.bad = err.Error()
							return
						}
						p.mu.Lock()
						p.wire = append(p.wire, c13Wire{E: e, Sid: f.StreamID, Seq: f.Seq, Closing: f.Closing, Payload: append([]byte(nil), f.Payload...)})
						p.mu.Unlock()
					}
					l := p.vn.NewLink(false, false)
					p.links = append(p.links, l)
					p.c.AddConnection(common.NewTLSConn(l.End(0)))
					p.s.AddConnection(common.NewTLSConn(l.End(1)))
					keep, _ := p.c.OpenStream()
					keep.Write([]byte("keep"))
					dead, _ := p.c.OpenStream()
					dead.Write([]byte("hello"))
					synctest.Wait()
					var sKeep, sDead *Stream
					for i := 0; i < 2; i++ {
						conn, err := p.s.Accept()
						if err != nil {
							t.Fatal(err)
						}
						if conn.(*Stream).id == dead.id {
							sDead = conn.(*Stream)
						} else {
							sKeep = conn.(*Stream)
						}
					}
					buf := make([]byte, 100)
					sDead.Read(buf)
					sDead.Write([]byte("world")) // the server has used (id, 0) on this stream
					synctest.Wait()
					if closer == "c" {
						dead.Close()
					} else {
						sDead.Close()
					}
					synctest.Wait()
					if wait > 0 {
						time.Sleep(wait)
						synctest.Wait()
					}
					if p.c.IsClosed() || p.s.IsClosed() {
						res.Note("scenario %d: a session closed during the wait (kept alive by an open stream?)", scen)
						return
					}
					// late / replayed frames with the dead id, to both endpoints (sealed with the session key, as the
					// peer's frames are): a data frame with the next number and one with a number already used
					for _, seq := range []uint64{1, 0, 7} {
						for _, tgt := range []*Session{p.s, p.c} {
							b := make([]byte, 600)
							n, err := tgt.obfuscate(&Frame{StreamID: dead.id, Seq: seq, Payload: []byte("late")}, b, 0)
							if err != nil {
								t.Fatal(err)
							}
							tgt.recvDataFromRemote(b[:n])
						}
					}
					synctest.Wait()
					// an application that accepts whatever the session offers and answers on it
					for _, sesh := range []*Session{p.s, p.c} {
						for len(sesh.acceptCh) > 0 {
							conn, err := sesh.Accept()
							if err != nil {
								break
							}
							conn.(*Stream).Write([]byte("answer"))
							conn.(*Stream).Write([]byte("answer2"))
						}
					}
					synctest.Wait()
					p.mu.Lock()
					wire := append([]c13Wire(nil), p.wire...)
					p.mu.Unlock()
					res.Count(fmt.Sprintf("late-%v-%s-%v", unordered, closer, wait), true)
					type k struct {
						e   string
						sid uint32
						seq uint64
					}
					seen := map[k]int{}
					for i, f := range wire {
						kk := k{f.E, f.Sid, f.Seq}
						if j, ok := seen[kk]; ok {
							res.Violate("seq-duplicate", fmt.Sprintf("%s put (stream %d, seq %d) on the wire twice (wire positions %d and %d, payloads equal: %v) after a late frame for the closed stream arrived %v after its close: the per-message nonce is reused",
								f.E, f.Sid, f.Seq, j, i, bytes.Equal(wire[j].Payload, f.Payload), wait),
								map[string]any{"unordered": unordered, "closer": closer, "wait": wait.String(), "method": method})
							break
						}
						seen[kk] = i
					}
					if p.bad != "" {
						res.Violate("wire-undecodable", p.bad, nil)
					}
					_ = sKeep
					p.close()
					synctest.Wait()
				})
			}
		}
	}
}
