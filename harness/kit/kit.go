// Package verifkit is overlaid into /repo/internal/verifkit at check time (it does not exist in the
// repository). It carries what every in-package driver needs: behaviour input, result / trace output,
// token <-> byte concretisation and small helpers. It must not import any Cloak package except
// internal/verifhook, so every Cloak package's tests may import it.
package verifkit

import (
	"bufio"
	"crypto/sha256"
	"encoding/binary"
	"encoding/json"
	"fmt"
	"os"
	"path/filepath"
	"strconv"
	"sync"
	"sync/atomic"
	"time"
)

func Env(name, def string) string {
	if v := os.Getenv(name); v != "" {
		return v
	}
	return def
}

func EnvInt(name string, def int) int {
	if v := os.Getenv(name); v != "" {
		if n, err := strconv.Atoi(v); err == nil {
			return n
		}
	}
	return def
}

func Seed() int64 {
	n, _ := strconv.ParseInt(Env("VERIF_SEED", "1"), 10, 64)
	return n
}

func Thorough() bool { return os.Getenv("VERIF_TIER") == "thorough" }

func OutDir() string { return Env("VERIF_OUT", os.TempDir()) }

// ---------------------------------------------------------------------------------------------

type Violation struct {
	Key    string `json:"key"`
	What   string `json:"what"`
	Replay any    `json:"replay,omitempty"`
}

// Result is what a driver reports back to check.py (result.json in VERIF_OUT).
type Result struct {
	mu          sync.Mutex
	Evaluations int64            `json:"evaluations"`
	Nontrivial  int64            `json:"distinct_nontrivial"`
	Violations  []Violation      `json:"violations"`
	Samples     []any            `json:"samples"`
	Stats       map[string]int64 `json:"stats"`
	Running     any              `json:"running,omitempty"`
	Complete    bool             `json:"complete"`
	Notes       []string         `json:"notes,omitempty"`
	distinct    map[[16]byte]struct{}
	perKey      map[string]int
	lastSave    time.Time
}

func NewResult() *Result {
	return &Result{Stats: map[string]int64{}, distinct: map[[16]byte]struct{}{}, perKey: map[string]int{},
		Violations: []Violation{}, Samples: []any{}}
}

// Count records one evaluation. sig identifies the abstract case; nontrivial says whether it counts
// towards distinct_nontrivial (counted once per distinct sig).
func (r *Result) Count(sig string, nontrivial bool) {
	r.mu.Lock()
	defer r.mu.Unlock()
	r.Evaluations++
	if nontrivial {
		h := sha256.Sum256([]byte(sig))
		var k [16]byte
		copy(k[:], h[:16])
		if _, ok := r.distinct[k]; !ok {
			r.distinct[k] = struct{}{}
			r.Nontrivial++
		}
	}
}

func (r *Result) Stat(name string, d int64) {
	r.mu.Lock()
	r.Stats[name] += d
	r.mu.Unlock()
}

func (r *Result) Sample(s any, max int) {
	r.mu.Lock()
	if len(r.Samples) < max {
		r.Samples = append(r.Samples, s)
	}
	r.mu.Unlock()
}

func (r *Result) Note(format string, a ...any) {
	r.mu.Lock()
	if len(r.Notes) < 50 {
		r.Notes = append(r.Notes, fmt.Sprintf(format, a...))
	}
	r.mu.Unlock()
}

// Violate records a property violation (at most 3 replays kept per key).
func (r *Result) Violate(key, what string, replay any) {
	r.mu.Lock()
	defer r.mu.Unlock()
	r.perKey[key]++
	r.Stats["violations:"+key]++
	if r.perKey[key] <= 3 {
		r.Violations = append(r.Violations, Violation{Key: key, What: what, Replay: replay})
	}
}

func (r *Result) NumViolations() int {
	r.mu.Lock()
	defer r.mu.Unlock()
	n := 0
	for _, c := range r.perKey {
		n += c
	}
	return n
}

// SetRunning names the scenario that is about to run, and persists it so that a crash of the test
// binary (panic on a Cloak goroutine) leaves a record of what was running.
func (r *Result) SetRunning(s any, persist bool) {
	r.mu.Lock()
	r.Running = s
	r.mu.Unlock()
	if persist {
		r.Save(false)
	}
}

func (r *Result) Save(complete bool) {
	r.mu.Lock()
	defer r.mu.Unlock()
	r.Complete = complete
	if complete {
		r.Running = nil
	}
	b, err := json.Marshal(r)
	if err != nil {
		panic(err)
	}
	tmp := filepath.Join(OutDir(), "result.json.tmp")
	_ = os.WriteFile(tmp, b, 0o644)
	_ = os.Rename(tmp, filepath.Join(OutDir(), "result.json"))
}

// ---------------------------------------------------------------------------------------------

// ReadLines calls fn for every line of an ndjson file.
func ReadLines(path string, fn func(line []byte) error) error {
	f, err := os.Open(path)
	if err != nil {
		return err
	}
	defer f.Close()
	sc := bufio.NewScanner(f)
	sc.Buffer(make([]byte, 1<<20), 1<<28)
	for sc.Scan() {
		if len(sc.Bytes()) == 0 {
			continue
		}
		if err := fn(sc.Bytes()); err != nil {
			return err
		}
	}
	return sc.Err()
}

// TraceWriter writes ndjson events; the sequence number is taken under the writer's lock.
type TraceWriter struct {
	mu  sync.Mutex
	w   *bufio.Writer
	f   *os.File
	seq int64
	n   atomic.Int64
}

func NewTraceWriter(name string) *TraceWriter {
	f, err := os.Create(filepath.Join(OutDir(), name))
	if err != nil {
		panic(err)
	}
	return &TraceWriter{f: f, w: bufio.NewWriterSize(f, 1<<20)}
}

// Emit appends one event. ev must marshal to a JSON object.
func (t *TraceWriter) Emit(ev map[string]any) {
	t.mu.Lock()
	t.seq++
	b, err := json.Marshal(ev)
	if err != nil {
		panic(err)
	}
	t.w.Write(b)
	t.w.WriteByte('\n')
	t.mu.Unlock()
	t.n.Add(1)
}

func (t *TraceWriter) Events() int64 { return t.n.Load() }

func (t *TraceWriter) Close() {
	t.mu.Lock()
	t.w.Flush()
	t.f.Close()
	t.mu.Unlock()
}

// ---------------------------------------------------------------------------------------------

// TokenBytes is the concretisation of an abstract data unit: size bytes that identify (tok, position),
// so that loss, duplication, reordering, truncation and cross-stream mixing all change the byte string.
func TokenBytes(tok uint64, size int) []byte {
	out := make([]byte, size)
	FillToken(out, tok)
	return out
}

func FillToken(out []byte, tok uint64) {
	var seed [16]byte
	binary.BigEndian.PutUint64(seed[:8], tok*0x9E3779B97F4A7C15+0x1234567)
	x := binary.BigEndian.Uint64(seed[:8]) | 1
	for i := range out {
		// xorshift64*: cheap, position dependent
		x ^= x >> 12
		x ^= x << 25
		x ^= x >> 27
		out[i] = byte((x * 0x2545F4914F6CDD1D) >> 56)
	}
	// first bytes carry the token id in clear for diagnosis when there is room
	if len(out) >= 9 {
		out[0] = 0xA5
		binary.BigEndian.PutUint64(out[1:9], tok)
	}
}

// Rng is a small deterministic generator (splitmix64) so drivers do not depend on math/rand versions.
type Rng struct{ s uint64 }

func NewRng(seed int64) *Rng { return &Rng{s: uint64(seed)*0x9E3779B97F4A7C15 + 0xD1B54A32D192ED03} }

func (r *Rng) Uint64() uint64 {
	r.s += 0x9E3779B97F4A7C15
	z := r.s
	z = (z ^ (z >> 30)) * 0xBF58476D1CE4E5B9
	z = (z ^ (z >> 27)) * 0x94D049BB133111EB
	return z ^ (z >> 31)
}

func (r *Rng) Intn(n int) int {
	if n <= 0 {
		return 0
	}
	return int(r.Uint64() % uint64(n))
}

func (r *Rng) Perm(n int) []int {
	p := make([]int, n)
	for i := range p {
		p[i] = i
	}
	for i := n - 1; i > 0; i-- {
		j := r.Intn(i + 1)
		p[i], p[j] = p[j], p[i]
	}
	return p
}

func (r *Rng) Bytes(n int) []byte {
	b := make([]byte, n)
	for i := 0; i < n; i += 8 {
		v := r.Uint64()
		for j := 0; j < 8 && i+j < n; j++ {
			b[i+j] = byte(v >> (8 * j))
		}
	}
	return b
}
