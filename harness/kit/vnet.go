package verifkit

// vnet: an in-memory network whose delivery the harness controls. A connection is two independent
// directions; each direction is a queue of written chunks ("pending", one per Write call) followed by
// a byte buffer of released data ("avail") that the reader sees. In Auto mode a Write is released at
// once; in Gated mode the harness releases whole chunks or any number of bytes, in any order across
// connections. Faults: Fail() = reset seen by both ends (in-flight data discarded); Close() by one end
// = the other end reads what was released, then EOF. All blocking is on sync.Cond, so a goroutine
// blocked here is "durably blocked" for testing/synctest.

import (
	"errors"
	"io"
	"net"
	"os"
	"sync"
	"time"
)

type VNet struct {
	mu    sync.Mutex
	cond  *sync.Cond
	conns []*VLink
	seq   int64
	// Tap, if set, is called under the network lock for every Write accepted by the network, i.e. at the
	// linearisation point that fixes the order of bytes on the wire.
	Tap func(ev TapEvent)
}

type TapEvent struct {
	Seq  int64
	Link int
	From int // 0 or 1: which end wrote
	Kind string
	Data []byte
}

type vdir struct {
	pending [][]byte
	avail   []byte
	wclosed bool // the writing end closed: EOF after avail + pending drained
	bytesW  int64
	chunksW int64
	chunksR int64
}

// VLink is one bidirectional connection; End(0) and End(1) are its two net.Conn ends.
type VLink struct {
	n      *VNet
	ID     int
	Gated  bool
	Msg    bool // message mode: one Read returns exactly one released chunk
	Bound  int  // >0: a Write blocks while more than Bound bytes are unreleased+unread (backpressure)
	dir    [2]*vdir // dir[i] carries data written by end i
	failed bool
	closed [2]bool
	ends   [2]*VConn
	msgQ   [2][][]byte // message mode: released chunks per direction
}

type VConn struct {
	l        *VLink
	side     int
	rdl      time.Time
	wdl      time.Time // write deadline: like a real socket, a Write at or after it fails even if it would not block
	rdlTimer *time.Timer
}

type vaddr struct{ s string }

func (a vaddr) Network() string { return "vnet" }
func (a vaddr) String() string  { return a.s }

var ErrVnetReset = errors.New("vnet: connection reset")
var ErrVnetClosed = errors.New("vnet: use of closed connection")

func NewVNet() *VNet {
	n := &VNet{}
	n.cond = sync.NewCond(&n.mu)
	return n
}

func (n *VNet) NewLink(gated, msg bool) *VLink {
	n.mu.Lock()
	defer n.mu.Unlock()
	l := &VLink{n: n, ID: len(n.conns), Gated: gated, Msg: msg}
	l.dir[0], l.dir[1] = &vdir{}, &vdir{}
	l.ends[0] = &VConn{l: l, side: 0}
	l.ends[1] = &VConn{l: l, side: 1}
	n.conns = append(n.conns, l)
	return l
}

func (n *VNet) Links() []*VLink {
	n.mu.Lock()
	defer n.mu.Unlock()
	return append([]*VLink(nil), n.conns...)
}

func (l *VLink) End(i int) *VConn { return l.ends[i] }

// Pending returns the number of written, not yet released chunks in the direction written by end `from`.
func (l *VLink) Pending(from int) int {
	l.n.mu.Lock()
	defer l.n.mu.Unlock()
	return len(l.dir[from].pending)
}

// PendingHeadLen returns the length of the first unreleased chunk (0 if none).
func (l *VLink) PendingHeadLen(from int) int {
	l.n.mu.Lock()
	defer l.n.mu.Unlock()
	if len(l.dir[from].pending) == 0 {
		return 0
	}
	return len(l.dir[from].pending[0])
}

// PeekPending returns a copy of the i-th unreleased chunk.
func (l *VLink) PeekPending(from, i int) []byte {
	l.n.mu.Lock()
	defer l.n.mu.Unlock()
	if i >= len(l.dir[from].pending) {
		return nil
	}
	return append([]byte(nil), l.dir[from].pending[i]...)
}

// ReleaseChunk hands the first pending chunk written by end `from` to the reader. Returns false if none.
func (l *VLink) ReleaseChunk(from int) bool {
	l.n.mu.Lock()
	defer l.n.mu.Unlock()
	d := l.dir[from]
	if len(d.pending) == 0 {
		return false
	}
	c := d.pending[0]
	d.pending = d.pending[1:]
	l.release(from, c)
	l.n.cond.Broadcast()
	return true
}

func (l *VLink) release(from int, c []byte) {
	d := l.dir[from]
	if l.Msg {
		l.msgQ[from] = append(l.msgQ[from], c)
	} else {
		d.avail = append(d.avail, c...)
	}
}

// ReleaseBytes hands k bytes of the pending data (cutting chunks as needed) to the reader; returns the
// number actually released.
func (l *VLink) ReleaseBytes(from, k int) int {
	l.n.mu.Lock()
	defer l.n.mu.Unlock()
	d := l.dir[from]
	done := 0
	for k > 0 && len(d.pending) > 0 {
		c := d.pending[0]
		if len(c) <= k {
			d.avail = append(d.avail, c...)
			k -= len(c)
			done += len(c)
			d.pending = d.pending[1:]
		} else {
			d.avail = append(d.avail, c[:k]...)
			d.pending[0] = c[k:]
			done += k
			k = 0
		}
	}
	l.n.cond.Broadcast()
	return done
}

// ReleaseAll releases everything pending in both directions and switches the link to Auto mode.
func (l *VLink) ReleaseAll() {
	l.n.mu.Lock()
	defer l.n.mu.Unlock()
	for from := 0; from < 2; from++ {
		d := l.dir[from]
		for _, c := range d.pending {
			l.release(from, c)
		}
		d.pending = nil
	}
	l.Gated = false
	l.n.cond.Broadcast()
}

// Fail resets the connection: both ends' pending and unread data is discarded; every blocked and later
// Read/Write on either end fails.
func (l *VLink) Fail() {
	l.n.mu.Lock()
	defer l.n.mu.Unlock()
	l.failed = true
	for i := 0; i < 2; i++ {
		l.dir[i].pending = nil
		l.dir[i].avail = nil
		l.msgQ[i] = nil
	}
	if l.n.Tap != nil {
		l.n.seq++
		l.n.Tap(TapEvent{Seq: l.n.seq, Link: l.ID, From: -1, Kind: "fail"})
	}
	l.n.cond.Broadcast()
}

func (l *VLink) Failed() bool {
	l.n.mu.Lock()
	defer l.n.mu.Unlock()
	return l.failed
}

// ClosedBy reports whether end i has called Close.
func (l *VLink) ClosedBy(i int) bool {
	l.n.mu.Lock()
	defer l.n.mu.Unlock()
	return l.closed[i]
}

func (l *VLink) Stats(from int) (bytesW, chunksW int64) {
	l.n.mu.Lock()
	defer l.n.mu.Unlock()
	return l.dir[from].bytesW, l.dir[from].chunksW
}

// ------------------------------------------------------------------------------------- net.Conn

func (c *VConn) Write(b []byte) (int, error) {
	l := c.l
	n := l.n
	n.mu.Lock()
	defer n.mu.Unlock()
	d := l.dir[c.side]
	for {
		if l.closed[c.side] {
			return 0, ErrVnetClosed
		}
		if l.failed {
			return 0, ErrVnetReset
		}
		if l.closed[1-c.side] {
			return 0, ErrVnetReset // peer has gone: EPIPE / RST
		}
		if !c.wdl.IsZero() && !time.Now().Before(c.wdl) {
			return 0, os.ErrDeadlineExceeded
		}
		if l.Bound <= 0 {
			break
		}
		q := len(d.avail)
		for _, p := range d.pending {
			q += len(p)
		}
		for _, p := range l.msgQ[c.side] {
			q += len(p)
		}
		if q <= l.Bound {
			break
		}
		n.cond.Wait()
	}
	cp := append([]byte(nil), b...)
	d.bytesW += int64(len(b))
	d.chunksW++
	if n.Tap != nil {
		n.seq++
		n.Tap(TapEvent{Seq: n.seq, Link: l.ID, From: c.side, Kind: "w", Data: cp})
	}
	if l.Gated {
		d.pending = append(d.pending, cp)
	} else {
		l.release(c.side, cp)
	}
	n.cond.Broadcast()
	return len(b), nil
}

func (c *VConn) Read(b []byte) (int, error) {
	l := c.l
	n := l.n
	n.mu.Lock()
	defer n.mu.Unlock()
	from := 1 - c.side
	d := l.dir[from]
	for {
		if l.closed[c.side] {
			return 0, ErrVnetClosed
		}
		if l.failed {
			return 0, ErrVnetReset
		}
		if l.Msg {
			if len(l.msgQ[from]) > 0 {
				m := l.msgQ[from][0]
				l.msgQ[from] = l.msgQ[from][1:]
				k := copy(b, m)
				d.chunksR++
				n.cond.Broadcast()
				return k, nil
			}
		} else if len(d.avail) > 0 {
			k := copy(b, d.avail)
			d.avail = d.avail[k:]
			n.cond.Broadcast()
			return k, nil
		}
		if d.wclosed && len(d.pending) == 0 {
			return 0, io.EOF
		}
		if !c.rdl.IsZero() && !time.Now().Before(c.rdl) {
			return 0, os.ErrDeadlineExceeded
		}
		if len(b) == 0 {
			return 0, nil
		}
		n.cond.Wait()
	}
}

func (c *VConn) Close() error {
	l := c.l
	n := l.n
	n.mu.Lock()
	defer n.mu.Unlock()
	if l.closed[c.side] {
		return ErrVnetClosed // like a real socket: closing twice is an error ("use of closed network connection")
	}
	l.closed[c.side] = true
	l.dir[c.side].wclosed = true
	if n.Tap != nil {
		n.seq++
		n.Tap(TapEvent{Seq: n.seq, Link: l.ID, From: c.side, Kind: "close"})
	}
	n.cond.Broadcast()
	return nil
}

func (c *VConn) LocalAddr() net.Addr  { return vaddr{"vnet-local"} }
func (c *VConn) RemoteAddr() net.Addr { return vaddr{"vnet-remote"} }

func (c *VConn) SetDeadline(t time.Time) error {
	c.SetWriteDeadline(t)
	return c.SetReadDeadline(t)
}

func (c *VConn) SetReadDeadline(t time.Time) error {
	n := c.l.n
	n.mu.Lock()
	defer n.mu.Unlock()
	c.rdl = t
	if c.rdlTimer != nil {
		c.rdlTimer.Stop()
		c.rdlTimer = nil
	}
	if !t.IsZero() {
		d := time.Until(t)
		if d < 0 {
			d = 0
		}
		c.rdlTimer = time.AfterFunc(d, func() {
			n.mu.Lock()
			n.cond.Broadcast()
			n.mu.Unlock()
		})
	}
	n.cond.Broadcast()
	return nil
}

// SetWriteDeadline: a Write that starts at or after t fails (a Write already parked on a full link is not woken by
// the deadline alone; it re-checks on its next wake-up).
func (c *VConn) SetWriteDeadline(t time.Time) error {
	n := c.l.n
	n.mu.Lock()
	defer n.mu.Unlock()
	c.wdl = t
	n.cond.Broadcast()
	return nil
}

// ------------------------------------------------------------------------------------- listener/dialer

// VListener + VDialer connect Cloak's client.MakeSession / server.Serve style code through a VNet.
type VListener struct {
	n      *VNet
	mu     sync.Mutex
	cond   *sync.Cond
	q      []*VConn
	closed bool
	Gated  bool
}

func (n *VNet) Listen() *VListener {
	l := &VListener{n: n}
	l.cond = sync.NewCond(&l.mu)
	return l
}

func (l *VListener) Accept() (net.Conn, error) {
	l.mu.Lock()
	defer l.mu.Unlock()
	for len(l.q) == 0 && !l.closed {
		l.cond.Wait()
	}
	if len(l.q) == 0 {
		return nil, ErrVnetClosed
	}
	c := l.q[0]
	l.q = l.q[1:]
	return c, nil
}

func (l *VListener) Close() error {
	l.mu.Lock()
	l.closed = true
	l.cond.Broadcast()
	l.mu.Unlock()
	return nil
}

func (l *VListener) Addr() net.Addr { return vaddr{"vnet-listener"} }

// Dial implements Cloak's common.Dialer.
func (l *VListener) Dial(network, address string) (net.Conn, error) {
	l.mu.Lock()
	defer l.mu.Unlock()
	if l.closed {
		return nil, ErrVnetClosed
	}
	link := l.n.NewLink(l.Gated, false)
	l.q = append(l.q, link.End(1))
	l.cond.Broadcast()
	return link.End(0), nil
}
