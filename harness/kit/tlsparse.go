package verifkit

// tlsparse: an independent parser for what a passive observer sees of a TLS connection: the record
// layer of one direction of a byte stream, and the ClientHello / ServerHello carried in handshake
// records (RFC 8446 sections 4.1.2, 4.1.3, 4.2, 5.1).  It is written against the RFC, not against
// Cloak's own parser, shares no code with it and never panics on any input: every read goes through a
// bounds-checked cursor.  The result is a list of abstract events (one per record) with the measured
// fields; deciding whether those fields are acceptable is left to the caller (spec/WireTLS*.tla and
// the Go drivers).

import (
	"encoding/hex"
	"strings"
)

const (
	TLSRecChangeCipherSpec = 20
	TLSRecAlert            = 21
	TLSRecHandshake        = 22
	TLSRecApplicationData  = 23

	TLSHsClientHello = 1
	TLSHsServerHello = 2

	TLSExtServerName        = 0
	TLSExtSupportedVersions = 43
	TLSExtKeyShare          = 51

	TLSGroupX25519 = 0x001d

	// TLSMaxCiphertext is the largest TLSCiphertext.length RFC 8446 section 5.2 allows.
	TLSMaxCiphertext = 1<<14 + 256
)

// TLSRecord is one record of a captured direction.
type TLSRecord struct {
	Index    int    // position of the record in the stream (0-based)
	Offset   int    // offset of its header in the stream
	Type     int    // content type, -1 if the stream ended before it
	Version  int    // major<<8 | minor, -1 if the stream ended inside the header
	Length   int    // declared length, -1 if the stream ended inside the header
	Body     []byte // the body bytes that are present
	Complete bool   // header and declared body are entirely present
	Hello    *TLSHello
}

type TLSExt struct {
	Type int
	Len  int
}

type TLSKeyShare struct {
	Group int
	Len   int
}

// TLSHello is what could be measured of a handshake message that starts a handshake record.
type TLSHello struct {
	HandshakeType int // first byte of the record body, -1 if the body is empty
	DeclaredLen   int // 24-bit handshake length, -1 if absent
	// Consistent: the message fills the record exactly and every vector inside it fills its container
	// exactly (no overrun, no slack).  Problems lists what does not add up.
	Consistent bool
	Problems   []string

	LegacyVersion int
	Random        []byte
	SessionID     []byte // legacy_session_id / legacy_session_id_echo
	SessionIDOK   bool   // the session id vector was present (length byte + that many bytes, <= 32)
	CipherSuites  []int  // ClientHello: offered; ServerHello: the selected one
	Compression   []byte // ClientHello: methods; ServerHello: the selected one

	HasExtensions bool
	ExtensionsOK  bool // the extension block is a sequence of (type,len,data) that fills it exactly, no duplicates
	Extensions    []TLSExt

	HasSNI  bool
	SNIOK   bool   // server_name extension is one well-formed list with exactly one host_name entry
	SNI     string // that host name
	SNIName bool   // SNI is a syntactically valid DNS host name (LDH labels, >= 2 labels, no trailing dot)

	HasKeyShare bool
	KeyShareOK  bool // key_share extension well-formed for the message type
	KeyShares   []TLSKeyShare

	HasSupportedVersions bool
	SupportedVersionsOK  bool
	SupportedVersions    []int
}

// tlsCur is a bounds-checked cursor.
type tlsCur struct {
	b   []byte
	off int
	bad bool
}

func (c *tlsCur) left() int { return len(c.b) - c.off }

func (c *tlsCur) take(n int) []byte {
	if c.bad || n < 0 || c.left() < n {
		c.bad = true
		return nil
	}
	s := c.b[c.off : c.off+n]
	c.off += n
	return s
}

func (c *tlsCur) u8() int {
	s := c.take(1)
	if s == nil {
		return -1
	}
	return int(s[0])
}

func (c *tlsCur) u16() int {
	s := c.take(2)
	if s == nil {
		return -1
	}
	return int(s[0])<<8 | int(s[1])
}

func (c *tlsCur) u24() int {
	s := c.take(3)
	if s == nil {
		return -1
	}
	return int(s[0])<<16 | int(s[1])<<8 | int(s[2])
}

// vec reads a length-prefixed vector (prefix of lenBytes bytes) and returns a cursor over its content.
func (c *tlsCur) vec(lenBytes int) (*tlsCur, bool) {
	var n int
	switch lenBytes {
	case 1:
		n = c.u8()
	case 2:
		n = c.u16()
	default:
		n = c.u24()
	}
	if n < 0 {
		return nil, false
	}
	s := c.take(n)
	if s == nil {
		return nil, false
	}
	return &tlsCur{b: s}, true
}

// ParseTLSStream cuts one direction of a connection into records.  The last record is marked
// incomplete when the stream ends inside it.  Handshake records are additionally parsed as hellos.
func ParseTLSStream(stream []byte) []TLSRecord {
	var out []TLSRecord
	off := 0
	for off < len(stream) {
		r := TLSRecord{Index: len(out), Offset: off, Type: int(stream[off]), Version: -1, Length: -1}
		if len(stream)-off < 5 {
			if len(stream)-off >= 3 {
				r.Version = int(stream[off+1])<<8 | int(stream[off+2])
			}
			out = append(out, r)
			break
		}
		r.Version = int(stream[off+1])<<8 | int(stream[off+2])
		r.Length = int(stream[off+3])<<8 | int(stream[off+4])
		end := off + 5 + r.Length
		if end > len(stream) {
			r.Body = stream[off+5:]
			out = append(out, r)
			break
		}
		r.Body = stream[off+5 : end]
		r.Complete = true
		if r.Type == TLSRecHandshake {
			r.Hello = ParseTLSHello(r.Body)
		}
		out = append(out, r)
		off = end
	}
	return out
}

// ParseTLSHello parses the body of a handshake record as a single ClientHello or ServerHello.
func ParseTLSHello(body []byte) *TLSHello {
	h := &TLSHello{HandshakeType: -1, DeclaredLen: -1, LegacyVersion: -1}
	prob := func(s string) { h.Problems = append(h.Problems, s) }
	c := &tlsCur{b: body}
	h.HandshakeType = c.u8()
	if h.HandshakeType < 0 {
		prob("empty handshake record")
		return h
	}
	h.DeclaredLen = c.u24()
	if h.DeclaredLen < 0 {
		prob("handshake header truncated")
		return h
	}
	if h.DeclaredLen != c.left() {
		prob("handshake length does not equal the rest of the record")
	}
	if h.HandshakeType != TLSHsClientHello && h.HandshakeType != TLSHsServerHello {
		h.Consistent = len(h.Problems) == 0
		return h
	}
	n := h.DeclaredLen
	if n > c.left() {
		n = c.left()
	}
	m := &tlsCur{b: c.take(n)}
	h.LegacyVersion = m.u16()
	h.Random = m.take(32)
	if h.Random == nil {
		prob("version/random truncated")
		return h
	}
	if sid, ok := m.vec(1); ok && len(sid.b) <= 32 {
		h.SessionID = sid.b
		h.SessionIDOK = true
	} else {
		prob("session id vector malformed")
		return h
	}
	if h.HandshakeType == TLSHsClientHello {
		cs, ok := m.vec(2)
		if !ok || len(cs.b) < 2 || len(cs.b)%2 != 0 {
			prob("cipher suite vector malformed")
			return h
		}
		for cs.left() >= 2 {
			h.CipherSuites = append(h.CipherSuites, cs.u16())
		}
		cm, ok := m.vec(1)
		if !ok || len(cm.b) < 1 {
			prob("compression method vector malformed")
			return h
		}
		h.Compression = cm.b
	} else {
		s := m.u16()
		cm := m.u8()
		if s < 0 || cm < 0 {
			prob("cipher suite / compression method truncated")
			return h
		}
		h.CipherSuites = []int{s}
		h.Compression = []byte{byte(cm)}
	}
	if m.left() == 0 {
		// extensions are optional in the legacy grammar
		h.Consistent = len(h.Problems) == 0
		return h
	}
	h.HasExtensions = true
	exts, ok := m.vec(2)
	if !ok {
		prob("extension block overruns the message")
		return h
	}
	if m.left() != 0 {
		prob("bytes after the extension block")
	}
	h.ExtensionsOK = true
	seen := map[int]bool{}
	for exts.left() > 0 {
		typ := exts.u16()
		data, ok := exts.vec(2)
		if typ < 0 || !ok {
			h.ExtensionsOK = false
			prob("extension overruns the extension block")
			break
		}
		if seen[typ] {
			h.ExtensionsOK = false
			prob("duplicate extension")
		}
		seen[typ] = true
		h.Extensions = append(h.Extensions, TLSExt{Type: typ, Len: len(data.b)})
		switch typ {
		case TLSExtServerName:
			h.HasSNI = true
			h.parseSNI(data)
		case TLSExtKeyShare:
			h.HasKeyShare = true
			h.parseKeyShare(data)
		case TLSExtSupportedVersions:
			h.HasSupportedVersions = true
			h.parseSupportedVersions(data)
		}
	}
	if h.HasSNI && !h.SNIOK && h.HandshakeType == TLSHsClientHello {
		prob("server_name extension malformed")
	}
	if h.HasKeyShare && !h.KeyShareOK {
		prob("key_share extension malformed")
	}
	if h.HasSupportedVersions && !h.SupportedVersionsOK {
		prob("supported_versions extension malformed")
	}
	h.Consistent = len(h.Problems) == 0
	return h
}

func (h *TLSHello) parseSNI(d *tlsCur) {
	if h.HandshakeType != TLSHsClientHello {
		h.SNIOK = d.left() == 0 // a server acknowledges with an empty extension
		return
	}
	list, ok := d.vec(2)
	if !ok || d.left() != 0 || list.left() == 0 {
		return
	}
	names := 0
	for list.left() > 0 {
		nt := list.u8()
		name, ok := list.vec(2)
		if nt < 0 || !ok || len(name.b) == 0 {
			return
		}
		if nt == 0 {
			names++
			h.SNI = string(name.b)
		}
	}
	h.SNIOK = names == 1
	h.SNIName = h.SNIOK && TLSValidHostName(h.SNI)
}

func (h *TLSHello) parseKeyShare(d *tlsCur) {
	if h.HandshakeType == TLSHsServerHello {
		g := d.u16()
		k, ok := d.vec(2)
		if g < 0 || !ok || d.left() != 0 || len(k.b) == 0 {
			return
		}
		h.KeyShares = append(h.KeyShares, TLSKeyShare{Group: g, Len: len(k.b)})
		h.KeyShareOK = true
		return
	}
	list, ok := d.vec(2)
	if !ok || d.left() != 0 {
		return
	}
	for list.left() > 0 {
		g := list.u16()
		k, ok := list.vec(2)
		if g < 0 || !ok || len(k.b) == 0 {
			return
		}
		h.KeyShares = append(h.KeyShares, TLSKeyShare{Group: g, Len: len(k.b)})
	}
	h.KeyShareOK = true
}

func (h *TLSHello) parseSupportedVersions(d *tlsCur) {
	if h.HandshakeType == TLSHsServerHello {
		v := d.u16()
		if v < 0 || d.left() != 0 {
			return
		}
		h.SupportedVersions = []int{v}
		h.SupportedVersionsOK = true
		return
	}
	list, ok := d.vec(1)
	if !ok || d.left() != 0 || list.left() < 2 || list.left()%2 != 0 {
		return
	}
	for list.left() >= 2 {
		h.SupportedVersions = append(h.SupportedVersions, list.u16())
	}
	h.SupportedVersionsOK = true
}

// X25519Len returns the key_exchange length of the (first) X25519 share, -1 if there is none, and how
// many X25519 shares the hello carries.
func (h *TLSHello) X25519Len() (length, count int) {
	length = -1
	for _, k := range h.KeyShares {
		if k.Group == TLSGroupX25519 {
			if count == 0 {
				length = k.Len
			}
			count++
		}
	}
	return
}

// TLSValidHostName: a DNS host name as it may appear in a server_name extension (RFC 6066 section 3):
// ASCII letters/digits/hyphen labels of 1..63 bytes that neither start nor end with a hyphen, at least
// two labels, at most 253 bytes, no trailing dot, the last label not all digits.
func TLSValidHostName(s string) bool {
	if len(s) == 0 || len(s) > 253 {
		return false
	}
	labels := strings.Split(s, ".")
	if len(labels) < 2 {
		return false
	}
	for _, l := range labels {
		if len(l) == 0 || len(l) > 63 || l[0] == '-' || l[len(l)-1] == '-' {
			return false
		}
		for i := 0; i < len(l); i++ {
			ch := l[i]
			if !(ch >= 'a' && ch <= 'z' || ch >= 'A' && ch <= 'Z' || ch >= '0' && ch <= '9' || ch == '-') {
				return false
			}
		}
	}
	last := labels[len(labels)-1]
	digits := true
	for i := 0; i < len(last); i++ {
		if last[i] < '0' || last[i] > '9' {
			digits = false
		}
	}
	return !digits
}

// Event is the abstract event of a record: only ints, bools and strings, so that it can be written
// as one ndjson line and read by TLC.  Fields that do not apply carry -1 / "" / false.
func (r *TLSRecord) Event(dir string) map[string]any {
	ev := map[string]any{
		"ev": "Rec", "dir": dir, "idx": r.Index, "off": r.Offset,
		"type": r.Type, "vmaj": -1, "vmin": -1, "len": r.Length, "complete": r.Complete,
		"hs": -1, "consistent": false, "hlen": -1, "legacy": -1, "sidlen": -1, "sid": "",
		"ext_ok": false, "has_sni": false, "sni_ok": false, "sni": "", "sni_name": false,
		"ks_ok": false, "x25519": -1, "x25519_n": 0, "nks": 0, "sv_ok": false, "sv13": false,
		"suite": -1, "comp": -1, "ccs_body": -1,
	}
	if r.Version >= 0 {
		ev["vmaj"], ev["vmin"] = r.Version>>8, r.Version&0xff
	}
	if r.Type == TLSRecChangeCipherSpec && r.Complete && len(r.Body) == 1 {
		ev["ccs_body"] = int(r.Body[0])
	}
	if h := r.Hello; h != nil {
		ev["hs"] = h.HandshakeType
		ev["consistent"] = h.Consistent
		ev["hlen"] = h.DeclaredLen
		ev["legacy"] = h.LegacyVersion
		if h.SessionIDOK {
			ev["sidlen"] = len(h.SessionID)
			ev["sid"] = hex.EncodeToString(h.SessionID)
		}
		ev["ext_ok"] = h.HasExtensions && h.ExtensionsOK
		ev["has_sni"], ev["sni_ok"], ev["sni"], ev["sni_name"] = h.HasSNI, h.SNIOK, h.SNI, h.SNIName
		ev["ks_ok"] = h.HasKeyShare && h.KeyShareOK
		l, n := h.X25519Len()
		ev["x25519"], ev["x25519_n"], ev["nks"] = l, n, len(h.KeyShares)
		ev["sv_ok"] = h.HasSupportedVersions && h.SupportedVersionsOK
		for _, v := range h.SupportedVersions {
			if v == 0x0304 {
				ev["sv13"] = true
			}
		}
		if h.HandshakeType == TLSHsServerHello && len(h.CipherSuites) == 1 && len(h.Compression) == 1 {
			ev["suite"], ev["comp"] = h.CipherSuites[0], int(h.Compression[0])
		}
	}
	return ev
}
