package verifkit

// Reference codec for the Cloak v2 frame layout, written from spec/FrameCodec.tla (module header),
// NOT from internal/multiplex/obfs.go. It is the independent peer of property C04 and is trusted.
//
//   message  = Mask(header) | body                      Mask = XOR with Salsa20(key[0..31], nonce = last 8 message bytes)
//   header   = sid(4, BE) | seq(8, BE) | closing(1) | extra(1)         extra = len(pad) + tag(method)
//   body     = AEAD: Seal(K_m, nonce = header[0..11] unmasked, payload|pad, no associated data), tag 16
//              plain: payload | pad | trailing(8 random bytes), tag(plain) = 8
//   K_m      = key[0..31] for AES-256-GCM (1) and ChaCha20-Poly1305 (2), key[0..15] for AES-128-GCM (3)

import (
	"crypto/aes"
	"crypto/cipher"
	"encoding/binary"
	"errors"
	"fmt"

	"golang.org/x/crypto/chacha20poly1305"
	"golang.org/x/crypto/salsa20"
)

const (
	RefPlain            byte = 0
	RefAES256GCM        byte = 1
	RefChaCha20Poly1305 byte = 2
	RefAES128GCM        byte = 3
	RefHeaderLen             = 14
	RefStreamNonceLen        = 8
	RefMaxExtra              = 255
)

// RefFrame is everything a decoder can learn from one message.
type RefFrame struct {
	Sid      uint32
	Seq      uint64
	Closing  byte
	Extra    byte
	Payload  []byte
	Pad      []byte // padding bytes (AEAD: decrypted)
	Trailing []byte // plain only: the 8 trailing bytes that serve as Salsa20 nonce
}

func RefTagLen(method byte) int {
	if method == RefPlain {
		return RefStreamNonceLen
	}
	return 16
}

func refAEAD(method byte, key []byte) (cipher.AEAD, error) {
	if len(key) != 32 {
		return nil, errors.New("refcodec: session key must be 32 bytes")
	}
	switch method {
	case RefPlain:
		return nil, nil
	case RefAES256GCM, RefAES128GCM:
		k := key
		if method == RefAES128GCM {
			k = key[:16]
		}
		b, err := aes.NewCipher(k)
		if err != nil {
			return nil, err
		}
		return cipher.NewGCM(b)
	case RefChaCha20Poly1305:
		return chacha20poly1305.New(key)
	}
	return nil, fmt.Errorf("refcodec: unknown method %d", method)
}

func refMask(header, tail, key []byte) {
	var k [32]byte
	copy(k[:], key)
	salsa20.XORKeyStream(header, header, tail, &k)
}

// RefEncode builds the message for one frame. pad are the explicit padding bytes; trailing are the 8
// trailing bytes of a plain message (ignored for the AEAD methods).
func RefEncode(method byte, key []byte, sid uint32, seq uint64, closing byte, payload, pad, trailing []byte) ([]byte, error) {
	aead, err := refAEAD(method, key)
	if err != nil {
		return nil, err
	}
	extra := len(pad) + RefTagLen(method)
	if extra > RefMaxExtra {
		return nil, fmt.Errorf("refcodec: pad %d + tag %d does not fit the extra byte", len(pad), RefTagLen(method))
	}
	var hdr [RefHeaderLen]byte
	binary.BigEndian.PutUint32(hdr[0:4], sid)
	binary.BigEndian.PutUint64(hdr[4:12], seq)
	hdr[12] = closing
	hdr[13] = byte(extra)
	msg := make([]byte, 0, RefHeaderLen+len(payload)+extra)
	msg = append(msg, hdr[:]...)
	if aead != nil {
		pt := make([]byte, 0, len(payload)+len(pad))
		pt = append(append(pt, payload...), pad...)
		msg = aead.Seal(msg, hdr[:12], pt, nil)
	} else {
		if len(trailing) != RefStreamNonceLen {
			return nil, errors.New("refcodec: plain needs 8 trailing bytes")
		}
		msg = append(append(append(msg, payload...), pad...), trailing...)
	}
	refMask(msg[:RefHeaderLen], msg[len(msg)-RefStreamNonceLen:], key)
	return msg, nil
}

// RefDecodeFull decodes msg (which is not modified) and also returns padding and trailing bytes.
func RefDecodeFull(method byte, key []byte, msg []byte) (*RefFrame, error) {
	aead, err := refAEAD(method, key)
	if err != nil {
		return nil, err
	}
	if len(msg) < RefHeaderLen+RefStreamNonceLen {
		return nil, fmt.Errorf("refcodec: message of %d bytes is too short", len(msg))
	}
	var hdr [RefHeaderLen]byte
	copy(hdr[:], msg[:RefHeaderLen])
	refMask(hdr[:], msg[len(msg)-RefStreamNonceLen:], key)
	f := &RefFrame{Sid: binary.BigEndian.Uint32(hdr[0:4]), Seq: binary.BigEndian.Uint64(hdr[4:12]), Closing: hdr[12], Extra: hdr[13]}
	body := msg[RefHeaderLen:]
	tag := RefTagLen(method)
	if int(f.Extra) < tag || int(f.Extra) > len(body) {
		return nil, fmt.Errorf("refcodec: extra %d outside [%d, %d]", f.Extra, tag, len(body))
	}
	n := len(body) - int(f.Extra) // payload length
	if aead == nil {
		f.Payload = append([]byte{}, body[:n]...)
		f.Pad = append([]byte{}, body[n:len(body)-tag]...)
		f.Trailing = append([]byte{}, body[len(body)-tag:]...)
		return f, nil
	}
	pt, err := aead.Open(nil, hdr[:12], body, nil)
	if err != nil {
		return nil, fmt.Errorf("refcodec: %w", err)
	}
	f.Payload, f.Pad = pt[:n:n], pt[n:]
	return f, nil
}

// RefDecode is the plain decoder interface of the reference peer.
func RefDecode(method byte, key []byte, msg []byte) (sid uint32, seq uint64, closing byte, payload []byte, err error) {
	f, err := RefDecodeFull(method, key, msg)
	if err != nil {
		return 0, 0, 0, nil, err
	}
	return f.Sid, f.Seq, f.Closing, f.Payload, nil
}
