package client

// C14, relay part: client.RouteUDP maps each local UDP source address to its own stream of an unordered session.
// Real loopback UDP sockets, real RouteUDP, an unordered Session pair over the in-memory network with an echoing
// peer. Several proxy clients send self-describing datagrams concurrently; every datagram a client receives must be
// one of ITS OWN datagrams, whole and unaltered, at most once (UDP may lose, never mix, merge, split or duplicate).

import (
	"bytes"
	"encoding/binary"
	"fmt"
	"io"
	"net"
	"sync"
	"testing"
	"time"

	"github.com/cbeuw/Cloak/internal/common"
	mux "github.com/cbeuw/Cloak/internal/multiplex"
	kit "github.com/cbeuw/Cloak/internal/verifkit"
	log "github.com/sirupsen/logrus"
)

func c14Datagram(client, seq, size int) []byte {
	b := kit.TokenBytes(uint64(client)<<32|uint64(seq), size)
	binary.BigEndian.PutUint16(b[0:2], uint16(client))
	binary.BigEndian.PutUint32(b[2:6], uint32(seq))
	binary.BigEndian.PutUint16(b[6:8], uint16(size))
	return b
}

func TestVerifC14RouteUDP(t *testing.T) {
	log.SetOutput(io.Discard)
	log.SetLevel(log.PanicLevel)
	res := kit.NewResult()
	defer func() { res.Save(true) }()
	probe, err := net.ListenUDP("udp", &net.UDPAddr{IP: net.IPv4(127, 0, 0, 1)})
	if err != nil {
		res.Note("loopback UDP is not available here (%v): relay part skipped", err)
		res.Count("skipped", false)
		return
	}
	probe.Close()
	methods := []byte{mux.EncryptionMethodPlain, mux.EncryptionMethodAES256GCM, mux.EncryptionMethodChaha20Poly1305, mux.EncryptionMethodAES128GCM}
	rounds := 2
	if kit.Thorough() {
		rounds = 8
	}
	for r := 0; r < rounds; r++ {
		nclients := []int{2, 8, 4, 3}[r%4]
		vn := kit.NewVNet()
		var key [32]byte
		copy(key[:], kit.NewRng(kit.Seed()+int64(r)).Bytes(32))
		mk := func() *mux.Session {
			o, _ := mux.MakeObfuscator(methods[r%4], key)
			return mux.MakeSession(uint32(20+r), mux.SessionConfig{Obfuscator: o, Unordered: true, MsgOnWireSizeLimit: appDataMaxLength, InactivityTimeout: time.Hour})
		}
		cs, ss := mk(), mk()
		for i := 0; i < 2; i++ {
			l := vn.NewLink(false, false)
			cs.AddConnection(common.NewTLSConn(l.End(0)))
			ss.AddConnection(common.NewTLSConn(l.End(1)))
		}
		go func() { // the far end echoes every datagram on its stream
			for {
				conn, err := ss.Accept()
				if err != nil {
					return
				}
				go func(c net.Conn) {
					buf := make([]byte, 20000)
					for {
						n, err := c.Read(buf)
						if err != nil {
							return
						}
						if _, err := c.Write(buf[:n]); err != nil {
							return
						}
					}
				}(conn)
			}
		}()
		local, err := net.ListenUDP("udp", &net.UDPAddr{IP: net.IPv4(127, 0, 0, 1)})
		if err != nil {
			t.Fatal(err)
		}
		go RouteUDP(func() (*net.UDPConn, error) { return local, nil }, 30*time.Second, false, func() *mux.Session { return cs })
		var wg sync.WaitGroup
		var mu sync.Mutex
		sent, got := 0, 0
		perClient := 300
		for k := 0; k < nclients; k++ {
			wg.Add(1)
			go func(k int) {
				defer wg.Done()
				c, err := net.DialUDP("udp", nil, local.LocalAddr().(*net.UDPAddr))
				if err != nil {
					return
				}
				defer c.Close()
				seen := map[uint32]bool{}
				rdone := make(chan struct{})
				go func() {
					defer close(rdone)
					buf := make([]byte, 20000)
					for {
						c.SetReadDeadline(time.Now().Add(700 * time.Millisecond))
						n, err := c.Read(buf)
						if err != nil {
							return
						}
						d := buf[:n]
						mu.Lock()
						got++
						mu.Unlock()
						if n < 8 {
							res.Violate("dgram-wrong", fmt.Sprintf("client %d received a %d-byte datagram it never sent", k, n), nil)
							continue
						}
						id, seq, size := int(binary.BigEndian.Uint16(d[0:2])), binary.BigEndian.Uint32(d[2:6]), int(binary.BigEndian.Uint16(d[6:8]))
						if id != k {
							res.Violate("dgram-cross-stream", fmt.Sprintf("proxy client %d received a datagram that belongs to client %d (seq %d): another stream's data", k, id, seq),
								map[string]any{"clients": nclients, "method": methods[r%4]})
							continue
						}
						if size != n || !bytes.Equal(d, c14Datagram(k, int(seq), size)) {
							res.Violate("dgram-wrong", fmt.Sprintf("client %d: datagram seq %d came back altered, merged or split (%d bytes, sent %d)", k, seq, n, size), nil)
							continue
						}
						if seen[seq] {
							res.Violate("dgram-duplicate", fmt.Sprintf("client %d: datagram seq %d delivered twice", k, seq), nil)
						}
						seen[seq] = true
					}
				}()
				for s := 0; s < perClient; s++ {
					size := []int{8, 64, 1200, 1500, 7000}[(s+k)%5]
					c.Write(c14Datagram(k, s, size))
					mu.Lock()
					sent++
					mu.Unlock()
					if s%8 == 7 {
						time.Sleep(200 * time.Microsecond)
					}
				}
				<-rdone
			}(k)
		}
		wg.Wait()
		res.Count(fmt.Sprintf("clients%d-m%d", nclients, methods[r%4]), true)
		res.Stat("datagrams_sent", int64(sent))
		res.Stat("datagrams_echoed", int64(got))
		if r == 0 {
			res.Sample(map[string]any{"proxy_clients": nclients, "datagrams_sent": sent, "echoed_back": got}, 1)
		}
		if got == 0 {
			res.Note("round %d: no datagram came back at all", r)
			res.Stat("silent_rounds", 1)
		}
		cs.Close()
		ss.Close()
		local.Close()
	}
}
