package client

// X02, datagram side (spec/RelayUDP.tla): the real client.RouteUDP on real loopback UDP sockets, sessions = real
// unordered mux.Session pairs over the in-memory network (the far end plays serveSession + proxy target: it accepts
// streams, records per stream what arrives and can answer, close a stream, close the session). Real time (RouteUDP
// needs a *net.UDPConn, which cannot live in a synctest bubble): every expectation is polled for, with a long limit.
// Scenarios follow the model's properties:
//   per-source streams and no cross-talk (NoCross), stream timeout -> entry removed, stream closed, next datagram opens
//   a NEW stream (QuiesceInv), session closed by the far end -> exactly one new session for the next datagram, nothing
//   of the old one remains (RenewInv, QuiesceInv).
// Defect D22 (RelayUDP.tla, Dev DeleteByKey; repaired in /repo 5369de6): a reader goroutine that has left its loop but
// not yet taken the table lock must not remove the entry of a NEWER stream of the same address. The window lies
// exactly where RouteUDP calls log.Tracef("copying stream to proxy client: ..."): a logrus hook parks the reader
// there (hooks fire outside the logger's lock), the harness lets the loop fail its Write on the old stream and open a
// new one for the same address, releases the reader and sends again. Evidence-based verdict relay-udp-orphan-stream:
// a stream of that address that is open and whose reader still relays replies, while the next datagram of the address
// opens ANOTHER stream (so the table no longer holds the first). TestVerifX02UDPStaleDelete looks for the same
// without the hook (thorough tier).

import (
	"fmt"
	"io"
	"net"
	"runtime"
	"strings"
	"sync"
	"testing"
	"time"

	"github.com/cbeuw/Cloak/internal/common"
	mux "github.com/cbeuw/Cloak/internal/multiplex"
	kit "github.com/cbeuw/Cloak/internal/verifkit"
	log "github.com/sirupsen/logrus"
)

type x02uStream struct {
	conn   net.Conn
	sess   int
	got    [][]byte
	closed bool // Read has failed: the client closed the stream (or the session went)
}

type x02uFar struct {
	mu       sync.Mutex
	streams  []*x02uStream
	sessions []*mux.Session // far-end sessions in the order they were made
	client   []*mux.Session
	made     int
	single   bool
}

func (f *x02uFar) newSession() *mux.Session {
	f.mu.Lock()
	f.made++
	id := f.made
	f.mu.Unlock()
	var key [32]byte
	key[0] = byte(id)
	mk := func(single bool) *mux.Session {
		o, _ := mux.MakeObfuscator(mux.EncryptionMethodPlain, key)
		return mux.MakeSession(uint32(500+id), mux.SessionConfig{Obfuscator: o, Unordered: true, Singleplex: single, MsgOnWireSizeLimit: appDataMaxLength, InactivityTimeout: time.Hour})
	}
	cs, ss := mk(f.single), mk(false) // as ck-client / ck-server configure them
	l := kit.NewVNet().NewLink(false, false)
	cs.AddConnection(common.NewTLSConn(l.End(0)))
	ss.AddConnection(common.NewTLSConn(l.End(1)))
	f.mu.Lock()
	f.sessions = append(f.sessions, ss)
	f.client = append(f.client, cs)
	f.mu.Unlock()
	go func() {
		for {
			c, err := ss.Accept()
			if err != nil {
				return
			}
			st := &x02uStream{conn: c, sess: id}
			f.mu.Lock()
			f.streams = append(f.streams, st)
			f.mu.Unlock()
			go func() {
				buf := make([]byte, 9000)
				for {
					n, err := c.Read(buf)
					if err != nil {
						f.mu.Lock()
						st.closed = true
						f.mu.Unlock()
						return
					}
					f.mu.Lock()
					st.got = append(st.got, append([]byte(nil), buf[:n]...))
					f.mu.Unlock()
				}
			}()
		}
	}()
	return cs
}

func (f *x02uFar) snapshot() (n int, streams []*x02uStream) {
	f.mu.Lock()
	defer f.mu.Unlock()
	return f.made, append([]*x02uStream(nil), f.streams...)
}

func x02uWait(limit time.Duration, cond func() bool) bool {
	end := time.Now().Add(limit)
	for time.Now().Before(end) {
		if cond() {
			return true
		}
		time.Sleep(2 * time.Millisecond)
	}
	return cond()
}

func x02uDgram(src, n int) []byte { return []byte(fmt.Sprintf("x02-src%d-dgram%d", src, n)) }

type x02uSrc struct {
	c    *net.UDPConn
	mu   sync.Mutex
	recv []string
}

func x02uNewSrc(t *testing.T, to *net.UDPAddr) *x02uSrc {
	c, err := net.DialUDP("udp", nil, to)
	if err != nil {
		t.Fatal(err)
	}
	s := &x02uSrc{c: c}
	go func() {
		buf := make([]byte, 9000)
		for {
			n, err := c.Read(buf)
			if err != nil {
				return
			}
			s.mu.Lock()
			s.recv = append(s.recv, string(buf[:n]))
			s.mu.Unlock()
		}
	}()
	return s
}

func (s *x02uSrc) received() []string {
	s.mu.Lock()
	defer s.mu.Unlock()
	return append([]string(nil), s.recv...)
}

const x02uLimit = 40 * time.Second

// x02uHook parks the next goroutine that logs RouteUDP's "copying stream to proxy client" (a reader leaving its loop)
type x02uHook struct {
	mu      sync.Mutex
	armed   bool
	parked  chan struct{}
	release chan struct{}
}

func (h *x02uHook) Levels() []log.Level { return []log.Level{log.TraceLevel} }
func (h *x02uHook) Fire(e *log.Entry) error {
	if !strings.HasPrefix(e.Message, "copying stream to proxy client") {
		return nil
	}
	h.mu.Lock()
	armed, p, r := h.armed, h.parked, h.release
	h.armed = false
	h.mu.Unlock()
	if armed {
		close(p)
		<-r
	}
	return nil
}

func (h *x02uHook) arm() (parked, release chan struct{}) {
	h.mu.Lock()
	defer h.mu.Unlock()
	h.armed, h.parked, h.release = true, make(chan struct{}), make(chan struct{})
	return h.parked, h.release
}

var x02uTheHook = &x02uHook{}
var x02uHookOnce sync.Once

func x02uInstallHook() {
	x02uHookOnce.Do(func() { log.AddHook(x02uTheHook) })
	log.SetLevel(log.TraceLevel) // the reader's Tracef is the schedule point; output is discarded
}

// streams at the far end that carry datagrams of source src, in the order they were opened
func (f *x02uFar) streamsOf(src int) []*x02uStream {
	f.mu.Lock()
	defer f.mu.Unlock()
	var out []*x02uStream
	for _, s := range f.streams {
		if len(s.got) > 0 {
			var x, n int
			fmt.Sscanf(string(s.got[0]), "x02-src%d-dgram%d", &x, &n)
			if x == src {
				out = append(out, s)
			}
		}
	}
	return out
}

// x02uWindow: the D22 window, forced. Returns false if the scenario could not be set up (drift).
func x02uWindow(t *testing.T, res *kit.Result, round int) bool {
	far := &x02uFar{}
	local, err := net.ListenUDP("udp", &net.UDPAddr{IP: net.IPv4(127, 0, 0, 1)})
	if err != nil {
		t.Fatal(err)
	}
	go RouteUDP(func() (*net.UDPConn, error) { return local, nil }, 30*time.Second, false, far.newSession)
	srcID := 70 + round
	src := x02uNewSrc(t, local.LocalAddr().(*net.UDPAddr))
	defer src.c.Close()
	defer func() { // the readers of this round end with their sessions
		far.mu.Lock()
		for _, s := range far.sessions {
			s.Close()
		}
		far.mu.Unlock()
	}()
	n := 0
	send := func() { n++; src.c.Write(x02uDgram(srcID, n)) }
	drift := func(format string, a ...any) bool {
		res.Stat("diverged", 1)
		res.Note("UDP window round %d: "+format, append([]any{round}, a...)...)
		return false
	}
	send()
	if !x02uWait(x02uLimit, func() bool { return len(far.streamsOf(srcID)) == 1 }) {
		return drift("the first datagram did not open a stream")
	}
	s1 := far.streamsOf(srcID)[0]
	parked, release := x02uTheHook.arm()
	s1.conn.Close() // the far end closes the stream: the client's reader leaves its loop - and is parked before the lock
	select {
	case <-parked:
	case <-time.After(x02uLimit):
		return drift("the reader of the closed stream never reached its Tracef")
	}
	// the loop's Write on the old stream fails (that datagram is lost), the next datagram opens stream 2
	if !x02uWait(x02uLimit, func() bool { send(); time.Sleep(5 * time.Millisecond); return len(far.streamsOf(srcID)) >= 2 }) {
		close(release)
		return drift("no second stream was opened after the first had been closed")
	}
	before := runtime.NumGoroutine()
	close(release) // the old reader now cleans up: it must leave the entry of stream 2 alone
	x02uWait(5*time.Second, func() bool { return runtime.NumGoroutine() < before })
	time.Sleep(10 * time.Millisecond)
	s2 := far.streamsOf(srcID)[1]
	far.mu.Lock()
	got2 := len(s2.got)
	far.mu.Unlock()
	for k := 0; k < 4; k++ {
		send()
		time.Sleep(5 * time.Millisecond)
	}
	x02uWait(3*time.Second, func() bool {
		far.mu.Lock()
		defer far.mu.Unlock()
		return len(s2.got) > got2 || len(far.streams) > 2
	})
	time.Sleep(20 * time.Millisecond)
	ss := far.streamsOf(srcID)
	far.mu.Lock()
	s2closed, grew := s2.closed, len(s2.got) > got2
	far.mu.Unlock()
	res.Count(fmt.Sprintf("udp-window-%d", round), true)
	if len(ss) >= 3 && !s2closed {
		// is the orphan's reader alive? a reply on stream 2 still reaches the source
		s2.conn.Write([]byte("reply-on-stream-2"))
		alive := x02uWait(3*time.Second, func() bool {
			for _, d := range src.received() {
				if d == "reply-on-stream-2" {
					return true
				}
			}
			return false
		})
		res.Violate("relay-udp-orphan-stream", fmt.Sprintf("RouteUDP: the far end closed stream 1 of an address; while that stream's reader goroutine was between its loop and the table lock the loop "+
			"failed its Write on stream 1 and opened stream 2 for the address; after the reader finished, the next datagrams of the address opened stream %d although stream 2 is open "+
			"(reader goroutine alive, reply relayed: %v) - stream 2 is no longer in the table, the table holds another stream for the address", len(ss), alive),
			map[string]any{"scenario": "udp-window", "streams_of_address": len(ss)})
		return true
	}
	if !grew {
		return drift("after the old reader finished, the datagrams of the address arrived neither on stream 2 nor on a new stream")
	}
	return true
}

func TestVerifX02UDP(t *testing.T) {
	log.SetOutput(io.Discard)
	res := kit.NewResult()
	defer func() { res.Save(true) }()
	probe, err := net.ListenUDP("udp", &net.UDPAddr{IP: net.IPv4(127, 0, 0, 1)})
	if err != nil {
		res.Note("loopback UDP is not available here (%v): datagram relay scenarios skipped", err)
		res.Stat("skipped", 1)
		return
	}
	probe.Close()
	x02uInstallHook()
	for round := 0; round < 3; round++ {
		x02uWindow(t, res, round)
	}
	for _, single := range []bool{false, true} {
		far := &x02uFar{single: single}
		local, err := net.ListenUDP("udp", &net.UDPAddr{IP: net.IPv4(127, 0, 0, 1)})
		if err != nil {
			t.Fatal(err)
		}
		streamTimeout := 1500 * time.Millisecond
		base := runtime.NumGoroutine()
		go RouteUDP(func() (*net.UDPConn, error) { return local, nil }, streamTimeout, single, far.newSession)
		to := local.LocalAddr().(*net.UDPAddr)
		mode := map[bool]string{false: "multiplex", true: "singleplex"}[single]
		drift := func(format string, a ...any) {
			res.Stat("diverged", 1)
			res.Note("UDP %s: "+format, append([]any{mode}, a...)...)
		}

		// --- scenario 1: two sources, one stream each, no cross-talk in either direction
		a, b := x02uNewSrc(t, to), x02uNewSrc(t, to)
		for n := 1; n <= 3; n++ {
			a.c.Write(x02uDgram(1, n))
			b.c.Write(x02uDgram(2, n))
			time.Sleep(time.Millisecond)
		}
		if !x02uWait(x02uLimit, func() bool {
			_, ss := far.snapshot()
			tot := 0
			for _, s := range ss {
				far.mu.Lock()
				tot += len(s.got)
				far.mu.Unlock()
			}
			return tot >= 6
		}) {
			drift("6 datagrams sent on loopback, fewer arrived at the far end (UDP loss?)")
		}
		made, ss := far.snapshot()
		wantSess := 1
		if single {
			wantSess = 2
		}
		if len(ss) != 2 {
			res.Violate("relay-crosstalk", fmt.Sprintf("UDP %s: 2 source addresses, %d streams at the far end (one stream per source expected)", mode, len(ss)), nil)
		}
		if made != wantSess {
			key := "relay-session-surplus"
			if single && made < 2 {
				key = "relay-singleplex-shared"
			}
			res.Violate(key, fmt.Sprintf("UDP %s: %d sessions were made for 2 sources (expected %d)", mode, made, wantSess), nil)
		}
		for k, s := range ss {
			far.mu.Lock()
			src := 0
			for _, d := range s.got {
				var x, n int
				fmt.Sscanf(string(d), "x02-src%d-dgram%d", &x, &n)
				if src == 0 {
					src = x
				}
				if x != src {
					res.Violate("relay-crosstalk", fmt.Sprintf("UDP %s: stream #%d at the far end carries datagrams of source %d and of source %d", mode, k+1, src, x), nil)
				}
			}
			far.mu.Unlock()
			s.conn.Write([]byte(fmt.Sprintf("reply-to-src%d", src))) // the reply must reach that source only
		}
		x02uWait(x02uLimit, func() bool { return len(a.received()) >= 1 && len(b.received()) >= 1 })
		for k, s := range []*x02uSrc{a, b} {
			for _, d := range s.received() {
				if d != fmt.Sprintf("reply-to-src%d", k+1) {
					res.Violate("relay-crosstalk", fmt.Sprintf("UDP %s: source %d received %q", mode, k+1, d), nil)
				}
			}
			if len(s.received()) == 0 {
				drift("source %d did not get its reply", k+1)
			}
		}
		res.Count("udp-sources-"+mode, true)

		// --- scenario 2: stream timeout. Nothing for > streamTimeout: both streams are closed by the client, the
		// entries are gone: the next datagram of source 1 opens a NEW stream (multiplex: on the same session)
		if !x02uWait(x02uLimit, func() bool {
			far.mu.Lock()
			defer far.mu.Unlock()
			return len(ss) == 2 && ss[0].closed && ss[1].closed
		}) {
			res.Violate("relay-orphan-conn", fmt.Sprintf("UDP %s: streams idle for much longer than streamTimeout (%v) were not closed by the relay", mode, streamTimeout), nil)
		}
		a.c.Write(x02uDgram(1, 4))
		if !x02uWait(x02uLimit, func() bool {
			_, s2 := far.snapshot()
			if len(s2) < 3 {
				return false
			}
			far.mu.Lock()
			defer far.mu.Unlock()
			return len(s2[2].got) >= 1
		}) {
			drift("the datagram after the timeout did not arrive on a new stream")
		}
		made2, ss2 := far.snapshot()
		if len(ss2) == 3 {
			far.mu.Lock()
			ok := len(ss2[2].got) == 1 && string(ss2[2].got[0]) == string(x02uDgram(1, 4))
			far.mu.Unlock()
			if !ok {
				res.Violate("relay-bytes-wrong", fmt.Sprintf("UDP %s: the stream opened after the timeout does not carry the datagram that opened it", mode), nil)
			}
		}
		wantSess2 := 1
		if single {
			wantSess2 = 3
		}
		if made2 != wantSess2 {
			res.Violate("relay-session-surplus", fmt.Sprintf("UDP %s: %d sessions made after a stream timeout and one more datagram (expected %d)", mode, made2, wantSess2), nil)
		}
		res.Count("udp-timeout-"+mode, true)

		// --- scenario 3: the far end closes the session: every stream of it ends; the next datagrams get exactly one
		// new session (the first may be lost on the dead stream's entry: DatagramLostOnDeadStream)
		far.mu.Lock()
		last := far.sessions[len(far.sessions)-1]
		lastClient := far.client[len(far.client)-1]
		far.mu.Unlock()
		last.Close()
		if !x02uWait(x02uLimit, func() bool { return lastClient.IsClosed() }) {
			drift("client session did not notice the far end's close")
		}
		time.Sleep(20 * time.Millisecond)
		for n := 5; n <= 9; n++ {
			a.c.Write(x02uDgram(1, n))
			time.Sleep(5 * time.Millisecond)
		}
		if !x02uWait(x02uLimit, func() bool { m, _ := far.snapshot(); return m >= made2+1 }) {
			res.Violate("relay-closed-session-reused", fmt.Sprintf("UDP %s: the session was closed by the far end, 5 more datagrams were sent, no new session was made", mode), nil)
		}
		x02uWait(2*time.Second, func() bool { _, s3 := far.snapshot(); return len(s3) >= 4 })
		made3, ss3 := far.snapshot()
		if made3 > made2+1 {
			res.Violate("relay-session-surplus", fmt.Sprintf("UDP %s: %d new sessions were made for one source after the session closed (expected 1)", mode, made3-made2), nil)
		}
		newStreams := len(ss3) - len(ss2)
		res.Stat("udp_streams_after_session_close", int64(newStreams))
		if newStreams > 1 {
			// more than one stream for one source within 25 ms: deletion by key (Dev DeleteByKey of RelayUDP.tla)
			res.Stat("staledelete_seen", 1)
			res.Violate("relay-udp-orphan-stream", fmt.Sprintf("UDP %s: %d streams were opened for ONE address within 25 ms after its session closed: a stream lost its table entry to the clean-up of an older one (defect D22)", mode, newStreams),
				map[string]any{"scenario": "udp-session-close"})
		}
		res.Count("udp-session-close-"+mode, true)

		// --- quiescence: after another timeout nothing but the loop goroutine remains
		time.Sleep(streamTimeout + 500*time.Millisecond)
		far.mu.Lock()
		for _, s := range far.sessions {
			s.Close()
		}
		far.mu.Unlock()
		a.c.Close()
		b.c.Close()
		if !x02uWait(x02uLimit, func() bool { return runtime.NumGoroutine() <= base+1 }) {
			buf := make([]byte, 1<<18)
			res.Violate("relay-orphan-conn", fmt.Sprintf("UDP %s: every stream has timed out and every session is closed, but %d goroutines remain besides RouteUDP's loop", mode, runtime.NumGoroutine()-base-1),
				map[string]any{"stacks": string(buf[:runtime.Stack(buf, true)])})
		}
		res.Count("udp-quiescence-"+mode, true)
		// RouteUDP's loop cannot be stopped (a closed socket makes it spin): the socket stays open until the process ends
	}
}

// TestVerifX02UDPStaleDelete looks for the model's StaleDelete on the real code without a hook: the far end closes a
// source's stream and the source sends a burst at once; if the old reader goroutine is late, its delete-by-key removes
// the entry of the stream the burst has just opened and the burst opens ANOTHER one. Counts only (a probe, no verdict).
func TestVerifX02UDPStaleDelete(t *testing.T) {
	log.SetOutput(io.Discard)
	log.SetLevel(log.PanicLevel)
	res := kit.NewResult()
	defer func() { res.Save(true) }()
	far := &x02uFar{}
	local, err := net.ListenUDP("udp", &net.UDPAddr{IP: net.IPv4(127, 0, 0, 1)})
	if err != nil {
		res.Note("loopback UDP not available: %v", err)
		return
	}
	go RouteUDP(func() (*net.UDPConn, error) { return local, nil }, 30*time.Second, false, far.newSession)
	to := local.LocalAddr().(*net.UDPAddr)
	rounds := kit.EnvInt("X02_UDP_ROUNDS", 300)
	for r := 0; r < rounds; r++ {
		src := x02uNewSrc(t, to)
		_, before := far.snapshot()
		src.c.Write(x02uDgram(r, 0))
		if !x02uWait(10*time.Second, func() bool { _, s := far.snapshot(); return len(s) == len(before)+1 }) {
			src.c.Close()
			continue
		}
		_, now := far.snapshot()
		st := now[len(now)-1]
		go st.conn.Close()
		for n := 1; n <= 12; n++ {
			src.c.Write(x02uDgram(r, n))
			if n%3 == 0 {
				runtime.Gosched()
			}
		}
		time.Sleep(30 * time.Millisecond)
		_, after := far.snapshot()
		opened := len(after) - len(now)
		res.Count(fmt.Sprintf("round-%d", r), true)
		res.Stat(fmt.Sprintf("streams_reopened_%d", opened), 1)
		if opened > 1 {
			res.Stat("staledelete_seen", 1)
			res.Violate("relay-udp-orphan-stream", fmt.Sprintf("RouteUDP: one stream of an address was closed by the far end and %d streams were opened for the address by the burst that followed "+
				"(round %d of %d, no hook): a stream that lost its table entry (defect D22)", opened, r, rounds), map[string]any{"scenario": "udp-probe"})
		}
		src.c.Close()
	}
}
