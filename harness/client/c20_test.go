package client

// C20 - client configuration is honoured exactly as documented, in both input syntaxes.
// B1: every row of the decision table enumerated by TLC from spec/ClientConfigGen.tla (abstract raw
//     options + the README's expectation) is concretised (a) as a JSON file and (b) as the equivalent
//     semicolon separated option string (values escaped the way SIP003 plugin hosts do: '\' ';' '='
//     prefixed with '\'), pushed through the real ParseConfig + ProcessRawConfig, and the processed
//     RemoteConnConfig / LocalConnConfig / AuthInfo are compared with the expectation. Outputs the
//     README is silent about ("undocumented") are logged, never judged. Both syntaxes must agree, and
//     invalid rows must produce an error, not a panic.

import (
	"bytes"
	"encoding/base64"
	"encoding/json"
	"fmt"
	"io"
	"net"
	"net/url"
	"os"
	"path/filepath"
	"reflect"
	"sort"
	"strconv"
	"strings"
	"sync"
	"testing"
	"time"

	"github.com/cbeuw/Cloak/internal/common"
	mux "github.com/cbeuw/Cloak/internal/multiplex"
	kit "github.com/cbeuw/Cloak/internal/verifkit"
	log "github.com/sirupsen/logrus"
)

const c20U = "undocumented"

// order in which the options are written (same as Order in the spec)
var c20Order = []string{"Transport", "BrowserSig", "CDNOriginHost", "CDNWsUrlPath", "RemoteHost",
	"NumConn", "KeepAlive", "StreamTimeout", "AlternativeNames", "EncryptionMethod", "UDP",
	"ServerName", "ProxyMethod", "UID", "PublicKey", "RemotePort", "LocalHost", "LocalPort"}

var c20Base = map[string]string{"Transport": "direct", "BrowserSig": "chrome", "CDNOriginHost": "absent",
	"CDNWsUrlPath": "absent", "NumConn": "pos", "KeepAlive": "absent", "StreamTimeout": "pos",
	"AlternativeNames": "absent", "EncryptionMethod": "plain", "UDP": "absent", "ServerName": "set",
	"ProxyMethod": "set", "UID": "set", "PublicKey": "set", "RemoteHost": "set", "RemotePort": "set",
	"LocalHost": "set", "LocalPort": "set"}

var c20Required = map[string]bool{"ServerName": true, "ProxyMethod": true, "UID": true, "PublicKey": true,
	"RemoteHost": true, "RemotePort": true, "LocalHost": true, "LocalPort": true}

type c20Exp struct {
	Outcome    string   `json:"outcome"`
	Mode       string   `json:"mode"`
	Browser    string   `json:"browser"`
	WsHost     string   `json:"wsHost"`
	WsPath     string   `json:"wsPath"`
	Singleplex string   `json:"singleplex"`
	NumConn    string   `json:"numConn"`
	KeepAlive  string   `json:"keepAlive"`
	Timeout    string   `json:"timeout"`
	Names      []string `json:"names"`
	Enc        string   `json:"enc"`
	Unordered  string   `json:"unordered"`
	Dialer     string   `json:"dialer"` // socket level meaning of KeepAlive: judged by harness/cmd/ck-client/c20_main_test.go
}

type c20Row struct {
	Cfg map[string]string `json:"cfg"`
	Exp c20Exp            `json:"exp"`
}

// c20Conc is one concretisation of a row; it is a pure function of (row, Variant).
type c20Conc struct {
	Variant    uint64   `json:"variant"`
	NumConn    int      `json:"numConn"`
	KeepAlive  int      `json:"keepAlive"`
	Timeout    int      `json:"streamTimeout"`
	Origin     string   `json:"cdnOriginHost"`
	WsPath     string   `json:"cdnWsUrlPath"`
	AltA       string   `json:"altA"`
	AltB       string   `json:"altB"`
	ServerName string   `json:"serverName"`
	Proxy      string   `json:"proxyMethod"`
	UID        []byte   `json:"uid"`
	PubKey     []byte   `json:"publicKey"`
	RemoteHost string   `json:"remoteHost"`
	RemotePort string   `json:"remotePort"`
	LocalHost  string   `json:"localHost"`
	LocalPort  string   `json:"localPort"`
	HostsVia   string   `json:"hostsVia"` // "config": the four addresses are options; "cmdline": set on the RawConfig like ck-client -i -l -s -p / SS_* do
	SsvOrder   []string `json:"ssvOrder"`
	Trailing   bool     `json:"ssvTrailingSemicolon"`
}

func c20Concretise(row *c20Row, variant uint64) c20Conc {
	r := kit.NewRng(int64(variant))
	pick := func(xs ...string) string { return xs[r.Intn(len(xs))] }
	picki := func(xs ...int) int { return xs[r.Intn(len(xs))] }
	c := c20Conc{Variant: variant}
	switch row.Cfg["NumConn"] {
	case "neg":
		c.NumConn = picki(-1, -4, -2147483648)
	case "pos":
		c.NumConn = picki(1, 4, 4, 16, 255)
	}
	switch row.Cfg["KeepAlive"] {
	case "neg":
		c.KeepAlive = picki(-1, -15, -2147483648)
	case "pos":
		c.KeepAlive = picki(1, 15, 60, 7200, 86400)
	}
	if row.Cfg["StreamTimeout"] == "pos" {
		c.Timeout = picki(1, 30, 300, 301, 86400)
	}
	c.Origin = pick("origin.example.com", "cloak.example.net", "203.0.113.80")
	c.WsPath = pick("/ws", "/cloak/entry", "/ws?k=v", "/a=b/c")
	c.AltA = pick("cloudflare.com", "a.example.org")
	c.AltB = pick("github.com", "b.example.org")
	c.ServerName = pick("www.bing.com", "bing.com", "example.com")
	c.Proxy = pick("shadowsocks", "openvpn", "tor")
	c.UID = r.Bytes(16)
	c.PubKey = r.Bytes(32)
	if row.Cfg["PublicKey"] == "short" {
		c.PubKey = r.Bytes(picki(1, 16, 31))
	}
	c.RemoteHost = pick("203.0.113.7", "server.example.com", "2001:db8::7")
	c.RemotePort = pick("443", "8443")
	c.LocalHost = pick("127.0.0.1", "::1", "localhost")
	c.LocalPort = pick("1984", "1080")
	c.HostsVia = pick("config", "config", "cmdline")
	for _, i := range r.Perm(len(c20Order)) {
		c.SsvOrder = append(c.SsvOrder, c20Order[i])
	}
	c.Trailing = r.Intn(2) == 0
	return c
}

// c20Options returns the concrete option values that go into the configuration text (absent ones are
// missing from the map). Values are Go values: string, int, bool, []string.
func c20Options(row *c20Row, c *c20Conc) map[string]any {
	o := map[string]any{}
	for _, name := range c20Order {
		v := row.Cfg[name]
		if v == "absent" {
			continue
		}
		switch name {
		case "Transport", "BrowserSig", "EncryptionMethod":
			o[name] = v // the abstract value is the literal name
		case "CDNOriginHost":
			o[name] = c.Origin
		case "CDNWsUrlPath":
			o[name] = c.WsPath
		case "NumConn":
			o[name] = c.NumConn
		case "KeepAlive":
			o[name] = c.KeepAlive
		case "StreamTimeout":
			o[name] = c.Timeout
		case "AlternativeNames":
			o[name] = map[string][]string{"empty": {}, "e": {""}, "a": {c.AltA}, "ab": {c.AltA, c.AltB}, "aeb": {c.AltA, "", c.AltB}}[v]
		case "UDP":
			o[name] = v == "true"
		case "ServerName":
			o[name] = c.ServerName
		case "ProxyMethod":
			o[name] = c.Proxy
		case "UID":
			if v == "badb64" {
				o[name] = "---Your UID here---" // the placeholder of example_config/ckclient.json
			} else {
				o[name] = base64.StdEncoding.EncodeToString(c.UID)
			}
		case "PublicKey":
			o[name] = base64.StdEncoding.EncodeToString(c.PubKey)
		case "RemoteHost", "RemotePort", "LocalHost", "LocalPort":
			if c.HostsVia == "config" {
				o[name] = c20Addr(c, name)
			}
		}
	}
	return o
}

func c20Addr(c *c20Conc, name string) string {
	return map[string]string{"RemoteHost": c.RemoteHost, "RemotePort": c.RemotePort, "LocalHost": c.LocalHost, "LocalPort": c.LocalPort}[name]
}

func c20JSON(opts map[string]any) []byte {
	b, err := json.MarshalIndent(opts, "", "  ")
	if err != nil {
		panic(err)
	}
	return b
}

// c20Escape is what a SIP003 plugin host does to option values: '\', '=' and ';' get a backslash.
func c20Escape(s string) string {
	s = strings.ReplaceAll(s, `\`, `\\`)
	s = strings.ReplaceAll(s, `=`, `\=`)
	s = strings.ReplaceAll(s, `;`, `\;`)
	return s
}

func c20SSV(opts map[string]any, c *c20Conc) string {
	var parts []string
	for _, name := range c.SsvOrder {
		v, ok := opts[name]
		if !ok {
			continue
		}
		var s string
		switch x := v.(type) {
		case string:
			s = c20Escape(x)
		case int:
			s = strconv.Itoa(x)
		case bool:
			s = strconv.FormatBool(x)
		case []string:
			// the option string has one spelling for "no names": an empty value
			esc := make([]string, len(x))
			for i := range x {
				esc[i] = c20Escape(x[i])
			}
			s = strings.Join(esc, ",")
		}
		parts = append(parts, name+"="+s)
	}
	out := strings.Join(parts, ";")
	if len(parts) > 0 && (c.Trailing || len(parts) == 1) {
		out += ";"
	}
	return out
}

// c20Obs is what the real code did with one input text.
type c20Obs struct {
	Panic  string
	Err    string
	Stage  string
	Local  LocalConnConfig
	Remote RemoteConnConfig
	Auth   AuthInfo
}

var c20World = common.WorldOfTime(time.Unix(1700000000, 0))

func c20Process(arg string, row *c20Row, c *c20Conc) (obs c20Obs) {
	defer func() {
		if p := recover(); p != nil {
			obs.Panic = fmt.Sprint(p)
		}
	}()
	obs.Stage = "ParseConfig"
	raw, err := ParseConfig(arg)
	if err != nil {
		obs.Err = err.Error()
		return
	}
	if c.HostsVia == "cmdline" {
		// what cmd/ck-client does between ParseConfig and ProcessRawConfig
		for _, name := range []string{"RemoteHost", "RemotePort", "LocalHost", "LocalPort"} {
			if row.Cfg[name] != "set" {
				continue
			}
			switch name {
			case "RemoteHost":
				raw.RemoteHost = c.RemoteHost
			case "RemotePort":
				raw.RemotePort = c.RemotePort
			case "LocalHost":
				raw.LocalHost = c.LocalHost
			case "LocalPort":
				raw.LocalPort = c.LocalPort
			}
		}
	}
	obs.Stage = "ProcessRawConfig"
	obs.Local, obs.Remote, obs.Auth, err = raw.ProcessRawConfig(c20World)
	if err != nil {
		obs.Err = err.Error()
	}
	return
}

type c20Finding struct{ Key, What string }

func c20SortedCopy(xs []string) []string {
	out := append([]string{}, xs...)
	sort.Strings(out)
	return out
}

// c20Judge compares one observation with the documented expectation of the row.
func c20Judge(row *c20Row, c *c20Conc, obs *c20Obs, syntax string, stat func(string), verbose bool) (fs []c20Finding, table []string) {
	e := &row.Exp
	add := func(key, format string, a ...any) {
		fs = append(fs, c20Finding{key, syntax + ": " + fmt.Sprintf(format, a...)})
	}
	tab := func(format string, a ...any) {
		if verbose {
			table = append(table, syntax+": "+fmt.Sprintf(format, a...))
		}
	}
	if obs.Panic != "" {
		tab("PANIC in %s: %s", obs.Stage, obs.Panic)
		add("panic", "%s panicked: %s", obs.Stage, obs.Panic)
		return
	}
	tab("outcome: expected %s, observed err=%q (%s)", e.Outcome, obs.Err, obs.Stage)
	switch e.Outcome {
	case "error":
		if obs.Err == "" {
			bad := "EncryptionMethod"
			for _, name := range c20Order {
				if c20Required[name] && row.Cfg[name] != "set" {
					bad = name
					break
				}
			}
			add("accepted-invalid:"+bad+":"+row.Cfg[bad], "configuration with %s=%s was accepted without an error", bad, row.Cfg[bad])
		}
		return
	case "ok":
		if obs.Err != "" {
			add("rejected-valid", "a complete, documented configuration was rejected by %s: %s", obs.Stage, obs.Err)
			return
		}
	default:
		stat(fmt.Sprintf("undoc:EncryptionMethod=%s->err=%v", row.Cfg["EncryptionMethod"], obs.Err != ""))
		if obs.Err != "" {
			return
		}
	}
	field := func(opt, what string, documented bool, want, got any) {
		if !documented {
			tab("%s=%s: %s undocumented, observed %v", opt, row.Cfg[opt], what, got)
			stat(fmt.Sprintf("undoc:%s=%s->%s=%v", opt, row.Cfg[opt], what, got))
			return
		}
		okv := reflect.DeepEqual(want, got)
		tab("%s=%s: %s expected %v observed %v ok=%v", opt, row.Cfg[opt], what, want, got, okv)
		if !okv {
			add(opt+":"+row.Cfg[opt], "%s=%s (%s): documented %s is %v, the processed configuration has %v", opt, row.Cfg[opt], c20Concrete(row, c, opt), what, want, got)
		}
	}
	// NumConn
	field("NumConn", "Singleplex", e.Singleplex != c20U, e.Singleplex == "yes", obs.Remote.Singleplex)
	wantN := 1
	if e.NumConn == "N" {
		wantN = c.NumConn
	}
	field("NumConn", "NumConn", e.NumConn != c20U, wantN, obs.Remote.NumConn)
	// KeepAlive: the value is handed to net.Dialer.KeepAlive, for which "disabled" is any negative duration
	if e.KeepAlive == "N" {
		field("KeepAlive", "keep-alive period", true, time.Duration(c.KeepAlive)*time.Second, obs.Remote.KeepAlive)
	} else {
		field("KeepAlive", fmt.Sprintf("keep-alive disabled (net.Dialer: a negative period; observed %v)", obs.Remote.KeepAlive), true, true, obs.Remote.KeepAlive < 0)
	}
	// StreamTimeout
	field("StreamTimeout", "Timeout", e.Timeout != c20U, time.Duration(c.Timeout)*time.Second, obs.Local.Timeout)
	// Transport, BrowserSig, CDN options: through the behaviour of CreateTransport
	tr := obs.Remote.Transport.CreateTransport()
	gotMode := "none"
	switch tr.(type) {
	case *DirectTLS:
		gotMode = "direct"
	case *WSOverTLS:
		gotMode = "cdn"
	}
	field("Transport", "transport", e.Mode != c20U, e.Mode, gotMode)
	if e.Mode == gotMode || e.Mode == c20U {
		switch t := tr.(type) {
		case *DirectTLS:
			names := map[browser]string{chrome: "chrome", firefox: "firefox", safari: "safari"}
			field("BrowserSig", "browser", e.Browser != c20U, e.Browser, names[t.browser])
			if e.Mode == "direct" {
				// "This only has effect when Transport is set to CDN"
				same := reflect.DeepEqual(tr, TransportConfig{mode: "direct", browser: t.browser}.CreateTransport())
				for _, opt := range []string{"CDNOriginHost", "CDNWsUrlPath"} {
					field(opt, "no effect on the direct transport", true, true, same)
				}
			}
		case *WSOverTLS:
			u, err := url.Parse(t.wsUrl)
			if err != nil {
				add("CDNWsUrlPath:"+row.Cfg["CDNWsUrlPath"], "websocket URL %q does not parse: %v", t.wsUrl, err)
				break
			}
			wantHost := c.RemoteHost
			if e.WsHost == "origin" {
				wantHost = c.Origin
			}
			field("CDNOriginHost", "websocket Host", true, wantHost, u.Hostname())
			wantPath := "/"
			if e.WsPath == "set" {
				wantPath = c.WsPath
			}
			field("CDNWsUrlPath", "websocket request path", true, wantPath, u.RequestURI())
			stat("undoc:ws-scheme=" + u.Scheme)
		}
	}
	// AlternativeNames: the set of names a connection may present = documented names + ServerName
	var wantNames []string
	for _, n := range e.Names {
		wantNames = append(wantNames, map[string]string{"a": c.AltA, "b": c.AltB, "ServerName": c.ServerName}[n])
	}
	field("AlternativeNames", "server names to shuffle between", true, c20SortedCopy(wantNames), c20SortedCopy(obs.Local.MockDomainList))
	// EncryptionMethod
	encNames := map[byte]string{mux.EncryptionMethodPlain: "plain", mux.EncryptionMethodAES256GCM: "aes-256-gcm",
		mux.EncryptionMethodAES128GCM: "aes-128-gcm", mux.EncryptionMethodChaha20Poly1305: "chacha20-poly1305"}
	field("EncryptionMethod", "encryption method", e.Enc != c20U, e.Enc, encNames[obs.Auth.EncryptionMethod])
	// UDP
	field("UDP", "Unordered", e.Unordered != c20U, e.Unordered == "true", obs.Auth.Unordered)
	// verbatim outputs
	verb := func(name string, want, got any) {
		okv := reflect.DeepEqual(want, got)
		if wb, isBytes := want.([]byte); isBytes {
			want, got = fmt.Sprintf("%x", wb), fmt.Sprintf("%x", got)
		}
		tab("%s: expected %v observed %v ok=%v", name, want, got, okv)
		if !okv {
			add(name, "%s given as %v reaches the processed configuration as %v", name, want, got)
		}
	}
	verb("UID", c.UID, obs.Auth.UID)
	var gotPub []byte
	if p, ok := obs.Auth.ServerPubKey.(*[32]byte); ok && p != nil {
		gotPub = p[:]
	}
	verb("PublicKey", c.PubKey, gotPub)
	verb("ProxyMethod", c.Proxy, obs.Auth.ProxyMethod)
	verb("ServerName", c.ServerName, obs.Auth.MockDomain)
	verb("RemoteAddr", net.JoinHostPort(c.RemoteHost, c.RemotePort), obs.Remote.RemoteAddr)
	verb("LocalAddr", net.JoinHostPort(c.LocalHost, c.LocalPort), obs.Local.LocalAddr)
	return
}

func c20Concrete(row *c20Row, c *c20Conc, opt string) string {
	if v, ok := c20Options(row, c)[opt]; ok {
		return fmt.Sprintf("%v", v)
	}
	return "key absent"
}

// c20Same requires both syntaxes to lead to the same processed configuration (or both to an error).
func c20Same(a, b *c20Obs) (string, string) {
	if a.Panic != "" || b.Panic != "" {
		return "", "" // already reported
	}
	if (a.Err == "") != (b.Err == "") {
		return "outcome", fmt.Sprintf("JSON file: err=%q (%s); option string: err=%q (%s)", a.Err, a.Stage, b.Err, b.Stage)
	}
	if a.Err != "" {
		return "", ""
	}
	la, lb := a.Local, b.Local
	la.MockDomainList, lb.MockDomainList = c20SortedCopy(la.MockDomainList), c20SortedCopy(lb.MockDomainList)
	if !reflect.DeepEqual(la, lb) {
		return "LocalConnConfig", fmt.Sprintf("JSON file: %+v; option string: %+v", la, lb)
	}
	if !reflect.DeepEqual(a.Remote, b.Remote) {
		return "RemoteConnConfig", fmt.Sprintf("JSON file: %+v; option string: %+v", a.Remote, b.Remote)
	}
	aa, ab := a.Auth, b.Auth
	aa.WorldState, ab.WorldState = common.WorldState{}, common.WorldState{}
	if !reflect.DeepEqual(aa, ab) {
		return "AuthInfo", fmt.Sprintf("JSON file: %+v; option string: %+v", aa, ab)
	}
	return "", ""
}

type c20Case struct {
	Row  c20Row  `json:"row"`
	Conc c20Conc `json:"concretisation"`
	JSON string  `json:"json_file"`
	SSV  string  `json:"option_string"`
}

// c20Run evaluates one row under one concretisation.
func c20Run(dir string, row *c20Row, variant uint64, stat func(string), verbose bool) (fs []c20Finding, cs c20Case, table []string) {
	c := c20Concretise(row, variant)
	opts := c20Options(row, &c)
	js := c20JSON(opts)
	ssv := c20SSV(opts, &c)
	cs = c20Case{Row: *row, Conc: c, JSON: string(js), SSV: ssv}
	path := filepath.Join(dir, "ckclient.json")
	if err := os.WriteFile(path, js, 0o600); err != nil {
		panic(err)
	}
	oj := c20Process(path, row, &c)
	oo := c20Process(ssv, row, &c)
	f1, t1 := c20Judge(row, &c, &oj, "JSON file", stat, verbose)
	f2, t2 := c20Judge(row, &c, &oo, "option string", stat, verbose)
	fs = append(f1, f2...)
	table = append(t1, t2...)
	if which, diff := c20Same(&oj, &oo); which != "" {
		fs = append(fs, c20Finding{"syntax:" + which, "the option string and the JSON file give different results: " + diff})
		table = append(table, "syntaxes differ in "+which+": "+diff)
	} else {
		table = append(table, "syntaxes agree")
	}
	return
}

func c20Sig(row *c20Row) (sig string, nontrivial bool) {
	var sb strings.Builder
	for _, name := range c20Order {
		sb.WriteString(row.Cfg[name])
		sb.WriteByte('|')
		if row.Cfg[name] != c20Base[name] {
			nontrivial = true
		}
	}
	return sb.String(), nontrivial
}

func c20Quiet() {
	log.SetOutput(io.Discard)
	log.StandardLogger().ExitFunc = func(int) { panic("logrus exit") }
}

// c20Scratch prefers a memory file system: every evaluation writes and reads one small file.
func c20Scratch(t *testing.T) string {
	if d, err := os.MkdirTemp("/dev/shm", "c20-"); err == nil {
		t.Cleanup(func() { os.RemoveAll(d) })
		return d
	}
	return t.TempDir()
}

func TestVerifC20Replay(t *testing.T) {
	c20Quiet()
	res := kit.NewResult()
	defer func() { res.Save(true) }()
	if rp := kit.Env("VERIF_REPLAY", ""); rp != "" {
		c20ReplayFile(t, c20Scratch(t), rp)
		return
	}
	variants := kit.EnvInt("VERIF_C20_VARIANTS", 1)
	seed := uint64(kit.Seed())
	type job struct {
		idx  uint64
		line []byte
	}
	jobs := make(chan job, 256)
	nw := kit.EnvInt("VERIF_C20_WORKERS", 8)
	var wg sync.WaitGroup
	var mu sync.Mutex
	var firstErr error
	for w := 0; w < nw; w++ {
		wg.Add(1)
		dir := c20Scratch(t)
		go func() {
			defer wg.Done()
			stats := map[string]int64{}
			stat := func(s string) { stats[s]++ }
			for j := range jobs {
				var row c20Row
				dec := json.NewDecoder(bytes.NewReader(j.line))
				dec.DisallowUnknownFields()
				err := dec.Decode(&row)
				if err == nil && len(row.Cfg) != len(c20Order) {
					err = fmt.Errorf("has %d options, the harness knows %d", len(row.Cfg), len(c20Order))
				}
				if err != nil {
					mu.Lock()
					if firstErr == nil {
						firstErr = fmt.Errorf("row %d: %v", j.idx, err)
					}
					mu.Unlock()
					continue
				}
				sig, nontrivial := c20Sig(&row)
				for v := 0; v < variants; v++ {
					variant := seed*0x9E3779B97F4A7C15 + j.idx*1000003 + uint64(v)
					fs, cs, _ := c20Run(dir, &row, variant, stat, false)
					res.Count(sig, nontrivial)
					stats["outcome:"+row.Exp.Outcome]++
					if len(fs) > 0 {
						_, _, table := c20Run(dir, &row, variant, func(string) {}, true)
						for _, f := range fs {
							res.Violate(f.Key, f.What, map[string]any{"case": cs, "table": table})
						}
					}
					if j.idx%4999 == 7 && v == 0 {
						res.Sample(cs, 4)
					}
				}
			}
			for k, n := range stats {
				res.Stat(k, n)
			}
		}()
	}
	idx := uint64(0)
	err := kit.ReadLines(kit.Env("VERIF_IN", ""), func(line []byte) error {
		idx++
		jobs <- job{idx, append([]byte{}, line...)}
		return nil
	})
	close(jobs)
	wg.Wait()
	if err == nil {
		err = firstErr
	}
	if err != nil {
		t.Fatal(err)
	}
	res.Stat("rows", int64(idx))
	// behavioural meaning of StreamTimeout: behaviours of spec/ClientTimeoutsGen.tla against the real RouteTCP
	if tp := kit.Env("VERIF_C20_TIMELINE", ""); tp != "" {
		t.Run("timeline", func(t *testing.T) { c20Timeline(t, res, tp, kit.EnvInt("VERIF_C20_TIMELINE_CONFIGS", 2)) })
	}
	// binding self-test: rows whose KeepAlive expectation is falsified on purpose must be noticed. The
	// outcome goes to the statistics only (tools/props/c20.py refuses to give a verdict if it is missed).
	if pp := kit.Env("VERIF_C20_PROBE", ""); pp != "" {
		dir := c20Scratch(t)
		err := kit.ReadLines(pp, func(line []byte) error {
			var row c20Row
			if err := json.Unmarshal(line, &row); err != nil {
				return err
			}
			row.Exp.KeepAlive = "disabled"
			res.Stat("probe:rows", 1)
			fs, _, _ := c20Run(dir, &row, seed, func(string) {}, false)
			for _, f := range fs {
				if f.Key == "KeepAlive:pos" {
					res.Stat("probe:noticed", 1)
					break
				}
			}
			return nil
		})
		if err != nil {
			t.Fatal(err)
		}
	}
}

func c20ReplayFile(t *testing.T, dir, path string) {
	var rf struct {
		Replay struct {
			Case     c20Case `json:"case"`
			Timeline *struct {
				Behaviour c20TBehaviour `json:"behaviour"`
				Config    c20TConfig    `json:"config"`
			} `json:"timeline"`
		} `json:"replay"`
	}
	raw, err := os.ReadFile(path)
	if err != nil {
		t.Fatal(err)
	}
	if err := json.Unmarshal(raw, &rf); err != nil {
		t.Fatal(err)
	}
	if tl := rf.Replay.Timeline; tl != nil {
		c20TReplayFile(t, dir, &tl.Behaviour, tl.Config)
		return
	}
	row := rf.Replay.Case.Row
	fs, cs, table := c20Run(dir, &row, rf.Replay.Case.Conc.Variant, func(string) {}, true)
	fmt.Println("JSON file:\n" + cs.JSON)
	fmt.Println("option string:\n" + cs.SSV)
	for _, l := range table {
		fmt.Println(l)
	}
	if len(fs) == 0 {
		fmt.Println(`REPLAY-RESULT key="" what=""`)
	}
	for _, f := range fs {
		fmt.Printf("REPLAY-RESULT key=%q what=%q\n", f.Key, f.What)
	}
}
