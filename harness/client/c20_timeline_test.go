package client

// C20, behavioural meaning of StreamTimeout (spec/ClientTimeouts.tla): behaviours exported by TLC from
// ClientTimeoutsGen (pauses around the deadline, first bytes, upload, download, idle periods of 3 x
// StreamTimeout) are replayed against the real client.RouteTCP, fed with the *processed* configuration of a
// concrete config text (ParseConfig + ProcessRawConfig), inside a testing/synctest bubble: the clock is
// virtual, so a 300 s timeout costs nothing and is checked to 1/1000 of its value.
// The proxy-side connection is a net.Pipe (real read AND write deadlines), the listener is a channel, the
// session factory hands out real mux.Sessions connected to a far-end Session over the in-memory network.

import (
	"bytes"
	"encoding/json"
	"errors"
	"fmt"
	"io"
	"net"
	"os"
	"runtime"
	"sync"
	"testing"
	"testing/synctest"
	"time"

	"github.com/cbeuw/Cloak/internal/common"
	mux "github.com/cbeuw/Cloak/internal/multiplex"
	kit "github.com/cbeuw/Cloak/internal/verifkit"
	log "github.com/sirupsen/logrus"
)

type c20TStep struct {
	A    string `json:"a"`
	D    int    `json:"d"`
	Open bool   `json:"open"`
}

type c20TBehaviour struct {
	T     int        `json:"t"`
	Steps []c20TStep `json:"steps"`
}

// c20TConfig is one concrete configuration whose processed form drives RouteTCP.
type c20TConfig struct {
	StreamTimeout string `json:"StreamTimeout"` // "absent", "0" or the number of seconds
	NumConn       int    `json:"NumConn"`       // 0: one-connection-per-stream mode
	Syntax        string `json:"syntax"`        // "json" or "ssv"
}

var c20TConfigs = func() (out []c20TConfig) {
	for i, st := range []string{"1", "7", "absent", "0", "300"} {
		for j, nc := range []int{4, 0} {
			out = append(out, c20TConfig{st, nc, []string{"json", "ssv"}[(i+j)%2]})
		}
	}
	return
}()

type c20TListener struct {
	ch   chan net.Conn
	done chan struct{}
	once sync.Once
}

func (l *c20TListener) Accept() (net.Conn, error) {
	select {
	case c := <-l.ch:
		return c, nil
	case <-l.done:
		return nil, errors.New("listener closed")
	}
}
func (l *c20TListener) Close() error   { l.once.Do(func() { close(l.done) }); return nil }
func (l *c20TListener) Addr() net.Addr { return &net.TCPAddr{IP: net.IPv4(127, 0, 0, 1), Port: 1984} }

// c20TProcess turns the concrete configuration into the values ck-client hands to RouteTCP.
func c20TProcess(dir string, tc c20TConfig) (timeout time.Duration, singleplex bool, text string, err error) {
	row := c20Row{Cfg: map[string]string{}}
	for k, v := range c20Base {
		row.Cfg[k] = v
	}
	c := c20Concretise(&row, 20)
	c.HostsVia = "config"
	c.NumConn = tc.NumConn
	row.Cfg["NumConn"] = "pos"
	if tc.NumConn == 0 {
		row.Cfg["NumConn"] = "zero"
	}
	switch tc.StreamTimeout {
	case "absent":
		row.Cfg["StreamTimeout"] = "absent"
	case "0":
		row.Cfg["StreamTimeout"], c.Timeout = "zero", 0
	default:
		row.Cfg["StreamTimeout"] = "pos"
		fmt.Sscan(tc.StreamTimeout, &c.Timeout)
	}
	opts := c20Options(&row, &c)
	arg := c20SSV(opts, &c)
	text = arg
	if tc.Syntax == "json" {
		arg = dir + "/ckclient-timeline.json"
		text = string(c20JSON(opts))
		if err = os.WriteFile(arg, []byte(text), 0o600); err != nil {
			return
		}
	}
	obs := c20Process(arg, &row, &c)
	if obs.Panic != "" || obs.Err != "" {
		err = fmt.Errorf("configuration not processed: %s%s", obs.Panic, obs.Err)
		return
	}
	return obs.Local.Timeout, obs.Remote.Singleplex, text, nil
}

type c20TOutcome struct {
	Key, What string
	Table     []string
	Streams   int // streams the far end saw
}

// c20TRun replays one behaviour. documented is the StreamTimeout the configuration text promises (0: the text
// does not say, the processed value is taken as is); timeout/singleplex are what ProcessRawConfig produced.
func c20TRun(t *testing.T, b *c20TBehaviour, documented, timeout time.Duration, singleplex bool) (out c20TOutcome) {
	T := documented
	if T == 0 {
		T = timeout
	}
	unit := T / time.Duration(b.T)
	tab := func(format string, a ...any) { out.Table = append(out.Table, fmt.Sprintf(format, a...)) }
	fail := func(key, format string, a ...any) {
		if out.Key == "" {
			out.Key, out.What = key, fmt.Sprintf(format, a...)
		}
	}
	synctest.Test(t, func(t *testing.T) {
		vn := kit.NewVNet()
		var key [32]byte
		var smu sync.Mutex
		var sessions []*mux.Session
		streams := make(chan net.Conn, 16)
		mk := func(id uint32) *mux.Session {
			o, _ := mux.MakeObfuscator(mux.EncryptionMethodPlain, key)
			s := mux.MakeSession(id, mux.SessionConfig{Obfuscator: o, MsgOnWireSizeLimit: appDataMaxLength, InactivityTimeout: 1000 * time.Hour})
			sessions = append(sessions, s)
			return s
		}
		newSesh := func() *mux.Session {
			smu.Lock()
			defer smu.Unlock()
			cs, ss := mk(1), mk(1)
			l := vn.NewLink(false, false)
			cs.AddConnection(common.NewTLSConn(l.End(0)))
			ss.AddConnection(common.NewTLSConn(l.End(1)))
			go func() {
				for {
					st, err := ss.Accept()
					if err != nil {
						return
					}
					streams <- st
				}
			}()
			return cs
		}
		ln := &c20TListener{ch: make(chan net.Conn), done: make(chan struct{})}
		go RouteTCP(ln, timeout, singleplex, newSesh)
		proxy, cloakSide := net.Pipe()
		ln.ch <- cloakSide // accepted now
		start := time.Now()
		synctest.Wait()
		var far net.Conn
		seq := uint64(0)
		isOpen := func() (bool, error) {
			synctest.Wait()
			proxy.SetReadDeadline(time.Now().Add(-time.Second))
			var one [1]byte
			_, err := proxy.Read(one[:])
			proxy.SetReadDeadline(time.Time{})
			return errors.Is(err, os.ErrDeadlineExceeded), err
		}
		established := false
		for i, st := range b.Steps {
			at := func() string { return fmt.Sprintf("%v after accept (StreamTimeout %v)", time.Since(start), T) }
			switch st.A {
			case "wait":
				time.Sleep(time.Duration(st.D) * unit)
				open, err := isOpen()
				tab("step %d wait %d/%d of StreamTimeout: expected open=%v observed open=%v (%v) at %s", i, st.D, b.T, st.Open, open, err, at())
				switch {
				case st.Open && !open && established:
					fail("StreamTimeout:established-connection-timed-out", "an established connection (first bytes sent in time) was closed by Cloak %s", at())
				case st.Open && !open:
					fail("StreamTimeout:closed-early", "a connection that has not sent anything yet was closed %s, before StreamTimeout", at())
				case !st.Open && open:
					fail("StreamTimeout:idle-not-closed", "a connection that never sent anything is still open %s", at())
				}
			case "first", "up":
				seq++
				size := []int{1, 300, 5000, 10240}[int(seq)%4]
				data := kit.TokenBytes(seq, size)
				proxy.SetWriteDeadline(time.Now().Add(unit / 4))
				_, werr := proxy.Write(data)
				proxy.SetWriteDeadline(time.Time{})
				synctest.Wait()
				var got []byte
				var rerr error
				if werr == nil && far == nil {
					select {
					case far = <-streams:
					default:
						rerr = errors.New("no stream reached the far end")
					}
				}
				if werr == nil && far != nil {
					got = make([]byte, size)
					far.SetReadDeadline(time.Now().Add(unit / 4))
					_, rerr = io.ReadFull(far, got)
					far.SetReadDeadline(time.Time{})
				}
				ok := werr == nil && rerr == nil && bytes.Equal(got, data)
				tab("step %d %s %d bytes: write err=%v, far end read err=%v, intact=%v at %s", i, st.A, size, werr, rerr, ok, at())
				if !ok {
					if time.Since(start) > T {
						fail("StreamTimeout:established-connection-timed-out", "upload of %d bytes failed %s (write: %v, far end: %v)", size, at(), werr, rerr)
					} else {
						fail("StreamTimeout:relay-broken:"+st.A, "%d bytes sent by the proxy program did not reach the far end intact %s (write: %v, far end: %v)", size, at(), werr, rerr)
					}
				}
				established = true
			case "down":
				seq++
				size := []int{1, 300, 5000, 16000}[int(seq)%4]
				data := kit.TokenBytes(seq, size)
				var werr, rerr error
				got := make([]byte, size)
				if far == nil {
					werr = errors.New("no stream at the far end")
				} else {
					_, werr = far.Write(data)
				}
				if werr == nil {
					proxy.SetReadDeadline(time.Now().Add(unit / 4))
					_, rerr = io.ReadFull(proxy, got)
					proxy.SetReadDeadline(time.Time{})
				}
				ok := werr == nil && rerr == nil && bytes.Equal(got, data)
				tab("step %d down %d bytes: far end write err=%v, proxy read err=%v, intact=%v at %s", i, size, werr, rerr, ok, at())
				if !ok {
					if time.Since(start) > T {
						fail("StreamTimeout:established-connection-timed-out", "download of %d bytes failed %s (far end write: %v, proxy program read: %v)", size, at(), werr, rerr)
					} else {
						fail("StreamTimeout:relay-broken:down", "%d bytes from the far end did not reach the proxy program intact %s (far end write: %v, read: %v)", size, at(), werr, rerr)
					}
				}
			}
			if out.Key != "" {
				break
			}
		}
		// tear everything down so that the bubble can end
		proxy.Close()
		ln.Close()
		synctest.Wait()
		smu.Lock()
		for _, s := range sessions {
			s.Close()
		}
		smu.Unlock()
		synctest.Wait()
		for {
			select {
			case <-streams:
				out.Streams++
				continue
			default:
			}
			break
		}
		if far != nil {
			out.Streams++
		}
	})
	return
}

func c20TDocumented(tc c20TConfig) time.Duration {
	var n int
	if _, err := fmt.Sscan(tc.StreamTimeout, &n); err == nil && n > 0 {
		return time.Duration(n) * time.Second
	}
	return 0
}

func c20TQuiet() {
	log.SetOutput(io.Discard)
	// RouteTCP calls log.Fatal when the listener is closed and would then spin: end that goroutine instead
	log.StandardLogger().ExitFunc = func(int) { runtime.Goexit() }
}

// c20Timeline replays every behaviour of VERIF_C20_TIMELINE under perBehaviour configurations (rotating).
func c20Timeline(t *testing.T, res *kit.Result, path string, perBehaviour int) {
	c20TQuiet()
	defer c20Quiet()
	dir := c20Scratch(t)
	type proc struct {
		timeout    time.Duration
		singleplex bool
		text       string
		err        error
	}
	procs := make([]proc, len(c20TConfigs))
	for i, tc := range c20TConfigs {
		p := &procs[i]
		p.timeout, p.singleplex, p.text, p.err = c20TProcess(dir, tc)
		if p.err == nil {
			res.Stat(fmt.Sprintf("timeline:config StreamTimeout=%s NumConn=%d -> RouteTCP(timeout=%v, singleplex=%v)", tc.StreamTimeout, tc.NumConn, p.timeout, p.singleplex), 1)
		}
	}
	idx := 0
	err := kit.ReadLines(path, func(line []byte) error {
		var b c20TBehaviour
		if err := json.Unmarshal(line, &b); err != nil {
			return err
		}
		idx++
		nontrivial := false
		for _, st := range b.Steps {
			if st.A != "wait" || !st.Open {
				nontrivial = true // something is sent, or the deadline is crossed
			}
		}
		for k := 0; k < perBehaviour; k++ {
			ci := (idx*perBehaviour + k + int(kit.Seed())) % len(c20TConfigs)
			tc, p := c20TConfigs[ci], procs[ci]
			if p.err != nil {
				res.Violate("rejected-valid", "timeline configuration rejected: "+p.err.Error(), map[string]any{"timeline": map[string]any{"config": tc}})
				continue
			}
			if c20TDocumented(tc) == 0 && p.timeout <= 0 {
				res.Stat("timeline:skipped-undocumented-nonpositive-default", 1)
				continue
			}
			o := c20TRun(t, &b, c20TDocumented(tc), p.timeout, p.singleplex)
			res.Count(fmt.Sprintf("timeline|%s|%v", line, tc), nontrivial)
			res.Stat("timeline:evaluations", 1)
			if len(b.Steps) > 0 && !b.Steps[len(b.Steps)-1].Open && o.Key == "" {
				res.Stat(fmt.Sprintf("undoc:silent-connection-closed->streams-opened=%d", o.Streams), 1)
			}
			if o.Key != "" {
				res.Violate(o.Key, o.What, map[string]any{"timeline": map[string]any{"behaviour": b, "config": tc, "config_text": p.text,
					"processed": map[string]any{"timeout": p.timeout.String(), "singleplex": p.singleplex}, "table": o.Table}})
			}
			if idx%97 == 5 && k == 0 {
				res.Sample(map[string]any{"timeline": map[string]any{"behaviour": b, "config": tc}}, 6)
			}
		}
		return nil
	})
	if err != nil {
		t.Fatal(err)
	}
	res.Stat("timeline:behaviours", int64(idx))
}

func c20TReplayFile(t *testing.T, dir string, b *c20TBehaviour, tc c20TConfig) {
	c20TQuiet()
	timeout, singleplex, text, err := c20TProcess(dir, tc)
	fmt.Printf("configuration (%s):\n%s\nprocessed: RouteTCP(timeout=%v, singleplex=%v) err=%v\n", tc.Syntax, text, timeout, singleplex, err)
	if err != nil {
		return
	}
	o := c20TRun(t, b, c20TDocumented(tc), timeout, singleplex)
	for _, l := range o.Table {
		fmt.Println(l)
	}
	fmt.Printf("REPLAY-RESULT key=%q what=%q\n", o.Key, o.What)
}
