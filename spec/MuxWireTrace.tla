---------------------------- MODULE MuxWireTrace ----------------------------
(* C13 on recorded wire traces.  A passive tap decodes, in wire order, every *)
(* record an endpoint writes: event W(e, sid, seq, cl).  This is the send    *)
(* side of Mux.tla (SendDataFrame / CloseStream: the frame carries wseq, then *)
(* wseq' = wseq + 1; nothing follows the closing frame) with the stream set   *)
(* taken from the trace.  F(e, sid) marks a send that failed (its number is   *)
(* consumed without reaching the wire).  Q(e, sid) is logged by the driver    *)
(* when every write on the stream has completed and Close is about to be      *)
(* called: from then on the only frame allowed is the closing frame, once.    *)
(* (A ReadFrom that passed its closed-check before a concurrent Close may     *)
(* still emit a numbered frame after the closing frame; the statement only    *)
(* orders the close after writes that COMPLETED before it.)                   *)
EXTENDS Integers, Sequences, TLC, Json, IOUtils

Trace == ndJsonDeserialize(IOEnv.VERIF_TRACE)

VARIABLES l, next, closedSent, failed, quiet
tvars == <<l, next, closedSent, failed, quiet>>

Ev == Trace[l]
Key(ev) == <<ev.e, ev.sid>>
Get(f, k, d) == IF k \in DOMAIN f THEN f[k] ELSE d
Put(f, k, v) == [x \in DOMAIN f \cup {k} |-> IF x = k THEN v ELSE f[x]]

TInit == l = 1 /\ next = <<>> /\ closedSent = <<>> /\ failed = <<>> /\ quiet = <<>> /\ TLCSet(1, 1)

Reset == /\ l <= Len(Trace) /\ Ev.ev = "Reset" /\ l' = l + 1
         /\ next' = <<>> /\ closedSent' = <<>> /\ failed' = <<>> /\ quiet' = <<>>

\* Send: enabled only with the stream's current sequence number (a skipped number needs a failed send)
W == /\ l <= Len(Trace) /\ Ev.ev = "W" /\ l' = l + 1
     /\ LET k == Key(Ev)  n == Get(next, k, 0) IN
        /\ Get(quiet, k, FALSE) => (Ev.cl = 1 /\ ~Get(closedSent, k, FALSE))
        /\ Ev.seq = n \/ (Get(failed, k, FALSE) /\ Ev.seq > n)
        /\ next' = Put(next, k, Ev.seq + 1)
        /\ closedSent' = Put(closedSent, k, Get(closedSent, k, FALSE) \/ Ev.cl = 1)
     /\ UNCHANGED <<failed, quiet>>

F == /\ l <= Len(Trace) /\ Ev.ev = "F" /\ l' = l + 1
     /\ failed' = Put(failed, Key(Ev), TRUE)
     /\ UNCHANGED <<next, closedSent, quiet>>

Q == /\ l <= Len(Trace) /\ Ev.ev = "Q" /\ l' = l + 1
     /\ quiet' = Put(quiet, Key(Ev), TRUE)
     /\ UNCHANGED <<next, closedSent, failed>>

TNext == Reset \/ W \/ F \/ Q
TSpec == TInit /\ [][TNext]_tvars

HW == TLCSet(1, IF l > TLCGet(1) THEN l ELSE TLCGet(1))
TraceAccepted ==
  IF TLCGet(1) = Len(Trace) + 1 THEN TRUE
  ELSE PrintT(<<"REJECTED_AT_LINE", TLCGet(1)>>) /\ FALSE
=============================================================================
