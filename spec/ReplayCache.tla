----------------------------- MODULE ReplayCache -----------------------------
(***************************************************************************)
(* C08 - a captured handshake can never be replayed successfully.          *)
(*                                                                         *)
(* Server side replay memory of Cloak (Go: internal/server/state.go        *)
(* UsedRandom / registerRandom / UsedRandomCleaner, auth.go                *)
(* AuthFirstPacket / decryptClientInfo).                                   *)
(*                                                                         *)
(* Time is an integer clock `now` (ticks).  The acceptance window has      *)
(* half-width W ticks and is strict (|ts - now| < W), exactly as           *)
(* decryptClientInfo (After(now-tol) /\ Before(now+tol)).                  *)
(*                                                                         *)
(* A packet is the sealed identity block `b` (ephemeral public key +       *)
(* AES-GCM sealed UID/timestamp/session id) carrying the client timestamp  *)
(* issued[b].  A presentation names the block and the byte variant of the  *)
(* 32-byte random that carries it:                                         *)
(*   "same"    the captured bytes                                          *)
(*   "bit255"  bit 255 of the random flipped: X25519 ignores that bit, so  *)
(*             the shared secret, hence the sealed block, is the same      *)
(* One action per critical section / linearisation point of the code:      *)
(*   Present(b,v) = AuthFirstPacket: registerRandom (test-and-set under    *)
(*                  usedRandomM; the stored time is overwritten on every   *)
(*                  sighting; ANY packet consumes its random) followed by  *)
(*                  decryptClientInfo (window check)                       *)
(*   Clean        = one iteration of UsedRandomCleaner (under usedRandomM) *)
(*                  enabled at any phase: its period (12 h) is far longer  *)
(*                  than the window, only the phase relative to the        *)
(*                  presentations matters                                  *)
(*   Tick, Issue  = environment (time passes; a client builds a packet     *)
(*                  with its own clock, skew -MaxSkew..+MaxSkew ticks)     *)
(*                                                                         *)
(* Named deviations (CONSTANT Dev, a set of strings):                      *)
(*   "CleanerPurgesAll"  pre-fix cleaner: deletes every entry whose time   *)
(*                       is < now + W, i.e. all of them (DESIGN.md D1)     *)
(*   "CacheKeyRaw"       pre-fix key: the raw 32 bytes, so the two byte    *)
(*                       variants of one block are different keys (D2)     *)
(* Dev = {} is the code-faithful model of HEAD: canonical key (bit 255     *)
(* cleared), entry kept while  stored >= now - R  with R = 2W (the code    *)
(* keeps 2*tolerance + 1 s).                                               *)
(***************************************************************************)
EXTENDS Integers, FiniteSets

CONSTANTS
  W,          \* half-width of the acceptance window, ticks (strict)
  R,          \* retention: Clean deletes an entry iff stored < now - R
  Horizon,    \* last value of the clock
  NPackets,   \* number of distinct sealed blocks
  MaxPresent, \* bound on presentations
  MaxClean,   \* bound on clean-ups
  MaxSkew,    \* client clock skew, ticks (-MaxSkew..MaxSkew); W-1 in the replayed histories, W is checked too
  Dev         \* set of deviation flags, see above

Blocks   == 1..NPackets
Variants == {"same", "bit255"}
Skews    == (0 - MaxSkew)..MaxSkew
None     == -1000                      \* "no entry" / "not issued"
RawKeys  == Blocks \X Variants

VARIABLES
  now,       \* server clock
  cache,     \* UsedRandom: RawKeys -> time of last sighting, or None
  issued,    \* Blocks -> client timestamp inside the sealed block, or None
  accepts,   \* Blocks -> number of presentations that authenticated (err = nil)
  nPresent, nClean,
  last       \* observation of the last step (what the caller of the code sees)

vars == <<now, cache, issued, accepts, nPresent, nClean, last>>
View == <<now, cache, issued, accepts, nPresent, nClean>>   \* `last` is an output, not state (cfg: VIEW)

\* auth.go: cacheKey := randPubKey; cacheKey[31] &= 0x7f   (pre-fix: the raw bytes)
CacheKey(b, v) == IF "CacheKeyRaw" \in Dev THEN <<b, v>> ELSE <<b, "same">>

\* state.go UsedRandomCleaner: time.Unix(t,0).Before(now - 2*tolerance - 1s)
\* (pre-fix: time.Unix(t,0).Before(now + tolerance), true for every entry)
Evict(t) == IF "CleanerPurgesAll" \in Dev THEN t < now + W ELSE t < now - R

InWindow(ts) == ts - now < W /\ now - ts < W

NoObs == [a |-> "Init", b |-> 0, v |-> "", k |-> 0, ok |-> FALSE, why |-> "", t |-> 0, nc |-> 0]

Entries(c) == Cardinality({key \in RawKeys : c[key] # None})

Init ==
  /\ now = 0
  /\ cache = [key \in RawKeys |-> None]
  /\ issued = [b \in Blocks |-> None]
  /\ accepts = [b \in Blocks |-> 0]
  /\ nPresent = 0
  /\ nClean = 0
  /\ last = NoObs

\* a client seals a fresh block with its own clock; blocks are issued in index order (symmetry)
Issue(b, skew) ==
  /\ issued[b] = None
  /\ \A c \in Blocks : c < b => issued[c] # None
  /\ issued' = [issued EXCEPT ![b] = now + skew]
  /\ last' = [NoObs EXCEPT !.a = "Issue", !.b = b, !.k = skew, !.t = now, !.nc = Entries(cache)]
  /\ UNCHANGED <<now, cache, accepts, nPresent, nClean>>

\* AuthFirstPacket on the captured packet (v = "same") or on an altered copy carrying the same block
Present(b, v) ==
  /\ issued[b] # None
  /\ nPresent < MaxPresent
  /\ LET key  == CacheKey(b, v)
         used == cache[key] # None               \* registerRandom: _, used := UsedRandom[r]
         inw  == InWindow(issued[b])             \* decryptClientInfo, reached only if ~used
         ok   == ~used /\ inw
     IN /\ cache' = [cache EXCEPT ![key] = now]  \* UsedRandom[r] = Now().Unix(), unconditionally
        /\ accepts' = [accepts EXCEPT ![b] = @ + (IF ok THEN 1 ELSE 0)]
        /\ last' = [NoObs EXCEPT !.a = "Present", !.b = b, !.v = v, !.ok = ok, !.t = now,
                                 !.why = IF used THEN "replay" ELSE IF inw THEN "ok" ELSE "window",
                                 !.nc = Entries(cache')]
  /\ nPresent' = nPresent + 1
  /\ UNCHANGED <<now, issued, nClean>>

Clean ==
  /\ nClean < MaxClean
  /\ cache' = [key \in RawKeys |-> IF cache[key] # None /\ Evict(cache[key]) THEN None ELSE cache[key]]
  /\ nClean' = nClean + 1
  /\ last' = [NoObs EXCEPT !.a = "Clean", !.t = now, !.nc = Entries(cache')]
  /\ UNCHANGED <<now, issued, accepts, nPresent>>

Tick ==
  /\ now < Horizon
  /\ now' = now + 1
  /\ last' = [NoObs EXCEPT !.a = "Tick", !.t = now + 1, !.nc = Entries(cache)]
  /\ UNCHANGED <<cache, issued, accepts, nPresent, nClean>>

Next == \/ \E b \in Blocks, s \in Skews : Issue(b, s)
        \/ \E b \in Blocks, v \in Variants : Present(b, v)
        \/ Clean
        \/ Tick

Spec == Init /\ [][Next]_vars

-----------------------------------------------------------------------------
\* THE PROPERTY: a sealed block authenticates at most once.  (Authentication requires the timestamp to
\* be inside the window, so this is the same as "never accepted again while its timestamp is still
\* inside the window".)
AtMostOnce == \A b \in Blocks : accepts[b] <= 1

\* inductive strengthening, internal (Dev = {} only): an accepted block whose timestamp is still
\* acceptable is still remembered
Remembered ==
  \A b \in Blocks : (accepts[b] >= 1 /\ now - issued[b] < W) => cache[<<b, "same">>] # None

TypeOK ==
  /\ now \in 0..Horizon
  /\ \A key \in RawKeys : cache[key] = None \/ cache[key] \in 0..Horizon
  /\ \A b \in Blocks : issued[b] = None \/ issued[b] \in (0 - MaxSkew)..(Horizon + MaxSkew)
  /\ nPresent \in 0..MaxPresent /\ nClean \in 0..MaxClean
=============================================================================
