----------------------------- MODULE ReplayCache -----------------------------
(***************************************************************************)
(* C08 - a captured handshake can never be replayed successfully.          *)
(*                                                                         *)
(* Server side replay memory of Cloak (Go: internal/server/state.go        *)
(* UsedRandom / registerRandom / UsedRandomCleaner, auth.go                *)
(* AuthFirstPacket / decryptClientInfo).                                   *)
(*                                                                         *)
(* Time is an integer clock `now` (ticks).  The acceptance window has      *)
(* half-width W ticks and is strict (|ts - now| < W), exactly as           *)
(* decryptClientInfo (After(now-tol) /\ Before(now+tol)).                  *)
(*                                                                         *)
(* A packet is the sealed identity block `b` (ephemeral public key +       *)
(* AES-GCM sealed UID/timestamp/session id) carrying the client timestamp  *)
(* issued[b].  A presentation names the block and the byte variant of the  *)
(* 32-byte random that carries it:                                         *)
(*   "same"    the captured bytes                                          *)
(*   "bit255"  bit 255 of the random flipped: X25519 ignores that bit, so  *)
(*             the shared secret, hence the sealed block, is the same      *)
(* One action per critical section / linearisation point of the code:      *)
(*   Present(b,v) = AuthFirstPacket: registerRandom (test-and-set under    *)
(*                  usedRandomM; the stored time is overwritten on every   *)
(*                  sighting; ANY packet consumes its random) followed by  *)
(*                  decryptClientInfo (window check)                       *)
(*   CleanBegin / CleanVisit(key) / CleanEnd                               *)
(*                = one iteration of UsedRandomCleaner: takes usedRandomM, *)
(*                  decides entry by entry (each decision reads the clock, *)
(*                  time may pass in between), releases it.  Enabled at    *)
(*                  any phase: the period (12 h) is far longer than the    *)
(*                  window, only the phase relative to the presentations   *)
(*                  matters.  While the cleaner holds the lock no          *)
(*                  presentation can run (it queues and is served after    *)
(*                  CleanEnd, with the clock of that moment).              *)
(*   Tick, Issue  = environment (time passes; a client builds a packet     *)
(*                  with its own clock, skew -MaxSkew..+MaxSkew ticks)     *)
(*                                                                         *)
(* Named deviations (CONSTANT Dev, a set of strings):                      *)
(*   "CleanerPurgesAll"  pre-fix cleaner: deletes every entry whose time   *)
(*                       is < now + W, i.e. all of them (DESIGN.md D1)     *)
(*   "CacheKeyRaw"       pre-fix key: the raw 32 bytes, so the two byte    *)
(*                       variants of one block are different keys (D2)     *)
(*   "CleanerSnapshotSwap" the sweep copies the survivors under the READ   *)
(*                       lock, releases it, and swaps the copy in under    *)
(*                       the write lock later: presentations can run in    *)
(*                       the gap (CleanEnd .. CleanSwap)                   *)
(*   "CheckThenRegister" a presentation looks the random up, decrypts, and *)
(*                       registers afterwards and only if it authenticated *)
(*                       (Lookup / Finish are two steps)                   *)
(*   "ForgetWhenFull"    registerRandom bounds the cache: a new random     *)
(*                       arriving at a cache of Cap entries makes it start *)
(*                       over empty (any capacity-triggered forgetting);   *)
(*                       Foreign = somebody else's parsable first packet   *)
(*                       (costs its sender nothing, needs no keys)         *)
(* Dev = {} is the code-faithful model of HEAD: canonical key (bit 255     *)
(* cleared), entry kept while  stored >= now - R  with R = 2W (the code    *)
(* keeps 2*tolerance + 1 s).                                               *)
(***************************************************************************)
EXTENDS Integers, FiniteSets

CONSTANTS
  W,          \* half-width of the acceptance window, ticks (strict)
  R,          \* retention: the cleaner deletes an entry iff stored < now - R
  Horizon,    \* last value of the clock
  NPackets,   \* number of distinct sealed blocks
  MaxPresent, \* bound on presentations
  MaxClean,   \* bound on clean-ups
  MaxSkew,    \* client clock skew, ticks (-MaxSkew..MaxSkew); W-1 in the replayed histories, W is checked too
  Dev,        \* set of deviation flags, see above
  Cap,        \* "ForgetWhenFull": capacity of the cache, entries
  MaxForeign  \* bound on foreign first packets (0: none)

Blocks   == 1..NPackets
Variants == {"same", "bit255"}
Skews    == (0 - MaxSkew)..MaxSkew
None     == -1000                      \* "no entry" / "not issued"
RawKeys  == Blocks \X Variants

VARIABLES
  now,       \* server clock
  cache,     \* UsedRandom: RawKeys -> time of last sighting, or None
  issued,    \* Blocks -> client timestamp inside the sealed block, or None
  accepts,   \* Blocks -> number of presentations that authenticated (err = nil)
  sweep,     \* the cleaner: [ph : idle | walk | gap, todo : entries still to decide, surv : copy being built]
  pend,      \* presentations between their look-up and their registration ("CheckThenRegister" only)
  nf,        \* foreign randoms in the cache (never presented twice, they only take room)
  nForeign,  \* foreign first packets so far
  nPresent, nClean,
  last       \* observation of the last step (what the caller of the code sees)

vars == <<now, cache, issued, accepts, sweep, pend, nf, nForeign, nPresent, nClean, last>>
View == <<now, cache, issued, accepts, sweep, pend, nf, nForeign, nPresent, nClean>>
fvars == <<nf, nForeign>>   \* `last` is an output, not state (cfg: VIEW)

SnapSwap == "CleanerSnapshotSwap" \in Dev
TwoStep  == "CheckThenRegister" \in Dev

\* auth.go: cacheKey := randPubKey; cacheKey[31] &= 0x7f   (pre-fix: the raw bytes)
CacheKey(b, v) == IF "CacheKeyRaw" \in Dev THEN <<b, v>> ELSE <<b, "same">>

\* state.go UsedRandomCleaner: time.Unix(t,0).Before(now - 2*tolerance - 1s)
\* (pre-fix: time.Unix(t,0).Before(now + tolerance), true for every entry)
Evict(t) == IF "CleanerPurgesAll" \in Dev THEN t < now + W ELSE t < now - R

InWindow(ts) == ts - now < W /\ now - ts < W

NoObs == [a |-> "Init", b |-> 0, v |-> "", k |-> 0, ok |-> FALSE, why |-> "", t |-> 0, nc |-> 0]

Entries(c) == Cardinality({key \in RawKeys : c[key] # None})

Empty == [key \in RawKeys |-> None]
Idle  == [ph |-> "idle", todo |-> {}, surv |-> Empty]

\* usedRandomM: the cleaner holds it exclusively while it walks (HEAD), or shared ("CleanerSnapshotSwap")
WFree == sweep.ph \in {"idle", "gap"}                \* a writer (registerRandom) can get in
RFree == WFree \/ (SnapSwap /\ sweep.ph = "walk")    \* a reader can get in

\* "ForgetWhenFull": the map is replaced by an empty one when a NEW random meets a full cache
Full == "ForgetWhenFull" \in Dev /\ Entries(cache) + nf >= Cap

Init ==
  /\ nf = 0
  /\ nForeign = 0
  /\ now = 0
  /\ cache = Empty
  /\ issued = [b \in Blocks |-> None]
  /\ accepts = [b \in Blocks |-> 0]
  /\ sweep = Idle
  /\ pend = {}
  /\ nPresent = 0
  /\ nClean = 0
  /\ last = NoObs

\* a client seals a fresh block with its own clock; blocks are issued in index order (symmetry)
Issue(b, skew) ==
  /\ issued[b] = None
  /\ \A c \in Blocks : c < b => issued[c] # None
  /\ issued' = [issued EXCEPT ![b] = now + skew]
  /\ last' = [NoObs EXCEPT !.a = "Issue", !.b = b, !.k = skew, !.t = now, !.nc = Entries(cache)]
  /\ UNCHANGED <<now, cache, accepts, sweep, pend, nPresent, nClean, nf, nForeign>>

\* AuthFirstPacket on the captured packet (v = "same") or on an altered copy carrying the same block:
\* one critical section, linearised where registerRandom holds usedRandomM
Present(b, v) ==
  /\ ~TwoStep
  /\ WFree
  /\ issued[b] # None
  /\ nPresent < MaxPresent
  /\ LET key  == CacheKey(b, v)
         used == cache[key] # None               \* registerRandom: _, used := UsedRandom[r]
         inw  == InWindow(issued[b])             \* decryptClientInfo, reached only if ~used
         ok   == ~used /\ inw
     IN /\ IF ~used /\ Full
             THEN cache' = [Empty EXCEPT ![key] = now] /\ nf' = 0
             ELSE cache' = [cache EXCEPT ![key] = now] /\ nf' = nf  \* UsedRandom[r] = Now().Unix(), unconditionally
        /\ accepts' = [accepts EXCEPT ![b] = @ + (IF ok THEN 1 ELSE 0)]
        /\ last' = [NoObs EXCEPT !.a = "Present", !.b = b, !.v = v, !.ok = ok, !.t = now,
                                 !.why = IF used THEN "replay" ELSE IF inw THEN "ok" ELSE "window",
                                 !.nc = Entries(cache')]
  /\ nPresent' = nPresent + 1
  /\ UNCHANGED <<now, issued, sweep, pend, nClean, nForeign>>

\* a parsable first packet of somebody else (a browser, a scanner, a flood): registerRandom with a random of its own
Foreign ==
  /\ ~TwoStep
  /\ WFree
  /\ nForeign < MaxForeign
  /\ nForeign' = nForeign + 1
  /\ IF Full THEN cache' = Empty /\ nf' = 1 ELSE cache' = cache /\ nf' = nf + 1
  /\ last' = [NoObs EXCEPT !.a = "Foreign", !.t = now, !.nc = Entries(cache')]
  /\ UNCHANGED <<now, issued, accepts, sweep, pend, nPresent, nClean>>

\* deviation "CheckThenRegister": look-up under the read lock ...
Lookup(b, v) ==
  /\ TwoStep
  /\ RFree
  /\ issued[b] # None
  /\ nPresent < MaxPresent
  /\ Cardinality(pend) < 2
  /\ pend' = pend \cup {[id |-> nPresent, b |-> b, v |-> v, used |-> cache[CacheKey(b, v)] # None]}
  /\ nPresent' = nPresent + 1
  /\ last' = [NoObs EXCEPT !.a = "Lookup", !.b = b, !.v = v, !.t = now, !.nc = Entries(cache)]
  /\ UNCHANGED <<now, cache, issued, accepts, sweep, nClean, nf, nForeign>>

\* ... decrypt, and register afterwards, only what authenticated
Finish(e) ==
  /\ TwoStep
  /\ e \in pend
  /\ LET inw == InWindow(issued[e.b])
         ok  == ~e.used /\ inw
     IN /\ (ok => WFree)
        /\ cache' = IF ok THEN [cache EXCEPT ![CacheKey(e.b, e.v)] = now] ELSE cache
        /\ accepts' = [accepts EXCEPT ![e.b] = @ + (IF ok THEN 1 ELSE 0)]
        /\ last' = [NoObs EXCEPT !.a = "Finish", !.b = e.b, !.v = e.v, !.ok = ok, !.t = now,
                                 !.why = IF e.used THEN "replay" ELSE IF inw THEN "ok" ELSE "window",
                                 !.nc = Entries(cache')]
  /\ pend' = pend \ {e}
  /\ UNCHANGED <<now, issued, sweep, nPresent, nClean, nf, nForeign>>

\* UsedRandomCleaner wakes up and takes the lock
CleanBegin ==
  /\ nClean < MaxClean
  /\ sweep.ph = "idle"
  /\ sweep' = [ph |-> "walk", todo |-> {key \in RawKeys : cache[key] # None}, surv |-> Empty]
  /\ nClean' = nClean + 1
  /\ last' = [NoObs EXCEPT !.a = "CleanBegin", !.t = now, !.nc = Entries(cache)]
  /\ UNCHANGED <<now, cache, issued, accepts, pend, nPresent, nf, nForeign>>

\* the decision about one entry, with the clock of that moment (map order is arbitrary)
CleanVisit(key) ==
  /\ sweep.ph = "walk"
  /\ key \in sweep.todo
  /\ IF SnapSwap
       THEN /\ sweep' = [sweep EXCEPT !.todo = @ \ {key},
                                      !.surv = [@ EXCEPT ![key] = IF Evict(cache[key]) THEN None ELSE cache[key]]]
            /\ cache' = cache
       ELSE /\ sweep' = [sweep EXCEPT !.todo = @ \ {key}]
            /\ cache' = [cache EXCEPT ![key] = IF Evict(@) THEN None ELSE @]
  /\ last' = [NoObs EXCEPT !.a = "CleanVisit", !.b = key[1], !.v = key[2], !.t = now, !.nc = Entries(cache')]
  /\ UNCHANGED <<now, issued, accepts, pend, nPresent, nClean, nf, nForeign>>

\* the lock is released (HEAD: the sweep is over; "CleanerSnapshotSwap": only the read lock, the copy is not in yet)
CleanEnd ==
  /\ sweep.ph = "walk"
  /\ sweep.todo = {}
  /\ sweep' = IF SnapSwap THEN [sweep EXCEPT !.ph = "gap"] ELSE Idle
  /\ last' = [NoObs EXCEPT !.a = "CleanEnd", !.t = now, !.nc = Entries(cache)]
  /\ UNCHANGED <<now, cache, issued, accepts, pend, nPresent, nClean, nf, nForeign>>

\* "CleanerSnapshotSwap": sta.UsedRandom = survivors
CleanSwap ==
  /\ sweep.ph = "gap"
  /\ cache' = sweep.surv
  /\ sweep' = Idle
  /\ last' = [NoObs EXCEPT !.a = "CleanSwap", !.t = now, !.nc = Entries(cache')]
  /\ UNCHANGED <<now, issued, accepts, pend, nPresent, nClean, nf, nForeign>>

\* a whole sweep without anything in between (all decisions with one clock value): what the generator uses
\* where the interleaving inside the sweep is not of interest.  Not part of Next: it is CleanBegin,
\* CleanVisit*, CleanEnd in a row.
Clean ==
  /\ ~SnapSwap
  /\ nClean < MaxClean
  /\ sweep.ph = "idle"
  /\ cache' = [key \in RawKeys |-> IF cache[key] # None /\ Evict(cache[key]) THEN None ELSE cache[key]]
  /\ nClean' = nClean + 1
  /\ last' = [NoObs EXCEPT !.a = "Clean", !.t = now, !.nc = Entries(cache')]
  /\ UNCHANGED <<now, issued, accepts, sweep, pend, nPresent, nf, nForeign>>

Tick ==
  /\ now < Horizon
  /\ now' = now + 1
  /\ last' = [NoObs EXCEPT !.a = "Tick", !.t = now + 1, !.nc = Entries(cache)]
  /\ UNCHANGED <<cache, issued, accepts, sweep, pend, nPresent, nClean, nf, nForeign>>

Next == \/ \E b \in Blocks, s \in Skews : Issue(b, s)
        \/ \E b \in Blocks, v \in Variants : Present(b, v) \/ Lookup(b, v)
        \/ \E e \in pend : Finish(e)
        \/ CleanBegin
        \/ \E key \in RawKeys : CleanVisit(key)
        \/ CleanEnd
        \/ CleanSwap
        \/ Foreign
        \/ Tick

Spec == Init /\ [][Next]_vars

-----------------------------------------------------------------------------
\* THE PROPERTY: a sealed block authenticates at most once.  (Authentication requires the timestamp to
\* be inside the window, so this is the same as "never accepted again while its timestamp is still
\* inside the window".)
AtMostOnce == \A b \in Blocks : accepts[b] <= 1

\* inductive strengthening, internal (Dev = {} only): an accepted block whose timestamp is still
\* acceptable is still remembered
Remembered ==
  \A b \in Blocks : (accepts[b] >= 1 /\ now - issued[b] < W) => cache[<<b, "same">>] # None

TypeOK ==
  /\ now \in 0..Horizon
  /\ \A key \in RawKeys : cache[key] = None \/ cache[key] \in 0..Horizon
  /\ \A b \in Blocks : issued[b] = None \/ issued[b] \in (0 - MaxSkew)..(Horizon + MaxSkew)
  /\ nPresent \in 0..MaxPresent /\ nClean \in 0..MaxClean
  /\ sweep.ph \in {"idle", "walk", "gap"} /\ sweep.todo \subseteq RawKeys
  /\ Cardinality(pend) <= 2
  /\ nf \in 0..MaxForeign /\ nForeign \in 0..MaxForeign
=============================================================================
