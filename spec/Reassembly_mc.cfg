SPECIFICATION Spec
CONSTANT N = @N@
INVARIANTS TypeOK OrderInv CloseInv HeapInv CompleteInv NoStaleErr
CHECK_DEADLOCK FALSE
