---------------------------- MODULE ReassemblyEq ----------------------------
(***************************************************************************)
(* TLC-checked equivalence of Reassembly.tla (recursive Drain; the spec    *)
(* that is replayed on / validated against the Go code) and                *)
(* ReassemblyInd.tla (closed-form Drain; the spec the inductive proof is   *)
(* about).  Three configurations:                                          *)
(*   ReassemblyEq_sweep.cfg  both Drain operators agree on EVERY argument  *)
(*        (h \subseteq 0..N-1, n \in 0..N, a few p) for EVERY closeIdx in  *)
(*        -1..N-1, and the element-wise OrderInv agrees with               *)
(*        consumed \o pipe = Iota(next) on all short sequences;            *)
(*   ReassemblyEq_fwd.cfg    every behaviour of Reassembly (plus the       *)
(*        history flag staleErr) is a behaviour of ReassemblyInd, and      *)
(*        IndInv holds on it;                                              *)
(*   ReassemblyEq_bwd.cfg    every behaviour of ReassemblyInd (plus the    *)
(*        observation variables lastW / lastR computed as history          *)
(*        variables) is a behaviour of Reassembly, and Reassembly's        *)
(*        invariants hold on it.                                           *)
(***************************************************************************)
EXTENDS Reassembly

VARIABLE staleErr

I == INSTANCE ReassemblyInd

evars == <<rvars, staleErr>>

ASSUME NPos == N \in Nat \ {0}

-----------------------------------------------------------------------------
\* (1) sweep: the only variable the operators read is closeIdx
SweepInit == /\ closeIdx \in (-1)..(N - 1)
             /\ arrived = {} /\ next = 0 /\ heap = {} /\ pipe = <<>> /\ closeRep = FALSE
             /\ consumed = <<>> /\ staleErr = FALSE
             /\ lastW = [a |-> "Init", i |-> -1, tbc |-> FALSE, err |-> FALSE] /\ lastR = <<>>

SpecSweep == SweepInit /\ [][FALSE]_evars

Pipes == {<<>>, <<0>>, <<0, 1>>, <<5, 3, 4>>}

DrainEq == \A h \in SUBSET (0..(N - 1)) : \A n \in 0..N : \A p \in Pipes :
              Drain(h, n, p) = I!Drain(h, n, p)

ShortSeqs == UNION {[1..l -> 0..3] : l \in 0..3}

ASSUME OrderEq == \A c \in ShortSeqs : \A p \in ShortSeqs : \A n \in 0..7 :
              (c \o p = Iota(n)) <=> I!OrderPt(c, p, n)

-----------------------------------------------------------------------------
\* (2) Reassembly drives, staleErr is a history variable
SpecFwd == /\ Init /\ staleErr = FALSE
           /\ [][Next /\ staleErr' = (staleErr \/ lastW'.err)]_evars

IndSpec == I!Spec
IndInvHolds == I!IndInv

-----------------------------------------------------------------------------
\* (3) ReassemblyInd drives, lastW / lastR are history variables
WOf(i) == [a |-> "Arrive", i |-> i,
           tbc |-> IF heap = {} /\ i = next THEN IsClose(i)
                   ELSE IF i < next THEN FALSE
                   ELSE I!Drain(heap \cup {i}, next, pipe).tbc,
           err |-> ~(heap = {} /\ i = next) /\ i < next]

NextBwd == \/ \E i \in 0..(N - 1) : I!Arrive(i) /\ lastW' = WOf(i) /\ lastR' = lastR
           \/ \E k \in 1..N : I!Read(k) /\ lastR' = SubSeq(pipe, 1, k) /\ lastW' = lastW

SpecBwd == /\ I!Init
           /\ lastW = [a |-> "Init", i |-> -1, tbc |-> FALSE, err |-> FALSE] /\ lastR = <<>>
           /\ [][NextBwd]_evars

OrigSpec == Spec
=============================================================================
