---------------------------- MODULE ReassemblyGen ----------------------------
(* Behaviour generator for Reassembly: a history variable records every    *)
(* step with its expected observation; maximal behaviours are printed as   *)
(* JSON.  Reads are restricted to "drain everything buffered", offered     *)
(* after every arrival, so that BFS enumerates all N! orders x read points.*)
EXTENDS Reassembly, TLC, Json

VARIABLE hist
gvars == <<rvars, hist>>

GInit == Init /\ hist = <<>>

GArrive == \E i \in 0..(N - 1) : Arrive(i) /\ hist' = Append(hist, lastW')
GRead   == pipe # <<>> /\ Read(Len(pipe)) /\ hist' = Append(hist, [a |-> "Read", got |-> lastR'])
           /\ (hist = <<>> \/ hist[Len(hist)].a = "Arrive")

GNext == GArrive \/ GRead
GSpec == GInit /\ [][GNext]_gvars

Terminal == arrived = 0..(N - 1) /\ pipe = <<>>

Emit == Terminal => PrintT(<<"BEHAVIOUR", ToJson([closeIdx |-> closeIdx, n |-> N, steps |-> hist])>>)
=============================================================================
