------------------------------- MODULE UserDB -------------------------------
(***************************************************************************)
(* The user database of a Cloak server as a keyed store                    *)
(* (Go: usermanager.localManager behind usermanager.APIRouter) together    *)
(* with its three consumers on the data path.                              *)
(*                                                                         *)
(*   db   : UID -|-> (Field -|-> Int)   what the running manager serves    *)
(*          (a total map with the sentinels NoUser / Absent)               *)
(*   disk : the same map as stored in the bolt file                        *)
(*                                                                         *)
(* One action per admin request / manager call; every accepted request is  *)
(* committed to the file before it is answered (bolt Update), so           *)
(* disk' = db' in every step and Reopen reloads db from disk.              *)
(*                                                                         *)
(* Integers live on a compressed number line: MINV and MAXV stand for the  *)
(* smallest / largest value of the field's Go type (int32 for SessionsCap, *)
(* int64 for the rest), x close to MAXV for max-(MAXV-x), x close to MINV  *)
(* for min+(x-MINV), small x for itself.  MINV = -MAXV-1 as in two's       *)
(* complement, hence a-b is exact on this line whenever it does not leave  *)
(* MINV..MAXV (Upload is only offered when it does not).                   *)
(***************************************************************************)
EXTENDS Integers, FiniteSets, TLC

CONSTANTS
  UIDs,                  \* set of user ids (strings)
  MaxOps,                \* depth bound: number of operations in a behaviour
  OneFields, ValsOne,    \* write classes "exactly one field f := v", f \in OneFields, v \in ValsOne
  AllButFields, ValsAllBut, \* "every field except f := v"
  ValsAll,               \* "all six fields := v"
  WithNone,              \* BOOLEAN: the write class "no field at all" (creates an empty record)
  UpUsages, DownUsages,  \* usage amounts offered to Upload (names of values >= 0)
  NoUser, Absent,        \* model values: "no such user", "field never written"
  AbsentReadsZero,       \* TRUE: a field never written reads as 0 (HEAD). FALSE: pre-ae06e04 design, the read panics
  RejectNonPositiveRate  \* TRUE: a connecting user with a rate <= 0 is refused (HEAD). FALSE: pre-53a2c2f, the limiter panics

Fields == {"SessionsCap", "UpRate", "DownRate", "UpCredit", "DownCredit", "ExpiryTime"}

MAXV == 1000000
MINV == -MAXV - 1
Now  == 0                \* the world clock of the harness is pinned to Unix time 0

\* value classes are named in the cfg (a cfg cannot hold negative numbers)
Val(c) == CASE c = "min" -> MINV      [] c = "min1" -> MINV + 1
            [] c = "m2"  -> -2        [] c = "m1"   -> -1
            [] c = "z"   -> 0
            [] c = "p1"  -> 1         [] c = "p2"   -> 2         [] c = "p3" -> 3
            [] c = "max1" -> MAXV - 1 [] c = "max"  -> MAXV
VS(S) == {Val(c) : c \in S}

VARIABLES
  db,     \* served state
  disk,   \* persistent state
  last,   \* the last operation with its verdict: [op, pu, bu, w, up, dn, ok]
  nops    \* operations so far

vars == <<db, disk, last, nops>>

-----------------------------------------------------------------------------
\* partial maps, encoded as total maps with the two sentinels NoUser and Absent
NoRec        == [f \in Fields |-> Absent]                  \* a record none of whose fields was ever written
NoDB         == [u \in UIDs |-> NoUser]
Has(d, u)    == d[u] # NoUser
Old(d, u)    == IF Has(d, u) THEN d[u] ELSE NoRec
Put(d, u, r) == [d EXCEPT ![u] = r]
Drop(d, u)   == [d EXCEPT ![u] = NoUser]
Mentions(w)  == {f \in Fields : w[f] # Absent}
Merge(r, w)  == [f \in Fields |-> IF w[f] = Absent THEN r[f] ELSE w[f]]
\* what a reader sees: an absent field is 0 (only asked of existing users)
Read(d, u, f) == IF d[u][f] = Absent THEN 0 ELSE d[u][f]

\* the write classes of POST: subsets of the six optional fields x values
Only(S, v) == [f \in Fields |-> IF f \in S THEN v ELSE Absent]
Writes ==
  (IF WithNone THEN {NoRec} ELSE {})
  \cup {Only({g}, v) : g \in OneFields, v \in VS(ValsOne)}
  \cup {Only(Fields \ {g}, v) : g \in AllButFields, v \in VS(ValsAllBut)}
  \cup {Only(Fields, v) : v \in VS(ValsAll)}

\* malformed requests; none of them names a (uid, record) pair, all must be rejected
MalformedKinds == {"badpath", "garbage", "emptybody", "cap-overflow", "value-not-int", "baduid-body"}

NoArg == [op |-> "init", pu |-> "", bu |-> "", w |-> NoRec, up |-> 0, dn |-> 0, ok |-> TRUE]

-----------------------------------------------------------------------------
\* consumers: total functions of the store

\* fields whose decoding a consumer depends on
ConnectNeeds == {"UpRate", "DownRate", "UpCredit", "DownCredit", "ExpiryTime"}
AuthNeeds    == {"SessionsCap", "UpCredit", "DownCredit", "ExpiryTime"}
UploadNeeds  == {"UpCredit", "DownCredit", "ExpiryTime"}

Decodable(d, u, need) == AbsentReadsZero \/ \A f \in need : d[u][f] # Absent

\* AuthenticateUser followed by userPanel.GetUser -> MakeValve
ConnectRes(d, u) ==
  IF ~Has(d, u) THEN "notfound"
  ELSE IF ~Decodable(d, u, ConnectNeeds) THEN "panic"
  ELSE IF Read(d, u, "UpCredit") <= 0 THEN "noup"
  ELSE IF Read(d, u, "DownCredit") <= 0 THEN "nodown"
  ELSE IF Read(d, u, "ExpiryTime") < Now THEN "expired"
  ELSE IF Read(d, u, "UpRate") <= 0 \/ Read(d, u, "DownRate") <= 0
         THEN (IF RejectNonPositiveRate THEN "norate" ELSE "panic")
  ELSE "ok"

\* AuthoriseNewSession with no existing session (the cap is compared as an unsigned number: only 0 refuses)
AuthoriseRes(d, u) ==
  IF ~Has(d, u) THEN "notfound"
  ELSE IF ~Decodable(d, u, AuthNeeds) THEN "panic"
  ELSE IF Read(d, u, "UpCredit") <= 0 THEN "noup"
  ELSE IF Read(d, u, "DownCredit") <= 0 THEN "nodown"
  ELSE IF Read(d, u, "ExpiryTime") < Now THEN "expired"
  ELSE IF Read(d, u, "SessionsCap") = 0 THEN "cap"
  ELSE "ok"

\* the TERMINATE responses of UploadStatus for one user and one usage report
UploadRes(d, u, up, dn) ==
  IF ~Has(d, u) THEN {"gone"}
  ELSE IF ~Decodable(d, u, UploadNeeds) THEN {"panic"}
  ELSE (IF Read(d, u, "UpCredit") - up <= 0 THEN {"noup"} ELSE {})
       \cup (IF Read(d, u, "DownCredit") - dn <= 0 THEN {"nodown"} ELSE {})
       \cup (IF Now > Read(d, u, "ExpiryTime") THEN {"expired"} ELSE {})

\* ListAllUsers / GetUserInfo decode every field of every (resp. one) record
ListRes(d) == IF \A u \in UIDs : Has(d, u) => Decodable(d, u, Fields) THEN "ok" ELSE "panic"

-----------------------------------------------------------------------------
Init ==
  /\ db = NoDB
  /\ disk = NoDB
  /\ last = NoArg
  /\ nops = 0

Tick == nops < MaxOps /\ nops' = nops + 1

\* POST /admin/users/{pu} with a well-formed body for bu that mentions the fields of w
Post(pu, bu, w) ==
  /\ Tick
  /\ IF pu = bu
       THEN db' = Put(db, bu, Merge(Old(db, bu), w))
       ELSE db' = db                                     \* UID mismatch: rejected
  /\ disk' = db'
  /\ last' = [NoArg EXCEPT !.op = "post", !.pu = pu, !.bu = bu, !.w = w, !.ok = (pu = bu)]

\* POST that cannot be decoded into a request at all
PostMalformed(kind) ==
  /\ Tick
  /\ UNCHANGED <<db, disk>>
  /\ last' = [NoArg EXCEPT !.op = "malformed", !.pu = kind, !.ok = FALSE]

Get(u) ==
  /\ Tick
  /\ UNCHANGED <<db, disk>>
  /\ last' = [NoArg EXCEPT !.op = "get", !.pu = u, !.ok = Has(db, u)]

List ==
  /\ Tick
  /\ UNCHANGED <<db, disk>>
  /\ last' = [NoArg EXCEPT !.op = "list"]

\* DELETE; deleting a user that does not exist is rejected
Delete(u) ==
  /\ Tick
  /\ db' = IF Has(db, u) THEN Drop(db, u) ELSE db
  /\ disk' = db'
  /\ last' = [NoArg EXCEPT !.op = "delete", !.pu = u, !.ok = Has(db, u)]

\* manager.Close(); MakeLocalManager(same file)
Reopen ==
  /\ Tick
  /\ db' = disk
  /\ UNCHANGED disk
  /\ last' = [NoArg EXCEPT !.op = "reopen"]

\* UploadStatus with one usage report for u
Upload(u, up, dn) ==
  /\ Tick
  /\ Has(db, u) => /\ Read(db, u, "UpCredit") - up >= MINV
                   /\ Read(db, u, "DownCredit") - dn >= MINV
  /\ db' = IF Has(db, u)
             THEN Put(db, u, [db[u] EXCEPT !["UpCredit"] = Read(db, u, "UpCredit") - up,
                                           !["DownCredit"] = Read(db, u, "DownCredit") - dn])
             ELSE db
  /\ disk' = db'
  /\ last' = [NoArg EXCEPT !.op = "upload", !.pu = u, !.up = up, !.dn = dn, !.ok = Has(db, u)]

Next ==
  \/ \E pu \in UIDs, bu \in UIDs, w \in Writes : Post(pu, bu, w)
  \/ \E k \in MalformedKinds : PostMalformed(k)
  \/ \E u \in UIDs : Get(u) \/ Delete(u)
  \/ List
  \/ Reopen
  \/ \E u \in UIDs, up \in VS(UpUsages), dn \in VS(DownUsages) : Upload(u, up, dn)

Spec == Init /\ [][Next]_vars

-----------------------------------------------------------------------------
\* the property

TypeOK ==
  /\ \A u \in UIDs : Has(db, u) => \A f \in Fields : db[u][f] = Absent \/ db[u][f] \in MINV..MAXV
  /\ nops \in 0..MaxOps

\* the state survives closing and reopening the database
Persist == db = disk

\* no record that the API can create makes a consumer panic
ConsumersTotal ==
  /\ ListRes(db) # "panic"
  /\ \A u \in UIDs : /\ ConnectRes(db, u) # "panic"
                     /\ AuthoriseRes(db, u) # "panic"
                     /\ \A up \in VS(UpUsages) \cup {0}, dn \in VS(DownUsages) \cup {0} : "panic" \notin UploadRes(db, u, up, dn)

SameUser(d1, d2, u) == Has(d1, u) = Has(d2, u) /\ (Has(d1, u) => \A f \in Fields : Read(d1, u, f) = Read(d2, u, f))

\* a rejected request, a read and a reopen change nothing
RejectedUnchanged ==
  [][(~last'.ok \/ last'.op \in {"get", "list", "reopen", "malformed"}) => db' = db]_vars

\* read-your-writes with partial updates: mentioned fields take the new value, the others keep theirs,
\* other users are untouched
ReadYourWrites ==
  [][(last'.op = "post" /\ last'.ok) =>
        LET u == last'.bu
            w == last'.w
        IN /\ last'.pu = u
           /\ Has(db', u)
           /\ \A f \in Fields : Read(db', u, f) = IF f \in Mentions(w) THEN w[f]
                                                 ELSE IF Has(db, u) THEN Read(db, u, f) ELSE 0
           /\ \A x \in UIDs \ {u} : SameUser(db, db', x)]_vars

\* a deleted user is gone, nobody else is
DeletedGone ==
  [][(last'.op = "delete" /\ last'.ok) =>
        /\ ~Has(db', last'.pu)
        /\ \A x \in UIDs \ {last'.pu} : SameUser(db, db', x)]_vars

\* uploaded usage is subtracted from the credits and touches nothing else
UploadDecreases ==
  [][(last'.op = "upload" /\ last'.ok) =>
        LET u == last'.pu IN
        /\ Read(db', u, "UpCredit") = Read(db, u, "UpCredit") - last'.up
        /\ Read(db', u, "DownCredit") = Read(db, u, "DownCredit") - last'.dn
        /\ \A f \in Fields \ {"UpCredit", "DownCredit"} : Read(db', u, f) = Read(db, u, f)
        /\ \A x \in UIDs \ {u} : SameUser(db, db', x)]_vars
=============================================================================
