----------------------------- MODULE StreamClose -----------------------------
(***************************************************************************)
(* The close protocol of ONE stream at ONE endpoint, at the grain of the   *)
(* code's critical sections (Go: multiplex.Stream.Write / Stream.Close /   *)
(* Stream.passiveClose / Session.closeStream, stream.go and session.go).   *)
(* Mux.tla treats a local close and the processing of the peer's closing   *)
(* frame as one step each; this module opens those steps up, because the   *)
(* races that seeded changes of waves 2 and 3 introduced live inside them: *)
(*                                                                         *)
(*   W1, W2  two Write calls on the stream (payloads "A", "B")             *)
(*   C       a local Close                                                 *)
(*   P       the receiving goroutine processing the peer's closing frame   *)
(*   the connection can be stalled (back-pressure): a send parks in it     *)
(*                                                                         *)
(* State that matters: the stream's closed flag (decided by compare-and-   *)
(* swap), the stream's write mutex writingM (held by Write and Close for   *)
(* the whole call, NOT needed by the passive close), the session's active- *)
(* stream counter (one other stream stays open throughout), the frames put *)
(* on the wire, the reader parked in Read.                                 *)
(*                                                                         *)
(* Named deviations (each a seeded change that the stress drivers catch):  *)
(*   "CheckThenStore"        closed flag tested, then stored separately    *)
(*   "WriteCheckBeforeLock"  Write tests the flag before taking writingM   *)
(*   "PassiveTakesWriteM"    passiveClose takes writingM                   *)
(* Bound to the code by harness/multiplex: TestVerifMuxCloseVsCloseRace,   *)
(* TestVerifC03Queued (A) and (B).                                         *)
(***************************************************************************)
EXTENDS Integers, Sequences, FiniteSets, TLC

CONSTANT Dev          \* set of deviation names, {} = the code as it is

Writers == {"W1", "W2"}
Procs   == {"W1", "W2", "C", "P"}
Data(p) == IF p = "W1" THEN "A" ELSE "B"

VARIABLES
  pc,        \* control state of each process
  closed,    \* the stream's closed flag
  wmu,       \* owner of writingM, "" if free
  count,     \* the session's active-stream counter (this stream + one that stays open)
  wire,      \* frames this endpoint has put on the wire for this stream, in order
  stalled,   \* TRUE while the connection does not take bytes
  acked,     \* writers whose Write returned success
  reader,    \* "parked" | "released": a goroutine parked in Read on this stream
  sawOpen    \* processes that have tested the flag and found it clear (CheckThenStore only)

vars == <<pc, closed, wmu, count, wire, stalled, acked, reader, sawOpen>>

Init ==
  /\ pc = [p \in Procs |-> "idle"]
  /\ closed = FALSE
  /\ wmu = ""
  /\ count = 2
  /\ wire = <<>>
  /\ stalled \in BOOLEAN
  /\ acked = {}
  /\ reader = "parked"
  /\ sawOpen = {}

Set(p, l) == pc' = [pc EXCEPT ![p] = l]

-----------------------------------------------------------------------------
(* Write                                                                   *)
WStart(w) ==
  /\ pc[w] = "idle"
  /\ IF "WriteCheckBeforeLock" \in Dev
       THEN IF closed THEN Set(w, "failed") ELSE Set(w, "wantlock")   \* the only test of the flag
       ELSE Set(w, "wantlock")
  /\ UNCHANGED <<closed, wmu, count, wire, stalled, acked, reader, sawOpen>>

WLock(w) ==
  /\ pc[w] = "wantlock" /\ wmu = ""
  /\ wmu' = w
  /\ IF "WriteCheckBeforeLock" \notin Dev /\ closed
       THEN Set(w, "unlockfail")          \* the code: flag tested under the mutex
       ELSE Set(w, "sending")
  /\ UNCHANGED <<closed, count, wire, stalled, acked, reader, sawOpen>>

WSend(w) ==
  /\ pc[w] = "sending" /\ ~stalled
  /\ wire' = Append(wire, Data(w))
  /\ wmu' = ""
  /\ acked' = acked \cup {w}
  /\ Set(w, "done")
  /\ UNCHANGED <<closed, count, stalled, reader, sawOpen>>

WUnlockFail(w) ==
  /\ pc[w] = "unlockfail"
  /\ wmu' = ""
  /\ Set(w, "failed")
  /\ UNCHANGED <<closed, count, wire, stalled, acked, reader, sawOpen>>

-----------------------------------------------------------------------------
(* deciding the closed flag: compare-and-swap, or test then store          *)
\* returns through pc: "<p>won" / "<p>lost"
Decide(p, won, lost) ==
  IF "CheckThenStore" \in Dev
    THEN IF p \in sawOpen
           THEN /\ closed' = TRUE /\ sawOpen' = sawOpen \ {p} /\ Set(p, won) /\ reader' = "released"
           ELSE IF closed THEN /\ Set(p, lost) /\ UNCHANGED <<closed, sawOpen, reader>>
                ELSE /\ sawOpen' = sawOpen \cup {p} /\ UNCHANGED <<closed, pc, reader>>
    ELSE IF closed THEN /\ Set(p, lost) /\ UNCHANGED <<closed, sawOpen, reader>>
         ELSE \* the winner closes the receive buffer at once: a reader parked in Read is released
              /\ closed' = TRUE /\ Set(p, won) /\ reader' = "released" /\ UNCHANGED sawOpen

(* local Close                                                             *)
CStart == /\ pc["C"] = "idle" /\ Set("C", "wantlock")
          /\ UNCHANGED <<closed, wmu, count, wire, stalled, acked, reader, sawOpen>>

CLock == /\ pc["C"] = "wantlock" /\ wmu = ""
         /\ wmu' = "C" /\ Set("C", "decide")
         /\ UNCHANGED <<closed, count, wire, stalled, acked, reader, sawOpen>>

CDecide == /\ pc["C"] = "decide"
           /\ Decide("C", "notify", "unlocklost")
           /\ UNCHANGED <<wmu, count, wire, stalled, acked>>

\* the closing frame goes through the connection like any frame
CNotify == /\ pc["C"] = "notify" /\ ~stalled
           /\ wire' = Append(wire, "close")
           /\ count' = count - 1
           /\ wmu' = ""
           /\ Set("C", "done")
           /\ UNCHANGED <<closed, stalled, acked, sawOpen, reader>>

CUnlockLost == /\ pc["C"] = "unlocklost"
               /\ wmu' = "" /\ Set("C", "failed")
               /\ UNCHANGED <<closed, count, wire, stalled, acked, reader, sawOpen>>

-----------------------------------------------------------------------------
(* the peer's closing frame is processed by the receiving goroutine        *)
PStart == /\ pc["P"] = "idle"
          /\ Set("P", IF "PassiveTakesWriteM" \in Dev THEN "wantlock" ELSE "decide")
          /\ UNCHANGED <<closed, wmu, count, wire, stalled, acked, reader, sawOpen>>

PLock == /\ pc["P"] = "wantlock" /\ wmu = ""
         /\ wmu' = "P" /\ Set("P", "decide")
         /\ UNCHANGED <<closed, count, wire, stalled, acked, reader, sawOpen>>

PDecide == /\ pc["P"] = "decide"
           /\ Decide("P", "sweep", "lost")
           /\ UNCHANGED <<wmu, count, wire, stalled, acked>>

PSweep == /\ pc["P"] = "sweep"
          /\ count' = count - 1
          /\ wmu' = IF wmu = "P" THEN "" ELSE wmu
          /\ Set("P", "done")
          /\ UNCHANGED <<closed, wire, stalled, acked, sawOpen, reader>>

PLost == /\ pc["P"] = "lost"
         /\ wmu' = IF wmu = "P" THEN "" ELSE wmu
         /\ Set("P", "done")
         /\ UNCHANGED <<closed, count, wire, stalled, acked, reader, sawOpen>>

Unstall == /\ stalled /\ stalled' = FALSE
           /\ UNCHANGED <<pc, closed, wmu, count, wire, acked, reader, sawOpen>>

Next == \/ \E w \in Writers : WStart(w) \/ WLock(w) \/ WSend(w) \/ WUnlockFail(w)
        \/ CStart \/ CLock \/ CDecide \/ CNotify \/ CUnlockLost
        \/ PStart \/ PLock \/ PDecide \/ PSweep \/ PLost
        \/ Unstall

Spec == Init /\ [][Next]_vars

-----------------------------------------------------------------------------
Final(p) == pc[p] \in {"done", "failed"}
AtRest == \A p \in Procs : pc[p] = "idle" \/ Final(p)
Quiet == AtRest /\ sawOpen = {}

TypeOK == /\ closed \in BOOLEAN /\ stalled \in BOOLEAN
          /\ wmu \in Procs \cup {""}
          /\ acked \subseteq Writers
          /\ reader \in {"parked", "released"}

\* CountInv (Mux.tla) inside the close: at rest the counter is the other stream plus this one if it is still open
CountInv == Quiet => count = 1 + (IF closed THEN 0 ELSE 1)

\* the consequence the application sees: the counter never reaches zero while the other stream is open
\* (zero arms the inactivity check, which closes a session that is in use)
StaysUp == count >= 1

\* C03: a Write that reported success put its bytes on the wire before the closing frame (the peer discards what follows it)
PosOf(x) == CHOOSE i \in 1..Len(wire) : wire[i] = x
OnWire(x) == \E i \in 1..Len(wire) : wire[i] = x
AckedBeforeClose ==
  \A w \in acked : OnWire(Data(w)) /\ (OnWire("close") => PosOf(Data(w)) < PosOf("close"))

\* exactly one closing frame for a close that won, none otherwise (C13)
OneCloseFrame == Cardinality({i \in 1..Len(wire) : wire[i] = "close"}) <= 1

\* C03 / C12: processing the peer's close never waits for the sender's critical section:
\* with the connection stalled under a sender, the receiving goroutine would be stuck with every later frame behind it
PassiveNeverWaitsForSender ==
  ~(pc["P"] = "wantlock" /\ wmu \in Writers \cup {"C"} /\ stalled)

\* once the peer's close has been processed the parked reader is released
ReaderReleased == pc["P"] = "done" => reader = "released"

\* ... and it IS processed: with the connection stalled for good, the receiving goroutine still finishes
\* (checked as: no reachable state in which P can make no step although it has started and not finished)
PassiveEnabled == (pc["P"] \notin {"idle", "done"}) => (ENABLED PLock \/ ENABLED PDecide \/ ENABLED PSweep \/ ENABLED PLost \/ ~stalled)
=============================================================================
