--------------------------- MODULE ReassemblyShim ---------------------------
(***************************************************************************)
(* Tool-compatibility shim of ReassemblyInd.tla, TLC / TLAPS flavour: the  *)
(* operators are the plain TLA+ meaning.  spec/apalache/ReassemblyShim.tla *)
(* is the Apalache flavour (same meaning for all indices in -1..9, written *)
(* with the constant bounds and the function-to-sequence coercion that     *)
(* Apalache 0.58 needs).                                                   *)
(***************************************************************************)
EXTENDS Integers, Sequences

\* the integer interval a..b
Rng(a, b) == a..b

\* a function with domain 1..len read as a sequence (the identity in untyped TLA+)
AsSeq(f, len) == f

\* typing of a sequence variable (Apalache: guaranteed by the type checker)
IsIntSeq(s) == s \in Seq(Int)
=============================================================================
