SPECIFICATION TSpec
CONSTANTS
  H = 2
  Buf = 3
  Lens = {}
  NW = @NW@
  MaxRec = 1000000
  MaxFail = 1000000
  FmtMax = 1000000
  WLimit = 1000000
  WMode = "atomic"
  RMode = "full"
CONSTRAINT HW
POSTCONDITION TraceAccepted
INVARIANTS TypeOK
CHECK_DEADLOCK FALSE
