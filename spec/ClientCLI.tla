------------------------------ MODULE ClientCLI ------------------------------
(* X06 - where ck-client listens and where it dials, as a function of WHERE   *)
(* each address part was given (cmd/ck-client/ck-client.go main()):           *)
(*   standalone:  "commandline argument takes precedence over json; if        *)
(*                 commandline argument is set, use commandline", then the    *)
(*                 json value, then the flag's default (-i 127.0.0.1,         *)
(*                 -l 1984, -p 443; -s has none: RemoteHost is required)      *)
(*   plugin mode (SS_LOCAL_HOST set): "json takes precedence over environment *)
(*                 variables, i.e. if json field isn't empty, use that"       *)
(*   UDP: -u given (true or false) wins over the json field; plugin: json.    *)
(* One row = one way of supplying the parts; the row's outcome says which     *)
(* source each effective part comes from ("none": ck-client refuses to start).*)
EXTENDS Naturals, FiniteSets, TLC, Json

Fields == {"LocalHost", "LocalPort", "RemoteHost", "RemotePort"}
Modes  == {"standalone", "plugin"}
Tri    == {"absent", "true", "false"}

VARIABLES mode, has, udpFlag, udpJson
vars == <<mode, has, udpFlag, udpJson>>

Srcs(m) == IF m = "standalone" THEN {"flag", "json"} ELSE {"env", "json"}

Init == /\ mode \in Modes
        /\ has \in [Fields -> SUBSET {"flag", "json", "env"}]
        /\ \A f \in Fields : has[f] \subseteq Srcs(mode)
        /\ mode = "plugin" => "env" \in has["LocalHost"]       \* that variable is what selects plugin mode
        /\ udpFlag \in Tri /\ udpJson \in Tri
        /\ mode = "plugin" => udpFlag = "absent"
Next == UNCHANGED vars
Spec == Init /\ [][Next]_vars

Default(f) == IF f = "RemoteHost" THEN "none" ELSE "default"
Eff(f) == IF mode = "standalone"
            THEN IF "flag" \in has[f] THEN "flag" ELSE IF "json" \in has[f] THEN "json" ELSE Default(f)
            ELSE IF "json" \in has[f] THEN "json" ELSE IF "env" \in has[f] THEN "env" ELSE "none"
Udp == IF udpFlag # "absent" THEN udpFlag = "true" ELSE udpJson = "true"
Starts == \A f \in Fields : Eff(f) # "none"

Row == [mode |-> mode,
        has  |-> [f \in Fields |-> has[f]],
        udpFlag |-> udpFlag, udpJson |-> udpJson,
        starts |-> Starts,
        proto  |-> IF Udp THEN "udp" ELSE "tcp",
        eff    |-> [f \in Fields |-> Eff(f)]]

\* sanity of the table itself
FlagWins     == \A f \in Fields : (mode = "standalone" /\ "flag" \in has[f]) => Eff(f) = "flag"
JsonBeatsEnv == \A f \in Fields : (mode = "plugin" /\ "json" \in has[f]) => Eff(f) = "json"
NeverGuessed == \A f \in Fields : Eff(f) \in has[f] \cup {"default", "none"}
Emit == PrintT(<<"X06ROW", ToJson(Row)>>)
=============================================================================
