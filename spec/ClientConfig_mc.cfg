SPECIFICATION Spec
CONSTANTS
  Free = @FREE@
  MaxDev = @MAXDEV@
  MaxInvalid = @MAXINVALID@
  CaseFold = @CASEFOLD@
INVARIANTS TypeOK Total ErrorIff Sentences Silent CaseInv Separable
CHECK_DEADLOCK FALSE
