------------------------- MODULE ClientTimeoutsGen -------------------------
(* Behaviour generator for ClientTimeouts: maximal behaviours are printed as *)
(* JSON and replayed against the real client.RouteTCP on a virtual clock.    *)
EXTENDS ClientTimeouts, TLC, Json

Emit == Terminal => PrintT(<<"BEHAVIOUR", ToJson([t |-> T, steps |-> hist])>>)
=============================================================================
