SPECIFICATION NegSpec
CONSTANTS
  W = @W@
  MaxTamper = @MAXT@
  Scope = "@SCOPE@"
  DevChoices = @DEV@
INVARIANTS TypeOK Witness
POSTCONDITION Post
CHECK_DEADLOCK FALSE
