---------------------------- MODULE UserPanelGen ----------------------------
(* Behaviour generator for UserPanel at the granularity the harness can    *)
(* impose on the real code: a goroutine is parked at a labelled schedule   *)
(* point (Gates: the verifhook points of /repo plus the harness's own      *)
(* "start", "serve" and "failed"), the environment releases one parked     *)
(* goroutine at a time ("go"), and that goroutine runs - Internal steps,   *)
(* taken with priority - until it parks again, returns, or blocks on a     *)
(* lock held by a parked goroutine.  A goroutine that was blocked and is   *)
(* woken by the release of the lock runs on as well.  Every environment    *)
(* step is recorded with the observation at the next settled moment.       *)
(* After MaxDepth environment steps the parked goroutines are released in  *)
(* slot order until all have returned (or nothing can move: deadlock).     *)
EXTENDS UserPanel, Json

CONSTANTS Gates, MaxDepth

VARIABLES hist,  \* <<[ev, obs]>>
          pend,  \* the environment step whose effects are still unfolding
          rel,   \* rel[p]: p has been released from the gate it is at but has not moved yet (blocked)
          multi  \* multi[p]: commitUpdate p has TERMINATE verdicts for more than one user (Go map order decides
                 \*           the order; its terminations then run without parking)
gvars == <<vars, hist, pend, rel, multi>>

LockedAPc == IF AQ THEN "u2" ELSE "u3"
Hook(p) == CASE pc[p] \in {"gu", "u1", "m1"} -> "start"
             [] pc[p] = "srv"  -> "serve"
             [] pc[p] = "ga"   -> "auth"
             [] pc[p] = "gs"   -> "resolved"
             [] pc[p] = "miss" -> "miss"
             [] pc[p] = "fail" -> "failed"
             [] pc[p] = "cc"   -> "closing"
             [] pc[p] = "cu"   -> "unlocked"
             [] pc[p] = "t2"   -> "queued"
             [] pc[p] = "t3"   -> "closed"
             [] pc[p] = LockedAPc -> "lockedA"
             [] pc[p] = "m2"   -> "lockedQ"
             [] pc[p] = "m3"   -> "collected"
             [] OTHER -> ""

Alive(p)  == pc[p] \notin {"idle", "done"}
GateOn(p) == /\ Hook(p) \in (Gates \cup {"start", "serve"})
             /\ ~(multi[p] /\ Hook(p) \in {"queued", "closed"})
AtGate(p) == Alive(p) /\ GateOn(p) /\ ~rel[p]
RunSet    == {p \in Procs : Alive(p) /\ ~AtGate(p) /\ Ready(p)}
Blocked   == {p \in Procs : Alive(p) /\ ~AtGate(p) /\ ~Ready(p)}
Parked    == {p \in Procs : AtGate(p)}
ParkedIn  == {p \in Parked : Hook(p) \notin {"start", "serve"}}   \* parked inside an operation
Deadlocked == Blocked # {} /\ ParkedIn = {} /\ RunSet = {}

NoEv == [a |-> "", p |-> 0, o |-> 0, d |-> "", u |-> 0]

Status(p) ==
  IF ~Alive(p) THEN [k |-> pc[p], h |-> "", w |-> {}]
  ELSE IF AtGate(p) THEN [k |-> "gate", h |-> Hook(p), w |-> {}]
  ELSE IF Ready(p) THEN [k |-> "run", h |-> "", w |-> {}]
  ELSE [k |-> "blk", h |-> "", w |-> WaitsFor(p)]

RestNow(u) == /\ dbx[u] /\ u \notin everTerm /\ queue[u] = Z
              /\ (active[u] # 0 => rvalve[active[u]] = Z)
              /\ \A p \in Procs : u \notin pin[p]

Obs == [st    |-> [p \in Procs |-> Status(p)],
        res   |-> [p \in Procs |-> pres[p]],
        act   |-> active,
        obj   |-> [o \in 1..nobj |-> [u |-> ouid[o], s |-> osid[o], r |-> orec[o], k |-> okey[o], live |-> olive[o],
                                      own |-> Owned1(o), why |-> Why(o), cut |-> o \in cut]],
        ent   |-> [r \in 1..nrec |-> Cardinality(Entries(r))],
        ruid  |-> [r \in 1..nrec |-> ruid[r]],
        term  |-> [r \in 1..nrec |-> rterm[r]],
        db    |-> [u \in Users |-> [x |-> dbx[u], e |-> dbe[u], c |-> dbc[u], auth |-> Auth(u)]],
        rest  |-> [u \in Users |-> RestNow(u)],
        car   |-> carried, chg |-> charged, top |-> topups, lost |-> [u \in Users |-> Lost(u)], drp |-> dropped,
        upl   |-> [u \in Users |-> queue[u] = Z /\ (active[u] # 0 => rvalve[active[u]] = Z) /\ (\A p \in Procs : u \notin pin[p])
                                    /\ PendOf(u) = Z],
        evt   |-> [u \in Users |-> u \in everTerm],
        q     |-> queue, qin |-> qin, valve |-> [r \in 1..nrec |-> rvalve[r]],
        multi |-> multi,
        quiet |-> Quiescent /\ Blocked = {},
        dead  |-> Deadlocked]

GInit == Init /\ hist = <<>> /\ pend = NoEv /\ rel = [p \in Procs |-> FALSE] /\ multi = [p \in Procs |-> FALSE]

Distinct(sq) == Cardinality({sq[i] : i \in 1..Len(sq)})

Internal ==
  \E p \in RunSet :
    /\ \A q \in RunSet : p <= q
    /\ Step(p)
    /\ rel' = [rel EXCEPT ![p] = FALSE]
    /\ multi' = [multi EXCEPT ![p] = IF pc[p] = "m3" THEN Distinct(presp'[p]) > 1 ELSE @]
    \* with several users to terminate the order is the Go map's: only offered when nothing can block the tail
    /\ multi'[p] /\ pc[p] = "m3" => (aw = 0 /\ qh = 0 /\ \A r \in Recs : sh[r] = 0 /\ Blocked = {})
    /\ UNCHANGED pend

Go(p) ==
  /\ AtGate(p)
  /\ rel' = [rel EXCEPT ![p] = TRUE]
  /\ pend' = [NoEv EXCEPT !.a = "go", !.p = p]
  /\ UNCHANGED <<vars, multi>>

EnvStep ==
  \/ \E p \in Procs : Go(p)
  \* traffic only through the pre-established sessions: their padded first frames are out, one unit = one frame of constant size
  \/ \E o \in 1..Len(InitObjSeq) : \E d \in {"rx", "tx"} :
        Traffic(o, d) /\ pend' = [NoEv EXCEPT !.a = "traffic", !.o = o, !.d = d] /\ UNCHANGED <<rel, multi>>
  \/ \E a \in AdminOps : \E u \in Users :
        Admin(a, u) /\ pend' = [NoEv EXCEPT !.a = a, !.u = u] /\ UNCHANGED <<rel, multi>>

Drain ==
  \E p \in ParkedIn : (\A q \in ParkedIn : p <= q) /\ Go(p)

GStep ==
  /\ IF RunSet # {} THEN Internal
     ELSE IF Len(hist) < MaxDepth THEN EnvStep ELSE Drain
  /\ hist' = IF RunSet' = {} THEN Append(hist, [ev |-> pend', obs |-> Obs']) ELSE hist
  \* determinism of the replay: at most one goroutine blocked at a time, unless that is the end (deadlock) ...
  /\ RunSet' = {} => (Cardinality(Blocked') <= 1 \/ Deadlocked')
  \* ... and while a commitUpdate is inside its loop over the queue (Go map order: which entries it has passed is not
  \* known to the harness) at most one of the records it may have to wait for has its sessionsM held
  /\ \A p \in Procs : pc'[p] \in {"m2", "ml"} =>
        Cardinality({active'[u] : u \in {v \in qin' : active'[v] # 0 /\ sh'[active'[v]] # 0}}
                    \cup (IF pwait'[p] # 0 /\ sh'[pwait'[p]] # 0 THEN {pwait'[p]} ELSE {})) <= 1

GSpec == GInit /\ [][GStep]_gvars

\* terminal states, spelled out (no ENABLED: GStep constrains primed operators)
AdminPossible(a, u) ==
  /\ nadmin < MaxAdmin /\ dbx[u]
  /\ CASE a = "drain" -> dbc[u] # CrZ [] a = "expire" -> ~dbe[u] [] a = "unexpire" -> dbe[u] [] OTHER -> TRUE
NoEnv == /\ Parked = {}
         /\ ntraffic >= MaxTraffic \/ (LiveObjs \cap 1..Len(InitObjSeq)) = {}
         /\ ~\E a \in AdminOps : \E u \in Users : AdminPossible(a, u)
Done == RunSet = {} /\ (IF Len(hist) < MaxDepth THEN NoEnv ELSE ParkedIn = {})
Emit == Done => PrintT(<<"BEHAVIOUR", ToJson([prog |-> [p \in Procs |-> op[p]], steps |-> hist])>>)
=============================================================================
