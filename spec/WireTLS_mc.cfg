SPECIFICATION Spec
CONSTANTS
  MaxCipher = 16640
  WireLimit = @WIRELIMIT@
  WriteLimit = @WRITELIMIT@
  FrameHdr = @FRAMEHDR@
  MaxExtra = @MAXEXTRA@
  Tags = {8, 16}
  CertLens = {27, 36, 42, 44, 46, 59, 68}
  Names = {"www.example.com", "random"}
  MaxFrames = @MAXFRAMES@
  Dev = @DEV@
INVARIANTS @INV@
CHECK_DEADLOCK FALSE
