SPECIFICATION Spec
CONSTANTS
  MaxHs = @MAXHS@
  NClosers = @NCLOSERS@
  MaxRec = @MAXREC@
  Gates = @GATES@
  Dev = @DEV@
  Export = @EXPORT@
INVARIANTS @INVS@
CHECK_DEADLOCK FALSE
