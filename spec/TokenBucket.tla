----------------------------- MODULE TokenBucket -----------------------------
(* C19 - a limited user's throughput never exceeds the configured rates.   *)
(*                                                                         *)
(* Design model of Cloak's rate limiting:                                  *)
(*   internal/multiplex/qos.go      LimitedValve: one juju/ratelimit       *)
(*                                  bucket per direction, shared by every  *)
(*                                  session and connection of the user,    *)
(*                                  capacity = one second of the rate      *)
(*   internal/multiplex/switchboard.go                                     *)
(*     send:   txWait(len) BEFORE conn.Write                               *)
(*     deplex: conn.Read, then rxWait(n) BEFORE recvDataFromRemote         *)
(*   github.com/juju/ratelimit v1.0.2  Bucket.take / adjustavailableTokens *)
(*                                                                         *)
(* Time is a discrete clock `now` (clock units).  The bucket adds          *)
(* `quantum` tokens every `fi` clock units ("tick" of ratelimit.go), so    *)
(* the rate is quantum/fi bytes per clock unit.  Take(w, n) is the         *)
(* critical section of Bucket.Take: it may drive `avail` negative and      *)
(* answers the instant at which waiter w may proceed.  Pass(w) is the      *)
(* moment the n bytes cross the measuring point (tx: written to the        *)
(* network after the wait; rx: handed to the session after the wait).      *)
(* Several waiters (streams / connections / sessions of one user) share    *)
(* the bucket (OwnBucket = FALSE); giving each its own is refuted.         *)
(*                                                                         *)
(* The parameters (quantum, fi, burst, which waiters are backlogged) are   *)
(* chosen in Init, so one TLC run sweeps a whole grid of configurations.   *)
EXTENDS TokenBucketDefs, FiniteSets, TLC

CONSTANTS Waiters,        \* identities of the goroutines that wait on the bucket
          Quanta,         \* set of quantum values to sweep
          FillIntervals,  \* set of fill intervals (clock units per bucket tick) to sweep
          Bursts,         \* set of burst sizes (bytes) the statement allows = "one second's worth"
          BacklogCounts,  \* how many of the waiters are backlogged (always have more to send): set of numbers to sweep
          Sizes,          \* message sizes
          MaxTime,        \* horizon of the discrete clock
          Mode,           \* "before": wait, then pass (Cloak).  "after": pass, then wait.  "none": no wait.
          CapFactor,      \* bucket capacity = CapFactor * burst (1 in Cloak: NewBucketWithRate(rate, rate))
          AllowRelax,     \* TRUE only in the low-rate configurations, see Relax below
          Prompt,         \* TRUE: a waiter proceeds exactly at its wake-up instant (virtual clock)
          History,        \* TRUE: keep the per-instant history so that UpperIntervals can be evaluated
          OwnBucket,      \* FALSE (Cloak): all waiters of the user share ONE bucket.  TRUE: every waiter has a
                          \* bucket of its own (a valve per session / per user record) - negative configuration
          CheckThenTake,  \* FALSE (Cloak: Bucket.Wait, one critical section).  TRUE: the valve first asks Available()
                          \* and, if that is enough, calls TakeAvailable() in a second critical section and proceeds
                          \* whatever it got - negative configuration
          ClosingSkipsTake \* FALSE (Cloak: switchboard.send waits for tokens whatever the state of the session).
                          \* TRUE: a frame sent on a session that is being closed (the closing notice, the rest of a
                          \* write in flight) goes out without taking tokens - negative configuration

ASSUME Mode \in {"before", "after", "none"}
ASSUME CapFactor \in Nat \ {0} /\ MaxTime \in Nat /\ AllowRelax \in BOOLEAN /\ Prompt \in BOOLEAN /\ History \in BOOLEAN /\ OwnBucket \in BOOLEAN
ASSUME CheckThenTake \in BOOLEAN /\ ClosingSkipsTake \in BOOLEAN

VARIABLES par,      \* [quantum, fi, burst, bl] fixed by Init
          now,      \* clock
          avail,    \* avail[b]: Bucket.availableTokens of bucket b (negative while consumers wait)
          latest,   \* latest[b]: Bucket.latestTick
          wake,     \* wake[w]: instant at which waiter w may proceed, -1 = not waiting
          pend,     \* pend[w]: bytes w is holding back
          chk,      \* chk[w] > 0: w has seen Available() >= chk[w] and is about to call TakeAvailable (CheckThenTake only)
          q,        \* virtual queue (upper-bound meter), scaled by fi
          d,        \* deficit (lower-bound meter), scaled by fi
          last,     \* instant of the last pass (both meters are brought up to date there)
          passedAt  \* history: bytes that crossed the measuring point at each instant
vars == <<par, now, avail, latest, wake, pend, chk, q, d, last, passedAt>>

\* the user's bucket(s): one shared by everybody, or (negative configuration) one per waiter
Buckets     == IF OwnBucket THEN Waiters ELSE {"user"}
BucketOf(w) == IF OwnBucket THEN w ELSE "user"

MaxSize == CHOOSE s \in Sizes : \A o \in Sizes : o <= s
Cap     == CapFactor * par.burst
\* The statement's bound is rate*t + burst.  A token bucket lets a sender "save up" for a message that
\* is larger than the whole bucket (avail goes negative, the wait covers the rest), and such a message
\* then passes in one piece: in configurations where a single message exceeds the burst the bound
\* checked is rate*t + burst + one message.  AllowRelax is FALSE in every other configuration.
Relax   == IF AllowRelax /\ MaxSize > par.burst THEN MaxSize ELSE 0
\* tokens arrive `quantum` at a time on tick boundaries: granularity of the limiter
Slack   == par.quantum

Init == /\ par \in [quantum : Quanta, fi : FillIntervals, burst : Bursts,
                    bl : {S \in SUBSET Waiters : Cardinality(S) \in BacklogCounts}]
        /\ now = 0
        /\ avail = [b \in Buckets |-> CapFactor * par.burst] /\ latest = [b \in Buckets |-> 0]
        /\ wake = [w \in Waiters |-> -1] /\ pend = [w \in Waiters |-> 0] /\ chk = [w \in Waiters |-> 0]
        /\ q = 0 /\ d = 0 /\ last = 0
        /\ passedAt = [t \in 0..MaxTime |-> 0]

\* n bytes cross the measuring point now
Account(n) ==
  LET flow == par.quantum * (now - last) IN     \* rate * dt, scaled by fi
  /\ q' = VQPass(q, flow, n * par.fi)
  /\ d' = DefPass(d, flow, n * par.fi)
  /\ last' = now
  /\ passedAt' = IF History THEN [passedAt EXCEPT ![now] = @ + n] ELSE passedAt

\* ratelimit.go Bucket.take (maxWait = infinity) preceded by adjustavailableTokens
Take(w, n) ==
  /\ wake[w] = -1 /\ chk[w] = 0
  /\ LET b    == BucketOf(w)
         tk   == now \div par.fi                          \* currentTick(now)
         a0   == IF avail[b] >= Cap THEN avail[b]         \* adjustavailableTokens
                 ELSE Min(Cap, avail[b] + (tk - latest[b]) * par.quantum)
         a1   == a0 - n
         endT == tk + ((-a1 + par.quantum - 1) \div par.quantum)
         wk   == IF a1 >= 0 THEN now ELSE endT * par.fi   \* now + waitTime
     IN /\ avail' = [avail EXCEPT ![b] = a1] /\ latest' = [latest EXCEPT ![b] = tk]
        /\ CASE Mode = "before" -> /\ wake' = [wake EXCEPT ![w] = wk]
                                   /\ pend' = [pend EXCEPT ![w] = n]
                                   /\ UNCHANGED <<q, d, last, passedAt>>
             [] Mode = "after"  -> /\ Account(n)
                                   /\ wake' = [wake EXCEPT ![w] = wk]
                                   /\ UNCHANGED pend
             [] Mode = "none"   -> /\ Account(n)
                                   /\ UNCHANGED <<wake, pend>>
  /\ UNCHANGED <<par, now, chk>>

\* CheckThenTake only: Available() (which brings the balance up to date) says there is enough ...
Adjusted(b) == LET tk == now \div par.fi IN
               IF avail[b] >= Cap THEN avail[b] ELSE Min(Cap, avail[b] + (tk - latest[b]) * par.quantum)
Check(w, n) ==
  /\ CheckThenTake /\ wake[w] = -1 /\ chk[w] = 0
  /\ Adjusted(BucketOf(w)) >= n          \* otherwise the valve falls through to Wait = Take(w, n)
  /\ avail' = [avail EXCEPT ![BucketOf(w)] = Adjusted(BucketOf(w))]
  /\ latest' = [latest EXCEPT ![BucketOf(w)] = now \div par.fi]
  /\ chk' = [chk EXCEPT ![w] = n]
  /\ UNCHANGED <<par, now, wake, pend, q, d, last, passedAt>>
\* ... and TakeAvailable() takes what is there NOW (possibly less, possibly nothing); the caller proceeds at once
TakeAvail(w) ==
  /\ chk[w] > 0
  /\ LET b == BucketOf(w)  a0 == Adjusted(b)  got == IF a0 <= 0 THEN 0 ELSE Min(chk[w], a0) IN
     /\ avail' = [avail EXCEPT ![b] = a0 - got] /\ latest' = [latest EXCEPT ![b] = now \div par.fi]
  /\ wake' = [wake EXCEPT ![w] = now] /\ pend' = [pend EXCEPT ![w] = chk[w]]
  /\ chk' = [chk EXCEPT ![w] = 0]
  /\ UNCHANGED <<par, now, q, d, last, passedAt>>

\* a frame sent on a session that is being closed: in Cloak an ordinary send (it must still take tokens)
SendClosing(w, n) ==
  IF ClosingSkipsTake
  THEN /\ wake[w] = -1 /\ chk[w] = 0 /\ Account(n)
       /\ UNCHANGED <<par, now, avail, latest, wake, pend, chk>>
  ELSE Take(w, n)

\* the sleep is over: the bytes go out / are handed on
Pass(w) ==
  /\ wake[w] # -1 /\ now >= wake[w]
  /\ IF pend[w] > 0 THEN Account(pend[w]) ELSE UNCHANGED <<q, d, last, passedAt>>
  /\ wake' = [wake EXCEPT ![w] = -1] /\ pend' = [pend EXCEPT ![w] = 0]
  /\ UNCHANGED <<par, now, avail, latest, chk>>

Tick ==
  /\ now < MaxTime
  /\ \A w \in Waiters : chk[w] = 0                                 \* the gap between the two calls is no time at all
  /\ Prompt => \A w \in Waiters : wake[w] = -1 \/ wake[w] > now   \* nobody oversleeps on the virtual clock
  /\ \A w \in par.bl : wake[w] # -1                                \* a backlogged waiter has asked again
  /\ now' = now + 1
  /\ UNCHANGED <<par, avail, latest, wake, pend, chk, q, d, last, passedAt>>

Next == \/ \E w \in Waiters, n \in Sizes : Take(w, n) \/ Check(w, n) \/ SendClosing(w, n)
        \/ \E w \in Waiters : TakeAvail(w)
        \/ \E w \in Waiters : Pass(w)
        \/ Tick
Spec == Init /\ [][Next]_vars

\* the waiters are interchangeable (the set of backlogged ones is chosen by cardinality)
Symm == Permutations(Waiters)

-----------------------------------------------------------------------------
TypeOK == /\ now \in 0..MaxTime /\ \A b \in Buckets : avail[b] \in Int /\ latest[b] \in Nat
          /\ \A w \in Waiters : wake[w] \in Int /\ pend[w] \in Nat
          /\ q \in Nat /\ d \in Nat /\ last \in 0..MaxTime

\* C19, upper bound, virtual-queue form (everything scaled by fi)
UpperVQ == q <= (par.burst + Slack + Relax) * par.fi

\* C19, upper bound, as stated: EVERY interval [t1,t2] carries at most rate*(t2-t1) + burst
SumPassed(t1, t2) ==
  LET S[t \in t1..t2] == passedAt[t] + (IF t = t1 THEN 0 ELSE S[t - 1]) IN S[t2]
UpperIntervals ==
  History =>
  \A t1 \in 0..now : \A t2 \in t1..now :
     SumPassed(t1, t2) * par.fi <= par.quantum * (t2 - t1) + (par.burst + Slack + Relax) * par.fi

\* C19, lower bound: while somebody is backlogged, no interval falls short of rate*t by more than
\* one message (plus the granularity)
NotStarved ==
  (par.bl # {} /\ Prompt /\ Mode = "before")
     => DefBefore(d, par.quantum * (now - last)) <= (MaxSize + Slack) * par.fi
=============================================================================
