SPECIFICATION Spec
CONSTANTS
  Buf = @BUF@
  Hdr = 5
  Small = 3
  Big = 20
  LS = 4
  Trail = 2
  BannerLen = 2
  MaxChunks = @MAXCHUNKS@
  Scripts = @SCRIPTS@
  Downs = @DOWNS@
  AuthClasses = @AUTH@
  HiddenClasses = @HIDDEN@
  PortMode = "@PORTS@"
  AllCuts = @ALLCUTS@
  Dev = @DEV@
INVARIANTS @INV@
CHECK_DEADLOCK FALSE
