SPECIFICATION Spec
CONSTANTS
  Buf = @BUF@
  Hdr = 5
  Small = 3
  Big = 20
  LS = 4
  Trail = 2
  BannerLen = 2
  MaxChunks = @MAXCHUNKS@
  Scripts = {"silent", "banner", "echo", "close"}
  Downs = {"up", "refuse", "closeatonce"}
  AuthClasses = {"badhello", "badkey", "replay", "window", "encmethod", "method", "uid", "ok", "nosession"}
  HiddenClasses = {"short", "bogus", "replay", "method", "uid"}
  AllCuts = @ALLCUTS@
  Dev = @DEV@
INVARIANTS @INV@
CHECK_DEADLOCK FALSE
