SPECIFICATION PSpec
CONSTANTS
  UIDs = {"u1", "u2"}
  PUIDs = @PUIDS@
  MaxOps = @DEPTH@
  MaxAdmin = @MAXADMIN@
  OneFields = @ONEF@
  ValsOne = @ONEV@
  AllButFields = @ABF@
  ValsAllBut = @ABV@
  ValsAll = @ALLV@
  WithNone = @NONE@
  UpUsages = @UPU@
  DownUsages = @DNU@
  NoUser = NoUser
  Absent = Absent
  AbsentReadsZero = TRUE
  RejectNonPositiveRate = TRUE
  GuardNilUser = @GUARD@
INVARIANTS Emit Persist UploadNeverPanics PanelTypeOK QueueInv
CHECK_DEADLOCK FALSE
