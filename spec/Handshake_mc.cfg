SPECIFICATION Spec
CONSTANTS
  W = @W@
  MaxTamper = @MAXT@
  Scope = "@SCOPE@"
  Dev = @DEV@
INVARIANTS TypeOK @INV@
CHECK_DEADLOCK FALSE
