SPECIFICATION Spec
CONSTANTS
  W = @W@
  MaxTamper = @MAXT@
  Scope = "@SCOPE@"
  DevChoices = @DEV@
INVARIANTS TypeOK @INV@
CHECK_DEADLOCK FALSE
