----------------------------- MODULE UserPanel -----------------------------
(***************************************************************************)
(* Server-side user bookkeeping of Cloak (properties C15, C16, C17).       *)
(*                                                                         *)
(* Go: internal/server/userpanel.go, activeuser.go, dispatcher.go:231-252, *)
(* usermanager/localmanager.go, multiplex/qos.go.                          *)
(*                                                                         *)
(* Goroutines are processes that step through their lock acquisitions     *)
(* exactly as the code does.  Locks:                                       *)
(*   A     userPanel.activeUsersM (RW).  Read sections never span a step,  *)
(*         so only the writer is a variable (aw).                          *)
(*   Q     userPanel.usageUpdateQueueM (qh)                                *)
(*   S[r]  ActiveUser.sessionsM of record r (sh[r])                        *)
(*   the bolt database: every manager call is one atomic transaction.      *)
(* A critical section that neither takes a second lock nor contains a      *)
(* schedule point is one action guarded by "lock free"; a section that     *)
(* does is split and the lock is held across steps.                        *)
(*                                                                         *)
(* ActiveUser records and sessions are objects with identities: a record   *)
(* deleted from the panel can still be held by a dispatcher goroutine.     *)
(*                                                                         *)
(* pc values name the position BEFORE the action; positions that coincide  *)
(* with a verifhook schedule point:                                        *)
(*   gs   dispatch.user.resolved        miss user.getsession.miss (holds S)*)
(*   fail (harness gate between a failed GetSession and CloseSession)      *)
(*   cu   user.closesession.unlocked    t2   panel.terminate.queued        *)
(*   t3   panel.terminate.closed        m2   panel.commit.lockedQ (holds Q)*)
(*                                      (ml: inside the loop over the queue)*)
(*   m3   panel.commit.collected                                           *)
(*   u3   panel.update.lockedA on HEAD (holds Q and A);                    *)
(*   u2   panel.update.lockedA before c8f2a81 (holds A only)               *)
(*                                                                         *)
(* Dev names the places where the code deviates from the obvious design:   *)
(*   PanelLockOrderAQ  updateUsageQueue locks A then Q (fixed by c8f2a81)  *)
(*   UserLookupGap     GetUser .. GetSession are two separately locked     *)
(*                     steps and nothing re-checks that the record is      *)
(*                     still the panel's: a session can be created on a    *)
(*                     record that TerminateActiveUser has emptied/removed *)
(*   StaleTerminate    TerminateActiveUser deletes activeUsers[uid]        *)
(*                     whatever record is stored there; a terminator       *)
(*                     holding an old record removes a newer one           *)
(*   GetUserCheckThenAct  (never in the code; a seeded change) GetUser looks *)
(*                     the UID up under A.RLock, calls AuthenticateUser    *)
(*                     unlocked and stores the new record under A.Lock     *)
(*                     without re-checking: simultaneous first connections *)
(*                     of one UID each get their own record, the last      *)
(*                     store wins                                          *)
(*   CloseAfterUnlock  (never in the code; a seeded change) CloseSession    *)
(*                     removes the session from the table under sessionsM  *)
(*                     but closes it after the unlock (pc "cc", schedule   *)
(*                     point "closing"): meanwhile a still open session is *)
(*                     neither counted nor findable                        *)
(*   NoQueueReset      (model mutant, never in the code) commitUpdate      *)
(*                     forgets to reset the queue - shows NeverMore can    *)
(*                     fail                                                *)
(***************************************************************************)
EXTENDS Integers, Sequences, FiniteSets, TLC

CONSTANTS
  NU,          \* users 1..NU (all limited users; bypass users are not modelled)
  NS,          \* session ids 1..NS offered to connections (0 is the id of pre-established sessions)
  Progs,       \* set of programs; a program is a set of codes slot*1000 + kind*100 + u*10 + sid, kind:
               \*   1 conn   a connection presenting (u, sid) whose session, if it creates one, is never reaped
               \*   2 connr  the same, but the goroutine goes on to serve the session it created and may reap it
               \*            (serveSession: CloseSession(sid) once the session is closed)
               \*   3 serve  the goroutine serving the pre-established session (u, sid); may reap it
               \*   4 update updateUsageQueue        5 commit commitUpdate
  Caps,        \* {u*10 + SessionsCap of u}
  Creds,       \* {u*10 + initial UpCredit = DownCredit of u}
  InitSess,    \* {u*10 + sid}: sessions established (sequentially) before the behaviour starts
  MaxNew,      \* bound on the ActiveUser records / sessions created during a behaviour (>= number of conn goroutines)
  MaxTraffic,  \* traffic units per behaviour
  AdminOps,    \* subset of {"topup","drain","expire","unexpire","delete"}
  MaxAdmin,
  Dev

DevAll == {"PanelLockOrderAQ", "UserLookupGap", "StaleTerminate", "GetUserCheckThenAct", "CloseAfterUnlock", "NoQueueReset"}
ASSUME Dev \subseteq DevAll

Users  == 1..NU
Sids0  == 0..NS
AllCodes == UNION Progs
NP      == IF AllCodes = {} THEN 1 ELSE CHOOSE n \in 1..9 : (\E c \in AllCodes : c \div 1000 = n) /\ \A c \in AllCodes : c \div 1000 <= n
Procs   == 1..NP
MaxRec  == NU + MaxNew
MaxObj  == Cardinality(InitSess) + MaxNew
KindName(k) == CASE k = 1 -> "conn" [] k = 2 -> "connr" [] k = 3 -> "serve" [] k = 4 -> "update" [] k = 5 -> "commit" [] OTHER -> "none"
Recs   == 1..MaxRec
Objs   == 1..MaxObj
TopUpK == 2

CapOf(u)  == CHOOSE c \in 0..9 : (u * 10 + c) \in Caps
CredOf(u) == CHOOSE c \in 0..9 : (u * 10 + c) \in Creds

\* Amounts: rx / tx are data units that crossed a connection pool (client->server / server->client); nt is the set of
\* sessions whose closing notice is part of the amount (Session.Close sends the notice through the pool as well: tx
\* direction, random size, smaller than one data unit in the harness's concretisation, so notices never change the
\* sign of a credit measured in units; they are tracked by session so that the harness can price them in bytes).
Z == [rx |-> 0, tx |-> 0, nt |-> {}]
Plus(a, b)  == [rx |-> a.rx + b.rx, tx |-> a.tx + b.tx, nt |-> a.nt \cup b.nt]
Leq(a, b)   == a.rx <= b.rx /\ a.tx <= b.tx /\ a.nt \subseteq b.nt
\* stored credit in units (the notices charged are charged[u].nt)
Cr(n)        == [rx |-> n, tx |-> n]
CrPlus(c, d) == [rx |-> c.rx + d.rx, tx |-> c.tx + d.tx]
CrLess(c, a) == [rx |-> c.rx - a.rx, tx |-> c.tx - a.tx]
CrZ          == Cr(0)

NoOp  == [k |-> "none", u |-> 0, s |-> 0, key |-> 0]
NoRes == [t |-> "none", o |-> 0]
NoSess == [s \in Sids0 |-> 0]

VARIABLES
  \* ---- processes
  pc,
  op,       \* the program chosen at Init (constant afterwards): [k, u, s, key] per slot; key names the fresh
            \* session key the connection brings along
  prec,     \* the *ActiveUser the goroutine holds (from GetUser; for "serve": the initial record)
  prem,     \* `remaining` computed by CloseSession under S
  trec,     \* the record TerminateActiveUser was called with
  tpend,    \* result of valve.Nullify() in updateUsageQueueForOne, not yet in the queue
  ploop,    \* commitUpdate: UIDs whose queue entry the loop has already passed
  pwait,    \* commitUpdate: the record whose sessionsM the loop is waiting for (user.NumSession), 0 = none
  pclo,     \* CloseSession with CloseAfterUnlock: the session removed from the table and still to be closed
  pin, pstat, \* commitUpdate: UIDs / usage of the statuses snapshot
  presp,    \* commitUpdate: UIDs of the TERMINATE responses still to act on
  pres,     \* outcome of a Conn
  \* ---- locks
  aw, qh, sh,
  \* ---- panel
  active,   \* activeUsers: uid -> record or 0
  nrec, ruid, rsess, rvalve,
  rterm,    \* ghost: closeAllSessions has run on the record
  nobj, ouid, orec, osid, okey, olive,
  queue, qin,
  \* ---- database
  dbx, dbc, dbe,
  \* ---- ghosts and budgets
  carried,  \* bytes that crossed the connection pool, per user
  charged,  \* bytes deducted from the stored credit
  dropped,  \* usage uploaded for a user that no longer exists
  topups,   \* net credit added through the admin API
  cut,      \* sessions that were live when an upload answered TERMINATE for their user
  everTerm, \* users that have been terminated at least once
  owhy,     \* why a session may be unreachable: created on a record no longer the panel's
  rwhy,     \* why a record may be unreachable: removed by a terminator holding another record
  badStart, \* ghost: a session was created for a user without credit / expired / deleted
  ntraffic, nadmin

ProcV  == <<pc, op, prec, prem, trec, tpend, ploop, pwait, pclo, pin, pstat, presp, pres>>
LockV  == <<aw, qh, sh>>
RecV   == <<active, nrec, ruid, rsess, rvalve, rterm>>
ObjV   == <<nobj, ouid, orec, osid, okey, olive>>
QueueV == <<queue, qin>>
DbV    == <<dbx, dbc, dbe>>
GhostV == <<carried, charged, dropped, topups, cut, everTerm, owhy, rwhy, badStart, ntraffic, nadmin>>
vars   == <<ProcV, LockV, RecV, ObjV, QueueV, DbV, GhostV>>

AQ     == "PanelLockOrderAQ" \in Dev
Gap    == "UserLookupGap" \in Dev
Stale  == "StaleTerminate" \in Dev
CTA    == "GetUserCheckThenAct" \in Dev
CAU    == "CloseAfterUnlock" \in Dev

\* a goroutine at its first position has not done anything yet; one at "srv" is serving a session and
\* is not inside a bookkeeping operation
InFlight  == {p \in Procs : pc[p] \notin {"idle", "done", "srv", "gu", "u1", "m1"}}   \* "ga"/"gi" (inside GetUser) count
Quiescent == InFlight = {}
LiveObjs  == {o \in 1..nobj : olive[o]}
Entries(r) == {s \in Sids0 : rsess[r][s] # 0}
Owned1(o) == active[ouid[o]] = orec[o] /\ rsess[orec[o]][osid[o]] = o
Auth(u)   == dbx[u] /\ dbc[u].rx > 0 /\ dbc[u].tx > 0 /\ ~dbe[u]

-----------------------------------------------------------------------------
(* Initial state: the users exist; the sessions of InitSess have been      *)
(* established one after the other (record u for user u).                  *)
InitUsers == {u \in Users : \E s \in Sids0 : (u * 10 + s) \in InitSess}
RECURSIVE OrdSeq(_)
OrdSeq(T) == IF T = {} THEN <<>> ELSE LET m == CHOOSE x \in T : \A y \in T : x <= y IN <<m>> \o OrdSeq(T \ {m})
InitObjSeq == OrdSeq(InitSess)  \* deterministic numbering of the initial sessions

FirstPc(k) == CASE k \in {"conn", "connr"} -> "gu" [] k = "serve" -> "srv" [] k = "update" -> "u1"
                [] k = "commit" -> "m1" [] OTHER -> "idle"

Init ==
  /\ \E prog \in Progs :
       op = [p \in Procs |-> IF \E c \in prog : c \div 1000 = p
                               THEN LET c == CHOOSE c \in prog : c \div 1000 = p
                                    IN [k |-> KindName((c \div 100) % 10), u |-> (c \div 10) % 10, s |-> c % 10, key |-> p]
                               ELSE NoOp]
  /\ pc = [p \in Procs |-> FirstPc(op[p].k)]
  /\ prec = [p \in Procs |-> IF op[p].k = "serve" THEN op[p].u ELSE 0] /\ prem = [p \in Procs |-> 0] /\ trec = [p \in Procs |-> 0]
  /\ tpend = [p \in Procs |-> Z]
  /\ ploop = [p \in Procs |-> {}] /\ pwait = [p \in Procs |-> 0] /\ pclo = [p \in Procs |-> 0]
  /\ pin = [p \in Procs |-> {}] /\ pstat = [p \in Procs |-> [u \in Users |-> Z]]
  /\ presp = [p \in Procs |-> <<>>] /\ pres = [p \in Procs |-> NoRes]
  /\ aw = 0 /\ qh = 0 /\ sh = [r \in Recs |-> 0]
  /\ active = [u \in Users |-> IF u \in InitUsers THEN u ELSE 0]
  /\ nrec = NU
  /\ ruid = [r \in Recs |-> IF r <= NU THEN r ELSE 0]
  /\ rsess = [r \in Recs |-> [s \in Sids0 |->
                IF r <= NU /\ (r * 10 + s) \in InitSess
                  THEN CHOOSE i \in 1..Len(InitObjSeq) : InitObjSeq[i] = r * 10 + s ELSE 0]]
  /\ rvalve = [r \in Recs |-> Z]
  /\ rterm = [r \in Recs |-> FALSE]
  /\ nobj = Len(InitObjSeq)
  /\ ouid = [o \in Objs |-> IF o <= Len(InitObjSeq) THEN InitObjSeq[o] \div 10 ELSE 0]
  /\ orec = [o \in Objs |-> IF o <= Len(InitObjSeq) THEN InitObjSeq[o] \div 10 ELSE 0]
  /\ osid = [o \in Objs |-> IF o <= Len(InitObjSeq) THEN InitObjSeq[o] % 10 ELSE 0]
  /\ okey = [o \in Objs |-> IF o <= Len(InitObjSeq) THEN 100 + o ELSE 0]   \* keys of initial sessions: 100+o
  /\ olive = [o \in Objs |-> o <= Len(InitObjSeq)]
  /\ queue = [u \in Users |-> Z] /\ qin = {}
  /\ dbx = [u \in Users |-> TRUE]
  /\ dbc = [u \in Users |-> Cr(CredOf(u))]
  /\ dbe = [u \in Users |-> FALSE]
  /\ carried = [u \in Users |-> Z] /\ charged = [u \in Users |-> Z] /\ dropped = [u \in Users |-> Z]
  /\ topups = [u \in Users |-> CrZ]
  /\ cut = {} /\ everTerm = {}
  /\ owhy = [o \in Objs |-> ""] /\ rwhy = [r \in Recs |-> ""]
  /\ badStart = FALSE
  /\ ntraffic = 0 /\ nadmin = 0

-----------------------------------------------------------------------------
(* Ready(p): the lock(s) the next action of p needs are free.              *)
\* The loop of commitUpdate over the queue (Go map order): per entry A.RLock (lookup), user.NumSession() = S.RLock of
\* the record found, A.RLock again (isActive).  All reads; what matters is where it can block.  An entry whose
\* record's S is held makes the loop wait for THAT record (pwait), whatever happens to activeUsers meanwhile.
LoopLeft(p) == qin \ ploop[p]

Ready(p) ==
  CASE pc[p] = "gu"   -> aw = 0
    [] pc[p] = "ga"   -> TRUE
    [] pc[p] = "gi"   -> aw = 0
    [] pc[p] = "gs"   -> sh[prec[p]] = 0
    [] pc[p] = "miss" -> TRUE
    [] pc[p] = "fail" -> sh[prec[p]] = 0
    [] pc[p] = "srv"  -> sh[prec[p]] = 0
    [] pc[p] = "cc"   -> TRUE
    [] pc[p] = "cu"   -> TRUE
    [] pc[p] = "t1n"  -> TRUE
    [] pc[p] = "t1q"  -> qh = 0
    [] pc[p] = "t2"   -> sh[trec[p]] = 0
    [] pc[p] = "t3"   -> aw = 0
    [] pc[p] = "u1"   -> IF AQ THEN aw = 0 ELSE qh = 0
    [] pc[p] = "u2"   -> IF AQ THEN qh = 0 ELSE aw = 0
    [] pc[p] = "u3"   -> TRUE
    [] pc[p] = "m1"   -> qh = 0
    [] pc[p] \in {"m2", "ml"} -> IF pwait[p] # 0 THEN sh[pwait[p]] = 0 ELSE (LoopLeft(p) = {} \/ aw = 0)
    [] pc[p] = "m3"   -> TRUE
    [] pc[p] = "mr"   -> aw = 0
    [] OTHER          -> FALSE

\* the locks a process that is not Ready waits for (what a goroutine dump shows)
WaitsFor(p) ==
  CASE pc[p] \in {"gu", "gi", "t3", "mr"} -> {"A"}
    [] pc[p] \in {"gs", "fail", "srv", "t2"} -> {"S"}
    [] pc[p] \in {"t1q", "m1"}            -> {"Q"}
    [] pc[p] = "u1"                       -> IF AQ THEN {"A"} ELSE {"Q"}
    [] pc[p] = "u2"                       -> IF AQ THEN {"Q"} ELSE {"A"}
    [] pc[p] \in {"m2", "ml"}             -> IF pwait[p] # 0 THEN {"S"} ELSE {"A"}
    [] OTHER                              -> {}

Goto(p, l) == pc' = [pc EXCEPT ![p] = l]

-----------------------------------------------------------------------------
(* Conn(u, s): dispatchConnection from GetUser to the reply.               *)
\* userPanel.GetUser (whole function under A)
ConnGetUser(p) ==
  LET u == op[p].u
      r == active[u]
      usable == r # 0 /\ (Gap \/ ~rterm[r])   \* the ideal panel never hands out a record it has terminated
  IN
  /\ pc[p] = "gu" /\ Ready(p) /\ ~CTA
  /\ IF usable
       THEN /\ prec' = [prec EXCEPT ![p] = r] /\ Goto(p, "gs")
            /\ UNCHANGED <<active, nrec, ruid, pres>>
       ELSE IF Auth(u) /\ nrec < MaxRec
         THEN /\ nrec' = nrec + 1
              /\ ruid' = [ruid EXCEPT ![nrec + 1] = u]
              /\ active' = [active EXCEPT ![u] = nrec + 1]
              /\ prec' = [prec EXCEPT ![p] = nrec + 1] /\ Goto(p, "gs")
              /\ UNCHANGED pres
         ELSE /\ pres' = [pres EXCEPT ![p] = [t |-> "unauth", o |-> 0]] /\ Goto(p, "done")
              /\ UNCHANGED <<active, nrec, ruid, prec>>
  /\ UNCHANGED <<op, prem, trec, tpend, ploop, pwait, pclo, pin, pstat, presp, LockV, rsess, rvalve, rterm, ObjV, QueueV, DbV, GhostV>>

\* GetUser with the deviation GetUserCheckThenAct: look-up (A.RLock) / AuthenticateUser (no lock; the harness can park
\* the caller inside it: pc "ga") / store (A.Lock, no re-check)
ConnGetUserLookup(p) ==
  LET u == op[p].u  r == active[u] IN
  /\ pc[p] = "gu" /\ Ready(p) /\ CTA
  /\ IF r # 0 THEN prec' = [prec EXCEPT ![p] = r] /\ Goto(p, "gs")
              ELSE UNCHANGED prec /\ Goto(p, "ga")
  /\ UNCHANGED <<op, prem, trec, tpend, ploop, pwait, pclo, pin, pstat, presp, pres, LockV, RecV, ObjV, QueueV, DbV, GhostV>>

ConnGetUserAuth(p) ==
  /\ pc[p] = "ga"
  /\ IF Auth(op[p].u) /\ nrec < MaxRec
       THEN Goto(p, "gi") /\ UNCHANGED pres
       ELSE pres' = [pres EXCEPT ![p] = [t |-> "unauth", o |-> 0]] /\ Goto(p, "done")
  /\ UNCHANGED <<op, prec, prem, trec, tpend, ploop, pwait, pclo, pin, pstat, presp, LockV, RecV, ObjV, QueueV, DbV, GhostV>>

ConnGetUserStore(p) ==
  LET u == op[p].u  cur == active[u]  r == nrec + 1 IN
  /\ pc[p] = "gi" /\ Ready(p) /\ nrec < MaxRec
  /\ nrec' = r
  /\ ruid' = [ruid EXCEPT ![r] = u]
  /\ active' = [active EXCEPT ![u] = r]
  /\ rwhy' = IF cur # 0 THEN [rwhy EXCEPT ![cur] = "getuser-check-then-act"] ELSE rwhy
  /\ prec' = [prec EXCEPT ![p] = r] /\ Goto(p, "gs")
  /\ UNCHANGED <<op, prem, trec, tpend, ploop, pwait, pclo, pin, pstat, presp, pres, LockV, rsess, rvalve, rterm, ObjV, QueueV, DbV,
                 carried, charged, dropped, topups, cut, everTerm, owhy, badStart, ntraffic, nadmin>>

\* ActiveUser.GetSession: lock S, look the session up
ConnLookup(p) ==
  LET r == prec[p]  s == op[p].s IN
  /\ pc[p] = "gs" /\ Ready(p)
  /\ IF ~Gap /\ rterm[r]
       THEN \* ideal: the record is no longer the panel's; resolve the user again
            /\ Goto(p, "gu") /\ UNCHANGED <<sh, pres>>
       ELSE IF rsess[r][s] # 0
         THEN /\ pres' = [pres EXCEPT ![p] = [t |-> "hit", o |-> rsess[r][s]]] /\ Goto(p, "done") /\ UNCHANGED sh
         ELSE /\ sh' = [sh EXCEPT ![r] = p] /\ Goto(p, "miss") /\ UNCHANGED pres
  /\ UNCHANGED <<op, prec, prem, trec, tpend, ploop, pwait, pclo, pin, pstat, presp, aw, qh, RecV, ObjV, QueueV, DbV, GhostV>>

\* ... AuthoriseNewSession(NumExisting = len(sessions)), MakeSession with this connection's key, unlock
ConnCreate(p) ==
  LET r == prec[p]  s == op[p].s  u == op[p].u  o == nobj + 1 IN
  /\ pc[p] = "miss"
  /\ sh' = [sh EXCEPT ![r] = 0]
  /\ IF Auth(u) /\ Cardinality(Entries(r)) < CapOf(u) /\ nobj < MaxObj
       THEN /\ nobj' = o
            /\ ouid' = [ouid EXCEPT ![o] = u] /\ orec' = [orec EXCEPT ![o] = r]
            /\ osid' = [osid EXCEPT ![o] = s] /\ okey' = [okey EXCEPT ![o] = op[p].key]
            /\ olive' = [olive EXCEPT ![o] = TRUE]
            /\ rsess' = [rsess EXCEPT ![r][s] = o]
            /\ owhy' = [owhy EXCEPT ![o] = IF rterm[r] \/ active[u] # r THEN "lookup-gap" ELSE ""]
            /\ badStart' = (badStart \/ ~Auth(u))
            /\ pres' = [pres EXCEPT ![p] = [t |-> "new", o |-> o]]
            /\ Goto(p, IF op[p].k = "connr" THEN "srv" ELSE "done")
       ELSE /\ pres' = [pres EXCEPT ![p] = [t |-> "refused", o |-> 0]] /\ Goto(p, "fail")
            /\ UNCHANGED <<ObjV, rsess, owhy, badStart>>
  /\ UNCHANGED <<op, prec, prem, trec, tpend, ploop, pwait, pclo, pin, pstat, presp, aw, qh, active, nrec, ruid, rvalve, rterm, QueueV, DbV,
                 carried, charged, dropped, topups, cut, everTerm, rwhy, ntraffic, nadmin>>

-----------------------------------------------------------------------------
(* ActiveUser.CloseSession(sid): the critical section (delete, Close,      *)
(* remaining); called by the goroutine serving a session once the session *)
(* is closed (the peer may close it at any time: "srv" can step whenever   *)
(* S is free), and by the dispatcher after a failed GetSession.  Session.Close of a live session sends the closing *)
(* notice through the connection pool: one notice on the user's valve.     *)
CloseCS(p, r, s) ==
  LET o == rsess[r][s]
      u == ruid[r]
      n == IF o # 0 /\ olive[o] THEN {o} ELSE {} IN
  /\ rsess' = [rsess EXCEPT ![r][s] = 0]
  /\ olive' = IF o # 0 THEN [olive EXCEPT ![o] = FALSE] ELSE olive
  /\ rvalve' = [rvalve EXCEPT ![r].nt = @ \cup n]
  /\ carried' = [carried EXCEPT ![u].nt = @ \cup n]
  /\ prem' = [prem EXCEPT ![p] = Cardinality(Entries(r) \ {s})]
  /\ Goto(p, "cu")

CloseStep(p) ==
  /\ pc[p] \in {"srv", "fail"} /\ Ready(p) /\ ~CAU
  /\ CloseCS(p, prec[p], op[p].s)
  /\ UNCHANGED <<op, prec, trec, tpend, ploop, pwait, pclo, pin, pstat, presp, pres, LockV, active, nrec, ruid, rterm,
                 nobj, ouid, orec, osid, okey, QueueV, DbV,
                 charged, dropped, topups, cut, everTerm, owhy, rwhy, badStart, ntraffic, nadmin>>

\* CloseSession with the deviation CloseAfterUnlock: the critical section only removes the session from the table ...
CloseRemove(p) ==
  LET r == prec[p]  s == op[p].s  o == rsess[r][s] IN
  /\ pc[p] \in {"srv", "fail"} /\ Ready(p) /\ CAU
  /\ rsess' = [rsess EXCEPT ![r][s] = 0]
  /\ prem' = [prem EXCEPT ![p] = Cardinality(Entries(r) \ {s})]
  /\ pclo' = [pclo EXCEPT ![p] = o]
  /\ owhy' = IF o # 0 /\ olive[o] THEN [owhy EXCEPT ![o] = "close-after-unlock"] ELSE owhy
  /\ Goto(p, "cc")
  /\ UNCHANGED <<op, prec, trec, tpend, ploop, pwait, pin, pstat, presp, pres, LockV, active, nrec, ruid, rvalve, rterm, ObjV, QueueV, DbV,
                 carried, charged, dropped, topups, cut, everTerm, rwhy, badStart, ntraffic, nadmin>>

\* ... and SetTerminalMsg / Session.Close follow without the lock
CloseFinish(p) ==
  LET r == prec[p]  o == pclo[p]  u == ruid[r]
      n == IF o # 0 /\ olive[o] THEN {o} ELSE {} IN
  /\ pc[p] = "cc"
  /\ olive' = IF o # 0 THEN [olive EXCEPT ![o] = FALSE] ELSE olive
  /\ rvalve' = [rvalve EXCEPT ![r].nt = @ \cup n]
  /\ carried' = [carried EXCEPT ![u].nt = @ \cup n]
  /\ pclo' = [pclo EXCEPT ![p] = 0]
  /\ Goto(p, "cu")
  /\ UNCHANGED <<op, prec, prem, trec, tpend, ploop, pwait, pin, pstat, presp, pres, LockV, active, nrec, ruid, rsess, rterm,
                 nobj, ouid, orec, osid, okey, QueueV, DbV,
                 charged, dropped, topups, cut, everTerm, owhy, rwhy, badStart, ntraffic, nadmin>>

\* valve.Nullify() at the head of updateUsageQueueForOne
Nullify(p, r) ==
  /\ tpend' = [tpend EXCEPT ![p] = rvalve[r]]
  /\ rvalve' = [rvalve EXCEPT ![r] = Z]
  /\ trec' = [trec EXCEPT ![p] = r]
  /\ everTerm' = everTerm \cup {ruid[r]}
  /\ Goto(p, "t1q")

\* after the unlock: `if remaining == 0 { TerminateActiveUser }`
CloseDecide(p) ==
  LET r == prec[p] IN
  /\ pc[p] = "cu"
  /\ IF prem[p] = 0
       THEN Nullify(p, r)
       ELSE Goto(p, "done") /\ UNCHANGED <<tpend, rvalve, trec, everTerm>>
  /\ UNCHANGED <<op, prec, prem, ploop, pwait, pclo, pin, pstat, presp, pres, LockV, active, nrec, ruid, rsess, rterm, ObjV, QueueV, DbV,
                 carried, charged, dropped, topups, cut, owhy, rwhy, badStart, ntraffic, nadmin>>

-----------------------------------------------------------------------------
(* TerminateActiveUser(user): updateUsageQueueForOne; closeAllSessions;    *)
(* delete(activeUsers, uid).                                               *)
TermNullify(p) ==
  /\ pc[p] = "t1n"
  /\ Nullify(p, trec[p])
  /\ UNCHANGED <<op, prec, prem, ploop, pwait, pclo, pin, pstat, presp, pres, LockV, active, nrec, ruid, rsess, rterm, ObjV, QueueV, DbV,
                 carried, charged, dropped, topups, cut, owhy, rwhy, badStart, ntraffic, nadmin>>

TermQueue(p) ==
  LET u == ruid[trec[p]] IN
  /\ pc[p] = "t1q" /\ Ready(p)
  /\ queue' = [queue EXCEPT ![u] = Plus(@, tpend[p])]
  /\ qin' = qin \cup {u}
  /\ tpend' = [tpend EXCEPT ![p] = Z]
  /\ Goto(p, "t2")
  /\ UNCHANGED <<op, prec, prem, trec, ploop, pwait, pclo, pin, pstat, presp, pres, LockV, RecV, ObjV, DbV, GhostV>>

TermCloseAll(p) ==
  LET r == trec[p]
      u == ruid[r]
      os == {rsess[r][s] : s \in Entries(r)}
      n == {o \in os : olive[o]} IN
  /\ pc[p] = "t2" /\ Ready(p)
  /\ rsess' = [rsess EXCEPT ![r] = NoSess]
  /\ olive' = [o \in Objs |-> IF o \in os THEN FALSE ELSE olive[o]]
  /\ rvalve' = [rvalve EXCEPT ![r].nt = @ \cup n]
  /\ carried' = [carried EXCEPT ![u].nt = @ \cup n]
  /\ rterm' = [rterm EXCEPT ![r] = TRUE]
  /\ Goto(p, "t3")
  /\ UNCHANGED <<op, prec, prem, trec, tpend, ploop, pwait, pclo, pin, pstat, presp, pres, LockV, active, nrec, ruid,
                 nobj, ouid, orec, osid, okey, QueueV, DbV,
                 charged, dropped, topups, cut, everTerm, owhy, rwhy, badStart, ntraffic, nadmin>>

TermDelete(p) ==
  LET r == trec[p]
      u == ruid[r]
      cur == active[u] IN
  /\ pc[p] = "t3" /\ Ready(p)
  /\ IF Stale \/ cur = r
       THEN /\ active' = [active EXCEPT ![u] = 0]
            /\ rwhy' = IF cur # 0 /\ cur # r THEN [rwhy EXCEPT ![cur] = "stale-terminate"] ELSE rwhy
       ELSE UNCHANGED <<active, rwhy>>
  /\ IF op[p].k = "commit" /\ presp[p] # <<>> THEN Goto(p, "mr") ELSE Goto(p, "done")
  /\ UNCHANGED <<op, prec, prem, trec, tpend, ploop, pwait, pclo, pin, pstat, presp, pres, LockV, nrec, ruid, rsess, rvalve, rterm, ObjV, QueueV, DbV,
                 carried, charged, dropped, topups, cut, everTerm, owhy, badStart, ntraffic, nadmin>>

-----------------------------------------------------------------------------
(* updateUsageQueue: two locks, then Nullify every active user's valve     *)
(* into the queue.                                                         *)
UpdLock1(p) ==
  /\ pc[p] = "u1" /\ Ready(p)
  /\ IF AQ THEN aw' = p /\ UNCHANGED qh ELSE qh' = p /\ UNCHANGED aw
  /\ Goto(p, "u2")
  /\ UNCHANGED <<op, prec, prem, trec, tpend, ploop, pwait, pclo, pin, pstat, presp, pres, sh, RecV, ObjV, QueueV, DbV, GhostV>>

UpdLock2(p) ==
  /\ pc[p] = "u2" /\ Ready(p)
  /\ IF AQ THEN qh' = p /\ UNCHANGED aw ELSE aw' = p /\ UNCHANGED qh
  /\ Goto(p, "u3")
  /\ UNCHANGED <<op, prec, prem, trec, tpend, ploop, pwait, pclo, pin, pstat, presp, pres, sh, RecV, ObjV, QueueV, DbV, GhostV>>

UpdBody(p) ==
  LET au == {u \in Users : active[u] # 0} IN
  /\ pc[p] = "u3"
  /\ queue' = [u \in Users |-> IF u \in au THEN Plus(queue[u], rvalve[active[u]]) ELSE queue[u]]
  /\ qin' = qin \cup au
  /\ rvalve' = [r \in Recs |-> IF \E u \in au : active[u] = r THEN Z ELSE rvalve[r]]
  /\ aw' = 0 /\ qh' = 0
  /\ Goto(p, "done")
  /\ UNCHANGED <<op, prec, prem, trec, tpend, ploop, pwait, pclo, pin, pstat, presp, pres, sh, active, nrec, ruid, rsess, rterm, ObjV, DbV, GhostV>>

-----------------------------------------------------------------------------
(* commitUpdate                                                            *)
ComLock(p) ==
  /\ pc[p] = "m1" /\ Ready(p)
  /\ qh' = p /\ Goto(p, "m2")
  /\ UNCHANGED <<op, prec, prem, trec, tpend, ploop, pwait, pclo, pin, pstat, presp, pres, aw, sh, RecV, ObjV, QueueV, DbV, GhostV>>

\* one entry of the loop: passed, or found with its record's sessionsM held (then the loop waits for that record)
ComLoop(p) ==
  /\ pc[p] \in {"m2", "ml"} /\ Ready(p)
  /\ Goto(p, "ml")
  /\ IF pwait[p] # 0
       THEN pwait' = [pwait EXCEPT ![p] = 0] /\ UNCHANGED ploop
       ELSE \E u \in LoopLeft(p) :
              LET r == active[u] IN
              IF r # 0 /\ sh[r] # 0
                THEN pwait' = [pwait EXCEPT ![p] = r] /\ ploop' = [ploop EXCEPT ![p] = @ \cup {u}]
                ELSE ploop' = [ploop EXCEPT ![p] = @ \cup {u}] /\ UNCHANGED pwait
  /\ UNCHANGED <<op, prec, prem, trec, tpend, pclo, pin, pstat, presp, pres, LockV, RecV, ObjV, QueueV, DbV, GhostV>>

\* after the loop: the statuses, the reset of the queue, the unlock
ComSnapshot(p) ==
  /\ pc[p] \in {"m2", "ml"} /\ pwait[p] = 0 /\ LoopLeft(p) = {}
  /\ pin' = [pin EXCEPT ![p] = qin]
  /\ pstat' = [pstat EXCEPT ![p] = queue]
  /\ ploop' = [ploop EXCEPT ![p] = {}]
  /\ IF "NoQueueReset" \in Dev THEN UNCHANGED QueueV
     ELSE queue' = [u \in Users |-> Z] /\ qin' = {}
  /\ qh' = 0
  /\ Goto(p, "m3")
  /\ UNCHANGED <<op, prec, prem, trec, tpend, pwait, pclo, presp, pres, aw, sh, RecV, ObjV, DbV, GhostV>>

\* Manager.UploadStatus: one transaction over all statuses
RECURSIVE RespSeq(_, _)
RespSeq(S, f) == IF S = {} THEN <<>>
                 ELSE LET u == CHOOSE x \in S : \A y \in S : x <= y IN f[u] \o RespSeq(S \ {u}, f)

ComUpload(p) ==
  LET U == pin[p]
      newc == [u \in Users |-> IF u \in U /\ dbx[u] THEN CrLess(dbc[u], pstat[p][u]) ELSE dbc[u]]
      rep(u, n) == [i \in 1..n |-> u]
      resp == [u \in Users |->
                 IF ~dbx[u] THEN <<u>>
                 ELSE rep(u, (IF newc[u].rx <= 0 THEN 1 ELSE 0) + (IF newc[u].tx <= 0 THEN 1 ELSE 0)
                             + (IF dbe[u] THEN 1 ELSE 0))]
      tu == {u \in U : resp[u] # <<>>} IN
  /\ pc[p] = "m3"
  /\ dbc' = newc
  /\ charged' = [u \in Users |-> IF u \in U /\ dbx[u] THEN Plus(charged[u], pstat[p][u]) ELSE charged[u]]
  /\ dropped' = [u \in Users |-> IF u \in U /\ ~dbx[u] THEN Plus(dropped[u], pstat[p][u]) ELSE dropped[u]]
  /\ cut' = cut \cup {o \in LiveObjs : ouid[o] \in tu}
  /\ presp' = [presp EXCEPT ![p] = RespSeq(U, resp)]
  /\ pin' = [pin EXCEPT ![p] = {}]
  /\ pstat' = [pstat EXCEPT ![p] = [u \in Users |-> Z]]
  /\ IF tu = {} THEN Goto(p, "done") ELSE Goto(p, "mr")
  /\ UNCHANGED <<op, prec, prem, trec, tpend, ploop, pwait, pclo, pres, LockV, RecV, ObjV, QueueV, dbx, dbe,
                 carried, topups, everTerm, owhy, rwhy, badStart, ntraffic, nadmin>>

\* one TERMINATE response: look the user up under A.RLock
ComResp(p) ==
  LET u == Head(presp[p])
      r == active[u]
      rest == Tail(presp[p]) IN
  /\ pc[p] = "mr" /\ Ready(p)
  /\ presp' = [presp EXCEPT ![p] = rest]
  /\ IF r # 0
       THEN trec' = [trec EXCEPT ![p] = r] /\ Goto(p, "t1n")
       ELSE UNCHANGED trec /\ (IF rest = <<>> THEN Goto(p, "done") ELSE Goto(p, "mr"))
  /\ UNCHANGED <<op, prec, prem, tpend, ploop, pwait, pclo, pin, pstat, pres, LockV, RecV, ObjV, QueueV, DbV, GhostV>>

-----------------------------------------------------------------------------
Step(p) ==
  \/ ConnGetUser(p) \/ ConnGetUserLookup(p) \/ ConnGetUserAuth(p) \/ ConnGetUserStore(p) \/ ConnLookup(p) \/ ConnCreate(p)
  \/ CloseStep(p) \/ CloseRemove(p) \/ CloseFinish(p) \/ CloseDecide(p)
  \/ TermNullify(p) \/ TermQueue(p) \/ TermCloseAll(p) \/ TermDelete(p)
  \/ UpdLock1(p) \/ UpdLock2(p) \/ UpdBody(p)
  \/ ComLock(p) \/ ComLoop(p) \/ ComSnapshot(p) \/ ComUpload(p) \/ ComResp(p)

-----------------------------------------------------------------------------
(* Environment                                                             *)
\* one unit crosses the connection pool of a live session: switchboard.send (tx) / deplex (rx)
Traffic(o, d) ==
  /\ ntraffic < MaxTraffic
  /\ o \in LiveObjs
  /\ ntraffic' = ntraffic + 1
  /\ rvalve' = [rvalve EXCEPT ![orec[o]][d] = @ + 1]
  /\ carried' = [carried EXCEPT ![ouid[o]][d] = @ + 1]
  /\ UNCHANGED <<ProcV, LockV, active, nrec, ruid, rsess, rterm, ObjV, QueueV, DbV,
                 charged, dropped, topups, cut, everTerm, owhy, rwhy, badStart, nadmin>>

Admin(a, u) ==
  /\ nadmin < MaxAdmin /\ a \in AdminOps /\ dbx[u]
  /\ nadmin' = nadmin + 1
  /\ CASE a = "topup"    -> /\ dbc' = [dbc EXCEPT ![u] = CrPlus(@, Cr(TopUpK))]
                            /\ topups' = [topups EXCEPT ![u] = CrPlus(@, Cr(TopUpK))]
                            /\ UNCHANGED <<dbx, dbe>>
       [] a = "drain"    -> /\ dbc[u] # CrZ
                            /\ dbc' = [dbc EXCEPT ![u] = CrZ]
                            /\ topups' = [topups EXCEPT ![u] = CrLess(@, dbc[u])]
                            /\ UNCHANGED <<dbx, dbe>>
       [] a = "expire"   -> ~dbe[u] /\ dbe' = [dbe EXCEPT ![u] = TRUE] /\ UNCHANGED <<dbx, dbc, topups>>
       [] a = "unexpire" -> dbe[u] /\ dbe' = [dbe EXCEPT ![u] = FALSE] /\ UNCHANGED <<dbx, dbc, topups>>
       [] a = "delete"   -> dbx' = [dbx EXCEPT ![u] = FALSE] /\ UNCHANGED <<dbc, dbe, topups>>
  /\ UNCHANGED <<ProcV, LockV, RecV, ObjV, QueueV,
                 carried, charged, dropped, cut, everTerm, owhy, rwhy, badStart, ntraffic>>

Env ==
  \/ \E o \in Objs : \E d \in {"rx", "tx"} : Traffic(o, d)
  \/ \E a \in AdminOps : \E u \in Users : Admin(a, u)

Next == (\E p \in Procs : Step(p)) \/ Env
Spec == Init /\ [][Next]_vars

-----------------------------------------------------------------------------
(* Invariants                                                              *)
TypeOK ==
  /\ aw \in 0..NP /\ qh \in 0..NP
  /\ \A r \in Recs : sh[r] \in 0..NP
  /\ nrec \in 0..MaxRec /\ nobj \in 0..MaxObj
  /\ \A u \in Users : active[u] \in 0..nrec
  /\ \A p \in Procs : pc[p] \in {"idle", "done", "gu", "ga", "gi", "gs", "miss", "fail", "srv", "cc", "cu", "t1n", "t1q", "t2", "t3",
                                  "u1", "u2", "u3", "m1", "m2", "ml", "m3", "mr"}
  \* a lock is held by a process that is at a position where the code holds it
  /\ aw # 0 => pc[aw] \in {"u2", "u3"}
  /\ qh # 0 => pc[qh] \in {"u2", "u3", "m2", "ml"}
  /\ \A r \in Recs : sh[r] # 0 => pc[sh[r]] = "miss" /\ prec[sh[r]] = r

\* ------------------------------------------------------------------ C15
Unowned == {o \in LiveObjs : ~Owned1(o)}
Why(o) == IF rwhy[orec[o]] # "" THEN rwhy[orec[o]] ELSE owhy[o]

\* same (uid, sid) => same session (and hence same key); a session has one (uid, sid) by construction
OneSession ==
  /\ \A o1, o2 \in LiveObjs : (ouid[o1] = ouid[o2] /\ osid[o1] = osid[o2]) => o1 = o2
  /\ \A p \in Procs : pres[p].t = "new" => okey[pres[p].o] = op[p].key
Cap == \A u \in Users : Cardinality({o \in LiveObjs : ouid[o] = u}) <= CapOf(u)
NoStartWhenBroke == ~badStart

\* ------------------------------------------------------------------ C16
RECURSIVE SumValve(_, _)
SumValve(u, n) == IF n = 0 THEN Z ELSE Plus(IF ruid[n] = u THEN rvalve[n] ELSE Z, SumValve(u, n - 1))
RECURSIVE SumPend(_, _)
SumPend(u, n) == IF n = 0 THEN Z ELSE Plus(IF trec[n] # 0 /\ ruid[trec[n]] = u THEN tpend[n] ELSE Z, SumPend(u, n - 1))
RECURSIVE SumInFl(_, _)
SumInFl(u, n) == IF n = 0 THEN Z ELSE Plus(IF u \in pin[n] THEN pstat[n][u] ELSE Z, SumInFl(u, n - 1))
PendOf(u) == SumPend(u, NP)
InFlOf(u) == SumInFl(u, NP)

\* what will never be collected: the valves of records that are no longer the panel's (traffic and notices that crossed
\* after the final collection of a terminated record - or on a record the panel lost)
RECURSIVE SumLost(_, _)
SumLost(u, n) == IF n = 0 THEN Z ELSE Plus(IF ruid[n] = u /\ active[u] # n THEN rvalve[n] ELSE Z, SumLost(u, n - 1))
Lost(u) == SumLost(u, nrec)

CreditGhost  == \A u \in Users : dbx[u] => dbc[u] = CrLess(CrPlus(Cr(CredOf(u)), topups[u]), charged[u])
NeverMore    == \A u \in Users : Leq(charged[u], carried[u])
Conservation == \A u \in Users :
  carried[u] = Plus(Plus(Plus(charged[u], SumValve(u, nrec)), Plus(queue[u], PendOf(u))), Plus(InFlOf(u), dropped[u]))
\* Once the uploads are done (nothing in the active valve, the queue or in flight) the stored credit is the initial credit
\* minus everything carried - also for a user whom that very upload terminated; only what crossed after the final
\* collection (Lost) and what was uploaded for a deleted user (dropped) is not charged.
ExactAtRest  == \A u \in Users :
  (Quiescent /\ dbx[u] /\ queue[u] = Z /\ (active[u] # 0 => rvalve[active[u]] = Z))
     => /\ carried[u] = Plus(charged[u], Plus(Lost(u), dropped[u]))
        /\ dbc[u] = CrLess(CrPlus(Cr(CredOf(u)), topups[u]), charged[u])
CutOff       == Quiescent => \A o \in cut : ~olive[o]

\* ------------------------------------------------------------------ C17
NoDeadlock == ~(InFlight # {} /\ \A p \in InFlight : ~Ready(p))
Owned      == Quiescent => Unowned = {}
TerminatedHasNone == Quiescent => \A o \in LiveObjs : ~rterm[orec[o]]
\* code-faithful configurations: every unreachable live session is explained by a named deviation
OwnedModuloDev == Quiescent => \A o \in Unowned : Why(o) # ""
OwnedNoGap     == Quiescent => \A o \in Unowned : Why(o) # "lookup-gap"
OwnedNoStale   == Quiescent => \A o \in Unowned : Why(o) # "stale-terminate"
OwnedNoGetUserRace == Quiescent => \A o \in Unowned : Why(o) # "getuser-check-then-act"
=============================================================================
