SPECIFICATION Spec
CONSTANTS
  w1 = w1
  w2 = w2
  w3 = w3
  Waiters = @WAITERS@
  Quanta = @QUANTA@
  FillIntervals = @FIS@
  Bursts = @BURSTS@
  BacklogCounts = @BACKLOG@
  Sizes = @SIZES@
  MaxTime = @MAXTIME@
  Mode = "@MODE@"
  CapFactor = @CAPFACTOR@
  AllowRelax = @RELAX@
  Prompt = @PROMPT@
  History = @HISTORY@
  OwnBucket = @OWNBUCKET@
  CheckThenTake = @CHECKTHENTAKE@
  ClosingSkipsTake = @CLOSINGSKIPS@
SYMMETRY Symm
INVARIANTS @INVS@
CHECK_DEADLOCK FALSE
