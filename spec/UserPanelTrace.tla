--------------------------- MODULE UserPanelTrace ---------------------------
(* Trace validation for UserPanel: an execution of the real panel recorded *)
(* under real parallelism (harness/server/c17_test.go, TestVerifC17Trace). *)
(* Every goroutine logs call / ret around its operation and an event at    *)
(* every verifhook schedule point it passes (the hook runs under whatever  *)
(* locks the code holds there).  The state changes between two events of a *)
(* goroutine are silent steps which TLC places: the trace is accepted iff  *)
(* some interleaving of the specification's critical sections explains all *)
(* recorded results, the `remaining` values seen at                        *)
(* user.closesession.unlocked and the panel states observed at the         *)
(* quiescent moments between rounds.                                       *)
(* Goroutine slots are reused: a "call" re-initialises a finished slot.    *)
EXTENDS UserPanel, Json, IOUtils

Trace == ndJsonDeserialize(IOEnv.VERIF_TRACE)

VARIABLES l,     \* next trace line
          seen   \* seen[p]: the hook event of the position p is at has been consumed
tvars == <<vars, l, seen>>

Ev == Trace[l]
IsEvent(e) == l <= Len(Trace) /\ Ev.ev = e /\ l' = l + 1

LockedAPc == IF AQ THEN "u2" ELSE "u3"
HookName(p) == CASE pc[p] = "gs"   -> "resolved"
                 [] pc[p] = "miss" -> "miss"
                 [] pc[p] = "fail" -> "failed"
                 [] pc[p] = "cu"   -> "unlocked"
                 [] pc[p] = "t2"   -> "queued"
                 [] pc[p] = "t3"   -> "closed"
                 [] pc[p] = LockedAPc -> "lockedA"
                 [] pc[p] = "m2"   -> "lockedQ"
                 [] pc[p] = "m3"   -> "collected"
                 [] OTHER -> ""

TInit == Init /\ l = 1 /\ seen = [p \in Procs |-> FALSE] /\ TLCSet(1, 1)

ObjOfKey(k) == CHOOSE o \in 1..nobj : okey[o] = k

TCall ==
  /\ IsEvent("call")
  /\ LET p == Ev.p IN
     /\ pc[p] \in {"idle", "done"}
     /\ op' = [op EXCEPT ![p] = [k |-> Ev.k, u |-> Ev.u, s |-> Ev.s, key |-> Ev.key]]
     /\ pc' = [pc EXCEPT ![p] = FirstPc(Ev.k)]
     /\ (Ev.k = "serve" => \E o \in 1..nobj : okey[o] = Ev.key)
     /\ prec' = [prec EXCEPT ![p] = IF Ev.k = "serve" THEN orec[ObjOfKey(Ev.key)] ELSE 0]
     /\ prem' = [prem EXCEPT ![p] = 0] /\ trec' = [trec EXCEPT ![p] = 0]
     /\ presp' = [presp EXCEPT ![p] = <<>>] /\ pres' = [pres EXCEPT ![p] = NoRes]
     /\ seen' = [seen EXCEPT ![p] = FALSE]
  /\ UNCHANGED <<tpend, ploop, pwait, pclo, pin, pstat, LockV, RecV, ObjV, QueueV, DbV, GhostV>>

THook ==
  /\ IsEvent("hook")
  /\ LET p == Ev.p IN
     /\ HookName(p) = Ev.h /\ ~seen[p]
     /\ (Ev.h = "unlocked" => prem[p] = Ev.rem)
     /\ seen' = [seen EXCEPT ![p] = TRUE]
  /\ UNCHANGED vars

TSilent ==
  \E p \in Procs :
    /\ HookName(p) = "" \/ seen[p]
    /\ Step(p)
    /\ seen' = [seen EXCEPT ![p] = FALSE]
    /\ UNCHANGED l

TRet ==
  /\ IsEvent("ret")
  /\ LET p == Ev.p IN
     /\ pc[p] = "done"
     /\ op[p].k = "conn" => /\ pres[p].t = Ev.res
                            /\ (Ev.res \in {"new", "hit"} => okey[pres[p].o] = Ev.okey)
  /\ UNCHANGED <<vars, seen>>

Range(f) == {f[i] : i \in DOMAIN f}

TQuiesce ==
  /\ IsEvent("quiesce")
  /\ \A p \in Procs : pc[p] \in {"idle", "done"}
  /\ \A u \in Users :
       /\ (active[u] # 0) = Ev.act[u]
       /\ active[u] # 0 =>
            {<<s, okey[rsess[active[u]][s]]>> : s \in Entries(active[u])} = {<<x[1], x[2]>> : x \in Range(Ev.sess[u])}
  /\ {okey[o] : o \in LiveObjs} = Range(Ev.live)
  /\ UNCHANGED <<vars, seen>>

TAdmin ==
  /\ IsEvent("admin")
  /\ Admin(Ev.a, Ev.u)
  /\ UNCHANGED seen

TNext == TCall \/ THook \/ TSilent \/ TRet \/ TQuiesce \/ TAdmin
TSpec == TInit /\ [][TNext]_tvars

HW == TLCSet(1, IF l > TLCGet(1) THEN l ELSE TLCGet(1))
TraceAccepted ==
  IF TLCGet(1) = Len(Trace) + 1 THEN TRUE
  ELSE PrintT(<<"REJECTED_AT_LINE", TLCGet(1)>>) /\ FALSE
=============================================================================
