----------------------------- MODULE Reassembly -----------------------------
(***************************************************************************)
(* Receive-side reordering of ONE stream (Go: multiplex.streamBuffer on   *)
(* top of streamBufferedPipe).  Frames are identified by their index       *)
(* 0..N-1 (sequence number = Base + index, the code only uses == and <).   *)
(* The frame with index closeIdx (or none when closeIdx = -1) is the       *)
(* stream-closing frame.  Each action is one critical section of the code: *)
(*   Arrive(i)  = streamBuffer.Write(frame i)   (under recvM)              *)
(*   Read(k)    = streamBufferedPipe.Read returning k whole units          *)
(* Transcribed branch by branch from streamBuffer.go:65-98.                *)
(***************************************************************************)
EXTENDS Integers, Sequences, FiniteSets

CONSTANT N            \* number of frames in the exhaustive model

VARIABLES
  closeIdx,   \* index of the closing frame, -1 if the stream is not closed
  arrived,    \* indices already passed to Write (each exactly once)
  next,       \* nextRecvSeq
  heap,       \* indices parked in the sorter heap
  pipe,       \* data units handed to the byte pipe and not yet read
  closeRep,   \* TRUE once a Write returned toBeClosed
  consumed,   \* data units the application has read, in order
  lastW,      \* observable result of the last Write: [a, i, tbc, err]
  lastR       \* units returned by the last Read

rvars == <<closeIdx, arrived, next, heap, pipe, closeRep, consumed, lastW, lastR>>

IsClose(i) == i = closeIdx

Min(S) == CHOOSE m \in S : \A x \in S : m <= x

\* drain loop of streamBuffer.Write: pop while the smallest parked frame is the wanted one
RECURSIVE Drain(_, _, _)
Drain(h, n, p) ==
  IF h # {} /\ Min(h) = n
    THEN IF IsClose(n)
           THEN [heap |-> h \ {n}, next |-> n, pipe |-> p, tbc |-> TRUE]
           ELSE Drain(h \ {n}, n + 1, Append(p, n))
    ELSE [heap |-> h, next |-> n, pipe |-> p, tbc |-> FALSE]

RInit(c) ==
  /\ closeIdx = c
  /\ arrived = {}
  /\ next = 0
  /\ heap = {}
  /\ pipe = <<>>
  /\ closeRep = FALSE
  /\ consumed = <<>>
  /\ lastW = [a |-> "Init", i |-> -1, tbc |-> FALSE, err |-> FALSE]
  /\ lastR = <<>>

Arrive(i) ==
  /\ i \notin arrived
  /\ arrived' = arrived \cup {i}
  /\ UNCHANGED <<closeIdx, consumed, lastR>>
  /\ IF heap = {} /\ i = next
       THEN \* fast path
            IF IsClose(i)
              THEN /\ closeRep' = TRUE
                   /\ lastW' = [a |-> "Arrive", i |-> i, tbc |-> TRUE, err |-> FALSE]
                   /\ UNCHANGED <<next, heap, pipe>>
              ELSE /\ pipe' = Append(pipe, i)
                   /\ next' = next + 1
                   /\ lastW' = [a |-> "Arrive", i |-> i, tbc |-> FALSE, err |-> FALSE]
                   /\ UNCHANGED <<heap, closeRep>>
       ELSE IF i < next
              THEN \* stale frame: error, nothing stored (unreachable when each frame arrives once)
                   /\ lastW' = [a |-> "Arrive", i |-> i, tbc |-> FALSE, err |-> TRUE]
                   /\ UNCHANGED <<next, heap, pipe, closeRep>>
              ELSE LET r == Drain(heap \cup {i}, next, pipe) IN
                   /\ heap' = r.heap
                   /\ next' = r.next
                   /\ pipe' = r.pipe
                   /\ closeRep' = (closeRep \/ r.tbc)
                   /\ lastW' = [a |-> "Arrive", i |-> i, tbc |-> r.tbc, err |-> FALSE]

\* the application reads the first k buffered units
Read(k) ==
  /\ k \in 1..Len(pipe)
  /\ consumed' = consumed \o SubSeq(pipe, 1, k)
  /\ pipe' = SubSeq(pipe, k + 1, Len(pipe))
  /\ lastR' = SubSeq(pipe, 1, k)
  /\ UNCHANGED <<closeIdx, arrived, next, heap, closeRep, lastW>>

Init == \E c \in {-1, N - 1} : RInit(c)

Next == \/ \E i \in 0..(N - 1) : Arrive(i)
        \/ \E k \in 1..N : Read(k)

Spec == Init /\ [][Next]_rvars

-----------------------------------------------------------------------------
Iota(n) == [j \in 1..n |-> j - 1]

\* everything handed to the application so far is exactly frames 0..next-1 in order
OrderInv == consumed \o pipe = Iota(next)

\* a close is reported only when every lower-numbered frame has been handed over
CloseInv == closeRep => (closeIdx >= 0 /\ next = closeIdx /\ \A j \in 0..(closeIdx - 1) : j \in arrived)

\* parked frames are strictly ahead of the wanted one (quiescent: nothing drainable is left behind)
HeapInv == /\ heap \subseteq arrived
           /\ \A h \in heap : h > next
           /\ \A j \in arrived : j < next \/ j \in heap \/ (j = next /\ IsClose(j) /\ closeRep)

\* once every frame has arrived nothing is left parked and everything was handed over
CompleteInv ==
  (arrived = 0..(N - 1)) =>
     /\ heap = {}
     /\ IF closeIdx >= 0 THEN next = closeIdx /\ closeRep ELSE next = N

NoStaleErr == lastW.err = FALSE

TypeOK == /\ closeIdx \in {-1} \cup Nat
          /\ next \in Nat
          /\ closeRep \in BOOLEAN
=============================================================================
