--------------------------- MODULE StreamPipeGen ---------------------------
(* Behaviours of StreamPipe as JSON for the replay driver (harness/multiplex/ *)
(* x01_test.go).  The environment acts only in quiescent states (that is     *)
(* what synctest.Wait() gives the driver); after each environment step the   *)
(* threads run to quiescence (lowest thread first - the outcome does not     *)
(* depend on the order, see Unambiguous).  A step records the call, the      *)
(* calls that were parked BEFORE it, and every return it caused.             *)
(* Threads are integers here (Readers < Writers) so that "lowest" exists.    *)
EXTENDS StreamPipe, Json
CONSTANT MaxDepth
VARIABLE hist

ParkedR == {arg[r].id : r \in {x \in Readers : pc[x] = "park"}}
ParkedW == {arg[w].id : w \in {x \in Writers : pc[x] = "park"}}
Lowest(S) == CHOOSE q \in S : \A r \in S : q <= r

Op(a, id, n, closing, d) ==
  [a |-> a, id |-> id, n |-> n, closing |-> closing, d |-> d, pr |-> ParkedR, pw |-> ParkedW, rets |-> <<>>]

\* Which of several threads woken by ONE broadcast runs first is the Go scheduler's choice.  The generator only takes
\* environment steps whose outcome does not depend on it: no Write while two readers are parked (who gets the data?),
\* no Read while two writers are parked (whose payload goes in first?).  Close / SetReadDeadline / time treat all
\* parked calls alike.
IdleR == {r \in Readers : pc[r] = "idle"}
IdleW == {w \in Writers : pc[w] = "idle"}

GEnv ==
  /\ Quiescent /\ Len(hist) < MaxDepth
  /\ \/ /\ IdleR # {} /\ Cardinality(ParkedW) <= 1
        /\ \E c \in Caps : ReadEnter(Lowest(IdleR), c) /\ hist' = Append(hist, Op("R", nr + 1, c, FALSE, 0))
     \/ /\ IdleW # {} /\ Cardinality(ParkedR) <= 1
        /\ \/ \E s \in Sizes : WriteEnter(Lowest(IdleW), s, FALSE) /\ hist' = Append(hist, Op("W", nw + 1, s, FALSE, 0))
           \/ WriteEnter(Lowest(IdleW), 0, TRUE) /\ hist' = Append(hist, Op("W", nw + 1, 0, TRUE, 0))
     \/ Close /\ hist' = Append(hist, Op("C", 0, 0, FALSE, 0))
     \/ \E d \in DLs \cup {-1} : SetReadDeadline(d) /\ hist' = Append(hist, Op("D", 0, 0, FALSE, d))
     \/ Tick /\ hist' = Append(hist, Op("A", 0, 0, FALSE, 1))

Active == {p \in Threads : pc[p] \in {"chk", "armed", "woken"}}
RetOf(l) == [k |-> l.kind, id |-> l.id, n |-> l.n, data |-> l.data, err |-> l.err, tbc |-> l.tbc]
GInt ==
  /\ IF Active # {} THEN Internal(Lowest(Active)) ELSE TimerFire
  /\ hist' = IF nret' # nret
               THEN [hist EXCEPT ![Len(hist)].rets = Append(@, RetOf(last'))]
               ELSE hist

GInit == Init /\ hist = <<>>
GNext == GEnv \/ GInt
GSpec == GInit /\ [][GNext]_<<pvars, hist>>

Done == Quiescent /\ Len(hist) = MaxDepth
Emit == Done => PrintT(<<"BEHAVIOUR", ToJson([mode |-> Mode, limit |-> Limit, dev |-> dev, steps |-> hist,
                                             pr |-> ParkedR, pw |-> ParkedW])>>)
=============================================================================
