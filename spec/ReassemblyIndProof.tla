------------------------- MODULE ReassemblyIndProof -------------------------
(***************************************************************************)
(* TLAPS proof that IndInv of ReassemblyInd.tla is an inductive invariant  *)
(* of its Spec for EVERY number of frames N \in Nat \ {0}, and that IndInv *)
(* implies the five invariants of Reassembly.tla in their original form.   *)
(* Check with:  tlapm --threads 16 ReassemblyIndProof.tla                  *)
(***************************************************************************)
EXTENDS ReassemblyInd, WellFoundedInduction, SequenceTheorems, TLAPS

ASSUME NPos == N \in Nat \ {0}

Iota(n) == [j \in 1..n |-> j - 1]        \* as in Reassembly.tla

-----------------------------------------------------------------------------
(* sequences *)

LEMMA RunProps ==
  ASSUME NEW n \in Nat, NEW m \in Nat, n <= m
  PROVE  /\ Run(n, m) \in Seq(Int)
         /\ Len(Run(n, m)) = m - n
         /\ \A j \in 1..(m - n) : Run(n, m)[j] = n + j - 1
<1>1. m - n \in Nat
  OBVIOUS
<1>2. \A j \in 1..(m - n) : n + j - 1 \in Int
  OBVIOUS
<1>3. [j \in 1..(m - n) |-> n + j - 1] \in Seq(Int)
  BY <1>1, <1>2, IsASeq
<1>4. Len([j \in 1..(m - n) |-> n + j - 1]) = m - n
  BY <1>1, <1>3
<1>. QED
  BY <1>1, <1>3, <1>4 DEF Run, AsSeq, Rng

LEMMA OrderConcat ==
  ASSUME NEW c \in Seq(Int), NEW p \in Seq(Int), NEW n \in Nat, NEW m \in Nat, n <= m,
         OrderPt(c, p, n)
  PROVE  /\ p \o Run(n, m) \in Seq(Int)
         /\ OrderPt(c, p \o Run(n, m), m)
<1>. DEFINE r == Run(n, m)
<1>1. /\ r \in Seq(Int)
      /\ Len(r) = m - n
      /\ \A j \in 1..(m - n) : r[j] = n + j - 1
  BY RunProps
<1>2. /\ p \o r \in Seq(Int)
      /\ Len(p \o r) = Len(p) + Len(r)
      /\ \A i \in 1 .. Len(p) + Len(r) : (p \o r)[i] = IF i <= Len(p) THEN p[i] ELSE r[i - Len(p)]
  BY <1>1, ConcatProperties
<1>. HIDE DEF r
<1>3. Len(c) \in Nat /\ Len(p) \in Nat /\ DOMAIN p = 1..Len(p) /\ DOMAIN (p \o r) = 1..Len(p \o r)
  BY <1>2, LenProperties
<1>4. Len(c) + Len(p) = n /\ \A j \in DOMAIN p : p[j] = Len(c) + j - 1
  BY DEF OrderPt
<1>5. Len(c) + Len(p \o r) = m
  BY <1>1, <1>2, <1>3, <1>4
<1>6. \A j \in DOMAIN (p \o r) : (p \o r)[j] = Len(c) + j - 1
  <2>. TAKE j \in DOMAIN (p \o r)
  <2>1. j \in 1 .. Len(p) + Len(r)
    BY <1>2, <1>3
  <2>2. CASE j <= Len(p)
    BY <2>1, <2>2, <1>2, <1>3, <1>4
  <2>3. CASE j > Len(p)
    <3>1. j - Len(p) \in 1..(m - n)
      BY <2>1, <2>3, <1>1, <1>3
    <3>2. (p \o r)[j] = r[j - Len(p)]
      BY <2>1, <2>3, <1>2, <1>3
    <3>. QED
      BY <3>1, <3>2, <1>1, <1>3, <1>4
  <2>. QED
    BY <2>1, <2>2, <2>3, <1>3
<1>. QED
  BY <1>2, <1>5, <1>6 DEF OrderPt, r

LEMMA OrderAppend ==
  ASSUME NEW c \in Seq(Int), NEW p \in Seq(Int), NEW n \in Nat, OrderPt(c, p, n)
  PROVE  /\ Append(p, n) \in Seq(Int)
         /\ OrderPt(c, Append(p, n), n + 1)
<1>1. /\ Append(p, n) \in Seq(Int)
      /\ Len(Append(p, n)) = Len(p) + 1
      /\ \A i \in 1 .. Len(p) : Append(p, n)[i] = p[i]
      /\ Append(p, n)[Len(p) + 1] = n
  BY AppendProperties
<1>2. Len(c) \in Nat /\ Len(p) \in Nat /\ DOMAIN p = 1..Len(p)
      /\ DOMAIN Append(p, n) = 1..Len(Append(p, n))
  BY <1>1, LenProperties
<1>. QED
  BY <1>1, <1>2 DEF OrderPt

LEMMA OrderRead ==
  ASSUME NEW c \in Seq(Int), NEW p \in Seq(Int), NEW n \in Nat, NEW k \in 1..Len(p),
         OrderPt(c, p, n)
  PROVE  /\ c \o SubSeq(p, 1, k) \in Seq(Int)
         /\ SubSeq(p, k + 1, Len(p)) \in Seq(Int)
         /\ OrderPt(c \o SubSeq(p, 1, k), SubSeq(p, k + 1, Len(p)), n)
<1>. DEFINE a == SubSeq(p, 1, k)
            b == SubSeq(p, k + 1, Len(p))
<1>0. Len(c) \in Nat /\ Len(p) \in Nat /\ DOMAIN p = 1..Len(p) /\ DOMAIN c = 1..Len(c)
      /\ k \in Nat /\ k <= Len(p) /\ 1 <= k
  BY LenProperties
<1>1. /\ a \in Seq(Int)
      /\ Len(a) = k
      /\ \A i \in 1 .. k : a[i] = p[i]
  <2>1. \A i \in 1 .. k : p[i] \in Int
    BY <1>0
  <2>2. /\ SubSeq(p, 1, k) \in Seq(Int)
        /\ Len(SubSeq(p, 1, k)) = IF 1 <= k THEN k - 1 + 1 ELSE 0
        /\ \A i \in 1 .. k - 1 + 1 : SubSeq(p, 1, k)[i] = p[1 + i - 1]
    BY <2>1, <1>0, SubSeqProperties
  <2>. QED
    BY <2>2, <1>0
<1>2. /\ b \in Seq(Int)
      /\ Len(b) = Len(p) - k
      /\ \A i \in 1 .. Len(p) - k : b[i] = p[k + i]
  <2>1. \A i \in (k + 1) .. Len(p) : p[i] \in Int
    BY <1>0
  <2>2. /\ SubSeq(p, k + 1, Len(p)) \in Seq(Int)
        /\ Len(SubSeq(p, k + 1, Len(p))) = IF k + 1 <= Len(p) THEN Len(p) - (k + 1) + 1 ELSE 0
        /\ \A i \in 1 .. Len(p) - (k + 1) + 1 : SubSeq(p, k + 1, Len(p))[i] = p[k + 1 + i - 1]
    BY <2>1, <1>0, SubSeqProperties
  <2>. QED
    BY <2>2, <1>0
<1>3. /\ c \o a \in Seq(Int)
      /\ Len(c \o a) = Len(c) + Len(a)
      /\ \A i \in 1 .. Len(c) + Len(a) : (c \o a)[i] = IF i <= Len(c) THEN c[i] ELSE a[i - Len(c)]
  BY <1>1, ConcatProperties
<1>. HIDE DEF a, b
<1>4. DOMAIN (c \o a) = 1..Len(c \o a) /\ DOMAIN b = 1..Len(b)
  BY <1>2, <1>3, LenProperties
<1>5. /\ Len(c) + Len(p) = n
      /\ \A j \in DOMAIN c : c[j] = j - 1
      /\ \A j \in DOMAIN p : p[j] = Len(c) + j - 1
  BY DEF OrderPt
<1>6. Len(c \o a) + Len(b) = n
  BY <1>0, <1>1, <1>2, <1>3, <1>5
<1>7. \A j \in DOMAIN (c \o a) : (c \o a)[j] = j - 1
  <2>. TAKE j \in DOMAIN (c \o a)
  <2>1. j \in 1 .. Len(c) + Len(a)
    BY <1>3, <1>4
  <2>2. CASE j <= Len(c)
    BY <2>1, <2>2, <1>0, <1>3, <1>5
  <2>3. CASE j > Len(c)
    <3>1. j - Len(c) \in 1..k
      BY <2>1, <2>3, <1>0, <1>1
    <3>2. (c \o a)[j] = a[j - Len(c)]
      BY <2>1, <2>3, <1>0, <1>3
    <3>3. a[j - Len(c)] = p[j - Len(c)]
      BY <3>1, <1>1
    <3>4. j - Len(c) \in DOMAIN p
      BY <3>1, <1>0
    <3>5. p[j - Len(c)] = Len(c) + (j - Len(c)) - 1
      BY <3>4, <1>5
    <3>. QED
      BY <2>1, <3>2, <3>3, <3>5, <1>0
  <2>. QED
    BY <2>1, <2>2, <2>3, <1>0
<1>8. \A j \in DOMAIN b : b[j] = Len(c \o a) + j - 1
  <2>. TAKE j \in DOMAIN b
  <2>1. j \in 1 .. Len(p) - k
    BY <1>2, <1>4
  <2>2. b[j] = p[k + j] /\ k + j \in DOMAIN p
    BY <2>1, <1>0, <1>2
  <2>. QED
    BY <2>1, <2>2, <1>0, <1>1, <1>3, <1>5
<1>. QED
  BY <1>1, <1>2, <1>3, <1>6, <1>7, <1>8 DEF OrderPt, a, b

\* the element-wise OrderInv is the OrderInv of Reassembly.tla
LEMMA OrderPtIsConcat ==
  ASSUME NEW c \in Seq(Int), NEW p \in Seq(Int), NEW n \in Nat
  PROVE  OrderPt(c, p, n) <=> (c \o p = Iota(n))
<1>1. /\ c \o p \in Seq(Int)
      /\ Len(c \o p) = Len(c) + Len(p)
      /\ \A i \in 1 .. Len(c) + Len(p) : (c \o p)[i] = IF i <= Len(c) THEN c[i] ELSE p[i - Len(c)]
  BY ConcatProperties
<1>2. Len(c) \in Nat /\ Len(p) \in Nat /\ DOMAIN p = 1..Len(p) /\ DOMAIN c = 1..Len(c)
  BY LenProperties
<1>3. Iota(n) \in Seq(Int) /\ Len(Iota(n)) = n /\ \A j \in 1..n : Iota(n)[j] = j - 1
  <2>1. \A j \in 1..n : j - 1 \in Int
    OBVIOUS
  <2>2. [j \in 1..n |-> j - 1] \in Seq(Int)
    BY <2>1, IsASeq
  <2>. QED
    BY <2>2 DEF Iota
<1>. HIDE DEF Iota
<1>4. ASSUME OrderPt(c, p, n) PROVE c \o p = Iota(n)
  <2>1. /\ Len(c) + Len(p) = n
        /\ \A j \in DOMAIN c : c[j] = j - 1
        /\ \A j \in DOMAIN p : p[j] = Len(c) + j - 1
    BY <1>4 DEF OrderPt
  <2>2. Len(c \o p) = Len(Iota(n))
    BY <1>1, <1>3, <2>1
  <2>3. \A i \in 1 .. Len(c \o p) : (c \o p)[i] = Iota(n)[i]
    <3>. TAKE i \in 1 .. Len(c \o p)
    <3>1. CASE i <= Len(c)
      BY <3>1, <1>1, <1>2, <1>3, <2>1
    <3>2. CASE i > Len(c)
      <4>1. i - Len(c) \in DOMAIN p /\ (c \o p)[i] = p[i - Len(c)]
        BY <3>2, <1>1, <1>2
      <4>. QED
        BY <4>1, <3>2, <1>1, <1>2, <1>3, <2>1
    <3>. QED
      BY <3>1, <3>2, <1>1, <1>2
  <2>. QED
    BY <2>2, <2>3, <1>1, <1>3, SeqEqual
<1>5. ASSUME c \o p = Iota(n) PROVE OrderPt(c, p, n)
  <2>1. Len(c) + Len(p) = n
    BY <1>1, <1>3, <1>5
  <2>2. \A j \in DOMAIN c : c[j] = j - 1
    <3>. TAKE j \in DOMAIN c
    <3>1. j \in 1 .. Len(c) + Len(p) /\ j <= Len(c) /\ j \in 1..n
      BY <1>2, <2>1
    <3>2. (c \o p)[j] = c[j]
      BY <3>1, <1>1
    <3>. QED
      BY <3>1, <3>2, <1>3, <1>5
  <2>3. \A j \in DOMAIN p : p[j] = Len(c) + j - 1
    <3>. TAKE j \in DOMAIN p
    <3>1. Len(c) + j \in 1 .. Len(c) + Len(p) /\ ~(Len(c) + j <= Len(c)) /\ Len(c) + j \in 1..n
          /\ (Len(c) + j) - Len(c) = j
      BY <1>2, <2>1
    <3>2. (c \o p)[Len(c) + j] = p[j]
      BY <3>1, <1>1
    <3>. QED
      BY <3>1, <3>2, <1>2, <1>3, <1>5
  <2>. QED
    BY <2>1, <2>2, <2>3 DEF OrderPt
<1>. QED
  BY <1>4, <1>5

-----------------------------------------------------------------------------
(* the drain loop stops: StopIdx is well defined *)

\* every non-empty set of naturals has a least element (first-order form of well-foundedness,
\* so that the SMT back end can use it)
LEMMA NatSetMin ==
  ASSUME NEW T, T \subseteq Nat, T # {}
  PROVE  \E x \in T : \A y \in T : x <= y
<1>. DEFINE R == OpToRel(<, Nat)
<1>1. IsWellFoundedOn(R, Nat)
  BY NatLessThanWellFounded
<1>. HIDE DEF R
<1>2. \E x \in T : \A y \in T : ~(<<y, x>> \in R)
  BY <1>1, WFMin
<1>3. PICK x \in T : \A y \in T : ~(<<y, x>> \in R)
  BY <1>2
<1>4. \A y \in T : x <= y
  <2>. TAKE y \in T
  <2>1. <<y, x>> \in Nat \X Nat /\ <<y, x>>[1] = y /\ <<y, x>>[2] = x
    OBVIOUS
  <2>2. ~(y < x)
    BY <2>1, <1>3 DEF R, OpToRel
  <2>. QED
    BY <2>2
<1>. QED
  BY <1>4

LEMMA StopExists ==
  ASSUME NEW h, h \subseteq Idx, NEW n \in Pos
  PROVE  \E m \in Pos : StopsAt(h, n, m)
<1>. DEFINE T == {k \in Nat : n <= k /\ (k \notin h \/ IsClose(k))}
<1>0. N \in Nat /\ n \in Nat /\ n <= N
  BY NPos DEF Pos, Rng
<1>1. N \notin h
  BY <1>0 DEF Idx, Rng
<1>2. N \in T
  BY <1>0, <1>1
<1>3. T \subseteq Nat /\ T # {}
  BY <1>2
<1>. HIDE DEF T
<1>4. PICK m \in T : \A y \in T : m <= y
  BY <1>3, NatSetMin
<1>5. m \in Nat /\ n <= m /\ (m \notin h \/ IsClose(m)) /\ m <= N
  BY <1>2, <1>4 DEF T
<1>6. \A j \in n..(m - 1) : j \in h /\ ~IsClose(j)
  <2>. TAKE j \in n..(m - 1)
  <2>1. j \in Nat /\ n <= j /\ ~(m <= j)
    BY <1>0, <1>5
  <2>2. j \notin T
    BY <2>1, <1>4
  <2>. QED
    BY <2>1, <2>2 DEF T
<1>7. m \in Pos
  BY <1>0, <1>5 DEF Pos, Rng
<1>8. StopsAt(h, n, m)
  BY <1>5, <1>6 DEF StopsAt, Rng
<1>. QED
  BY <1>7, <1>8

LEMMA StopIdxProps ==
  ASSUME NEW h, h \subseteq Idx, NEW n \in Pos
  PROVE  /\ StopIdx(h, n) \in Pos
         /\ StopsAt(h, n, StopIdx(h, n))
BY StopExists DEF StopIdx

-----------------------------------------------------------------------------
(* the invariant *)

LEMMA TypeFacts ==
  ASSUME TypeInv
  PROVE  /\ N \in Nat /\ N >= 1
         /\ next \in Nat /\ next <= N
         /\ closeIdx \in Int
         /\ pipe \in Seq(Int) /\ consumed \in Seq(Int)
         /\ \A j \in arrived : j \in Nat /\ j <= N - 1
         /\ \A j \in heap : j \in Nat /\ j <= N - 1
BY NPos DEF TypeInv, Idx, Pos, Rng, IsIntSeq

\* CompleteInv is a consequence of the rest; stated over constants so that it can be used
\* for the current and for the next state
CompleteHyp(cI, arr, nx, hp, cR) ==
  /\ cI \in {-1, N - 1} /\ nx \in Nat /\ nx <= N
  /\ \A x \in hp : x \in Nat /\ x <= N - 1 /\ x > nx
  /\ \A j \in arr : j < nx \/ j \in hp \/ (j = nx /\ j = cI /\ cR)
  /\ \A j \in 0..(nx - 1) : j # cI

CompleteConcl(cI, arr, nx, hp, cR) ==
  (arr = 0..(N - 1)) => /\ hp = {}
                        /\ IF cI >= 0 THEN nx = cI /\ cR ELSE nx = N

LEMMA CompleteCore ==
  ASSUME NEW cI, NEW arr, NEW nx, NEW hp, NEW cR, CompleteHyp(cI, arr, nx, hp, cR)
  PROVE  CompleteConcl(cI, arr, nx, hp, cR)
<1>. SUFFICES ASSUME arr = 0..(N - 1)
              PROVE  /\ hp = {}
                     /\ IF cI >= 0 THEN nx = cI /\ cR ELSE nx = N
  BY DEF CompleteConcl
<1>0. N \in Nat /\ N >= 1
  BY NPos
<1>1. /\ cI \in {-1, N - 1} /\ nx \in Nat /\ nx <= N
      /\ \A x \in hp : x \in Nat /\ x <= N - 1 /\ x > nx
      /\ \A j \in 0..(N - 1) : j < nx \/ j \in hp \/ (j = nx /\ j = cI /\ cR)
      /\ \A j \in 0..(nx - 1) : j # cI
  BY DEF CompleteHyp
<1>5. hp = {}
  <2>. SUFFICES ASSUME NEW x \in hp PROVE FALSE
    OBVIOUS
  <2>1. nx \in 0..(N - 1) /\ nx < x /\ x <= N - 1
    BY <1>0, <1>1
  <2>. QED
    BY <2>1, <1>0, <1>1
<1>6. CASE cI >= 0
  <2>1. cI = N - 1 /\ N - 1 \in 0..(N - 1)
    BY <1>0, <1>1, <1>6
  <2>2. ~(N - 1 < nx)
    BY <2>1, <1>0, <1>1
  <2>. QED
    BY <2>1, <2>2, <1>1, <1>5, <1>6
<1>7. CASE ~(cI >= 0)
  <2>0. cI = -1 \/ cI = N - 1
    BY <1>1
  <2>1. cI = -1
    BY <2>0, <1>7, <1>0
  <2>2. N - 1 \in 0..(N - 1) /\ N - 1 # cI
    BY <2>1, <1>0
  <2>3. N - 1 < nx
    BY <2>2, <1>1, <1>5
  <2>. QED
    BY <2>3, <1>0, <1>1, <1>5, <1>7
<1>. QED
  BY <1>6, <1>7

LEMMA CompleteFromRest ==
  ASSUME TypeInv, HeapInv, PrefixInv
  PROVE  CompleteInv
<1>1. CompleteHyp(closeIdx, arrived, next, heap, closeRep)
  BY NPos DEF CompleteHyp, TypeInv, HeapInv, PrefixInv, Idx, Pos, Rng, IsClose
<1>2. CompleteConcl(closeIdx, arrived, next, heap, closeRep)
  BY <1>1, CompleteCore
<1>. QED
  BY <1>2 DEF CompleteConcl, CompleteInv, Idx, Rng

LEMMA CompleteFromRestNext ==
  ASSUME TypeInv', HeapInv', PrefixInv'
  PROVE  CompleteInv'
<1>1. CompleteHyp(closeIdx', arrived', next', heap', closeRep')
  BY NPos DEF CompleteHyp, TypeInv, HeapInv, PrefixInv, Idx, Pos, Rng, IsClose
<1>2. CompleteConcl(closeIdx', arrived', next', heap', closeRep')
  BY <1>1, CompleteCore
<1>. QED
  BY <1>2 DEF CompleteConcl, CompleteInv, Idx, Rng

LEMMA InitInd == Init => IndInv
<1>. SUFFICES ASSUME NEW c \in {-1, N - 1}, RInit(c) PROVE IndInv
  BY DEF Init
<1>0. N \in Nat /\ N >= 1
  BY NPos
<1>1. TypeInv
  BY <1>0 DEF RInit, TypeInv, Idx, Pos, Rng, IsIntSeq
<1>2. OrderInv
  BY DEF RInit, OrderInv, OrderPt
<1>3. CloseInv /\ NoStaleErr
  BY DEF RInit, CloseInv, NoStaleErr
<1>4. HeapInv
  BY DEF RInit, HeapInv
<1>5. PrefixInv
  BY DEF RInit, PrefixInv, Rng
<1>6. CompleteInv
  BY <1>1, <1>4, <1>5, CompleteFromRest
<1>. QED
  BY <1>1, <1>2, <1>3, <1>4, <1>5, <1>6 DEF IndInv

LEMMA ReadInd ==
  ASSUME IndInv, NEW k \in Rng(1, N), Read(k)
  PROVE  IndInv'
<1>0. /\ N \in Nat /\ next \in Nat /\ pipe \in Seq(Int) /\ consumed \in Seq(Int)
  BY TypeFacts DEF IndInv
<1>1. k \in 1..Len(pipe)
  BY <1>0 DEF Read, Rng
<1>2. OrderPt(consumed, pipe, next)
  BY DEF IndInv, OrderInv
<1>3. /\ consumed' \in Seq(Int) /\ pipe' \in Seq(Int)
      /\ OrderPt(consumed', pipe', next')
  BY <1>0, <1>1, <1>2, OrderRead DEF Read
<1>4. TypeInv'
  BY <1>3 DEF IndInv, TypeInv, Read, Idx, Pos, Rng, IsIntSeq
<1>5. CloseInv' /\ HeapInv' /\ NoStaleErr' /\ PrefixInv'
  BY DEF IndInv, Read, CloseInv, HeapInv, NoStaleErr, PrefixInv, Rng, IsClose
<1>6. CompleteInv'
  BY <1>4, <1>5, CompleteFromRestNext
<1>. QED
  BY <1>3, <1>4, <1>5, <1>6 DEF IndInv, OrderInv

LEMMA ArriveInd ==
  ASSUME IndInv, NEW i \in Idx, Arrive(i)
  PROVE  IndInv'
<1>0. /\ N \in Nat /\ N >= 1 /\ next \in Nat /\ next <= N /\ closeIdx \in Int
      /\ pipe \in Seq(Int) /\ consumed \in Seq(Int)
      /\ \A j \in arrived : j \in Nat /\ j <= N - 1
      /\ \A j \in heap : j \in Nat /\ j <= N - 1
      /\ i \in Nat /\ i <= N - 1
  BY TypeFacts DEF IndInv, Idx, Rng
<1>1. /\ i \notin arrived /\ arrived' = arrived \cup {i} /\ closeIdx' = closeIdx /\ consumed' = consumed
  BY DEF Arrive
<1>2. /\ \A j \in 0..(next - 1) : j \in arrived /\ j # closeIdx
      /\ closeRep => closeIdx \in arrived
      /\ closeRep => (closeIdx >= 0 /\ next = closeIdx)
      /\ heap \subseteq arrived
      /\ \A x \in heap : x > next
      /\ \A j \in arrived : j < next \/ j \in heap \/ (j = next /\ j = closeIdx /\ closeRep)
      /\ staleErr = FALSE
      /\ closeIdx = -1 \/ closeIdx = N - 1
      /\ closeRep \in BOOLEAN
      /\ OrderPt(consumed, pipe, next)
  BY DEF IndInv, PrefixInv, CloseInv, HeapInv, NoStaleErr, TypeInv, OrderInv, Rng, IsClose
<1>3. ~(i < next)
  BY <1>0, <1>1, <1>2
<1>. SUFFICES TypeInv' /\ OrderInv' /\ CloseInv' /\ HeapInv' /\ NoStaleErr' /\ PrefixInv'
  BY CompleteFromRestNext DEF IndInv
<1>a. CASE heap = {} /\ i = next /\ IsClose(i)
  <2>1. closeRep' = TRUE /\ UNCHANGED <<next, heap, pipe, staleErr>>
    BY <1>a DEF Arrive
  <2>2. TypeInv'
    BY <2>1, <1>0, <1>1 DEF IndInv, TypeInv, Idx, Pos, Rng, IsIntSeq
  <2>3. OrderInv'
    BY <2>1, <1>1, <1>2 DEF OrderInv
  <2>4. CloseInv' /\ HeapInv' /\ NoStaleErr' /\ PrefixInv'
    BY <2>1, <1>0, <1>1, <1>2, <1>a DEF CloseInv, HeapInv, NoStaleErr, PrefixInv, Rng, IsClose
  <2>. QED
    BY <2>2, <2>3, <2>4
<1>b. CASE heap = {} /\ i = next /\ ~IsClose(i)
  <2>1. pipe' = Append(pipe, i) /\ next' = next + 1 /\ UNCHANGED <<heap, closeRep, staleErr>>
    BY <1>b DEF Arrive
  <2>2. Append(pipe, next) \in Seq(Int) /\ OrderPt(consumed, Append(pipe, next), next + 1)
    BY <1>0, <1>2, OrderAppend
  <2>3. TypeInv'
    BY <2>1, <2>2, <1>0, <1>1, <1>b DEF IndInv, TypeInv, Idx, Pos, Rng, IsIntSeq
  <2>4. OrderInv'
    BY <2>1, <2>2, <1>1, <1>b DEF OrderInv
  <2>5. ~closeRep
    BY <1>2, <1>b DEF IsClose
  <2>6. CloseInv' /\ HeapInv' /\ NoStaleErr' /\ PrefixInv'
    BY <2>1, <2>5, <1>0, <1>1, <1>2, <1>b DEF CloseInv, HeapInv, NoStaleErr, PrefixInv, Rng, IsClose
  <2>. QED
    BY <2>3, <2>4, <2>6
<1>c. CASE ~(heap = {} /\ i = next)
  <2>. DEFINE h == heap \cup {i}
              m == StopIdx(h, next)
  <2>1. ~(\E x \in h : x < next)
    BY <1>0, <1>2, <1>3
  <2>2. /\ heap' = {x \in h : x > m}
        /\ next' = m
        /\ pipe' = pipe \o Run(next, m)
        /\ closeRep' = (closeRep \/ m \in h)
        /\ staleErr' = staleErr
    BY <1>c, <1>3, <2>1 DEF Arrive, Drain
  <2>3. h \subseteq Idx /\ next \in Pos
    BY DEF IndInv, TypeInv
  <2>4. m \in Pos /\ StopsAt(h, next, m)
    BY <2>3, StopIdxProps
  <2>. HIDE DEF m
  <2>5. /\ m \in Nat /\ m <= N /\ next <= m
        /\ \A j \in next..(m - 1) : j \in h /\ j # closeIdx
        /\ m \notin h \/ m = closeIdx
    BY <2>4, <1>0 DEF StopsAt, Pos, Rng, IsClose
  <2>6. pipe \o Run(next, m) \in Seq(Int) /\ OrderPt(consumed, pipe \o Run(next, m), m)
    BY <2>5, <1>0, <1>2, OrderConcat
  <2>7. TypeInv'
    BY <2>2, <2>5, <2>6, <1>0, <1>1 DEF IndInv, TypeInv, Idx, Pos, Rng, IsIntSeq
  <2>8. OrderInv'
    BY <2>2, <2>6, <1>1 DEF OrderInv
  <2>9. closeRep => m = next
    BY <2>5, <1>0, <1>2
  <2>. HIDE DEF h
  <2>10. /\ \A x \in h : x \in Nat /\ x >= next /\ x \in arrived'
         /\ i \in h /\ heap \subseteq h
    BY <1>0, <1>1, <1>2, <1>3 DEF h
  <2>11. CloseInv'
    <3>. SUFFICES ASSUME closeRep'
                  PROVE  closeIdx >= 0 /\ m = closeIdx /\ \A j \in 0..(closeIdx - 1) : j \in arrived'
      BY <2>2, <1>1 DEF CloseInv, Rng
    <3>1. m = closeIdx
      BY <2>2, <2>5, <2>9, <1>2
    <3>2. \A j \in 0..(m - 1) : j \in arrived'
      BY <2>5, <2>10, <1>0, <1>1, <1>2
    <3>. QED
      BY <3>1, <3>2, <2>5
  <2>12. HeapInv'
    <3>1. heap' \subseteq arrived'
      BY <2>2, <2>10
    <3>2. \A x \in heap' : x > next'
      BY <2>2
    <3>3. \A j \in arrived' : j < next' \/ j \in heap' \/ (j = next' /\ IsClose(j)' /\ closeRep')
      <4>. TAKE j \in arrived'
      <4>1. CASE j \in h
        BY <4>1, <2>2, <2>5, <2>10, <1>1 DEF IsClose
      <4>2. CASE j \notin h
        <5>1. j \in arrived /\ j \notin heap
          BY <4>2, <2>10, <1>1
        <5>2. j < next \/ (j = next /\ j = closeIdx /\ closeRep)
          BY <5>1, <1>2
        <5>. QED
          BY <5>2, <2>2, <2>5, <2>9, <1>0, <1>1 DEF IsClose
      <4>. QED
        BY <4>1, <4>2
    <3>. QED
      BY <3>1, <3>2, <3>3 DEF HeapInv
  <2>13. NoStaleErr'
    BY <2>2, <1>2 DEF NoStaleErr
  <2>14. PrefixInv'
    <3>1. \A j \in 0..(m - 1) : j \in arrived' /\ j # closeIdx
      BY <2>5, <2>10, <1>0, <1>1, <1>2
    <3>2. closeRep' => closeIdx \in arrived'
      BY <2>2, <2>5, <2>10, <1>1, <1>2
    <3>. QED
      BY <3>1, <3>2, <2>2, <1>1 DEF PrefixInv, Rng, IsClose
  <2>. QED
    BY <2>7, <2>8, <2>11, <2>12, <2>13, <2>14
<1>. QED
  BY <1>a, <1>b, <1>c

LEMMA StutterInd ==
  ASSUME IndInv, UNCHANGED ivars
  PROVE  IndInv'
BY DEF IndInv, ivars, TypeInv, OrderInv, OrderPt, CloseInv, HeapInv, CompleteInv, NoStaleErr, PrefixInv,
       Idx, Pos, Rng, IsClose, IsIntSeq

THEOREM IndInvInvariant == Spec => []IndInv
<1>1. Init => IndInv
  BY InitInd
<1>2. IndInv /\ [Next]_ivars => IndInv'
  BY ReadInd, ArriveInd, StutterInd DEF Next
<1>. QED
  BY <1>1, <1>2, PTL DEF Spec

-----------------------------------------------------------------------------
(* IndInv gives the invariants of Reassembly.tla as they are written there *)

THEOREM OriginalInvariants ==
  Spec => [](/\ consumed \o pipe = Iota(next)                                           \* OrderInv
             /\ closeRep => (closeIdx >= 0 /\ next = closeIdx
                             /\ \A j \in 0..(closeIdx - 1) : j \in arrived)              \* CloseInv
             /\ /\ heap \subseteq arrived                                                \* HeapInv
                /\ \A h \in heap : h > next
                /\ \A j \in arrived : j < next \/ j \in heap \/ (j = next /\ IsClose(j) /\ closeRep)
             /\ (arrived = 0..(N - 1)) =>                                                \* CompleteInv
                  /\ heap = {}
                  /\ IF closeIdx >= 0 THEN next = closeIdx /\ closeRep ELSE next = N
             /\ staleErr = FALSE                                                         \* NoStaleErr
             /\ closeIdx \in {-1} \cup Nat /\ next \in Nat /\ closeRep \in BOOLEAN)      \* TypeOK
<1>. DEFINE Orig == /\ consumed \o pipe = Iota(next)
                    /\ closeRep => (closeIdx >= 0 /\ next = closeIdx
                                    /\ \A j \in 0..(closeIdx - 1) : j \in arrived)
                    /\ /\ heap \subseteq arrived
                       /\ \A h \in heap : h > next
                       /\ \A j \in arrived : j < next \/ j \in heap \/ (j = next /\ IsClose(j) /\ closeRep)
                    /\ (arrived = 0..(N - 1)) =>
                         /\ heap = {}
                         /\ IF closeIdx >= 0 THEN next = closeIdx /\ closeRep ELSE next = N
                    /\ staleErr = FALSE
                    /\ closeIdx \in {-1} \cup Nat /\ next \in Nat /\ closeRep \in BOOLEAN
<1>1. IndInv => Orig
  <2>. SUFFICES ASSUME IndInv PROVE Orig
    OBVIOUS
  <2>1. /\ N \in Nat /\ N >= 1 /\ next \in Nat /\ pipe \in Seq(Int) /\ consumed \in Seq(Int)
    BY TypeFacts DEF IndInv
  <2>2. consumed \o pipe = Iota(next)
    BY <2>1, OrderPtIsConcat DEF IndInv, OrderInv
  <2>3. closeIdx \in {-1} \cup Nat /\ closeRep \in BOOLEAN
    BY <2>1 DEF IndInv, TypeInv
  <2>. QED
    BY <2>1, <2>2, <2>3 DEF IndInv, CloseInv, HeapInv, CompleteInv, NoStaleErr, Idx, Rng
<1>. HIDE DEF Orig
<1>2. Spec => []IndInv
  BY IndInvInvariant
<1>3. Spec => []Orig
  BY <1>1, <1>2, PTL
<1>. QED
  BY <1>3 DEF Orig
=============================================================================
