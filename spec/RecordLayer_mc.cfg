SPECIFICATION Spec
CONSTANTS
  H = @H@
  Buf = @BUF@
  Lens = @LENS@
  NW = @NW@
  MaxRec = @MAXREC@
  MaxFail = @MAXFAIL@
  FmtMax = @FMTMAX@
  WLimit = @WLIMIT@
  WMode = "@WMODE@"
  RMode = "@RMODE@"
INVARIANTS @INVS@
CHECK_DEADLOCK FALSE
