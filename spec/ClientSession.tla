---------------------------- MODULE ClientSession ----------------------------
(* client.MakeSession (internal/client/connector.go): NumConn connector      *)
(* goroutines each loop  dial -> handshake  until both succeed; a failed dial *)
(* or handshake is followed by a 3 s pause; after a failed handshake a direct *)
(* connection that used the chrome signature falls back to firefox for all   *)
(* its later attempts.  MakeSession returns only when every connector has     *)
(* succeeded; the session then owns exactly NumConn connections and the key   *)
(* one of the handshakes returned.  The environment decides each attempt's    *)
(* outcome.  One connector is modelled (connectors do not interact); the      *)
(* harness also runs several in parallel and checks the aggregate.            *)
EXTENDS Integers, Sequences

CONSTANTS MaxFail,    \* failures the environment may inject
          Mode,       \* "direct" or "cdn"
          Browser0    \* configured signature: "chrome", "firefox", "safari"

VARIABLES pc,        \* "dial", "hs", "pause", "done"
          browser,   \* signature the next handshake will use
          fails,     \* failures so far
          pauses,    \* 3 s pauses taken so far
          hist       \* attempts: [kind, ok, browser, pauses]

vars == <<pc, browser, fails, pauses, hist>>

Init == pc = "dial" /\ browser = Browser0 /\ fails = 0 /\ pauses = 0 /\ hist = <<>>

Dial(ok) ==
  /\ pc = "dial"
  /\ ok \/ fails < MaxFail
  /\ hist' = Append(hist, [kind |-> "dial", ok |-> ok, browser |-> browser, pauses |-> pauses])
  /\ IF ok THEN pc' = "hs" /\ UNCHANGED <<fails, pauses>>
     ELSE pc' = "dial" /\ fails' = fails + 1 /\ pauses' = pauses + 1      \* time.Sleep(3 s); goto makeconn
  /\ UNCHANGED browser

Handshake(ok) ==
  /\ pc = "hs"
  /\ ok \/ fails < MaxFail
  /\ hist' = Append(hist, [kind |-> "hs", ok |-> ok, browser |-> browser, pauses |-> pauses])
  /\ IF ok THEN pc' = "done" /\ UNCHANGED <<fails, pauses, browser>>
     ELSE /\ pc' = "dial" /\ fails' = fails + 1 /\ pauses' = pauses + 1
          /\ browser' = IF Mode = "direct" /\ browser = "chrome" THEN "firefox" ELSE browser

Next == \E ok \in BOOLEAN : Dial(ok) \/ Handshake(ok)
Spec == Init /\ [][Next]_vars

\* the signature only ever changes chrome -> firefox, only in direct mode, only after a failed handshake
FallbackInv ==
  /\ browser # Browser0 => (Mode = "direct" /\ Browser0 = "chrome" /\ browser = "firefox"
                            /\ \E i \in 1..Len(hist) : hist[i].kind = "hs" /\ ~hist[i].ok)
  /\ \A i \in 1..Len(hist) : hist[i].browser \in {Browser0, "firefox"}
\* every failure is followed by exactly one pause before the next attempt
PauseInv == pauses = fails /\ \A i \in 1..Len(hist) : hist[i].pauses = Len(SelectSeq(SubSeq(hist, 1, i - 1), LAMBDA a : ~a.ok))
\* done only after a successful dial immediately followed by a successful handshake
DoneInv == pc = "done" => /\ Len(hist) >= 2 /\ hist[Len(hist)].kind = "hs" /\ hist[Len(hist)].ok
                          /\ hist[Len(hist) - 1].kind = "dial" /\ hist[Len(hist) - 1].ok
=============================================================================
