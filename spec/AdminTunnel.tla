----------------------------- MODULE AdminTunnel -----------------------------
(***************************************************************************)
(* X05 - the server as a whole, seen by its two kinds of clients:          *)
(*                                                                         *)
(*  - the administrator (ck-client -a): a first packet with the configured *)
(*    AdminUID and session id 0 gets a session of its own whose streams    *)
(*    are served by the user-management API                               *)
(*    (Go: dispatchConnection, branch "admin mode" -> http.Serve(sesh,     *)
(*    usermanager.APIRouterOf(Panel.Manager)));                            *)
(*  - ordinary users: dispatchConnection -> userPanel.GetUser ->           *)
(*    ActiveUser.GetSession (AuthoriseNewSession) -> serveSession, their   *)
(*    traffic metered by the user's valve, collected and uploaded by       *)
(*    updateUsageQueue / commitUpdate, TERMINATE answers closing every     *)
(*    session of the user.                                                 *)
(*                                                                         *)
(* What the administrator writes through the tunnel decides who may        *)
(* connect afterwards and who is cut off at the next upload round.         *)
(* The listed properties C07/C15/C16/C18 each look at one of these parts   *)
(* with the neighbours stubbed; this module is their composition through   *)
(* the real handshake, the real tunnel and the real HTTP router.           *)
(*                                                                         *)
(* Values are classes: a credit is "big" (survives any traffic of a        *)
(* behaviour), "one" (exactly 1: connects, and is used up by the first     *)
(* metered frame) or "nonpos"; an expiry time is "future" or "past"; a     *)
(* rate is "pos" or "zero".  A field never written reads as 0.             *)
(***************************************************************************)
EXTENDS Naturals, FiniteSets, Sequences, TLC, Json

CONSTANTS Users,         \* ordinary UIDs (strings)
          AdminU,        \* the configured AdminUID (a string not in Users)
          Sids,          \* session ids clients use; contains 0
          Handles,       \* names of admin client sessions
          MaxOps,        \* length of a behaviour
          MaxAdminOps,   \* at most this many API requests in a behaviour
          Dev            \* deviations (negative configurations), see the end of the module

VARIABLES db,      \* the user database:  Users -> record or NoUser
          asess,   \* admin sessions that are up
          usess,   \* live ordinary sessions  <<uid, sid>>
          valve,   \* per user: was anything metered since the last collection  [up, dn]
          queue,   \* usageUpdateQueue: NoQ or [up, dn]
          joined,  \* live ordinary sessions that were given a further connection
          last,    \* the step just taken, with its verdict
          hist, nops

vars == <<db, asess, usess, valve, queue, joined, last, hist, nops>>

NoUser == [cap |-> 9, up |-> "none", dn |-> "none", exp |-> "none", rate |-> "none"]
NoQ    == [on |-> FALSE, up |-> FALSE, dn |-> FALSE]
Clean  == [up |-> FALSE, dn |-> FALSE]
Dirty  == [up |-> TRUE,  dn |-> TRUE]
Or(a, b) == [up |-> a.up \/ b.up, dn |-> a.dn \/ b.dn]
Enq(q, v) == [on |-> TRUE, up |-> q.up \/ v.up, dn |-> q.dn \/ v.dn]
CleanQ == [on |-> TRUE, up |-> FALSE, dn |-> FALSE]
GoneQ  == [on |-> TRUE, up |-> FALSE, dn |-> TRUE]

Blank == [cap |-> 0, up |-> "nonpos", dn |-> "nonpos", exp |-> "past", rate |-> "zero"]   \* every field absent
Full  == [cap |-> 2, up |-> "big", dn |-> "big", exp |-> "future", rate |-> "pos"]
WriteKinds == {"full", "cap0", "cap1", "up1", "up0", "dn0", "expire"}
Apply(r, k) == CASE k = "full"   -> Full
                 [] k = "cap0"   -> [r EXCEPT !.cap = 0]
                 [] k = "cap1"   -> [r EXCEPT !.cap = 1]
                 [] k = "up1"    -> [r EXCEPT !.up = "one"]
                 [] k = "up0"    -> [r EXCEPT !.up = "nonpos"]
                 [] k = "dn0"    -> [r EXCEPT !.dn = "nonpos"]
                 [] k = "expire" -> [r EXCEPT !.exp = "past"]
Has(u) == db[u] # NoUser
Old(u) == IF Has(u) THEN db[u] ELSE Blank

Everyone == Users \cup {AdminU}
SessOf(u) == {p \in usess : p[1] = u}
NSess(u)  == Cardinality(SessOf(u))
Active    == {u \in Everyone : SessOf(u) # {}}

\* localManager.AuthenticateUser + the rate test of userPanel.GetUser
CredOK(r)  == r.up # "nonpos" /\ r.dn # "nonpos" /\ r.exp = "future"
AuthN(u)   == Has(u) /\ CredOK(db[u]) /\ db[u].rate = "pos"
\* localManager.AuthoriseNewSession with n sessions of the user alive
AuthZ(u, n) == Has(u) /\ CredOK(db[u]) /\ n < db[u].cap

None == [o |-> "init", h |-> 0, u |-> "", s |-> 0, k |-> "", v |-> "", nd |-> FALSE]

Init == /\ db = [u \in Users |-> NoUser]
        /\ asess = {} /\ usess = {}
        /\ valve = [u \in Users |-> Clean]
        /\ queue = [u \in Users |-> NoQ]
        /\ joined = {}
        /\ last = None /\ hist = <<>> /\ nops = 0

Tick == nops < MaxOps /\ nops' = nops + 1
AdminOps == Cardinality({i \in 1..Len(hist) : hist[i].o \in {"post", "mismatch", "get", "list", "delete"}})
KeepPanel == UNCHANGED <<usess, valve, queue, joined>>

-----------------------------------------------------------------------------
\* the administrator

\* first packet with AdminUID and session id 0: a session of its own, never entered into the panel
AOpen(h) == /\ Tick /\ h \notin asess
            /\ asess' = asess \cup {h}
            /\ UNCHANGED db /\ KeepPanel
            /\ last' = [None EXCEPT !.o = "aopen", !.h = h, !.v = "admin"]
AClose(h) == /\ Tick /\ h \in asess
             /\ asess' = asess \ {h}
             /\ UNCHANGED db /\ KeepPanel
             /\ last' = [None EXCEPT !.o = "aclose", !.h = h]

Api(h) == Tick /\ h \in asess /\ AdminOps < MaxAdminOps /\ UNCHANGED asess /\ KeepPanel

\* POST /admin/users/{u} through the tunnel, body for u: partial update, 201
APost(h, u, k) == /\ Api(h)
                  /\ db' = [db EXCEPT ![u] = Apply(Old(u), k)]
                  /\ last' = [None EXCEPT !.o = "post", !.h = h, !.u = u, !.k = k, !.v = "201"]
\* POST whose body names another user: 400, nothing written
AMismatch(h, u, k) == /\ Api(h) /\ UNCHANGED db
                      /\ last' = [None EXCEPT !.o = "mismatch", !.h = h, !.u = u, !.k = k, !.v = "400"]
AGet(h, u) == /\ Api(h) /\ UNCHANGED db
              /\ last' = [None EXCEPT !.o = "get", !.h = h, !.u = u, !.v = IF Has(u) THEN "200" ELSE "404"]
AList(h)   == /\ Api(h) /\ UNCHANGED db
              /\ last' = [None EXCEPT !.o = "list", !.h = h, !.v = "200"]
\* DELETE; deleting a user that does not exist answers 500 (bolt: bucket not found)
ADelete(h, u) == /\ Api(h)
                 /\ db' = [db EXCEPT ![u] = NoUser]
                 /\ last' = [None EXCEPT !.o = "delete", !.h = h, !.u = u, !.v = IF Has(u) THEN "200" ELSE "500"]

-----------------------------------------------------------------------------
\* ordinary clients (the AdminUID with a session id other than 0 is one of them: unrestricted, unmetered)

IsAdminHello(u, s) == u = AdminU /\ s = 0

\* first connection of a new session
OpenVerdict(u, s) ==
  IF "ApiBySidZero" \in Dev /\ s = 0 THEN "admin"              \* deviation: session id 0 alone selects the API
  ELSE IF u = AdminU THEN "served"
  ELSE IF NSess(u) = 0 /\ ~AuthN(u) THEN "redirected"            \* GetUser refuses: the peer is handed to the redirect target
  ELSE IF "NoRecheckOnNewSession" \notin Dev /\ ~AuthZ(u, NSess(u)) THEN "hung"
                                                                   \* GetSession refuses: no reply, connection left open
  ELSE "served"

UOpen(u, s) ==
  /\ Tick /\ <<u, s>> \notin usess /\ ~IsAdminHello(u, s)
  /\ LET v == OpenVerdict(u, s) IN
     /\ usess' = IF v = "served" THEN usess \cup {<<u, s>>} ELSE usess
     /\ IF u \in Users /\ NSess(u) = 0 /\ v # "redirected"
          THEN /\ valve' = [valve EXCEPT ![u] = Clean]                     \* a new ActiveUser with a new valve
               /\ queue' = IF v = "hung" THEN [queue EXCEPT ![u] = Enq(queue[u], Clean)]  \* ... terminated at once
                           ELSE queue
          ELSE UNCHANGED <<valve, queue>>
     /\ last' = [None EXCEPT !.o = "uopen", !.u = u, !.s = s, !.v = v]
  /\ UNCHANGED <<db, asess, joined>>

\* a further connection of a live session joins it without a look at the database
UJoin(u, s) == /\ Tick /\ <<u, s>> \in usess
               /\ joined' = joined \cup {<<u, s>>}
               /\ UNCHANGED <<db, asess, usess, valve, queue>>
               /\ last' = [None EXCEPT !.o = "ujoin", !.u = u, !.s = s, !.v = "joined"]

\* a stream through the session to the proxy target and back; what the client sent looks like an API request
UEcho(u, s) == /\ Tick /\ <<u, s>> \in usess
               /\ valve' = IF u \in Users THEN [valve EXCEPT ![u] = Dirty] ELSE valve
               /\ UNCHANGED <<db, asess, usess, queue, joined>>
               /\ last' = [None EXCEPT !.o = "uecho", !.u = u, !.s = s, !.v = "echoed"]

\* the client closes its session (the closing frame is metered as upload); the user's last session takes the
\* ActiveUser with it and queues what the valve had counted.  A session with several connections: the closing frame
\* travels on one of them while the others are simply closed; whether the server meters the frame before it notices
\* a closed connection (and tears the session down) is not determined (b).
UClose(u, s, b) ==
  /\ Tick /\ <<u, s>> \in usess
  /\ b \/ (<<u, s>> \in joined /\ u \in Users)
  /\ usess' = usess \ {<<u, s>>}
  /\ joined' = joined \ {<<u, s>>}
  /\ IF u \in Users
       THEN LET v1 == [valve[u] EXCEPT !.up = @ \/ b] IN
            IF NSess(u) = 1 THEN /\ queue' = [queue EXCEPT ![u] = Enq(queue[u], v1)]
                                 /\ valve' = [valve EXCEPT ![u] = Clean]
                            ELSE /\ valve' = [valve EXCEPT ![u] = v1]
                                 /\ UNCHANGED queue
       ELSE UNCHANGED <<valve, queue>>
  /\ UNCHANGED <<db, asess>>
  /\ last' = [None EXCEPT !.o = "uclose", !.u = u, !.s = s, !.nd = (<<u, s>> \in joined /\ u \in Users)]

\* one upload round: updateUsageQueue; commitUpdate -> UploadStatus -> TERMINATE answers
Collected == [u \in Users |-> IF NSess(u) > 0 THEN Enq(queue[u], valve[u]) ELSE queue[u]]
Dec(c, dirty) == IF c = "one" /\ dirty THEN "nonpos" ELSE c
After(u, q) == [db[u] EXCEPT !.up = Dec(db[u].up, q.up), !.dn = Dec(db[u].dn, q.dn)]
Term(u, q) == IF ~Has(u) THEN TRUE
              ELSE LET r == After(u, q) IN r.up = "nonpos" \/ r.dn = "nonpos" \/ r.exp = "past"
Round ==
  LET q    == Collected
      gone == IF "NoCutOff" \in Dev THEN {} ELSE {u \in Users : NSess(u) > 0 /\ q[u] # NoQ /\ Term(u, q[u])}
  IN /\ Tick
     /\ db' = [u \in Users |-> IF q[u] # NoQ /\ Has(u) THEN After(u, q[u]) ELSE db[u]]
     /\ usess' = {p \in usess : p[1] \notin gone}
     /\ valve' = [u \in Users |-> Clean]
     \* a terminated user: TerminateActiveUser queues the (empty) rest and closes the sessions; the closing notices
     \* are metered as download on the dead record and queued by the second termination (serveSession's CloseSession)
     /\ queue' = [u \in Users |-> IF u \in gone THEN GoneQ ELSE NoQ]
     /\ joined' = {p \in joined : p[1] \notin gone}
     /\ UNCHANGED asess
     /\ last' = [None EXCEPT !.o = "round"]

-----------------------------------------------------------------------------
Entry(l) == [o |-> l.o, h |-> l.h, u |-> l.u, s |-> l.s, k |-> l.k, v |-> l.v, nd |-> l.nd,
             vl   |-> [u \in Users |-> valve'[u]],
             db   |-> [u \in Users |-> IF db'[u] = NoUser THEN <<>> ELSE <<db'[u]>>],
             sess |-> [u \in Everyone |-> {p[2] : p \in {x \in usess' : x[1] = u}}],
             adm  |-> asess',
             q    |-> [u \in Users |-> IF queue'[u] = NoQ THEN <<>> ELSE <<[up |-> queue'[u].up, dn |-> queue'[u].dn]>>]]

Step ==
  \/ \E h \in Handles : AOpen(h) \/ AClose(h) \/ AList(h)
  \/ \E h \in Handles, u \in Users : AGet(h, u) \/ ADelete(h, u)
  \/ \E h \in Handles, u \in Users, k \in WriteKinds : APost(h, u, k)
  \/ \E h \in Handles, u \in Users : AMismatch(h, u, "full")
  \/ \E u \in Everyone, s \in Sids : UOpen(u, s) \/ UJoin(u, s) \/ UEcho(u, s) \/ UClose(u, s, TRUE) \/ UClose(u, s, FALSE)
  \/ Round

Next == Step /\ hist' = Append(hist, Entry(last'))
Spec == Init /\ [][Next]_vars

-----------------------------------------------------------------------------
\* what has to hold

TypeOK == /\ asess \subseteq Handles
          /\ usess \subseteq (Everyone \X Sids)
          /\ \A u \in Users : NSess(u) = 0 => valve[u] = Clean

\* the API is reachable with the AdminUID and session id 0 only: no ordinary session has that pair, and nobody
\* else's session id 0 is taken for the administrator
ApiOnlyForAdmin == /\ <<AdminU, 0>> \notin usess
                   /\ \A i \in 1..Len(hist) : hist[i].o = "uopen" => hist[i].v # "admin"

\* nobody is served beyond the cap their record had when the session was opened
CapRespected == [][\A u \in Users : (last'.o = "uopen" /\ last'.u = u /\ last'.v = "served")
                                      => (Has(u) /\ NSess(u) < db[u].cap)]_vars

\* a session is only ever opened for a user whose record allowed it at that moment
ServedOnlyIfAllowed == [][(last'.o = "uopen" /\ last'.v = "served" /\ last'.u \in Users)
                            => (Has(last'.u) /\ CredOK(db[last'.u]))]_vars

\* after an upload round no session is left to a user without a usable record
CutOffAtRound == [][last'.o = "round" =>
                      \A u \in Users : (\E p \in usess' : p[1] = u) => (db'[u] # NoUser /\ CredOK(db'[u]))]_vars

\* what the administrator cannot do: nothing he writes closes or opens a session by itself (only the next
\* round / the next first packet does) and the administrator's own sessions never show up in the panel
ApiLeavesSessionsAlone == [][last'.o \in {"post", "mismatch", "get", "list", "delete"} => usess' = usess]_vars

\* a rejected or reading request changes nothing
RejectedUnchanged == [][last'.o \in {"mismatch", "get", "list"} => db' = db]_vars

\* behaviours of exactly MaxOps steps are printed for the replay
Emit == (nops = MaxOps) => PrintT(<<"X05BEHAVIOUR", ToJson([steps |-> hist])>>)

\* state constraint / view for the exhaustive runs (hist and last are output only)
View == <<db, asess, usess, valve, queue, joined, nops, AdminOps>>
=============================================================================
