-------------------------- MODULE TokenBucketPanel --------------------------
(* C19 across the life cycle of a user: "counted across all of the user's  *)
(* sessions and connections together" includes sessions that come and go   *)
(* through server.userPanel (GetUser / ActiveUser.GetSession /             *)
(* CloseSession / TerminateActiveUser).  The token buckets live in the     *)
(* ActiveUser record (one LimitedValve per record, userpanel.go GetUser),  *)
(* so the allowance is shared exactly as long as all LIVE sessions of the  *)
(* user hang on ONE record.                                                *)
(*                                                                         *)
(* This is a scenario module, deliberately small: one user, records and    *)
(* sessions as objects, and the panel's operations cut at the schedule     *)
(* points the harness can hold a goroutine at (internal/verifhook):        *)
(*    user.closesession.unlocked   (gate "unlocked")                       *)
(*    panel.terminate.closed       (gate "closed")                         *)
(* The full lock protocol of the panel is spec/UserPanel.tla (C15-C17);    *)
(* this module only generates the life-cycle schedules along which the     *)
(* traffic of C19 is metered, and states the one invariant C19 needs from  *)
(* the panel: OneValve.                                                    *)
(*                                                                         *)
(* Excluded on purpose (NoLookupGap): a handshake that finds in the panel  *)
(* a record on which closeAllSessions has already run.  On the tree under  *)
(* test that window is the known finding D9 (C15/C17 key                   *)
(* lookup-gap-vs-terminate); it is not re-reported under C19.              *)
EXTENDS Integers, Sequences, FiniteSets, TLC, Json

CONSTANTS MaxHs,      \* number of handshakes (each asks for a new session id 1, 2, ...)
          NClosers,   \* number of CloseSession calls
          MaxRec,     \* bound on the number of records
          Gates,      \* subset of {"unlocked", "closed"}
          Dev,        \* named deviations from the code under test; {} = HEAD
          Export      \* TRUE: print every maximal behaviour

\* "StaleCheck": TerminateActiveUser returns early when the panel does not hold the caller's record, and in
\* exchange deletes whatever record the panel holds at the end (check-then-act across two critical sections)
\* "FreshBucketOnReactivation" (defect D18, ON in the code-faithful configuration): the token buckets are made
\* by GetUser together with the record (MakeValve) and die with it, so a user whose record was terminated gets
\* brand-new FULL buckets with the next handshake.  The ideal design keeps the user's buckets across termination.
ASSUME Dev \subseteq {"StaleCheck", "FreshBucketOnReactivation"} /\ Gates \subseteq {"unlocked", "closed"}

NoSid == 99   \* CloseSession for a session id the record does not have (dispatchConnection after a refused GetSession)

VARIABLES cur,     \* record the panel holds for the user, 0 = none
          nrec,    \* records created so far (record k owns valve k)
          sess,    \* sess[r]: session ids in record r's table
          swept,   \* swept[r]: closeAllSessions has run on r
          objs,    \* sequence of session objects [rec, sid, live]
          nhs,     \* handshakes done
          cl,      \* cl[p] = [pc, rec, sid], pc in idle / unlocked / closed / done
          hist,    \* environment steps with the expected observation
          everBad, \* OneValve was violated at some point of the behaviour
          full     \* full buckets handed to the user so far.  The module has no clock: every behaviour may happen
                   \* within one instant, and then each full bucket is one burst on the wire
vars == <<cur, nrec, sess, swept, objs, nhs, cl, hist, everBad, full>>

Recs == 1..MaxRec
Closers == 1..NClosers

LiveRecs(os) == {os[i].rec : i \in {j \in 1..Len(os) : os[j].live}}
LiveSids(os) == {os[i].sid : i \in {j \in 1..Len(os) : os[j].live}}
Kill(os, r, S) == [i \in 1..Len(os) |-> IF os[i].rec = r /\ os[i].sid \in S THEN [os[i] EXCEPT !.live = FALSE] ELSE os[i]]

Init == /\ cur = 0 /\ nrec = 0
        /\ sess = [r \in Recs |-> {}] /\ swept = [r \in Recs |-> FALSE]
        /\ objs = <<>> /\ nhs = 0
        /\ cl = [p \in Closers |-> [pc |-> "idle", rec |-> 0, sid |-> 0]]
        /\ hist = <<>> /\ everBad = FALSE /\ full = 0

Obs(os, c) == [valves |-> Cardinality(LiveRecs(os)), live |-> LiveSids(os), cur |-> c]

Note(ev, os, c) ==
  /\ hist' = Append(hist, [ev |-> ev, obs |-> Obs(os, c)])
  /\ everBad' = (everBad \/ Cardinality(LiveRecs(os)) > 1)

\* dispatchConnection: GetUser, then GetSession on the record it was given (no schedule point between them here)
NoLookupGap == IF cur = 0 THEN TRUE ELSE ~swept[cur]
Handshake ==
  /\ nhs < MaxHs /\ NoLookupGap
  /\ (IF cur # 0 THEN TRUE ELSE nrec < MaxRec)
  /\ LET fresh == cur = 0
         r     == IF fresh THEN nrec + 1 ELSE cur
         sid   == nhs + 1
         os    == Append(objs, [rec |-> r, sid |-> sid, live |-> TRUE])
     IN /\ nrec' = IF fresh THEN nrec + 1 ELSE nrec
        /\ cur' = r
        /\ sess' = [sess EXCEPT ![r] = @ \cup {sid}]
        /\ objs' = os
        /\ nhs' = nhs + 1
        /\ full' = IF fresh /\ (nrec = 0 \/ "FreshBucketOnReactivation" \in Dev) THEN full + 1 ELSE full
        /\ Note([a |-> "hs", sid |-> sid, rec |-> r, fresh |-> fresh], os, r)
  /\ UNCHANGED <<swept, cl>>

\* the pieces of CloseSession / TerminateActiveUser between the schedule points, as functions of the shared state
\* st = [cur, sess, swept, objs]; each returns the new shared state and the program counter reached
Step1(st, r, sid) ==      \* CloseSession under sessionsM: forget and close the session, count what is left
  LET had == sid \in st.sess[r]
      s1  == [st EXCEPT !.sess[r] = @ \ {sid}, !.objs = IF had THEN Kill(st.objs, r, {sid}) ELSE st.objs]
  IN [st |-> s1, pc |-> IF s1.sess[r] # {} THEN "done" ELSE "unlocked"]
Step2(st, r) ==           \* TerminateActiveUser up to panel.terminate.closed
  IF "StaleCheck" \in Dev /\ st.cur # r THEN [st |-> st, pc |-> "done"]
  ELSE [st |-> [st EXCEPT !.objs = Kill(st.objs, r, st.sess[r]), !.sess[r] = {}, !.swept[r] = TRUE], pc |-> "closed"]
Step3(st, r) ==           \* the delete under activeUsersM
  [st |-> [st EXCEPT !.cur = IF "StaleCheck" \in Dev \/ st.cur = r THEN 0 ELSE st.cur], pc |-> "done"]

\* run from program counter pc until the next gate that is switched on (or the end)
RECURSIVE Run(_, _, _, _)
Run(st, r, sid, pc) ==
  LET nx == CASE pc = "start"    -> Step1(st, r, sid)
              [] pc = "unlocked" -> Step2(st, r)
              [] pc = "closed"   -> Step3(st, r)
  IN IF nx.pc = "done" \/ nx.pc \in Gates THEN nx ELSE Run(nx.st, r, sid, nx.pc)

Shared == [cur |-> cur, sess |-> sess, swept |-> swept, objs |-> objs]
Apply(res, p, r, sid, ev) ==
  /\ cur' = res.st.cur /\ sess' = res.st.sess /\ swept' = res.st.swept /\ objs' = res.st.objs
  /\ cl' = [cl EXCEPT ![p] = [pc |-> res.pc, rec |-> r, sid |-> sid]]
  /\ Note(ev @@ [at |-> res.pc], res.st.objs, res.st.cur)
  /\ UNCHANGED <<nrec, nhs, full>>

\* a goroutine calls CloseSession(sid) on record r (closers are used in index order: they are interchangeable)
StartClose(p, r, sid) ==
  /\ cl[p].pc = "idle" /\ \A o \in Closers : o < p => cl[o].pc # "idle"
  /\ r \in 1..nrec /\ sid \in (1..nhs) \cup {NoSid}
  /\ Apply(Run(Shared, r, sid, "start"), p, r, sid, [a |-> "close", p |-> p, rec |-> r, sid |-> sid])

\* a parked goroutine is let go
Go(p) ==
  /\ cl[p].pc \in {"unlocked", "closed"}
  /\ Apply(Run(Shared, cl[p].rec, cl[p].sid, cl[p].pc), p, cl[p].rec, cl[p].sid, [a |-> "go", p |-> p])

Next == \/ Handshake
        \/ \E p \in Closers, r \in Recs, sid \in (1..MaxHs) \cup {NoSid} : StartClose(p, r, sid)
        \/ \E p \in Closers : Go(p)
Spec == Init /\ [][Next]_vars

-----------------------------------------------------------------------------
\* what C19 needs from the panel: all live sessions of the user hang on one record = share one valve
OneValve == Cardinality(LiveRecs(objs)) <= 1

\* C19 literally, for an instant: rate x 0 + ONE burst, however the user's sessions come and go
RateBound == full <= 1

Terminal == /\ \A p \in Closers : cl[p].pc = "done"
            /\ (IF nhs = MaxHs THEN TRUE ELSE IF ~NoLookupGap THEN TRUE ELSE (cur = 0 /\ nrec = MaxRec))
Emit == (Export /\ Terminal) =>
          PrintT(<<"BEHAVIOUR", ToJson([bad |-> everBad, steps |-> hist])>>)
=============================================================================
