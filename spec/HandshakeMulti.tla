--------------------------- MODULE HandshakeMulti ---------------------------
(* The multi-connection start of ONE client session (C06): k connections   *)
(* carrying the same (UID, session id) arrive together - what a client with *)
(* NumConn > 1 does when it starts.  Each runs dispatchConnection up to the *)
(* reply; the only shared state is the user's session table                 *)
(* (activeuser.go GetSession).  Design: lookup, authorisation, creation and *)
(* registration of the session are ONE critical section (sessionsM), so     *)
(* exactly one connection creates the session and every reply carries the   *)
(* key of the session the server serves.                                    *)
(* Atomic = FALSE is the deviation (lookup and insert are two steps): it    *)
(* must break OneKey, else the invariant would be vacuous.                  *)
EXTENDS Integers, FiniteSets, TLC, Json

CONSTANTS MaxK, Atomic

VARIABLES k, pc, table, reply
mvars == <<k, pc, table, reply>>

Conns == 1..k

MInit == /\ k \in 2..MaxK
         /\ pc = [i \in 1..MaxK |-> "start"]
         /\ table = 0                       \* 0 = no session registered, i = the session made by connection i (key Ki)
         /\ reply = [i \in 1..MaxK |-> 0]   \* key sent to connection i

\* GetSession as one critical section
GetSessionAtomic(i) ==
  /\ Atomic /\ i \in Conns /\ pc[i] = "start"
  /\ table' = IF table = 0 THEN i ELSE table
  /\ reply' = [reply EXCEPT ![i] = table']
  /\ pc' = [pc EXCEPT ![i] = "done"]
  /\ UNCHANGED k

\* the deviation: look up, then (later) make and register without looking again
Lookup(i) ==
  /\ ~Atomic /\ i \in Conns /\ pc[i] = "start"
  /\ IF table # 0 THEN /\ reply' = [reply EXCEPT ![i] = table]
                        /\ pc' = [pc EXCEPT ![i] = "done"]
                   ELSE /\ pc' = [pc EXCEPT ![i] = "missed"]
                        /\ UNCHANGED reply
  /\ UNCHANGED <<k, table>>
Insert(i) ==
  /\ ~Atomic /\ i \in Conns /\ pc[i] = "missed"
  /\ table' = i
  /\ reply' = [reply EXCEPT ![i] = i]
  /\ pc' = [pc EXCEPT ![i] = "done"]
  /\ UNCHANGED k

MNext == \E i \in 1..MaxK : GetSessionAtomic(i) \/ Lookup(i) \/ Insert(i)
MSpec == MInit /\ [][MNext]_mvars

AllDone == \A i \in Conns : pc[i] = "done"

\* C06 for a session with several connections: one key, and it is the key of the registered session
OneKey == \A i \in Conns : pc[i] = "done" => reply[i] = table
KeysSent == {reply[i] : i \in Conns}

MEmit == AllDone => PrintT(<<"BEHAVIOUR", ToJson([scope |-> "multi", k |-> k, keys |-> Cardinality(KeysSent),
                                                   registered |-> (table \in KeysSent)])>>)
=============================================================================
