--------------------------- MODULE ReassemblyInd ---------------------------
(***************************************************************************)
(* The state machine of Reassembly.tla (receive-side reordering of ONE     *)
(* stream, Go: multiplex.streamBuffer.Write / streamBufferedPipe.Read)     *)
(* with the drain loop written WITHOUT recursion, so that TLAPS and        *)
(* Apalache can reason about it, and an inductive invariant IndInv.        *)
(*                                                                         *)
(*  - same variables, minus the observation-only lastW / lastR; the only   *)
(*    bit of lastW an invariant of Reassembly.tla reads (lastW.err, in     *)
(*    NoStaleErr) is kept as the flag staleErr;                            *)
(*  - same actions, branch by branch; Drain(h, n, p) is "pop n, n+1, ...   *)
(*    up to the first index m that is not parked or is the closing frame"; *)
(*    ReassemblyEq.tla lets TLC compare it with the recursive Drain of     *)
(*    Reassembly.tla on every argument and compare the two next-state      *)
(*    relations on every reachable state;                                  *)
(*  - proof of  Spec => []IndInv  for every N \in Nat \ {0}:               *)
(*    ReassemblyIndProof.tla (TLAPS); cross-check for N \in 1..8:          *)
(*    apalache/ReassemblyIndApa.tla.                                       *)
(*                                                                         *)
(* Rng(a, b) is a..b, AsSeq(f, n) is f, IsIntSeq(s) is s \in Seq(Int)        *)
(* (ReassemblyShim.tla).                                                   *)
(***************************************************************************)
EXTENDS Integers, Sequences, FiniteSets, ReassemblyShim

CONSTANT
  \* @type: Int;
  N            \* number of frames

VARIABLES
  \* @type: Int;
  closeIdx,   \* index of the closing frame, -1 if the stream is not closed
  \* @type: Set(Int);
  arrived,    \* indices already passed to Write (each exactly once)
  \* @type: Int;
  next,       \* nextRecvSeq
  \* @type: Set(Int);
  heap,       \* indices parked in the sorter heap
  \* @type: Seq(Int);
  pipe,       \* data units handed to the byte pipe and not yet read
  \* @type: Bool;
  closeRep,   \* TRUE once a Write returned toBeClosed
  \* @type: Seq(Int);
  consumed,   \* data units the application has read, in order
  \* @type: Bool;
  staleErr    \* TRUE once a Write returned the stale-frame error (= some lastW.err of Reassembly.tla)

ivars == <<closeIdx, arrived, next, heap, pipe, closeRep, consumed, staleErr>>

Idx == Rng(0, N - 1)      \* frame indices
Pos == Rng(0, N)          \* values of next

IsClose(i) == i = closeIdx

-----------------------------------------------------------------------------
(***************************************************************************)
(* The drain loop, closed form.  Started with parked set h (no element     *)
(* below n) and wanted index n, the loop of streamBuffer.Write pops        *)
(* n, n+1, ... while the wanted index is parked; it stops BEFORE an index  *)
(* m that is not parked, or AFTER popping (without handing over, without   *)
(* advancing next) an index m that is the closing frame.                   *)
(***************************************************************************)
StopsAt(h, n, m) == /\ n <= m
                    /\ \A j \in Rng(n, m - 1) : j \in h /\ ~IsClose(j)
                    /\ m \notin h \/ IsClose(m)

StopIdx(h, n) == CHOOSE m \in Pos : StopsAt(h, n, m)

\* the units n, n+1, ..., m-1 as a sequence
Run(n, m) == AsSeq([j \in Rng(1, m - n) |-> n + j - 1], m - n)

Drain(h, n, p) ==
  IF \E x \in h : x < n
    THEN \* the smallest parked index is not the wanted one: the loop body never runs
         [heap |-> h, next |-> n, pipe |-> p, tbc |-> FALSE]
    ELSE LET m == StopIdx(h, n) IN
         [heap |-> {x \in h : x > m}, next |-> m, pipe |-> p \o Run(n, m), tbc |-> m \in h]

-----------------------------------------------------------------------------
RInit(c) ==
  /\ closeIdx = c
  /\ arrived = {}
  /\ next = 0
  /\ heap = {}
  /\ pipe = <<>>
  /\ closeRep = FALSE
  /\ consumed = <<>>
  /\ staleErr = FALSE

Arrive(i) ==
  /\ i \notin arrived
  /\ arrived' = arrived \cup {i}
  /\ UNCHANGED <<closeIdx, consumed>>
  /\ IF heap = {} /\ i = next
       THEN \* fast path
            IF IsClose(i)
              THEN /\ closeRep' = TRUE
                   /\ UNCHANGED <<next, heap, pipe, staleErr>>
              ELSE /\ pipe' = Append(pipe, i)
                   /\ next' = next + 1
                   /\ UNCHANGED <<heap, closeRep, staleErr>>
       ELSE IF i < next
              THEN \* stale frame: error, nothing stored
                   /\ staleErr' = TRUE
                   /\ UNCHANGED <<next, heap, pipe, closeRep>>
              ELSE LET r == Drain(heap \cup {i}, next, pipe) IN
                   /\ heap' = r.heap
                   /\ next' = r.next
                   /\ pipe' = r.pipe
                   /\ closeRep' = (closeRep \/ r.tbc)
                   /\ UNCHANGED staleErr

\* the application reads the first k buffered units
Read(k) ==
  /\ 1 <= k /\ k <= Len(pipe)
  /\ consumed' = consumed \o SubSeq(pipe, 1, k)
  /\ pipe' = SubSeq(pipe, k + 1, Len(pipe))
  /\ UNCHANGED <<closeIdx, arrived, next, heap, closeRep, staleErr>>

Init == \E c \in {-1, N - 1} : RInit(c)

Next == \/ \E i \in Idx : Arrive(i)
        \/ \E k \in Rng(1, N) : Read(k)

Spec == Init /\ [][Next]_ivars

-----------------------------------------------------------------------------
(***************************************************************************)
(* The invariants of Reassembly.tla ...                                    *)
(***************************************************************************)

\* OrderInv of Reassembly.tla (consumed \o pipe = Iota(next)) spelt out element by element;
\* ReassemblyIndProof.tla proves the two forms equivalent for sequences
OrderPt(c, p, n) == /\ Len(c) + Len(p) = n
                    /\ \A j \in DOMAIN c : c[j] = j - 1
                    /\ \A j \in DOMAIN p : p[j] = Len(c) + j - 1

OrderInv == OrderPt(consumed, pipe, next)

CloseInv == closeRep => (closeIdx >= 0 /\ next = closeIdx /\ \A j \in Rng(0, closeIdx - 1) : j \in arrived)

HeapInv == /\ heap \subseteq arrived
           /\ \A h \in heap : h > next
           /\ \A j \in arrived : j < next \/ j \in heap \/ (j = next /\ IsClose(j) /\ closeRep)

CompleteInv ==
  (arrived = Idx) =>
     /\ heap = {}
     /\ IF closeIdx >= 0 THEN next = closeIdx /\ closeRep ELSE next = N

NoStaleErr == staleErr = FALSE

(***************************************************************************)
(* ... and what has to be added to make their conjunction inductive.       *)
(***************************************************************************)
TypeInv == /\ closeIdx \in {-1, N - 1}
           /\ arrived \subseteq Idx
           /\ next \in Pos
           /\ heap \subseteq Idx
           /\ closeRep \in BOOLEAN
           /\ staleErr \in BOOLEAN
           /\ IsIntSeq(pipe)
           /\ IsIntSeq(consumed)

\* every frame below next has arrived, none of them is the closing frame,
\* and a close is only ever reported for a closing frame that has arrived
PrefixInv == /\ \A j \in Rng(0, next - 1) : j \in arrived /\ ~IsClose(j)
             /\ closeRep => closeIdx \in arrived

IndInv == /\ TypeInv
          /\ OrderInv
          /\ CloseInv
          /\ HeapInv
          /\ CompleteInv
          /\ NoStaleErr
          /\ PrefixInv
=============================================================================
