SPECIFICATION Spec
CONSTANTS
  NC = @NC@
  NS = @NS@
  Units = @UNITS@
  MaxWrite = @MAXWRITE@
  Unordered = FALSE
  Singleplex = FALSE
  Feat = {@FEAT@}
  Dev = {}
  LateConn = {}
  TimerEp = "none"
VIEW view
INVARIANTS NonceInv
PROPERTIES SeqStep
CHECK_DEADLOCK FALSE
