---------------------------- MODULE ServerConfig ----------------------------
(* X03 - the server option table: README.md "### Server" (RedirAddr,        *)
(* BindAddr, ProxyBook, PrivateKey, BypassUID, AdminUID, DatabasePath,      *)
(* KeepAlive), "Setup / Server" (ck-server -key / -uid print the key / UID  *)
(* in base64; no document states their lengths),                            *)
(* example_config/ckserver.json (the baseline row), the usage text of       *)
(* ck-server ("-c  config: path to the configuration file or its content")  *)
(* and, for what the README leaves to the source, the comments of           *)
(* cmd/ck-server/ck-server.go (default :443/:80; harmonising the address a  *)
(* Shadowsocks host hands over with BindAddr "prevents duplicate bindings") *)
(* and the forms of RedirAddr exercised by internal/server/state_test.go    *)
(* (host, host:port, bare IPv6, [IPv6]:port).  Written down as a TOTAL      *)
(* function                                                                 *)
(*     Expected : abstract raw configuration -> documented processed state  *)
(* exactly like ClientConfig.tla: every option is one column with a handful *)
(* of abstract value classes, a state is a partially filled configuration,  *)
(* one action fixes the next option, a terminal state is one row.           *)
(* "undocumented" (U): the documentation is silent, nothing is demanded     *)
(* (logged; must not panic).  Nothing here is derived from state.go.        *)
EXTENDS Naturals, Sequences, FiniteSets

CONSTANTS Free,        \* options that may deviate from the baseline configuration
          MaxDev,      \* at most MaxDev options deviate from the baseline (t-wise coverage)
          MaxInvalid   \* at most MaxInvalid options carry a documented-invalid value

U == "undocumented"

\* ---------------------------------------------------------------- the columns
Order == << "AdminUID", "DatabasePath", "BypassUID", "PrivateKey", "KeepAlive", "ProxyBook", "RedirAddr",
            "CncMode", "Source", "BindAddr", "Mode", "SSRemote" >>
OptNames == {Order[i] : i \in 1..Len(Order)}

Values == [
  \* key -> [protocol, "IP:PORT"]
  ProxyBook    |-> {"absent", "empty",
                    "tcp", "udp", "example",          \* one tcp entry, one udp entry, the three entries of the example file
                    "v6addr",                         \* ["tcp", "[::1]:port"]
                    "upnet",                          \* ["TCP", addr]: the README spells protocols in lower case only
                    "mixedname",                      \* key "Shadowsocks": keys are case-sensitive
                    "casepair",                       \* keys differing in letter case only are two methods
                    "len0", "len1", "len3",           \* value array with 0, 1, 3 elements
                    "unknownnet", "emptynet",         \* protocol "sctp" / ""
                    "emptyaddr", "noport", "badport", \* address "", "127.0.0.1", "127.0.0.1:99999"
                    "notarray",                       \* value is a string, not an array
                    "goodbad"},                       \* a well-formed entry next to a one-element entry
  RedirAddr    |-> {"absent", "empty", "v4", "v4port", "v6bare", "v6port",
                    "v6bracket",                      \* "[::1]" without port: no source mentions this form
                    "v4badport"},                     \* "1.2.3.4:http2": the port syntax is not in the README at all
  PrivateKey   |-> {"absent", "empty", "set", "short", "long", "badb64"},
  AdminUID     |-> {"absent", "empty", "set", "short", "long", "badb64"},
  BypassUID    |-> {"absent", "empty", "one", "many", "dup",
                    "withadmin",                      \* the AdminUID is also listed as a bypass UID
                    "short", "long", "badb64",
                    "goodshort",                      \* a valid UID followed by a 15-byte one
                    "notlist"},                       \* a single string instead of a list
  DatabasePath |-> {"absent", "empty", "set",
                    "baddir"},                        \* a path inside a directory that does not exist
  KeepAlive    |-> {"absent", "neg", "zero", "pos", "str"},
  CncMode      |-> {"absent", "false", "true"},       \* not mentioned by any document
  Source       |-> {"file", "inline"},                \* -c <path>  /  -c <content>
  \* ---- what ck-server (package main) does with the configuration
  BindAddr     |-> {"absent", "empty", "example",     \* [":443", ":80"]
                    "all", "any4", "any6", "both",    \* [":P"] ["0.0.0.0:P"] ["[::]:P"] ["0.0.0.0:P","[::]:P"]
                    "ip4", "ip6", "otherport",        \* ["127.0.0.1:P"] ["[::1]:P"] [":Q"]
                    "noport", "badport", "notlist"},  \* ["127.0.0.1"] ["127.0.0.1:99999"] ":P"
  Mode         |-> {"standalone", "plugin"},          \* plugin: started by a Shadowsocks host (SS_LOCAL_*, SS_REMOTE_*)
  SSRemote     |-> {"na", "both", "any4", "any6", "ip4", "ip6", "badport"} ]   \* SS_REMOTE_HOST "::|0.0.0.0" "0.0.0.0" "::" ...; port P

\* baseline = example_config/ckserver.json with key and UIDs filled in, RedirAddr an IP literal (no DNS)
Base == [
  ProxyBook |-> "example", RedirAddr |-> "v4", PrivateKey |-> "set", AdminUID |-> "set", BypassUID |-> "one",
  DatabasePath |-> "set", KeepAlive |-> "absent", CncMode |-> "absent", Source |-> "file",
  BindAddr |-> "example", Mode |-> "standalone", SSRemote |-> "na" ]

\* ---------------------------------------------------------------- the three outcome classes
\* Every row falls into exactly one class:
\*   "documented-accept"  every value is of the documented kind: the configuration must be accepted and every
\*                        processed field must have the documented meaning;
\*   "documented-reject"  some value does not have the SHAPE the documents give the field (not base64, not a list, not
\*                        a number, a ProxyBook value that is not a two-element array, an address that is not IP:PORT,
\*                        no private key at all): an error is demanded;
\*   "undocumented"       every value has the documented shape, but some value's CONTENT is something no document
\*                        speaks about (a key or UID of another length, a protocol name other than tcp/udp, an empty
\*                        address, no RedirAddr ...): nothing is demanded beyond "no panic" - what the code does is
\*                        recorded as an observation. Outputs that do not depend on the undocumented value keep their
\*                        documented meaning if the configuration happens to be accepted.
Accept == "documented-accept"
Reject == "documented-reject"

\* values of the wrong shape (documented-reject)
Invalid == [
  \* "Its value is an array whose first element is the protocol, and the second element is an IP:PORT string"
  ProxyBook    |-> {"len0", "len1", "len3", "noport", "badport", "notarray", "goodbad"},
  RedirAddr    |-> {},
  \* "the static curve25519 Diffie-Hellman private key encoded in base64"; ck-server refuses to start without one
  PrivateKey   |-> {"absent", "empty", "badb64"},
  \* "You can leave this empty"; anything else that is not a UID: see UndocOutcome
  AdminUID     |-> {},
  \* "a list of UIDs", each "in base64"
  BypassUID    |-> {"badb64", "notlist"},
  DatabasePath |-> {},
  \* "the number of seconds"
  KeepAlive    |-> {"str"},
  CncMode      |-> {},
  Source       |-> {},
  BindAddr     |-> {"notlist"},      \* not a list: the configuration text itself is malformed
  Mode         |-> {},
  SSRemote     |-> {} ]

IsInvalid(o, v) == v \in Invalid[o]

\* values for which no document says whether the configuration is to be accepted
UndocOutcome(c) ==
  \/ c.RedirAddr \in {"absent", "empty", "v6bracket", "v4badport"}   \* no default and no "required" is documented
  \* the README names no set of protocols, and says nothing about an address that is the empty string
  \/ c.ProxyBook \in {"upnet", "unknownnet", "emptynet", "emptyaddr"}
  \* no document gives the length of a key or of a UID (ck-server -key / -uid happen to print 32 / 16 bytes)
  \/ c.PrivateKey \in {"short", "long"}
  \/ c.BypassUID \in {"short", "long", "goodshort"}
  \* "This field [DatabasePath] also has no effect if AdminUID isn't a valid UID": an invalid AdminUID is
  \* either refused or ignored - the README allows both
  \/ c.AdminUID \in {"short", "long", "badb64"}
  \/ c.AdminUID = "set" /\ c.DatabasePath = "baddir"
  \/ c.CncMode = "true"

\* ---------------------------------------------------------------- the table: configuration -> state
Book(v) == CASE v = "tcp"       -> {"n1/tcp/a1"}
             [] v = "udp"       -> {"n1/udp/a1"}
             [] v = "example"   -> {"n1/tcp/a1", "n2/udp/a2", "n3/tcp/a3"}
             [] v = "v6addr"    -> {"n1/tcp/a6"}
             [] v = "mixedname" -> {"M1/tcp/a1"}                  \* the key verbatim, capital letters kept
             [] v = "casepair"  -> {"p1/tcp/a1", "P1/tcp/a2"}     \* two distinct methods
             [] OTHER           -> {}                             \* absent, {}

BypassCfg(v) == CASE v = "one"       -> {"b1"}
                  [] v = "many"      -> {"b1", "b2", "b3"}
                  [] v = "dup"       -> {"b1", "b2"}              \* [b1, b2, b1]
                  [] v = "withadmin" -> {"b1", "admin"}
                  [] OTHER           -> {}

AdminValid(c) == c.AdminUID = "set"

\* README BypassUID: "a list of UIDs that are authorised without any bandwidth or credit limit restrictions";
\* the admin "can use the server as normal with unlimited QoS credits" (dispatcher.go) - the set of unrestricted
\* users is exactly the listed UIDs plus a valid AdminUID
BypassSet(c) == BypassCfg(c.BypassUID) \cup (IF AdminValid(c) THEN {"admin"} ELSE {})

Expected(c) ==
  LET bad == \E o \in OptNames : IsInvalid(o, c[o])
  IN [
    outcome   |-> IF bad THEN Reject ELSE IF UndocOutcome(c) THEN U ELSE Accept,
    \* README RedirAddr: "the redirection address when the incoming traffic is not from a Cloak client"
    redirHost |-> CASE c.RedirAddr \in {"v4", "v4port"} -> "h4" [] c.RedirAddr \in {"v6bare", "v6port"} -> "h6" [] OTHER -> U,
    \* a port given is the port used; none given: the port the visitor connected to (State.RedirPort empty)
    redirPort |-> CASE c.RedirAddr \in {"v4port", "v6port"} -> "P" [] c.RedirAddr \in {"v4", "v6bare"} -> "none" [] OTHER -> U,
    \* README ProxyBook: key = ProxyMethod (case-sensitive), value = [protocol, IP:PORT]
    proxyBook |-> IF c.ProxyBook \in {"upnet", "unknownnet", "emptynet", "emptyaddr"} THEN {U} ELSE Book(c.ProxyBook),
    \* the exact set of unrestricted users; unknown when an entry of another length is listed
    bypass    |-> IF c.BypassUID \in {"short", "long", "goodshort"} THEN {U} ELSE BypassSet(c),
    \* the key reaches the state verbatim
    privKey   |-> IF c.PrivateKey = "set" THEN "key" ELSE U,
    \* README AdminUID: "the UID of the admin user"
    adminUID  |-> CASE AdminValid(c) -> "admin" [] c.AdminUID \in {"absent", "empty"} -> "none" [] OTHER -> U,
    \* README KeepAlive: N seconds; "Zero or negative value disables it. Default is 0 (disabled)"
    keepAlive |-> IF c.KeepAlive = "pos" THEN "N" ELSE "disabled",
    \* README DatabasePath: used to store user information; "You can leave this empty if you only ever add users
    \* to BypassUID. This field also has no effect if AdminUID isn't a valid UID or is empty."
    panel     |-> CASE c.CncMode = "true" -> U
                    [] ~AdminValid(c) -> "void"
                    [] c.DatabasePath \in {"absent", "empty"} -> "void"
                    [] c.DatabasePath = "set" -> "local"
                    [] OTHER -> U,
    \* "Cloak will create the file automatically if it doesn't exist"; "no effect" = nothing is created
    dbFile    |-> CASE c.CncMode = "true" -> U
                    [] c.DatabasePath \in {"absent", "empty"} -> "n/a"
                    [] ~AdminValid(c) -> "untouched"
                    [] c.DatabasePath = "set" -> "created"
                    [] OTHER -> U,
    \* README BindAddr: "a list of addresses"; RawConfig.BindAddr is the list verbatim
    bindRaw   |-> IF c.BindAddr \in {"absent", "notlist"} THEN "empty" ELSE c.BindAddr ]

\* ---------------------------------------------------------------- the table: configuration -> listening sockets
\* addresses as tokens "<interface>:<port>"; P = the port SS_REMOTE_PORT also names, Q another port
CfgBind(v) == CASE v = "example"   -> <<"all:443", "all:80">>
                [] v = "all"       -> <<"all:P">>
                [] v = "any4"      -> <<"any4:P">>
                [] v = "any6"      -> <<"any6:P">>
                [] v = "both"      -> <<"any4:P", "any6:P">>
                [] v = "ip4"       -> <<"ip4:P">>
                [] v = "ip6"       -> <<"ip6:P">>
                [] v = "otherport" -> <<"all:Q">>
                [] OTHER           -> <<>>
BindInvalid(v) == v \in {"noport", "badport", "notlist"}      \* not "IP:PORT" / not a list

SSAddr(v) == CASE v = "both" -> "all:P"     \* "::|0.0.0.0": SS listens on IPv6 and IPv4 = all interfaces
               [] v = "any4" -> "any4:P" [] v = "any6" -> "any6:P" [] v = "ip4" -> "ip4:P" [] v = "ip6" -> "ip6:P"
               [] OTHER -> "none"

Range(s) == {s[i] : i \in 1..Len(s)}

\* ck-server.go: "in case the user hasn't specified any local address to bind to, we listen on 443 and 80" (standalone)
\* parseSSBindAddr: "harmonise it with what's already in bindAddr ... This prevents duplicate bindings";
\*   "already listening on all interfaces" -> nothing to add; "if config listens on one ip version but ss wants to
\*   listen on both, listen on both"
Listen(c) ==
  LET cfgL == CfgBind(c.BindAddr)
      ss   == SSAddr(c.SSRemote)
  IN IF BindInvalid(c.BindAddr) \/ (c.Mode = "plugin" /\ c.SSRemote = "badport") THEN {"error"}
     ELSE IF c.Mode = "standalone"
          THEN IF Len(cfgL) = 0 THEN {"all:443", "all:80"} ELSE Range(cfgL)
     ELSE IF ss = "all:P"
          THEN {IF a \in {"any4:P", "any6:P"} THEN "all:P" ELSE a : a \in Range(cfgL)} \cup {"all:P"}
     ELSE IF ss \in Range(cfgL) \/ "all:P" \in Range(cfgL) THEN Range(cfgL)
     ELSE Range(cfgL) \cup {ss}

\* plugin mode: "we parse the address ss-server is listening on into ProxyBook" - method "shadowsocks", tcp, SS_LOCAL_HOST:SS_LOCAL_PORT
PluginBook(c) == IF c.Mode = "plugin" THEN {"shadowsocks/tcp/sslocal"} ELSE {}

Iface(a) == CASE a \in {"all:P", "all:Q", "all:443", "all:80"} -> "all"
              [] a = "any4:P" -> "any4" [] a = "any6:P" -> "any6" [] a = "ip4:P" -> "ip4" [] a = "ip6:P" -> "ip6" [] OTHER -> "?"
Port(a)  == CASE a \in {"all:P", "any4:P", "any6:P", "ip4:P", "ip6:P"} -> "P"
              [] a = "all:Q" -> "Q" [] a = "all:443" -> "443" [] a = "all:80" -> "80" [] OTHER -> "?"
\* whether an operating system lets all of them be bound at once is outside the documents (Go binds ":p", "0.0.0.0:p" and
\* "[::]:p" alike as one dual-stack socket): judged on real sockets only when no two addresses share a port, or they are
\* the two loopback addresses
Listenable(L) == \A a \in L : \A b \in L : (a # b /\ Port(a) = Port(b)) => {Iface(a), Iface(b)} = {"ip4", "ip6"}

\* ---------------------------------------------------------------- enumeration
VARIABLES cfg, idx
vars == <<cfg, idx>>

Init == cfg = [o \in OptNames |-> "?"] /\ idx = 0

Devs     == Cardinality({o \in OptNames : cfg[o] # "?" /\ cfg[o] # Base[o]})
Invalids == Cardinality({o \in OptNames : cfg[o] # "?" /\ IsInvalid(o, cfg[o])})

Choose(v) ==
  /\ idx < Len(Order)
  /\ LET o == Order[idx + 1] IN
       /\ v \in Values[o]
       \* SSRemote exists in plugin mode only (it is an environment variable of the Shadowsocks host); it does not
       \* count as a deviation of its own
       /\ o = "SSRemote" => (v = "na") = (cfg.Mode = "standalone")
       /\ \/ v = Base[o]
          \/ o = "SSRemote" /\ cfg.Mode = "plugin"
          \/ /\ o \in Free
             /\ Devs < MaxDev
             /\ IsInvalid(o, v) => Invalids < MaxInvalid
       /\ cfg' = [cfg EXCEPT ![o] = v]
  /\ idx' = idx + 1

AllValues == UNION {Values[o] : o \in OptNames}
Next == \E v \in AllValues : Choose(v)
Spec == Init /\ [][Next]_vars

Done == idx = Len(Order)

\* ---------------------------------------------------------------- invariants (about the table)
BookTokens   == {"n1/tcp/a1", "n1/udp/a1", "n2/udp/a2", "n3/tcp/a3", "n1/tcp/a6", "M1/tcp/a1", "p1/tcp/a1", "P1/tcp/a2", U}
BypassTokens == {"b1", "b2", "b3", "admin"}
BindTokens   == {"all:P", "any4:P", "any6:P", "ip4:P", "ip6:P", "all:Q", "all:443", "all:80"}

TypeOK == /\ idx \in 0..Len(Order)
          /\ \A i \in 1..Len(Order) : cfg[Order[i]] \in (IF i <= idx THEN Values[Order[i]] ELSE {"?"})

Total == Done =>
  LET e == Expected(cfg) IN
    /\ e.outcome \in {Accept, Reject, U}
    /\ e.redirHost \in {"h4", "h6", U} /\ e.redirPort \in {"P", "none", U}
    /\ e.proxyBook \subseteq BookTokens /\ e.bypass \subseteq BypassTokens \cup {U} /\ e.privKey \in {"key", U}
    /\ e.adminUID \in {"admin", "none", U} /\ e.keepAlive \in {"N", "disabled"}
    /\ e.panel \in {"local", "void", U} /\ e.dbFile \in {"created", "untouched", "n/a", U}
    /\ e.bindRaw \in Values.BindAddr \cup {"empty"}
    /\ Listen(cfg) = {"error"} \/ Listen(cfg) \subseteq BindTokens
    /\ cfg.Mode = "plugin" <=> cfg.SSRemote # "na"

\* an error is demanded exactly for malformed values; a well-formed row whose every value is documented is accepted
ErrorIff == Done =>
  LET e == Expected(cfg) IN
    /\ e.outcome = Reject <=> \E o \in OptNames : cfg[o] \in Invalid[o]
    /\ (e.outcome = Accept /\ cfg.CncMode # "true") =>
          /\ e.privKey # U /\ U \notin e.bypass /\ e.redirHost # U /\ e.redirPort # U /\ U \notin e.proxyBook /\ e.adminUID # U /\ e.panel # U /\ e.dbFile # U
    /\ cfg = Base => e.outcome = Accept

\* README sentences, each stated a second time independently of the CASE arms above
Sentences == Done =>
  LET e == Expected(cfg) IN
    \* KeepAlive: "Zero or negative value disables it. Default is 0 (disabled)."
    /\ (e.keepAlive = "N") <=> (cfg.KeepAlive = "pos")
    \* DatabasePath: "no effect if AdminUID isn't a valid UID or is empty"; "You can leave this empty"
    /\ cfg.AdminUID # "set" /\ cfg.CncMode # "true" => e.panel = "void" /\ e.dbFile \in {"untouched", "n/a"}
    /\ cfg.DatabasePath \in {"absent", "empty"} /\ cfg.CncMode # "true" => e.panel = "void" /\ e.dbFile = "n/a"
    \* "Cloak will create the file automatically if it doesn't exist"
    /\ cfg.AdminUID = "set" /\ cfg.DatabasePath = "set" /\ cfg.CncMode # "true" => e.panel = "local" /\ e.dbFile = "created"
    \* AdminUID "You can leave this empty if you only ever add users to BypassUID"
    /\ (cfg.AdminUID \in {"absent", "empty"} /\ cfg.BypassUID = "one" /\ \A o \in OptNames \ {"AdminUID", "BypassUID"} : cfg[o] = Base[o])
          => e.outcome = Accept /\ e.bypass = {"b1"}
    \* ProxyBook keys are case-sensitive: nothing is folded, nothing is merged
    /\ cfg.ProxyBook = "mixedname" => e.proxyBook = {"M1/tcp/a1"}
    /\ cfg.ProxyBook = "casepair" => Cardinality(e.proxyBook) = 2
    /\ cfg.ProxyBook = "example" => Cardinality(e.proxyBook) = 3
    \* RedirAddr
    /\ cfg.RedirAddr \in {"v4", "v6bare"} => e.redirPort = "none"
    /\ cfg.RedirAddr \in {"v4port", "v6port"} => e.redirPort = "P"

\* the unrestricted users are exactly the listed UIDs and the valid AdminUID; IsBypass(u) <=> u \in e.bypass
BypassExact == (Done /\ cfg.BypassUID \notin {"short", "long", "goodshort"}) =>
  LET e == Expected(cfg) IN
    /\ \A b \in {"b1", "b2", "b3"} : b \in e.bypass <=> b \in BypassCfg(cfg.BypassUID)
    \* (withadmin: the 16 bytes that AdminUID carries - or would carry - are also listed in BypassUID)
    /\ "admin" \in e.bypass <=> (cfg.AdminUID = "set" \/ cfg.BypassUID = "withadmin")
    /\ cfg.BypassUID \in {"absent", "empty"} /\ cfg.AdminUID \in {"absent", "empty"} => e.bypass = {}
    /\ cfg.BypassUID = "dup" => e.bypass \ {"admin"} = {"b1", "b2"}

\* the places where the documents are silent stay unjudged
Silent == Done =>
  LET e == Expected(cfg) IN
    /\ cfg.RedirAddr \in {"absent", "empty", "v6bracket", "v4badport"} => e.redirHost = U /\ e.redirPort = U /\ e.outcome # Accept
    /\ cfg.CncMode = "true" => e.outcome # Accept /\ e.panel = U
    /\ cfg.AdminUID \in {"short", "long", "badb64"} => e.outcome # Accept /\ e.adminUID = U /\ ("admin" \in e.bypass => cfg.BypassUID = "withadmin")
    /\ cfg.ProxyBook \in {"upnet", "unknownnet", "emptynet", "emptyaddr"} => e.outcome # Accept /\ e.proxyBook = {U}
    /\ cfg.PrivateKey \in {"short", "long"} => e.outcome # Accept /\ e.privKey = U
    /\ cfg.BypassUID \in {"short", "long", "goodshort"} => e.outcome # Accept /\ e.bypass = {U}
    \* an undocumented row is never demanded to fail, a malformed one never left to chance
    /\ e.outcome = U => ~\E o \in OptNames : cfg[o] \in Invalid[o]
    \* CncMode false / absent, Source inline: no effect at all
    /\ \A v \in {"absent", "false"} : Expected([cfg EXCEPT !.CncMode = v]) = Expected([cfg EXCEPT !.CncMode = "absent"])
    /\ Expected([cfg EXCEPT !.Source = "inline"]) = Expected([cfg EXCEPT !.Source = "file"])

\* listening sockets: every configured address and the address of the Shadowsocks host is served, nothing else,
\* nothing twice (Listen is a set, the code's list must have as many elements)
ListenInv == Done =>
  LET L == Listen(cfg)  cfgS == Range(CfgBind(cfg.BindAddr))  ss == SSAddr(cfg.SSRemote)
      \* an address is served by a socket bound to it, or - "listen on both" - by the all-interfaces socket of its port
      Covered(a) == \/ a \in L
                    \/ a = ss /\ "all:P" \in L
                    \/ a \in {"any4:P", "any6:P"} /\ ss = "all:P" /\ "all:P" \in L
  IN L # {"error"} =>
       /\ \A a \in cfgS : Covered(a)
       /\ cfg.Mode = "plugin" => Covered(ss)
       /\ cfg.Mode = "standalone" /\ cfgS = {} => L = {"all:443", "all:80"}
       /\ cfg.Mode = "standalone" /\ cfgS # {} => L = cfgS
       /\ \A a \in L : a \in cfgS \/ a = ss \/ (a = "all:P" /\ ss = "all:P") \/ (cfgS = {} /\ cfg.Mode = "standalone")
       /\ (ss = "all:P") => ~\E a \in L : a \in {"any4:P", "any6:P"}
       /\ PluginBook(cfg) # {} <=> cfg.Mode = "plugin"

\* every output column depends on few options: this is what makes t-wise enumeration an adequate cover
DependsOn == [
  outcome |-> OptNames, redirHost |-> {"RedirAddr"}, redirPort |-> {"RedirAddr"}, proxyBook |-> {"ProxyBook"},
  bypass |-> {"BypassUID", "AdminUID"}, privKey |-> {"PrivateKey"}, adminUID |-> {"AdminUID"}, keepAlive |-> {"KeepAlive"},
  panel |-> {"AdminUID", "DatabasePath", "CncMode"}, dbFile |-> {"AdminUID", "DatabasePath", "CncMode"},
  bindRaw |-> {"BindAddr"} ]
Separable == Done =>
  \A e1 \in {Expected(cfg)} : \A o \in OptNames \ {"Mode", "SSRemote"} : \A v \in Values[o] :
    \A e2 \in {Expected([cfg EXCEPT ![o] = v])} :
      /\ \A f \in DOMAIN DependsOn : o \notin DependsOn[f] => e2[f] = e1[f]
      /\ o \notin {"BindAddr"} => Listen([cfg EXCEPT ![o] = v]) = Listen(cfg)
=============================================================================
