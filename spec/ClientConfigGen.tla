-------------------------- MODULE ClientConfigGen --------------------------
(* Row generator for ClientConfig: every terminal state (one row of the     *)
(* decision table) is printed as JSON together with the documented          *)
(* expectation.  BFS enumerates all rows within (Free, MaxDev, MaxInvalid); *)
(* -simulate draws uniformly random rows of the full product (Next is one   *)
(* action, TLC picks uniformly among its successors).                       *)
EXTENDS ClientConfig, TLC, Json

Emit == Done => PrintT(<<"BEHAVIOUR", ToJson([cfg |-> cfg, exp |-> Expected(cfg)])>>)
=============================================================================
