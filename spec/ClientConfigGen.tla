-------------------------- MODULE ClientConfigGen --------------------------
(* Row generator for ClientConfig: every terminal state (one row of the     *)
(* decision table) is printed together with the documented expectation.     *)
(* BFS enumerates all rows within (Free, MaxDev, MaxInvalid); -simulate     *)
(* draws random rows of the full product.                                   *)
(* A row is printed compactly (the thorough tier prints > 10^5 of them):    *)
(*   "<18 option values in Order, comma separated>|<13 expected outputs in  *)
(*    ExpFields order, comma separated; names joined by '+'>"               *)
(* tools/props/c20.py turns it back into {cfg: {...}, exp: {...}}.          *)
EXTENDS ClientConfig, TLC, Json

ExpFields == << "outcome", "mode", "browser", "wsHost", "wsPath", "singleplex", "numConn",
                "keepAlive", "timeout", "names", "enc", "unordered", "dialer" >>

RECURSIVE Join(_, _, _)
Join(s, sep, i) == IF i > Len(s) THEN ""
                   ELSE IF i = Len(s) THEN s[i]
                   ELSE s[i] \o sep \o Join(s, sep, i + 1)

Row == LET e == Expected(cfg) IN
         Join([i \in 1..Len(Order) |-> cfg[Order[i]]], ",", 1) \o "|" \o
         Join([i \in 1..Len(ExpFields) |->
                 IF ExpFields[i] = "names" THEN Join(e.names, "+", 1) ELSE e[ExpFields[i]]], ",", 1)

Emit == Done => PrintT(<<"BEHAVIOUR", ToJson(Row)>>)
=============================================================================
