SPECIFICATION TSpec
CONSTRAINT HW
POSTCONDITION TraceAccepted
INVARIANTS TUpper TNotStarved
CHECK_DEADLOCK FALSE
