SPECIFICATION Spec
CONSTANTS
  Cap = 2
  NewStreams = 4
  Accepts = @ACCEPTS@
  Dev = {@DEV@}
INVARIANTS CloseReturns
CHECK_DEADLOCK FALSE
