SPECIFICATION SSpec
CONSTANTS
  NConn = @NCONN@
  MaxUp = @MAXUP@
  MaxDown = @MAXDOWN@
  Singleplex = @SINGLE@
  MaxSess = @MAXSESS@
  STO = @STO@
  Feat = {@FEAT@}
  Dev = {@DEV@}
  MaxDepth = 0
  Canon = TRUE
INVARIANTS SEmit PrefixInv NoCrossTalk CompleteInv NeighbourInv OrphanInv RenewInv SingleInv
CHECK_DEADLOCK FALSE
