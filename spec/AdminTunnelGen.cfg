SPECIFICATION GenSpec
CONSTANTS
  Users = @USERS@
  AdminU = "adm"
  Sids = @SIDS@
  Handles = @HANDLES@
  MaxOps = @DEPTH@
  MaxAdminOps = @MAXADMIN@
  Dev = {}
INVARIANTS Emit TypeOK ApiOnlyForAdmin
CHECK_DEADLOCK FALSE
