SPECIFICATION MSpec
CONSTANTS
  MaxK = @MAXK@
  Atomic = @ATOMIC@
INVARIANTS @INV@
CHECK_DEADLOCK FALSE
