SPECIFICATION Spec
CONSTANTS
  MaxFail = @MAXFAIL@
  Mode = "@MODE@"
  Browser0 = "@BROWSER@"
INVARIANTS Emit FallbackInv PauseInv DoneInv
CHECK_DEADLOCK FALSE
