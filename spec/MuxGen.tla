------------------------------- MODULE MuxGen -------------------------------
(* Behaviour generator for Mux.  Steps the harness cannot influence        *)
(* (Internal: continuations of running goroutines) are taken with priority *)
(* and in a canonical order; environment steps (API calls, deliveries,     *)
(* faults, time) are the choices.  Every step is recorded with the         *)
(* observation the harness can make at the next quiescent point.           *)
EXTENDS Mux, Json

CONSTANTS MaxDepth, MaxNoops

VARIABLES hist, noops
gvars == <<vars, hist, noops>>

\* what the harness can observe from outside at a quiescent moment
Obs == [closed   |-> sclosed,
        count    |-> count,
        inflight |-> [c \in Conns |-> [e \in E |-> Len(net[c][e])]],
        endc     |-> endClosed,
        rwait    |-> rwait,
        await    |-> await["s"],
        timers   |-> timers]

Rec == hist' = Append(hist, [ev |-> lastEv', obs |-> Obs'])

\* an environment call that changed nothing but its own result (refused write, repeated close, ...)
IsNoop == view' = view

GInit == Init /\ hist = <<>> /\ noops = 0

GStep ==
  /\ Len(hist) < MaxDepth
  /\ IF ENABLED Internal
       THEN Internal /\ UNCHANGED noops
       ELSE /\ Next
            /\ IF IsNoop THEN noops < MaxNoops /\ noops' = noops + 1 ELSE UNCHANGED noops
  /\ Rec

GSpec == GInit /\ [][GStep]_gvars

Done == Len(hist) = MaxDepth \/ ~ENABLED GStep

\* settled: the last recorded state is quiescent (no continuation pending), so its observation can be compared
Emit == Done => PrintT(<<"BEHAVIOUR", ToJson([steps |-> hist, settled |-> ~ENABLED Internal])>>)
=============================================================================
