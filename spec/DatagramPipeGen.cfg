SPECIFICATION GSpec
CONSTANT N = @N@
CONSTANT MaxDepth = @DEPTH@
INVARIANTS Emit OnceInOrder NoLossWhileOpen
CHECK_DEADLOCK FALSE
