SPECIFICATION Spec
CONSTANTS
  Free = @FREE@
  MaxDev = @MAXDEV@
  MaxInvalid = @MAXINVALID@
INVARIANTS TypeOK Total ErrorIff Sentences BypassExact Silent ListenInv Separable
CHECK_DEADLOCK FALSE
