-------------------------- MODULE ServerConfigGen --------------------------
(* Row generator for ServerConfig: every terminal state (one row of the     *)
(* decision table) is printed with the documented expectation.  BFS         *)
(* enumerates all rows within (Free, MaxDev, MaxInvalid); -simulate draws   *)
(* random rows of the full product.  Compact row format (see c20):          *)
(*   "<12 option values in Order, comma separated>|<14 expected outputs in  *)
(*    ExpFields order, comma separated; sets joined by '+', empty = '-'>"   *)
(* tools/props/x03.py turns it back into {cfg: {...}, exp: {...}}.          *)
EXTENDS ServerConfig, TLC, Json, SequencesExt

ExpFields == << "outcome", "redirHost", "redirPort", "proxyBook", "bypass", "privKey", "adminUID", "keepAlive", "panel",
                "dbFile", "bindRaw", "listen", "listenable", "pluginBook" >>

RECURSIVE Join(_, _, _)
Join(s, sep, i) == IF i > Len(s) THEN ""
                   ELSE IF i = Len(s) THEN s[i]
                   ELSE s[i] \o sep \o Join(s, sep, i + 1)

SetStr(S) == IF S = {} THEN "-" ELSE Join(SetToSeq(S), "+", 1)

Out(f) == LET e == Expected(cfg)  L == Listen(cfg) IN
  CASE f \in {"proxyBook", "bypass"} -> SetStr(e[f])
    [] f = "listen"     -> SetStr(L)
    [] f = "listenable" -> IF L = {"error"} THEN "n/a" ELSE IF Listenable(L) THEN "yes" ELSE "no"
    [] f = "pluginBook" -> SetStr(PluginBook(cfg))
    [] OTHER            -> e[f]

Row == Join([i \in 1..Len(Order) |-> cfg[Order[i]]], ",", 1) \o "|" \o
       Join([i \in 1..Len(ExpFields) |-> Out(ExpFields[i])], ",", 1)

Emit == Done => PrintT(<<"BEHAVIOUR", ToJson(Row)>>)
=============================================================================
