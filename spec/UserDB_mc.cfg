SPECIFICATION Spec
CONSTANTS
  UIDs = {"u1", "u2"}
  MaxOps = @DEPTH@
  OneFields = @ONEF@
  ValsOne = @ONEV@
  AllButFields = @ABF@
  ValsAllBut = @ABV@
  ValsAll = @ALLV@
  WithNone = TRUE
  UpUsages = @UPU@
  DownUsages = @DNU@
  NoUser = NoUser
  Absent = Absent
  AbsentReadsZero = @ARZ@
  RejectNonPositiveRate = @RNR@
INVARIANTS TypeOK Persist ConsumersTotal
PROPERTIES RejectedUnchanged ReadYourWrites DeletedGone UploadDecreases
CHECK_DEADLOCK FALSE
