---------------------------- MODULE DatagramPipe ----------------------------
(* multiplex.datagramBufferedPipe: a queue of datagram lengths next to one  *)
(* byte buffer.  Write(frame) appends one datagram (or, for a closing       *)
(* frame, closes the pipe); Read(cap) returns the head datagram whole, or   *)
(* ErrShortBuffer WITHOUT consuming anything when cap is too small, or EOF   *)
(* when closed and drained.  Datagram i has size Size(i).                   *)
EXTENDS Integers, Sequences, FiniteSets

CONSTANT N      \* datagrams 1..N may be written, in order (one writer: deplex delivers frames of a stream serially)

VARIABLES q,        \* queued datagram ids (pLens and buf in lock step)
          closed,   \* pipe closed
          wnext,    \* next datagram to write
          outq,     \* datagrams returned by Read, in order
          last      \* observable result of the last call

dvars == <<q, closed, wnext, outq, last>>

Init == q = <<>> /\ closed = FALSE /\ wnext = 1 /\ outq = <<>> /\ last = [a |-> "Init"]

WriteData ==
  /\ wnext <= N
  /\ wnext' = wnext + 1
  /\ IF closed
       THEN /\ last' = [a |-> "W", i |-> wnext, closing |-> FALSE, tbc |-> TRUE, err |-> TRUE]
            /\ UNCHANGED <<q, closed, outq>>
       ELSE /\ q' = Append(q, wnext)
            /\ last' = [a |-> "W", i |-> wnext, closing |-> FALSE, tbc |-> FALSE, err |-> FALSE]
            /\ UNCHANGED <<closed, outq>>

WriteClosing ==
  /\ wnext <= N
  /\ wnext' = wnext + 1
  /\ closed' = TRUE
  /\ last' = [a |-> "W", i |-> wnext, closing |-> TRUE, tbc |-> TRUE, err |-> closed]
  /\ UNCHANGED <<q, outq>>

\* cap: "small" = shorter than the head datagram, "exact" = its size, "big" = larger
Read(cap) ==
  /\ q # <<>> \/ closed
  /\ IF q = <<>>
       THEN /\ last' = [a |-> "R", cap |-> cap, got |-> 0, err |-> "eof"]
            /\ UNCHANGED <<q, outq>>
       ELSE IF cap = "small"
         THEN /\ last' = [a |-> "R", cap |-> cap, got |-> 0, err |-> "short"]
              /\ UNCHANGED <<q, outq>>
         ELSE /\ q' = Tail(q)
              /\ outq' = Append(outq, Head(q))
              /\ last' = [a |-> "R", cap |-> cap, got |-> Head(q), err |-> ""]
  /\ UNCHANGED <<closed, wnext>>

Close ==
  /\ ~closed
  /\ closed' = TRUE
  /\ last' = [a |-> "C"]
  /\ UNCHANGED <<q, wnext, outq>>

Next == WriteData \/ WriteClosing \/ Close \/ \E cap \in {"small", "exact", "big"} : Read(cap)
Spec == Init /\ [][Next]_dvars

\* every datagram comes out at most once, whole, in the order written; what is queued is what was written and not read
IsSubSeqOfIota(s) == \A i, j \in 1..Len(s) : i < j => s[i] < s[j]
OnceInOrder == IsSubSeqOfIota(outq \o q)
NoLossWhileOpen == ~closed => (outq \o q = [i \in 1..(wnext - 1) |-> i])
=============================================================================
