SPECIFICATION TSpec
CONSTANTS
  UIDs = {"u1", "u2"}
  MaxOps = 1000
  OneFields = {}
  ValsOne = {}
  AllButFields = {}
  ValsAllBut = {}
  ValsAll = {}
  WithNone = TRUE
  UpUsages = {}
  DownUsages = {}
  NoUser = NoUser
  Absent = Absent
  AbsentReadsZero = TRUE
  RejectNonPositiveRate = TRUE
CONSTRAINT HW
POSTCONDITION TraceAccepted
INVARIANTS Persist
CHECK_DEADLOCK FALSE
