SPECIFICATION GSpec
CONSTANTS
  NU = @NU@
  NS = @NS@
  Progs = {@PROGS@}
  Caps = {@CAPS@}
  Creds = {@CREDS@}
  InitSess = {@INITSESS@}
  MaxNew = @MAXNEW@
  MaxTraffic = @MAXTRAFFIC@
  AdminOps = {@ADMINOPS@}
  MaxAdmin = @MAXADMIN@
  Dev = {@DEV@}
  Gates = {@GATES@}
  MaxDepth = @DEPTH@
INVARIANTS Emit TypeOK
CHECK_DEADLOCK FALSE
