------------------------------ MODULE RelayUDP ------------------------------
(* X02, datagram side: internal/client/piper.go RouteUDP.  One loop goroutine *)
(* reads datagrams from the local UDP socket; a table maps the source address *)
(* to a stream; a new source opens a stream (multiplex: on the current        *)
(* session, renewed when nil or closed; singleplex: on a session of its own)  *)
(* and starts a reader goroutine that copies the stream's datagrams back to   *)
(* that address and, when Read fails (stream closed, session closed, read     *)
(* deadline = streamTimeout expired), deletes the table entry and closes the  *)
(* stream.  A failed Write of the loop deletes the entry and closes too.      *)
(* Time is abstracted: an open stream with nothing to read may time out at    *)
(* any moment (the deadline is re-armed by traffic; that only restricts when).*)
(* The server side is serveSession (Relay.tla) with datagram streams.         *)
(*                                                                            *)
(* Modelled as the code is (since /repo 5369de6, defect D22 repaired): both   *)
(* clean-up paths remove the table entry only if it still points to THEIR     *)
(* stream.  Dev = {"DeleteByKey"} is the code before the repair               *)
(* (delete(streams, addr) whatever the entry holds): a reader goroutine that  *)
(* has left its loop but not yet taken the table lock removes the entry of a  *)
(* NEWER stream of the same source (opened after the loop's own failed Write  *)
(* had already cleaned up); that stream stays open and keeps relaying replies *)
(* but is unreachable, the next datagram opens yet another one, and when the  *)
(* orphan times out its reader deletes the then-current entry again.  TLC     *)
(* refutes NoOrphan in 11 steps (MRecv MCheck MLookup RLeave PeerClose MWrite *)
(* MRecv MCheck MLookup RExit) and AtMostOne in 15 with that flag; the        *)
(* negative configuration keeps it as witness.                                *)
(* DEVIATION DatagramLostOnDeadStream: a datagram that finds the entry of a   *)
(* dead stream is consumed by the failed Write; only the next one reopens.    *)
EXTENDS Integers, Sequences, FiniteSets, TLC

CONSTANTS Src,         \* source addresses, e.g. {1, 2}
          MaxData,     \* datagrams per source
          MaxStream,   \* bound on streams ever opened
          MaxSess,     \* bound on sessions ever made
          MaxReply,    \* replies the far side may send per stream
          Singleplex,
          Dev

K == 1..MaxStream
G == 1..MaxSess

VARIABLES mpc, ma, ms,          \* loop goroutine: "recv" / "check" / "lookup" / "write"; datagram's source; stream chosen
          cur, nsess, needs,    \* the loop's sesh variable; sessions made; times one was needed
          sopen,                \* session state: "none" / "open" / "closed"
          sstate, ssrc, ssess,  \* stream state / source it was opened for / its session
          nstream,
          tab,                  \* source -> stream id (0 = no entry)
          rpc,                  \* reader goroutine of stream k: "none" / "read" / "exit" (left the loop, before the lock) / "done"
          sent, up, dn, replies, recvd,   \* datagrams sent per source; written per stream; replies in the stream's buffer; sent; delivered per source
          lost                  \* history: datagrams consumed without being relayed
vars == <<mpc, ma, ms, cur, nsess, needs, sopen, sstate, ssrc, ssess, nstream, tab, rpc, sent, up, dn, replies, recvd, lost>>

Init ==
  /\ mpc = "recv" /\ ma = 0 /\ ms = 0 /\ cur = 0 /\ nsess = 0 /\ needs = 0
  /\ sopen = [g \in G |-> "none"]
  /\ sstate = [k \in K |-> "none"] /\ ssrc = [k \in K |-> 0] /\ ssess = [k \in K |-> 0] /\ nstream = 0
  /\ tab = [a \in Src |-> 0] /\ rpc = [k \in K |-> "none"]
  /\ sent = [a \in Src |-> 0] /\ up = [k \in K |-> <<>>] /\ dn = [k \in K |-> <<>>] /\ replies = [k \in K |-> 0]
  /\ recvd = [a \in Src |-> <<>>] /\ lost = 0

StreamLive(k) == sstate[k] = "open" /\ sopen[ssess[k]] = "open"
OpenCount(g) == Cardinality({k \in K : ssess[k] = g /\ sstate[k] = "open"})

\* Stream.Close / closing frame received: singleplex session closes with its only stream
CloseStream(k, st, so) ==
  IF st[k] # "open" THEN <<st, so>>
  ELSE LET st2 == [st EXCEPT ![k] = "closed"] IN
       IF Singleplex THEN <<[j \in K |-> IF ssess[j] = ssess[k] /\ st2[j] = "open" THEN "closed" ELSE st2[j]], [so EXCEPT ![ssess[k]] = "closed"]>>
       ELSE <<st2, so>>

\* ---- the loop goroutine
MRecv(a) ==
  /\ mpc = "recv" /\ sent[a] < MaxData
  /\ sent' = [sent EXCEPT ![a] = @ + 1] /\ ma' = a /\ mpc' = "check"
  /\ UNCHANGED <<ms, cur, nsess, needs, sopen, sstate, ssrc, ssess, nstream, tab, rpc, up, dn, replies, recvd, lost>>

NeedNew == IF cur = 0 THEN TRUE ELSE sopen[cur] = "closed" /\ "NoIsClosedCheck" \notin Dev
MCheck ==
  /\ mpc = "check"
  /\ IF ~Singleplex /\ NeedNew
       THEN /\ nsess < MaxSess
            /\ nsess' = nsess + 1 /\ cur' = nsess + 1 /\ needs' = needs + 1 /\ sopen' = [sopen EXCEPT ![nsess + 1] = "open"]
       ELSE UNCHANGED <<nsess, cur, needs, sopen>>
  /\ mpc' = "lookup"
  /\ UNCHANGED <<ma, ms, sstate, ssrc, ssess, nstream, tab, rpc, sent, up, dn, replies, recvd, lost>>

\* under streamsMutex: look up; a new source opens a stream, registers it and starts its reader
MLookup ==
  /\ mpc = "lookup"
  /\ IF tab[ma] # 0
       THEN /\ ms' = tab[ma] /\ mpc' = "write"
            /\ UNCHANGED <<cur, nsess, needs, sopen, sstate, ssrc, ssess, nstream, tab, rpc, lost>>
       ELSE LET g == IF Singleplex THEN nsess + 1 ELSE cur IN
            /\ Singleplex => nsess < MaxSess
            /\ nstream < MaxStream
            /\ IF Singleplex
                 THEN nsess' = nsess + 1 /\ cur' = nsess + 1 /\ needs' = needs + 1
                 ELSE UNCHANGED <<nsess, cur, needs>>
            /\ IF Singleplex \/ sopen[cur] = "open"      \* OpenStream succeeds
                 THEN /\ sopen' = IF Singleplex THEN [sopen EXCEPT ![g] = "open"] ELSE sopen
                      /\ nstream' = nstream + 1
                      /\ sstate' = [sstate EXCEPT ![nstream + 1] = "open"]
                      /\ ssrc' = [ssrc EXCEPT ![nstream + 1] = ma] /\ ssess' = [ssess EXCEPT ![nstream + 1] = g]
                      /\ tab' = [tab EXCEPT ![ma] = nstream + 1]
                      /\ rpc' = [rpc EXCEPT ![nstream + 1] = "read"]
                      /\ ms' = nstream + 1 /\ mpc' = "write" /\ UNCHANGED lost
                 ELSE /\ mpc' = "recv" /\ lost' = lost + 1 /\ ms' = 0      \* "Failed to open stream": datagram dropped
                      /\ UNCHANGED <<sopen, nstream, sstate, ssrc, ssess, tab, rpc>>
  /\ UNCHANGED <<ma, sent, up, dn, replies, recvd>>

MWrite ==
  /\ mpc = "write"
  /\ IF StreamLive(ms)
       THEN /\ up' = [up EXCEPT ![ms] = Append(@, <<ma, sent[ma]>>)]
            /\ UNCHANGED <<tab, sstate, sopen, lost>>
       ELSE \* DatagramLostOnDeadStream; the entry is forgotten if it is still this stream's
            LET c == CloseStream(ms, sstate, sopen) IN
            /\ tab' = IF "DeleteByKey" \in Dev \/ tab[ma] = ms THEN [tab EXCEPT ![ma] = 0] ELSE tab
            /\ sstate' = c[1] /\ sopen' = c[2] /\ lost' = lost + 1 /\ UNCHANGED up
  /\ mpc' = "recv"
  /\ UNCHANGED <<ma, ms, cur, nsess, needs, ssrc, ssess, nstream, rpc, sent, dn, replies, recvd>>

\* ---- the reader goroutine of stream k (proxyAddr := addr and the stream are captured when it is started)
ReplyAddr(k) == IF "SharedAddr" \in Dev /\ ma # 0 THEN ma ELSE ssrc[k]
RRead(k) ==
  /\ rpc[k] = "read" /\ dn[k] # <<>>
  /\ recvd' = [recvd EXCEPT ![ReplyAddr(k)] = Append(@, <<k, Head(dn[k])>>)]
  /\ dn' = [dn EXCEPT ![k] = Tail(@)]
  /\ UNCHANGED <<mpc, ma, ms, cur, nsess, needs, sopen, sstate, ssrc, ssess, nstream, tab, rpc, sent, up, replies, lost>>
\* Read fails: the stream (or its session) is closed and drained, or the read deadline has expired
RLeave(k) ==
  /\ rpc[k] = "read" /\ dn[k] = <<>>
  /\ rpc' = [rpc EXCEPT ![k] = "exit"]
  /\ UNCHANGED <<mpc, ma, ms, cur, nsess, needs, sopen, sstate, ssrc, ssess, nstream, tab, sent, up, dn, replies, recvd, lost>>
RExit(k) ==
  /\ rpc[k] = "exit"
  /\ LET c == CloseStream(k, sstate, sopen) IN
       /\ sstate' = c[1] /\ sopen' = c[2]
       /\ tab' = IF "NoDelete" \in Dev THEN tab
                 ELSE IF "DeleteByKey" \in Dev \/ tab[ssrc[k]] = k THEN [tab EXCEPT ![ssrc[k]] = 0]
                 ELSE tab                                           \* the address already belongs to a newer stream
  /\ rpc' = [rpc EXCEPT ![k] = "done"]
  /\ UNCHANGED <<mpc, ma, ms, cur, nsess, needs, ssrc, ssess, nstream, sent, up, dn, replies, recvd, lost>>

\* ---- environment
Reply(k) ==
  /\ StreamLive(k) /\ replies[k] < MaxReply
  /\ replies' = [replies EXCEPT ![k] = @ + 1] /\ dn' = [dn EXCEPT ![k] = Append(@, replies[k] + 1)]
  /\ UNCHANGED <<mpc, ma, ms, cur, nsess, needs, sopen, sstate, ssrc, ssess, nstream, tab, rpc, sent, up, recvd, lost>>
PeerClose(k) ==
  /\ sstate[k] = "open"
  /\ LET c == CloseStream(k, sstate, sopen) IN sstate' = c[1] /\ sopen' = c[2]
  /\ UNCHANGED <<mpc, ma, ms, cur, nsess, needs, ssrc, ssess, nstream, tab, rpc, sent, up, dn, replies, recvd, lost>>
SessDies(g) ==
  /\ sopen[g] = "open"
  /\ sopen' = [sopen EXCEPT ![g] = "closed"]
  /\ sstate' = [k \in K |-> IF ssess[k] = g /\ sstate[k] = "open" THEN "closed" ELSE sstate[k]]
  /\ UNCHANGED <<mpc, ma, ms, cur, nsess, needs, ssrc, ssess, nstream, tab, rpc, sent, up, dn, replies, recvd, lost>>

Next ==
  \/ \E a \in Src : MRecv(a)
  \/ MCheck \/ MLookup \/ MWrite
  \/ \E k \in K : RRead(k) \/ RLeave(k) \/ RExit(k) \/ Reply(k) \/ PeerClose(k)
  \/ \E g \in G : SessDies(g)
Spec == Init /\ [][Next]_vars

\* ---- properties
\* no cross-talk: a stream only ever carries its own source's datagrams, and its replies go to that source only
NoCross ==
  /\ \A k \in K : \A n \in 1..Len(up[k]) : up[k][n][1] = ssrc[k]
  /\ \A a \in Src : \A n \in 1..Len(recvd[a]) : ssrc[recvd[a][n][1]] = a
\* datagrams and replies are relayed in order, without duplication (loss is allowed: UDP)
Increasing(q, f(_)) == \A n \in 1..Len(q) - 1 : f(q[n]) < f(q[n + 1])
Second(p) == p[2]
OrderInv ==
  /\ \A k \in K : Increasing(up[k], Second)
  /\ \A a \in Src, k \in K : Increasing(SelectSeq(recvd[a], LAMBDA p : p[1] = k), Second)
\* an entry points to a stream of that source whose reader has not finished
TableSound == \A a \in Src : tab[a] # 0 => ssrc[tab[a]] = a /\ rpc[tab[a]] \in {"read", "exit"}
\* a stream that is still being relayed is reachable from the table (refuted with Dev = {"DeleteByKey"}: defect D22)
NoOrphan == \A k \in K : (rpc[k] = "read" /\ sstate[k] = "open") => tab[ssrc[k]] = k
AtMostOne == \A a \in Src : Cardinality({k \in K : ssrc[k] = a /\ rpc[k] = "read" /\ sstate[k] = "open"}) <= 1
\* whatever happens, nothing outlives its timeout: when the loop waits for a datagram and no reader can move, every stream
\* without a reader is closed, every finished reader's stream is closed, no entry points to a closed stream
Rest == mpc = "recv" /\ \A k \in K : rpc[k] \in {"none", "done"} \/ (rpc[k] = "read" /\ dn[k] = <<>> /\ StreamLive(k))
QuiesceInv ==
  Rest => /\ \A k \in K : rpc[k] = "done" => sstate[k] = "closed"
          /\ \A a \in Src : tab[a] # 0 => StreamLive(tab[a])
          /\ \A g \in G : sopen[g] = "closed" => \A k \in K : ssess[k] = g => rpc[k] \in {"none", "done"}
\* a new session exactly when one is needed, and never an entry made on a closed session
RenewInv == nsess = needs /\ \A k \in K : sstate[k] # "none" => ssess[k] # 0
SingleInv == Singleplex => /\ \A j, k \in K : (j # k /\ ssess[j] # 0) => ssess[j] # ssess[k]
                           /\ \A k \in K : sstate[k] = "closed" => sopen[ssess[k]] = "closed"
\* reachability witness (must be VIOLATED): the cascade - an orphan's exit removes a later entry
W_Orphan == NoOrphan
=============================================================================
