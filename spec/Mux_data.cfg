SPECIFICATION Spec
CONSTANTS
  NC = @NC@
  NS = @NS@
  Units = @UNITS@
  MaxWrite = @MAXWRITE@
  Unordered = @UNORDERED@
  Singleplex = @SINGLE@
  Feat = {@FEAT@}
  Dev = {@DEV@}
  LateConn = {@LATE@}
  TimerEp = "@TIMEREP@"
VIEW view
INVARIANTS TypeOK PrefixInv NoStall EofInv ClosedStreamInv CountInv TimerOnlyWhenIdle NonceInv ClosedHasNoStreams @EXTRAINV@
CHECK_DEADLOCK FALSE
