-------------------------------- MODULE Mux --------------------------------
(***************************************************************************)
(* Two Cloak multiplex.Session endpoints ("c" opens streams, "s" accepts)  *)
(* joined by NC FIFO connections.  One action per critical section of the  *)
(* Go code (DESIGN.md appendix A gives the anchors):                       *)
(*   OpenCheck/OpenRegister/OpenCount   Session.OpenStream                 *)
(*   WriteCall/WriteFrame   Stream.Write under writingM, one frame a step  *)
(*   CloseStream            Stream.Close -> Session.closeStream(active)    *)
(*   Deliver/DeliverB       one iteration of switchboard.deplex ->         *)
(*                          Session.recvDataFromRemote -> Stream.recvFrame *)
(*   ReadNow/ReadBlock/ReadWake   Stream.Read on the receive buffer        *)
(*   AcceptNow/AcceptBlock/AcceptWake   Session.Accept                     *)
(*   SessCloseA/SessCloseB  Session.Close (closeSession; notice+closeAll)  *)
(*   PassiveOn              Session.passiveClose, inlined where called     *)
(*   ConnFail/DeplexEnd     connection reset / EOF and their pick-up       *)
(*   TimerRead/TimerClose   Session.checkTimeout (check, then act)         *)
(*   AddConnCount/AddConnStore   switchboard.addConn                       *)
(* Data units are numbered per (endpoint, stream); one frame = one unit.   *)
(* Deviations of the code from the obvious design are named in Dev.        *)
(***************************************************************************)
EXTENDS Integers, Sequences, FiniteSets, TLC

CONSTANTS
  NC,          \* underlying connections
  NS,          \* streams the client may open
  Units,       \* data units each endpoint may write per stream
  MaxWrite,    \* largest Write call in units (>= 2 exercises splitting into frames)
  Unordered,   \* TRUE: datagram mode (no reassembly)
  Singleplex,  \* TRUE: singleplex sessions
  Feat,        \* enabled features, subset of FeatAll
  Dev,         \* deviations the code has, subset of DevAll
  LateConn,    \* highest-numbered connections that the client adds later (AddConn); {} = all present
  TimerEp      \* the endpoint whose inactivity timer is modelled ("none": timers off)

FeatAll == {"close", "sessclose", "fault", "blockaccept", "blockread", "swrite", "lazy", "gates", "readfrom"}
DevAll  == {"OpenCheckThenAct", "CountAfterPublish", "TimerCheckThenAct", "AddConnPublish", "AddConnNoMutex",
            "NoticeFailLeak", "RecvCheckThenAct"}

E == {"c", "s"}
Peer(e) == IF e = "c" THEN "s" ELSE "c"
Conns == 1..NC
Streams == 1..NS
NoticeSid == 0          \* stands for stream id 0xffffffff of the session-closing notice
Nil == [sid |-> -1]
Checked == [sid |-> -2]   \* dpend marker: the closed-check of recvDataFromRemote was passed, the frame is still at the head

VARIABLES
  \* ---- network
  net,        \* net[c][e]: frames written by e on connection c, in flight to Peer(e)
  connUp,     \* connUp[c]: FALSE after a reset
  deplexOn,   \* deplexOn[c][e]: e runs a deplex goroutine on c
  dpend,      \* dpend[c][e]: frame of a NEW stream that e's deplex on c has published but not yet counted/stored
  \* ---- switchboard
  pool,       \* pool[e]: e's conns map, id -> connection (0 = no entry); ids and connections are both numbered 1..NC
  poolCount,  \* poolCount[e]: connsCount as published
  broken,     \* broken[e]: switchboard.broken
  endClosed,  \* endClosed[c][e]: e has closed its end of c
  \* ---- session
  sclosed,    \* Session.closed
  closing,    \* closing[e]: Close() has done closeSession and still owes notice + closeAll
  tab,        \* tab[e][s] in {"absent","open","tomb"}
  stClosed,   \* Stream.closed
  count,      \* activeStreamCount
  acceptQ, acceptClosed,
  handles,    \* handles[e]: stream ids for which the application at e holds a *Stream
  nextId,     \* next stream id the client hands out
  timers,     \* timers[e]: number of armed inactivity checks
  timerDecided, \* timerDecided[e]: a check has seen "idle" and is about to close
  cause,      \* cause[e]: why the session closed ("" = alive)
  \* ---- per stream, sending side
  wseq,       \* next sequence number
  wcount,     \* units put on the wire so far
  wbusy,      \* frames still to send by the Write call holding writingM (0 = mutex free)
  \* ---- per stream, receiving side (the buffer of stream s at e holds what Peer(e) wrote)
  rnext, rheap, rpipe, rpclosed,
  \* ---- application level
  consumed,   \* consumed[e][s]: units read by the application at e, in order
  eof,        \* eof[e][s]: a Read returned ErrBrokenStream
  rwait,      \* rwait[e][s]: a Read call is blocked
  await,      \* await[e]: an Accept call is blocked
  aclosed,    \* aclosed[e][s]: the application at e called Close on s (ghost)
  timerBad,   \* ghost: the inactivity timer closed a session that had an open stream
  openpc,     \* progress of the client's OpenStream call: [pc, id]
  addpc,      \* addpc[c]: id loaded by the AddConnection(c) call that is between its two steps (0 = none)
  lastEv      \* observable outcome of the last step (behaviour export / trace binding)

NetV  == <<net, connUp, deplexOn, dpend>>
SessV == <<sclosed, closing, tab, stClosed, count, rpclosed, acceptClosed, broken, poolCount, endClosed, timers, cause>>
AccV  == <<acceptQ, handles, await>>
WrV   == <<wseq, wcount, wbusy>>
RdV   == <<rnext, rheap, rpipe>>
AppV  == <<consumed, eof, rwait, aclosed, timerBad>>
vars  == <<NetV, pool, SessV, AccV, WrV, RdV, AppV, nextId, timerDecided, openpc, addpc, lastEv>>
view  == <<NetV, pool, SessV, AccV, WrV, RdV, AppV, nextId, timerDecided, openpc, addpc>>

Frame(s, q, cl, u) == [sid |-> s, seq |-> q, cl |-> cl, u |-> u]
Iota(n) == [j \in 1..n |-> j]
IsPrefix(a, b) == Len(a) <= Len(b) /\ SubSeq(b, 1, Len(a)) = a
SeqToSet(q) == {q[i] : i \in 1..Len(q)}

-----------------------------------------------------------------------------
Init ==
  /\ net = [c \in Conns |-> [e \in E |-> <<>>]]
  /\ connUp = [c \in Conns |-> TRUE]
  /\ deplexOn = [c \in Conns |-> [e \in E |-> ~(e = "c" /\ c \in LateConn)]]
  /\ dpend = [c \in Conns |-> [e \in E |-> Nil]]
  /\ pool = [e \in E |-> [i \in Conns |-> IF e = "c" /\ i \in LateConn THEN 0 ELSE i]]
  /\ poolCount = [e \in E |-> IF e = "c" THEN NC - Cardinality(LateConn) ELSE NC]
  /\ broken = [e \in E |-> FALSE]
  /\ endClosed = [c \in Conns |-> [e \in E |-> FALSE]]
  /\ sclosed = [e \in E |-> FALSE]
  /\ closing = [e \in E |-> FALSE]
  /\ tab = [e \in E |-> [s \in Streams |-> "absent"]]
  /\ stClosed = [e \in E |-> [s \in Streams |-> FALSE]]
  /\ count = [e \in E |-> 0]
  /\ acceptQ = [e \in E |-> <<>>]
  /\ acceptClosed = [e \in E |-> FALSE]
  /\ handles = [e \in E |-> {}]
  /\ nextId = 1
  /\ timers = [e \in E |-> IF e = TimerEp THEN 1 ELSE 0]
  /\ timerDecided = [e \in E |-> FALSE]
  /\ cause = [e \in E |-> ""]
  /\ wseq = [e \in E |-> [s \in Streams |-> 0]]
  /\ wcount = [e \in E |-> [s \in Streams |-> 0]]
  /\ wbusy = [e \in E |-> [s \in Streams |-> 0]]
  /\ rnext = [e \in E |-> [s \in Streams |-> 0]]
  /\ rheap = [e \in E |-> [s \in Streams |-> {}]]
  /\ rpipe = [e \in E |-> [s \in Streams |-> <<>>]]
  /\ rpclosed = [e \in E |-> [s \in Streams |-> FALSE]]
  /\ consumed = [e \in E |-> [s \in Streams |-> <<>>]]
  /\ eof = [e \in E |-> [s \in Streams |-> FALSE]]
  /\ rwait = [e \in E |-> [s \in Streams |-> FALSE]]
  /\ await = [e \in E |-> FALSE]
  /\ aclosed = [e \in E |-> [s \in Streams |-> FALSE]]
  /\ timerBad = FALSE
  /\ openpc = [pc |-> "idle", id |-> 0]
  /\ addpc = [c \in Conns |-> 0]
  /\ lastEv = [a |-> "Init"]

-----------------------------------------------------------------------------
(* closeSession / closeAll / passiveClose as functions on a snapshot of    *)
(* the session-side variables, so that actions can compose them.           *)
Snap == [sclosed |-> sclosed, closing |-> closing, tab |-> tab, stClosed |-> stClosed, count |-> count,
         rpclosed |-> rpclosed, acceptClosed |-> acceptClosed, broken |-> broken, poolCount |-> poolCount,
         endClosed |-> endClosed, timers |-> timers, cause |-> cause]

\* (TLCEval: in simulation mode TLC keeps function constructors lazy; a lazy value that mentions state variables is
\* re-evaluated in the wrong state under ENABLED, so everything assigned to a variable is forced here)
Apply(S0) ==
  LET S == TLCEval(S0) IN
  /\ sclosed' = S.sclosed /\ closing' = S.closing /\ tab' = S.tab /\ stClosed' = S.stClosed
  /\ count' = S.count /\ rpclosed' = S.rpclosed /\ acceptClosed' = S.acceptClosed /\ broken' = S.broken
  /\ poolCount' = S.poolCount /\ endClosed' = S.endClosed /\ timers' = S.timers /\ cause' = S.cause

\* the CAS on Session.closed
MarkOn(S, e, why) == [S EXCEPT !.sclosed[e] = TRUE, !.cause[e] = why]

\* closeStreams: under streamsM close the accept queue and every open stream's buffer
StreamsOn(S, e) ==
  LET live == {s \in Streams : S.tab[e][s] = "open" /\ ~S.stClosed[e][s]} IN
       [S EXCEPT !.acceptClosed[e] = TRUE,
                 !.stClosed[e] = TLCEval([s \in Streams |-> IF s \in live THEN TRUE ELSE @[s]]),
                 !.rpclosed[e] = TLCEval([s \in Streams |-> IF s \in live THEN TRUE ELSE @[s]]),
                 !.tab[e] = TLCEval([s \in Streams |-> IF s \in live THEN "absent" ELSE @[s]]),
                 !.count[e] = @ - Cardinality(live)]

\* closeSession: CAS closed, then closeStreams
SweepOn(S, e, why) ==
  IF S.sclosed[e] THEN S
  ELSE LET live == {s \in Streams : S.tab[e][s] = "open" /\ ~S.stClosed[e][s]} IN
       [S EXCEPT !.sclosed[e] = TRUE,
                 !.cause[e] = why,
                 !.acceptClosed[e] = TRUE,
                 !.stClosed[e] = TLCEval([s \in Streams |-> IF s \in live THEN TRUE ELSE @[s]]),
                 !.rpclosed[e] = TLCEval([s \in Streams |-> IF s \in live THEN TRUE ELSE @[s]]),
                 !.tab[e] = TLCEval([s \in Streams |-> IF s \in live THEN "absent" ELSE @[s]]),
                 !.count[e] = @ - Cardinality(live)]

PoolConns(e) == {pool[e][i] : i \in Conns} \ {0}

\* closeAll: mark the switchboard broken, close every pooled connection
CloseAllOn(S, e) ==
  IF S.broken[e] THEN S
  ELSE [S EXCEPT !.broken[e] = TRUE,
                 !.poolCount[e] = 0,
                 !.endClosed = TLCEval([c \in Conns |-> IF c \in PoolConns(e) THEN [@[c] EXCEPT ![e] = TRUE] ELSE @[c]])]

\* passiveClose: closeSession and, only if that was the first close, closeAll
PassiveOn(S, e, why) == IF S.sclosed[e] THEN S ELSE CloseAllOn(SweepOn(S, e, why), e)

\* Session.Close called from inside (singleplex, timer): closeSession now, notice + closeAll as SessCloseB
CloseStartOn(S, e, why) == IF S.sclosed[e] THEN S ELSE [SweepOn(S, e, why) EXCEPT !.closing[e] = TRUE]

\* the stream count reached zero: singleplex closes the session, otherwise the inactivity check is re-armed
AfterCountZero(S, e) ==
  IF S.count[e] # 0 THEN S
  ELSE IF Singleplex /\ e = "c" THEN CloseStartOn(S, e, "single")   \* only the client is ever singleplex (NumConn <= 0); the server's sessions never are
  ELSE IF e = TimerEp THEN [S EXCEPT !.timers[e] = @ + 1] ELSE S

\* sb.send by e; the connection is the caller's nondeterministic choice among the published ids.
\* "ok": frame in flight; "broken": errBrokenSwitchboard; "werr": conn.Write failed.
\* In both error cases the session ends up passively closed (by send itself or by its caller).
CanPick(e) == ~broken[e] /\ poolCount[e] > 0
Picks(e) == IF CanPick(e) THEN 1..poolCount[e] ELSE {1}
\* the caller names an id below the published count; the frame travels on the connection stored under it
ConnOf(e, id) == pool[e][id]
SendOutcome(e, id) ==
  LET c == ConnOf(e, id) IN
  IF ~CanPick(e) THEN "broken"
  ELSE IF c = 0 THEN "broken"       \* an id without an entry (AddConnPublish / AddConnNoMutex)
  ELSE IF ~connUp[c] \/ endClosed[c][e] \/ endClosed[c][Peer(e)] THEN "werr"
  ELSE "ok"

-----------------------------------------------------------------------------
(* OpenStream (client)                                                      *)
OpenCheck ==
  /\ openpc.pc = "idle" /\ nextId <= NS
  /\ IF sclosed["c"]
       THEN lastEv' = [a |-> "Open", ok |-> FALSE, id |-> 0] /\ UNCHANGED openpc
       ELSE openpc' = [pc |-> "checked", id |-> 0] /\ lastEv' = [a |-> "OpenCheck"]
  /\ UNCHANGED <<NetV, pool, SessV, AccV, WrV, RdV, AppV, nextId, timerDecided, addpc>>

OpenRegister ==
  /\ openpc.pc = "checked"
  /\ nextId' = nextId + 1
  /\ IF Singleplex /\ nextId > 1
       THEN \* errNoMultiplex: the id is consumed, nothing is registered
            /\ openpc' = [pc |-> "idle", id |-> 0]
            /\ lastEv' = [a |-> "Open", ok |-> FALSE, id |-> nextId]
            /\ UNCHANGED <<SessV, handles>>
       ELSE IF "OpenCheckThenAct" \notin Dev /\ sclosed["c"]
         THEN \* repaired code: closed is re-checked under streamsM
              /\ openpc' = [pc |-> "idle", id |-> 0]
              /\ lastEv' = [a |-> "Open", ok |-> FALSE, id |-> 0]
              /\ UNCHANGED <<SessV, handles>>
         ELSE /\ Apply(IF "CountAfterPublish" \in Dev
                          THEN [Snap EXCEPT !.tab["c"][nextId] = "open"]
                          ELSE [Snap EXCEPT !.tab["c"][nextId] = "open", !.count["c"] = @ + 1])
              /\ openpc' = [pc |-> "registered", id |-> nextId]
              /\ lastEv' = [a |-> "OpenRegister"]
              /\ UNCHANGED handles
  /\ UNCHANGED <<NetV, pool, acceptQ, await, WrV, RdV, AppV, timerDecided, addpc>>

OpenCount ==
  /\ openpc.pc = "registered"
  /\ Apply(IF "CountAfterPublish" \in Dev THEN [Snap EXCEPT !.count["c"] = @ + 1] ELSE Snap)
  /\ handles' = [handles EXCEPT !["c"] = @ \cup {openpc.id}]
  /\ lastEv' = [a |-> "Open", ok |-> TRUE, id |-> openpc.id]
  /\ openpc' = [pc |-> "idle", id |-> 0]
  /\ UNCHANGED <<NetV, pool, acceptQ, await, WrV, RdV, AppV, nextId, timerDecided, addpc>>

-----------------------------------------------------------------------------
(* Stream.Write                                                             *)
HasHandle(e, s) == s \in handles[e]

\* one data frame of e's stream s over connection c; left = frames the call still owes afterwards
SendDataFrame(e, s, c, left, rf) ==
  LET out == SendOutcome(e, c) IN
  /\ IF out = "ok"
       THEN /\ net' = [net EXCEPT ![ConnOf(e, c)][e] = Append(@, Frame(s, wseq[e][s], 0, wcount[e][s] + 1))]
            /\ wcount' = [wcount EXCEPT ![e][s] = @ + 1]
            /\ wbusy' = [wbusy EXCEPT ![e][s] = left]
            /\ lastEv' = [a |-> "Write", ok |-> TRUE, e |-> e, s |-> s, c |-> c, done |-> (left = 0), rf |-> rf]
            /\ UNCHANGED SessV
       ELSE /\ Apply(PassiveOn(Snap, e, "senderr"))
            /\ wbusy' = [wbusy EXCEPT ![e][s] = 0]
            /\ lastEv' = [a |-> "Write", ok |-> FALSE, e |-> e, s |-> s, c |-> c, done |-> TRUE, rf |-> rf]
            /\ UNCHANGED <<net, wcount>>
  /\ wseq' = [wseq EXCEPT ![e][s] = @ + 1]           \* the number is consumed even if the send fails
  /\ UNCHANGED <<connUp, deplexOn, dpend, pool, AccV, RdV, AppV, nextId, timerDecided, openpc, addpc>>

\* rf = TRUE: the bytes come through Stream.ReadFrom (io.Copy-style relays: common.Copy, client piper), which takes
\* one chunk from its reader, tests the closed flag, and sends the chunk as one frame under the write mutex
WriteCall(e, s, k, c, rf) ==
  /\ HasHandle(e, s) /\ wbusy[e][s] = 0
  /\ rf => k = 1
  /\ wcount[e][s] + k <= Units
  /\ IF stClosed[e][s] \/ (Unordered /\ k > 1)
       THEN \* refused: closed stream (ErrBrokenStream) / datagram larger than one frame (ErrShortBuffer)
            /\ lastEv' = [a |-> "Write", ok |-> FALSE, e |-> e, s |-> s, c |-> 0, done |-> TRUE, rf |-> rf]
            /\ UNCHANGED <<NetV, pool, SessV, AccV, WrV, RdV, AppV, nextId, timerDecided, openpc, addpc>>
       ELSE SendDataFrame(e, s, c, k - 1, rf)

WriteFrame(e, s, c) == wbusy[e][s] > 0 /\ SendDataFrame(e, s, c, wbusy[e][s] - 1, FALSE)

-----------------------------------------------------------------------------
(* closeStream(active): CAS, close the receive buffer, closing frame, tombstone, count-- *)
CloseStream(e, s, c) ==
  /\ "close" \in Feat
  /\ HasHandle(e, s) /\ wbusy[e][s] = 0
  /\ aclosed' = [aclosed EXCEPT ![e][s] = TRUE]
  /\ IF stClosed[e][s]
       THEN /\ lastEv' = [a |-> "CloseStream", ok |-> FALSE, e |-> e, s |-> s, c |-> 0]
            /\ UNCHANGED <<net, wseq, SessV>>
       ELSE LET out == SendOutcome(e, c)
                S0 == [Snap EXCEPT !.stClosed[e][s] = TRUE, !.rpclosed[e][s] = TRUE] IN
            /\ wseq' = [wseq EXCEPT ![e][s] = @ + 1]
            /\ IF out = "ok"
                 THEN /\ net' = [net EXCEPT ![ConnOf(e, c)][e] = Append(@, Frame(s, wseq[e][s], 1, 0))]
                      /\ Apply(AfterCountZero([S0 EXCEPT !.tab[e][s] = "tomb", !.count[e] = @ - 1], e))
                      /\ lastEv' = [a |-> "CloseStream", ok |-> TRUE, e |-> e, s |-> s, c |-> c]
                 ELSE \* the send failed: the call returns the error before the tombstone / count step
                      /\ Apply(PassiveOn(S0, e, "senderr"))
                      /\ lastEv' = [a |-> "CloseStream", ok |-> FALSE, e |-> e, s |-> s, c |-> c]
                      /\ UNCHANGED net
  /\ UNCHANGED <<connUp, deplexOn, dpend, pool, AccV, wcount, wbusy, RdV, consumed, eof, rwait, timerBad, nextId,
                 timerDecided, openpc, addpc>>

-----------------------------------------------------------------------------
(* receive buffers                                                          *)
RECURSIVE DrainM(_, _, _)
DrainM(h, n, p) ==
  IF \E f \in h : f.seq = n /\ \A g \in h : g.seq >= f.seq
    THEN LET f == CHOOSE f \in h : f.seq = n IN
         IF f.cl # 0 THEN [heap |-> h \ {f}, next |-> n, pipe |-> p, tbc |-> TRUE]
         ELSE DrainM(h \ {f}, n + 1, Append(p, f.u))
    ELSE [heap |-> h, next |-> n, pipe |-> p, tbc |-> FALSE]

\* recvBuf.Write(f) at (e, s) given whether the pipe is closed: new next/heap/pipe, toBeClosed, pipe closed
BufWrite(e, s, f, pcl) ==
  IF Unordered
    THEN IF pcl \/ f.cl # 0
           THEN [heap |-> {}, next |-> 0, pipe |-> rpipe[e][s], tbc |-> TRUE, pcl |-> TRUE]
           ELSE [heap |-> {}, next |-> 0, pipe |-> Append(rpipe[e][s], f.u), tbc |-> FALSE, pcl |-> FALSE]
    ELSE IF rheap[e][s] = {} /\ f.seq = rnext[e][s]
      THEN IF f.cl # 0
             THEN [heap |-> {}, next |-> rnext[e][s], pipe |-> rpipe[e][s], tbc |-> TRUE, pcl |-> pcl]
             ELSE [heap |-> {}, next |-> rnext[e][s] + 1,
                   pipe |-> IF pcl THEN rpipe[e][s] ELSE Append(rpipe[e][s], f.u),
                   tbc |-> FALSE, pcl |-> pcl]
      ELSE IF f.seq < rnext[e][s]
        THEN [heap |-> rheap[e][s], next |-> rnext[e][s], pipe |-> rpipe[e][s], tbc |-> FALSE, pcl |-> pcl]
        ELSE LET r == DrainM(rheap[e][s] \cup {f}, rnext[e][s], rpipe[e][s]) IN
             [heap |-> r.heap, next |-> r.next,
              pipe |-> IF pcl THEN rpipe[e][s] ELSE r.pipe,   \* writes to a closed pipe are dropped
              tbc |-> r.tbc, pcl |-> pcl]

\* Stream.recvFrame(f) on an existing stream record, starting from session snapshot S
RecvFrame(S, e, f) ==
  LET r == BufWrite(e, f.sid, f, S.rpclosed[e][f.sid])
      S1 == [S EXCEPT !.rpclosed[e][f.sid] = r.pcl]
      \* toBeClosed -> closeStream(passive): CAS closed, close buffer, tombstone, count--
      S2 == IF r.tbc /\ ~S1.stClosed[e][f.sid]
              THEN AfterCountZero([S1 EXCEPT !.stClosed[e][f.sid] = TRUE, !.rpclosed[e][f.sid] = TRUE,
                                             !.tab[e][f.sid] = "tomb", !.count[e] = @ - 1], e)
              ELSE S1 IN
  /\ rnext' = [rnext EXCEPT ![e][f.sid] = r.next]
  /\ rheap' = [rheap EXCEPT ![e][f.sid] = r.heap]
  /\ rpipe' = [rpipe EXCEPT ![e][f.sid] = r.pipe]
  /\ Apply(S2)

\* Deliver: e's deplex goroutine on connection c reads the head frame written by the peer
Deliver(c, e) ==
  LET p == Peer(e)  f == Head(net[c][p]) IN
  /\ net[c][p] # <<>> /\ connUp[c] /\ deplexOn[c][e] /\ ~endClosed[c][e] /\ dpend[c][e] \in {Nil, Checked}
  /\ net' = [net EXCEPT ![c][p] = Tail(@)]
  /\ lastEv' = [a |-> "Deliver", c |-> c, e |-> e]
  /\ IF f.cl = 2
       THEN /\ Apply(PassiveOn(Snap, e, "notice"))        \* session-closing notice
            /\ UNCHANGED <<acceptQ, RdV>> /\ dpend' = [dpend EXCEPT ![c][e] = Nil]
       ELSE IF (sclosed[e] /\ dpend[c][e] # Checked) \/ tab[e][f.sid] = "tomb"
         THEN UNCHANGED <<SessV, acceptQ, RdV>> /\ dpend' = [dpend EXCEPT ![c][e] = Nil]   \* dropped: broken session / id seen and closed
         ELSE IF tab[e][f.sid] = "open"
           THEN RecvFrame(Snap, e, f) /\ UNCHANGED acceptQ /\ dpend' = [dpend EXCEPT ![c][e] = Nil]
           ELSE \* new stream: create, publish in the table and the accept queue ...
                /\ acceptQ' = [acceptQ EXCEPT ![e] = Append(@, f.sid)]
                \* ... the payload (and, deviation CountAfterPublish, the count) follow after the table lock is released
                /\ Apply(IF "CountAfterPublish" \in Dev
                            THEN [Snap EXCEPT !.tab[e][f.sid] = "open"]
                            ELSE [Snap EXCEPT !.tab[e][f.sid] = "open", !.count[e] = @ + 1])
                /\ dpend' = [dpend EXCEPT ![c][e] = f]
                /\ UNCHANGED RdV
  /\ UNCHANGED <<connUp, deplexOn, pool, handles, await, WrV, AppV, nextId, timerDecided, openpc, addpc>>

\* deviation RecvCheckThenAct: recvDataFromRemote tests Session.closed before it takes the table lock
RecvCheck(c, e) ==
  /\ "RecvCheckThenAct" \in Dev
  /\ net[c][Peer(e)] # <<>> /\ connUp[c] /\ deplexOn[c][e] /\ ~endClosed[c][e] /\ dpend[c][e] = Nil
  /\ ~sclosed[e] /\ Head(net[c][Peer(e)]).cl # 2
  /\ dpend' = [dpend EXCEPT ![c][e] = Checked]
  /\ lastEv' = [a |-> "RecvCheck", c |-> c, e |-> e]
  /\ UNCHANGED <<net, connUp, deplexOn, pool, SessV, AccV, WrV, RdV, AppV, nextId, timerDecided, openpc, addpc>>

DeliverB(c, e) ==
  /\ dpend[c][e] \notin {Nil, Checked}
  /\ dpend' = [dpend EXCEPT ![c][e] = Nil]
  /\ RecvFrame(IF "CountAfterPublish" \in Dev THEN [Snap EXCEPT !.count[e] = @ + 1] ELSE Snap, e, dpend[c][e])
  /\ lastEv' = [a |-> "DeliverB", c |-> c, e |-> e, s |-> dpend[c][e].sid]
  /\ UNCHANGED <<net, connUp, deplexOn, pool, AccV, WrV, AppV, nextId, timerDecided, openpc, addpc>>

-----------------------------------------------------------------------------
(* Stream.Read                                                              *)
TakeAll(e, s, name) ==
  IF rpipe[e][s] # <<>>
    THEN /\ consumed' = [consumed EXCEPT ![e][s] = @ \o rpipe[e][s]]
         /\ rpipe' = [rpipe EXCEPT ![e][s] = <<>>]
         /\ lastEv' = [a |-> name, e |-> e, s |-> s, got |-> rpipe[e][s], eof |-> FALSE]
         /\ UNCHANGED eof
    ELSE /\ eof' = [eof EXCEPT ![e][s] = TRUE]
         /\ lastEv' = [a |-> name, e |-> e, s |-> s, got |-> <<>>, eof |-> TRUE]
         /\ UNCHANGED <<consumed, rpipe>>

ReadNow(e, s) ==   \* a Read that finds data or end-of-stream
  /\ HasHandle(e, s) /\ ~rwait[e][s]
  /\ rpipe[e][s] # <<>> \/ (rpclosed[e][s] /\ ~eof[e][s])
  /\ TakeAll(e, s, "Read")
  /\ UNCHANGED <<NetV, pool, SessV, AccV, WrV, rnext, rheap, rwait, aclosed, timerBad, nextId, timerDecided, openpc, addpc>>

ReadBlock(e, s) ==  \* a Read that finds nothing and parks
  /\ "blockread" \in Feat
  /\ HasHandle(e, s) /\ ~rwait[e][s]
  /\ rpipe[e][s] = <<>> /\ ~rpclosed[e][s]
  /\ rwait' = [rwait EXCEPT ![e][s] = TRUE]
  /\ lastEv' = [a |-> "ReadBlock", e |-> e, s |-> s]
  /\ UNCHANGED <<NetV, pool, SessV, AccV, WrV, RdV, consumed, eof, aclosed, timerBad, nextId, timerDecided, openpc, addpc>>

ReadWake(e, s) ==   \* the parked Read returns as soon as there is data or the buffer is closed
  /\ rwait[e][s] /\ (rpipe[e][s] # <<>> \/ rpclosed[e][s])
  /\ rwait' = [rwait EXCEPT ![e][s] = FALSE]
  /\ TakeAll(e, s, "ReadWake")
  /\ UNCHANGED <<NetV, pool, SessV, AccV, WrV, rnext, rheap, aclosed, timerBad, nextId, timerDecided, openpc, addpc>>

-----------------------------------------------------------------------------
(* Session.Accept (server)                                                  *)
AcceptNow ==
  /\ ~await["s"]
  /\ sclosed["s"] \/ acceptQ["s"] # <<>>
  /\ IF sclosed["s"]
       THEN lastEv' = [a |-> "Accept", ok |-> FALSE, id |-> 0] /\ UNCHANGED <<acceptQ, handles>>
       ELSE /\ acceptQ' = [acceptQ EXCEPT !["s"] = Tail(@)]
            /\ handles' = [handles EXCEPT !["s"] = @ \cup {Head(acceptQ["s"])}]
            /\ lastEv' = [a |-> "Accept", ok |-> TRUE, id |-> Head(acceptQ["s"])]
  /\ UNCHANGED <<NetV, pool, SessV, await, WrV, RdV, AppV, nextId, timerDecided, openpc, addpc>>

AcceptBlock ==
  /\ "blockaccept" \in Feat
  /\ ~await["s"] /\ ~sclosed["s"] /\ acceptQ["s"] = <<>>
  /\ await' = [await EXCEPT !["s"] = TRUE]
  /\ lastEv' = [a |-> "AcceptBlock"]
  /\ UNCHANGED <<NetV, pool, SessV, acceptQ, handles, WrV, RdV, AppV, nextId, timerDecided, openpc, addpc>>

AcceptWake ==   \* a queued stream wins over the closed channel (Go delivers buffered values first)
  /\ await["s"] /\ (acceptQ["s"] # <<>> \/ acceptClosed["s"])
  /\ await' = [await EXCEPT !["s"] = FALSE]
  /\ IF acceptQ["s"] # <<>>
       THEN /\ acceptQ' = [acceptQ EXCEPT !["s"] = Tail(@)]
            /\ handles' = [handles EXCEPT !["s"] = @ \cup {Head(acceptQ["s"])}]
            /\ lastEv' = [a |-> "AcceptWake", ok |-> TRUE, id |-> Head(acceptQ["s"])]
       ELSE lastEv' = [a |-> "AcceptWake", ok |-> FALSE, id |-> 0] /\ UNCHANGED <<acceptQ, handles>>
  /\ UNCHANGED <<NetV, pool, SessV, WrV, RdV, AppV, nextId, timerDecided, openpc, addpc>>

-----------------------------------------------------------------------------
(* Session.Close: closeSession, then notice frame + closeAll                *)
UserClose(e) ==
  /\ "sessclose" \in Feat /\ ~closing[e]
  /\ Apply(CloseStartOn(Snap, e, "active"))
  /\ lastEv' = [a |-> "SessClose", e |-> e, ok |-> ~sclosed[e]]
  /\ UNCHANGED <<NetV, pool, AccV, WrV, RdV, AppV, nextId, timerDecided, openpc, addpc>>

SessCloseB(e, c) ==
  /\ closing[e]
  /\ IF SendOutcome(e, c) = "ok"
       THEN /\ net' = [net EXCEPT ![ConnOf(e, c)][e] = Append(@, Frame(NoticeSid, 0, 2, 0))]
            /\ Apply([CloseAllOn(Snap, e) EXCEPT !.closing[e] = FALSE])
            /\ lastEv' = [a |-> "SessCloseB", e |-> e, c |-> c, ok |-> TRUE]
       ELSE \* deviation NoticeFailLeak: Close returns the error without closeAll (the nested passiveClose
            \* is a no-op because the session is already marked closed)
            /\ Apply([(IF "NoticeFailLeak" \in Dev THEN Snap ELSE CloseAllOn(Snap, e)) EXCEPT !.closing[e] = FALSE])
            /\ lastEv' = [a |-> "SessCloseB", e |-> e, c |-> c, ok |-> FALSE]
            /\ UNCHANGED net
  /\ UNCHANGED <<connUp, deplexOn, dpend, pool, AccV, WrV, RdV, AppV, nextId, timerDecided, openpc, addpc>>

-----------------------------------------------------------------------------
(* connection faults                                                        *)
ConnFail(c) ==
  /\ "fault" \in Feat /\ connUp[c]
  /\ connUp' = [connUp EXCEPT ![c] = FALSE]
  /\ net' = [net EXCEPT ![c] = TLCEval([e \in E |-> <<>>])]
  /\ lastEv' = [a |-> "ConnFail", c |-> c]
  /\ UNCHANGED <<deplexOn, dpend, pool, SessV, AccV, WrV, RdV, AppV, nextId, timerDecided, openpc, addpc>>

\* e's deplex goroutine on c sees the reset, its own closed end, or end-of-file after the peer closed and
\* everything in flight was read; it closes the session passively and closes its end of c on return
DeplexEnd(c, e) ==
  /\ deplexOn[c][e] /\ dpend[c][e] = Nil
  /\ \/ ~connUp[c]
     \/ endClosed[c][e]
     \/ (endClosed[c][Peer(e)] /\ net[c][Peer(e)] = <<>>)
  /\ deplexOn' = [deplexOn EXCEPT ![c][e] = FALSE]
  /\ Apply([PassiveOn(Snap, e, "fault") EXCEPT !.endClosed[c][e] = TRUE])
  /\ lastEv' = [a |-> "DeplexEnd", c |-> c, e |-> e]
  /\ UNCHANGED <<net, connUp, dpend, pool, AccV, WrV, RdV, AppV, nextId, timerDecided, openpc, addpc>>

-----------------------------------------------------------------------------
(* inactivity timer: check, then act                                        *)
OpenSet(e) == {s \in Streams : tab[e][s] = "open"}
TimerRead(e) ==
  /\ timers[e] > 0 /\ ~timerDecided[e]
  /\ LET S0 == [Snap EXCEPT !.timers[e] = @ - 1]
         idle == count[e] = 0 /\ ~sclosed[e] IN
     /\ lastEv' = [a |-> "TimerRead", e |-> e, idle |-> idle]
     /\ timerDecided' = [timerDecided EXCEPT ![e] = idle]
     \* the code marks the session closed in the same critical section as the decision;
     \* deviation TimerCheckThenAct: it only decides, and calls Close afterwards
     /\ Apply(IF idle /\ "TimerCheckThenAct" \notin Dev THEN MarkOn(S0, e, "timer") ELSE S0)
     /\ timerBad' = (timerBad \/ (idle /\ "TimerCheckThenAct" \notin Dev /\ OpenSet(e) # {}))
  /\ UNCHANGED <<NetV, pool, AccV, WrV, RdV, consumed, eof, rwait, aclosed, nextId, openpc, addpc>>

TimerClose(e) ==
  /\ timerDecided[e] /\ ~closing[e]
  /\ timerDecided' = [timerDecided EXCEPT ![e] = FALSE]
  /\ IF "TimerCheckThenAct" \in Dev
       THEN /\ Apply(CloseStartOn(Snap, e, "timer"))
            /\ timerBad' = (timerBad \/ (~sclosed[e] /\ OpenSet(e) # {}))
       ELSE /\ Apply([StreamsOn(Snap, e) EXCEPT !.closing[e] = TRUE])
            /\ UNCHANGED timerBad
  /\ lastEv' = [a |-> "TimerClose", e |-> e, ok |-> TRUE]
  /\ UNCHANGED <<NetV, pool, AccV, WrV, RdV, consumed, eof, rwait, aclosed, nextId, openpc, addpc>>

-----------------------------------------------------------------------------
(* switchboard.addConn on the client                                        *)
\* first step (under addConnM): load the count, store the entry under the next id.
\* deviation AddConnPublish: publish the count first. deviation AddConnNoMutex: adders are not serialised.
AddConnFirst(c) ==
  /\ c \in LateConn /\ addpc[c] = 0 /\ c \notin PoolConns("c") /\ ~broken["c"]
  /\ "AddConnNoMutex" \in Dev \/ \A d \in Conns : addpc[d] = 0
  /\ poolCount["c"] < NC
  /\ addpc' = [addpc EXCEPT ![c] = poolCount["c"] + 1]
  /\ IF "AddConnPublish" \in Dev
       THEN Apply([Snap EXCEPT !.poolCount["c"] = @ + 1]) /\ UNCHANGED pool
       ELSE pool' = [pool EXCEPT !["c"][poolCount["c"] + 1] = c] /\ UNCHANGED SessV
  /\ lastEv' = [a |-> "AddConnFirst", c |-> c]
  /\ UNCHANGED <<NetV, AccV, WrV, RdV, AppV, nextId, timerDecided, openpc>>

\* second step: the other half, then the deplex goroutine starts
AddConnSecond(c) ==
  /\ addpc[c] # 0
  /\ addpc' = [addpc EXCEPT ![c] = 0]
  /\ IF "AddConnPublish" \in Dev
       THEN pool' = [pool EXCEPT !["c"][addpc[c]] = c] /\ UNCHANGED SessV
       ELSE Apply([Snap EXCEPT !.poolCount["c"] = IF broken["c"] \/ @ >= NC THEN @ ELSE @ + 1]) /\ UNCHANGED pool
  /\ deplexOn' = [deplexOn EXCEPT ![c]["c"] = TRUE]
  /\ lastEv' = [a |-> "AddConn", c |-> c]
  /\ UNCHANGED <<net, connUp, dpend, AccV, WrV, RdV, AppV, nextId, timerDecided, openpc>>

-----------------------------------------------------------------------------
\* continuation steps that sit behind a labelled schedule point of the code (hook); a replay with "gates"
\* parks the goroutine there, so the environment decides when they happen
GateSteps ==
  \/ OpenRegister \/ OpenCount
  \/ \E c \in Conns, e \in E : DeliverB(c, e)
  \/ \E e \in E : TimerClose(e)
  \/ \E c \in Conns : AddConnSecond(c)

\* steps the running goroutines take on their own (no environment decision involved)
Internal ==
  \/ \E e \in E, s \in Streams, c \in Conns : c \in Picks(e) /\ WriteFrame(e, s, c)
  \/ \E e \in E, s \in Streams : ReadWake(e, s)
  \/ AcceptWake
  \/ \E e \in E, c \in Conns : c \in Picks(e) /\ SessCloseB(e, c)
  \/ \E c \in Conns, e \in E : DeplexEnd(c, e)
  \/ ("gates" \notin Feat /\ GateSteps)

\* steps decided by the environment: application calls, network delivery, faults, time
Env ==
  \/ OpenCheck
  \/ \E e \in E, s \in Streams, k \in 1..MaxWrite, c \in Conns :
        c \in Picks(e) /\ (e = "c" \/ "swrite" \in Feat) /\
        \E rf \in (IF "readfrom" \in Feat THEN BOOLEAN ELSE {FALSE}) : WriteCall(e, s, k, c, rf)
  \/ \E e \in E, s \in Streams, c \in Conns : c \in Picks(e) /\ CloseStream(e, s, c)
  \/ \E c \in Conns, e \in E : Deliver(c, e) \/ RecvCheck(c, e)
  \/ \E e \in E, s \in Streams : ReadNow(e, s) \/ ReadBlock(e, s)
  \/ AcceptNow \/ AcceptBlock
  \/ \E e \in E : UserClose(e)
  \/ \E c \in Conns : ConnFail(c)
  \/ \E e \in E : TimerRead(e)
  \/ \E c \in Conns : AddConnFirst(c)
  \/ ("gates" \in Feat /\ GateSteps)

\* Reads and accepts commute with everything else of the other calls; unless "lazy" is requested they are
\* taken as soon as they are possible, which shrinks the graph without hiding any unread data
CanReadNow(e, s) == HasHandle(e, s) /\ ~rwait[e][s] /\ (rpipe[e][s] # <<>> \/ (rpclosed[e][s] /\ ~eof[e][s]))
CanAcceptNow == ~await["s"] /\ ~sclosed["s"] /\ acceptQ["s"] # <<>>
Eager == "lazy" \notin Feat
\* Without "gates" the continuation steps behind a schedule point follow their first half at once (their
\* windows are explored by the configurations that do have "gates").
Next == IF "gates" \notin Feat /\ ENABLED GateSteps THEN GateSteps
        ELSE IF Eager /\ CanAcceptNow THEN AcceptNow
        ELSE IF Eager /\ \E e \in E, s \in Streams : CanReadNow(e, s)
          THEN \E e \in E, s \in Streams : ReadNow(e, s)
          ELSE Internal \/ Env
Spec == Init /\ [][Next]_vars

-----------------------------------------------------------------------------
(* properties                                                               *)
\* a frame is still on its way to e if e reads that connection, or will once it has added it
InFlightTo(e) == \E c \in Conns : /\ net[c][Peer(e)] # <<>> /\ connUp[c] /\ ~endClosed[c][e]
                                   /\ \/ deplexOn[c][e]
                                      \/ (e = "c" /\ c \in LateConn /\ c \notin PoolConns("c") /\ ~broken["c"])
Settled == /\ ~ENABLED Internal /\ ~ENABLED GateSteps
           /\ \A e \in E : ~InFlightTo(e)

\* C01/C12/C14: what the application has read or can read is what the peer wrote on that stream
PrefixInv ==
  \A e \in E, s \in Streams :
    LET got == consumed[e][s] \o rpipe[e][s] IN
    IF Unordered
      THEN /\ \A i, j \in 1..Len(got) : i # j => got[i] # got[j]          \* at most once
           /\ SeqToSet(got) \subseteq 1..wcount[Peer(e)][s]                \* only what was written there
      ELSE IsPrefix(got, Iota(wcount[Peer(e)][s]))

\* C01: with everything delivered and nobody closing, every written unit is readable, in order
NoStall ==
  (Settled /\ \A e \in E : cause[e] = "") =>
     \A e \in E, s \in Streams :
        (tab[e][s] = "open" /\ wbusy[Peer(e)][s] = 0 /\ ~stClosed[Peer(e)][s]) =>
            IF Unordered THEN SeqToSet(consumed[e][s] \o rpipe[e][s]) = 1..wcount[Peer(e)][s]
            ELSE consumed[e][s] \o rpipe[e][s] = Iota(wcount[Peer(e)][s])

\* C01: no fault, no close, no timer => the session stays up
StaysUp == \A e \in E : ~sclosed[e]

\* C03: end-of-stream is seen only after everything the peer wrote before closing
EofInv ==
  \A e \in E, s \in Streams :
    (eof[e][s] /\ ~aclosed[e][s] /\ cause[e] = "") =>
        /\ stClosed[Peer(e)][s] \/ cause[Peer(e)] # ""
        /\ ~Unordered => consumed[e][s] = Iota(wcount[Peer(e)][s])

\* C03: once closed locally or by the peer's processed close, writes are refused and reads do not hang
ClosedStreamInv ==
  \A e \in E, s \in Streams :
    (stClosed[e][s] /\ ~ENABLED Internal /\ ~ENABLED GateSteps) => ~rwait[e][s]

\* C12: count of active streams = number of open streams whenever no call is half-way
CountInv ==
  \A e \in E :
    (~sclosed[e] /\ (e = "c" => openpc.pc = "idle") /\ \A c \in Conns : dpend[c][e] \in {Nil, Checked}) =>
        count[e] = Cardinality(OpenSet(e))

\* C12: a closed session has swept its streams: whatever is still in the table is closed, with a closed buffer
\* (a stream whose closing frame could not be sent stays in the table, closed)
ClosedHasNoStreams ==
  \A e \in E : (sclosed[e] /\ ~timerDecided[e]) => \A s \in OpenSet(e) : stClosed[e][s] /\ rpclosed[e][s]

\* C12: a session is closed by its inactivity timer only while it has no open stream
TimerOnlyWhenIdle == ~timerBad
TimerOnlyWhenIdleAct ==
  [][\A e \in E : (cause[e] = "" /\ cause'[e] = "timer") => OpenSet(e) = {}]_vars

\* C13 as a state predicate: frames of one stream in flight carry distinct numbers below the next one
NonceInv ==
  \A e \in E, s \in Streams :
    LET fr == UNION {{<<c, i>> : i \in {j \in 1..Len(net[c][e]) : net[c][e][j].sid = s}} : c \in Conns} IN
    /\ \A x \in fr : net[x[1]][e][x[2]].seq < wseq[e][s]
    /\ \A x, y \in fr : x # y => net[x[1]][e][x[2]].seq # net[y[1]][e][y[2]].seq

\* C12: after a fault or a close, once things settle, both sessions are closed, every pooled connection is
\* closed at both ends, nothing is left blocked
Teardown ==
  (Settled /\ \E e \in E : sclosed[e]) =>
     /\ \A e \in E : sclosed[e]
     /\ \A e \in E, c \in Conns : c \in PoolConns(e) => endClosed[c][e]
     /\ \A e \in E, s \in Streams : ~rwait[e][s]
     /\ ~await["s"]

\* C13: every frame a stream emits carries the current sequence number, which then advances by one
SeqStep ==
  [][\A e \in E, s \in Streams :
       /\ wseq'[e][s] \in {wseq[e][s], wseq[e][s] + 1}
       /\ \A c \in Conns :
            (Len(net'[c][e]) = Len(net[c][e]) + 1 /\ net'[c][e][Len(net'[c][e])].sid = s) =>
               /\ net'[c][e][Len(net'[c][e])].seq = wseq[e][s]
               /\ wseq'[e][s] = wseq[e][s] + 1]_vars

TypeOK ==
  /\ \A e \in E : count[e] \in 0..NS
  /\ \A e \in E, s \in Streams : tab[e][s] \in {"absent", "open", "tomb"}
=============================================================================
