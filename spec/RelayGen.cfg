SPECIFICATION GSpec
CONSTANTS
  NConn = @NCONN@
  MaxUp = @MAXUP@
  MaxDown = @MAXDOWN@
  Singleplex = @SINGLE@
  MaxSess = @MAXSESS@
  STO = @STO@
  Feat = {@FEAT@}
  Dev = {@DEV@}
  MaxDepth = @DEPTH@
  Canon = @CANON@
INVARIANTS Emit PrefixInv NoCrossTalk CompleteInv NeighbourInv OrphanInv RenewInv SingleInv
CHECK_DEADLOCK FALSE
