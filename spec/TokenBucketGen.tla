--------------------------- MODULE TokenBucketGen ---------------------------
(* Behaviour generator for TokenBucket: a history variable records every   *)
(* Take with the answer of the model (wake-up instant, tokens left).  The  *)
(* behaviours are replayed on a real github.com/juju/ratelimit Bucket      *)
(* driven by a scripted clock (harness/multiplex/c19_test.go,              *)
(* TestVerifC19Bucket): the library must hand out the same wake-up         *)
(* instants, which ties the arithmetic of Take in TokenBucket.tla to the   *)
(* code Cloak's LimitedValve calls.                                        *)
EXTENDS TokenBucket, Sequences, Json

CONSTANT HistLen     \* number of Take steps per behaviour

VARIABLE hist
gvars == <<vars, hist>>

GInit == Init /\ hist = <<>>

GTake == \E w \in Waiters, n \in Sizes :
            /\ Take(w, n)
            /\ hist' = Append(hist, [w |-> w, n |-> n, now |-> now, wake |-> wake'[w], avail |-> avail'[BucketOf(w)]])
GPass == \E w \in Waiters : Pass(w) /\ UNCHANGED hist
GTick == Tick /\ UNCHANGED hist

GNext == GTake \/ GPass \/ GTick
GSpec == GInit /\ [][GNext]_gvars

Short == Len(hist) <= HistLen
Emit == (Len(hist) = HistLen) =>
          PrintT(<<"BEHAVIOUR", ToJson([quantum |-> par.quantum, fi |-> par.fi, cap |-> Cap, steps |-> hist])>>)
=============================================================================
