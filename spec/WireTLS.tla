------------------------------ MODULE WireTLS ------------------------------
(* C10 - everything on the wire in direct mode is a well-formed TLS record  *)
(* stream.                                                                  *)
(*                                                                          *)
(* Two parts.                                                               *)
(*  1. THE OBSERVER (the property).  What a passive tap between ck-client   *)
(*     and ck-server may see on one connection, as two automata over        *)
(*     abstract records (one per direction), plus one cross-direction fact  *)
(*     (the ServerHello echoes the ClientHello's session id, and comes      *)
(*     after it).  Judge(dir, r) names the rule a record breaks ("ok" if    *)
(*     none); Advance(dir, r) moves the automaton.  A record is the tuple   *)
(*     of fields an independent parser measures (harness/kit/tlsparse.go).  *)
(*  2. A SENDER MODEL of the two Cloak endpoints at the granularity of      *)
(*     "one conn.Write = one record": ClientHello, the three-record reply,  *)
(*     and every Mux send (data frame, stream-closing and session-closing   *)
(*     notice, with and without padding) through TLSConn.Write.  TLC checks *)
(*     that the observer accepts everything this model can emit given the   *)
(*     size constants of the code (MsgOnWireSizeLimit, the TLSConn write    *)
(*     limit) - and, in the negative configurations (Dev, other constants), *)
(*     that it rejects what the seeded defects emit, so the rules are not   *)
(*     vacuous.  The binding to the code is WireTLSTrace.tla: every         *)
(*     connection recorded from the real client and server is run through   *)
(*     this same observer.                                                  *)
EXTENDS Integers, Sequences, FiniteSets, TLC

CONSTANTS MaxCipher,   \* 2^14 + 256: largest TLSCiphertext.length (RFC 8446 5.2)
          WireLimit,   \* MsgOnWireSizeLimit of both endpoints (client/TLS.go:11, server/TLS.go:16)
          WriteLimit,  \* largest input common.TLSConn.Write accepts (common/tls.go:98)
          FrameHdr,    \* multiplex.frameHeaderLength
          MaxExtra,    \* multiplex.maxExtraLen (padding + tag)
          Tags,        \* tag sizes: 8 (plain: salsa20 nonce) and 16 (AEAD overhead)
          CertLens,    \* lengths of the fake certificate record (server/TLS.go:47)
          Names,       \* configured server names; "random" = generated per connection
          MaxFrames,   \* bound on Mux sends per direction (model checking only)
          Dev          \* deviations for the negative configurations

VARIABLES cph,     \* observer, client->server: "start" | "app"
          sph,     \* observer, server->client: "start" | "sh" | "ccs" | "app"
          chsid,   \* session id of the ClientHello seen
          cfgName, \* server name drawn for the session of this connection (AlternativeNames + ServerName)
          cfgRand, \* TRUE: the name is generated per connection
          bad,     \* "none" or the key of the first rule broken
          cst,     \* sender model, client endpoint: "new" | "hello" | "ready"
          sst,     \* sender model, server endpoint: "new" | "sh" | "ccs" | "ready"
          nfr      \* sender model: Mux sends so far, per direction

obs  == <<cph, sph, chsid>>
conf == <<cfgName, cfgRand>>
snd  == <<cst, sst, nfr>>
vars == <<cph, sph, chsid, cfgName, cfgRand, bad, cst, sst, nfr>>

-----------------------------------------------------------------------------
(* ------------------------------ the observer ---------------------------- *)

\* rules shared by every record: it is entirely there and speaks TLS 3.x
Common(r, typ) ==
  IF r.type # typ THEN "record:type"
  ELSE IF ~r.complete THEN "record:truncated"
  ELSE IF r.vmaj # 3 THEN "record:version"
  ELSE "ok"

\* first client record: one handshake record holding a structurally valid ClientHello with the
\* configured (or a generated, syntactically valid) server name, a 32-byte session id and an
\* X25519 share of 32 bytes
JudgeCH(r) ==
  LET c == Common(r, 22) IN
  IF c # "ok" THEN c
  ELSE IF r.hs # 1 THEN "clienthello:handshake-type"
  ELSE IF ~r.consistent \/ ~r.ext_ok THEN "clienthello:lengths"
  ELSE IF r.sidlen # 32 THEN "clienthello:session-id"
  ELSE IF ~r.has_sni \/ ~r.sni_ok THEN "clienthello:sni"
  ELSE IF cfgRand /\ ~r.sni_name THEN "clienthello:sni"
  ELSE IF ~cfgRand /\ r.sni # cfgName THEN "clienthello:sni"
  ELSE IF ~r.ks_ok \/ r.x25519 # 32 THEN "clienthello:key-share"
  ELSE "ok"

JudgeSH(r) ==
  LET c == Common(r, 22) IN
  IF c # "ok" THEN c
  ELSE IF r.hs # 2 THEN "serverhello:handshake-type"
  ELSE IF ~r.consistent THEN "serverhello:lengths"
  ELSE IF r.sid # chsid THEN "serverhello:session-id-echo"
  ELSE "ok"

JudgeCCS(r) == Common(r, 20)

\* every later record, either direction
JudgeApp(r) ==
  LET c == Common(r, 23) IN
  IF c # "ok" THEN c
  ELSE IF r.vmin # 3 THEN "record:version"
  ELSE IF r.len <= 0 \/ r.len > MaxCipher THEN "record:length"
  ELSE "ok"

Judge(dir, r) ==
  IF dir = "c2s" THEN (IF cph = "start" THEN JudgeCH(r) ELSE JudgeApp(r))
  ELSE IF cph = "start" THEN "serverhello:before-clienthello"
  ELSE CASE sph = "start" -> JudgeSH(r)
         [] sph = "sh"    -> JudgeCCS(r)
         [] OTHER         -> JudgeApp(r)

Advance(dir, r) ==
  IF dir = "c2s"
  THEN /\ cph' = "app"
       /\ chsid' = IF cph = "start" THEN r.sid ELSE chsid
       /\ sph' = sph
  ELSE /\ sph' = CASE sph = "start" -> "sh" [] sph = "sh" -> "ccs" [] OTHER -> "app"
       /\ UNCHANGED <<cph, chsid>>

\* one record passes the tap
Emit(dir, r) ==
  /\ bad = "none"
  /\ LET k == Judge(dir, r) IN
     IF k = "ok" THEN Advance(dir, r) /\ bad' = bad
     ELSE bad' = k /\ UNCHANGED obs

-----------------------------------------------------------------------------
(* ---------------------------- the sender model -------------------------- *)

Blank == [type |-> 0, vmaj |-> 3, vmin |-> 3, len |-> 1, complete |-> TRUE, hs |-> -1,
          consistent |-> FALSE, ext_ok |-> FALSE, sidlen |-> -1, sid |-> "", has_sni |-> FALSE,
          sni_ok |-> FALSE, sni |-> "", sni_name |-> FALSE, ks_ok |-> FALSE, x25519 |-> -1]

\* client/TLS.go:116-141: uTLS hello, random/session id/key share overwritten, record version 3.1
CHRec(sid, name) ==
  [Blank EXCEPT !.type = 22, !.vmin = 1, !.len = 517, !.hs = 1, !.consistent = TRUE, !.ext_ok = TRUE,
                !.sidlen = 32, !.sid = sid, !.has_sni = TRUE, !.sni_ok = TRUE, !.sni = name,
                !.sni_name = (name # "random"), !.ks_ok = TRUE, !.x25519 = 32]   \* the bare keyword is no host name

\* server/TLSAux.go:164-202
SHRec(sid) ==
  [Blank EXCEPT !.type = 22, !.len = 122, !.hs = 2, !.consistent = TRUE, !.ext_ok = TRUE,
                !.sidlen = 32, !.sid = IF "NoEcho" \in Dev THEN "zero" ELSE sid, !.ks_ok = TRUE, !.x25519 = 32]
CCSRec == [Blank EXCEPT !.type = 20, !.len = 1]
\* common/tls.go:43-52,96-108: header 17 03 03 + 16-bit length
AppRec(n) == [Blank EXCEPT !.type = 23, !.len = n, !.vmin = IF "Ver34" \in Dev THEN 4 ELSE 3]

MaxUnit == WireLimit - FrameHdr - MaxExtra   \* session.go:104-112 maxStreamUnitWrite

SenderInit ==
  /\ cph = "start" /\ sph = "start" /\ chsid = ""
  /\ cfgName \in Names /\ cfgRand = (cfgName = "random")
  /\ bad = "none" /\ cst = "new" /\ sst = "new"
  /\ nfr = [d \in {"c2s", "s2c"} |-> 0]

\* cfgName is the name DRAWN for this session (cmd/ck-client seshMaker: one of AlternativeNames + ServerName,
\* AuthInfo.MockDomain); the keyword "random" (client/TLS.go:126, decided per session on the drawn name) stands
\* for a freshly generated host name.  Deviation RandomFlagFromServerName: the decision is taken once from
\* ServerName instead (rawRand = ServerName is the keyword, independent of what was drawn): a drawn alternative
\* is replaced by a generated name, a drawn keyword goes out literally.
SniOnWire(rawRand) ==
  IF "RandomFlagFromServerName" \in Dev
  THEN (IF rawRand THEN "qwfp.com" ELSE cfgName)
  ELSE (IF cfgRand THEN "qwfp.com" ELSE cfgName)

ClientHello ==
  /\ cst = "new"
  /\ \E sid \in {"sidA", "sidB"}, rawRand \in BOOLEAN :
       Emit("c2s", CHRec(sid, SniOnWire(rawRand)))
  /\ cst' = "hello" /\ UNCHANGED <<conf, sst, nfr>>

\* the reply is one Write of three records; the tap sees them one after the other
ReplySH  == /\ cst = "hello" /\ sst = "new" /\ Emit("s2c", SHRec(chsid))
            /\ sst' = "sh" /\ UNCHANGED <<conf, cst, nfr>>
ReplyCCS == /\ sst = "sh" /\ Emit("s2c", CCSRec)
            /\ sst' = "ccs" /\ UNCHANGED <<conf, cst, nfr>>
ReplyApp == /\ sst = "ccs" /\ \E n \in CertLens : Emit("s2c", AppRec(n))
            /\ sst' = "ready" /\ cst' = "ready" /\ UNCHANGED <<conf, nfr>>

Ready(dir) == IF dir = "c2s" THEN cst = "ready" ELSE sst = "ready"

\* One Mux send = one TLSConn.Write.  obfs.go:71-100: wire = header + payload + extra, extra = tag
\* for frames >= 5 of a stream, tag..MaxExtra for the first five.  A frame larger than WriteLimit is
\* refused by TLSConn.Write and nothing reaches the wire.
Send(dir, wire) ==
  /\ Ready(dir) /\ nfr[dir] < MaxFrames
  /\ nfr' = [nfr EXCEPT ![dir] = @ + 1]
  /\ IF wire > WriteLimit THEN UNCHANGED <<obs, bad>> ELSE Emit(dir, AppRec(wire))
  /\ UNCHANGED <<conf, cst, sst>>

DataFrame(dir) ==
  \E p \in {1, 2, MaxUnit - 1, MaxUnit}, t \in Tags, e \in {0, 1} :
     Send(dir, FrameHdr + p + (IF e = 0 THEN t ELSE MaxExtra))

\* session.go: closeStream / notifyAndCloseAll: 1..256 random payload bytes
ClosingFrame(dir) ==
  \E p \in {1, 256}, t \in Tags, e \in {0, 1} :
     Send(dir, IF "EmptyNotice" \in Dev THEN 0 ELSE FrameHdr + p + (IF e = 0 THEN t ELSE MaxExtra))

\* stream.go Stream.ReadFrom: the relayed source's Read returned (0, nil) (an empty datagram of a UDP-style
\* proxy target or local application).  obfs.go refuses an empty payload and obfuscateAndSend returns before
\* switchboard.send: NOTHING reaches the wire.  Deviation EmptyFrameSent: the send goes ahead with the
\* zero bytes obfuscate produced, i.e. TLSConn.Write(empty) = the record 17 03 03 00 00.
RelayEmptyRead(dir) ==
  IF "EmptyFrameSent" \in Dev THEN Send(dir, 0)
  ELSE /\ Ready(dir) /\ nfr[dir] < MaxFrames
       /\ nfr' = [nfr EXCEPT ![dir] = @ + 1]
       /\ UNCHANGED <<obs, bad, conf, cst, sst>>

SenderNext ==
  \/ ClientHello \/ ReplySH \/ ReplyCCS \/ ReplyApp
  \/ \E dir \in {"c2s", "s2c"} : DataFrame(dir) \/ ClosingFrame(dir) \/ RelayEmptyRead(dir)

Init == SenderInit
Next == SenderNext
Spec == Init /\ [][Next]_vars

-----------------------------------------------------------------------------
TypeOK ==
  /\ cph \in {"start", "app"} /\ sph \in {"start", "sh", "ccs", "app"}
  /\ cst \in {"new", "hello", "ready"} /\ sst \in {"new", "sh", "ccs", "ready"}
  /\ bad \in STRING /\ chsid \in STRING /\ cfgRand \in BOOLEAN

\* THE PROPERTY on the sender model: nothing an endpoint can emit is outside the grammar
ObserverAccepts == bad = "none"

\* the observer follows the endpoints: it cannot fall behind or run ahead of what was sent
InStep ==
  bad = "none" =>
    /\ (cst = "new") = (cph = "start")
    /\ sph = CASE sst = "new" -> "start" [] sst = "sh" -> "sh" [] sst = "ccs" -> "ccs" [] OTHER -> "app"

\* the arithmetic the code relies on: the largest frame a session makes fits a record (constant-level:
\* TLC evaluates it once at start-up; not among the invariants of the configurations, ObserverAccepts
\* shows the consequence)
FrameFits == FrameHdr + MaxUnit + MaxExtra <= WriteLimit /\ WriteLimit <= MaxCipher
=============================================================================
