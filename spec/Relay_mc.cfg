SPECIFICATION Spec
CONSTANTS
  NConn = @NCONN@
  MaxUp = @MAXUP@
  MaxDown = @MAXDOWN@
  Singleplex = @SINGLE@
  MaxSess = @MAXSESS@
  STO = @STO@
  Feat = {@FEAT@}
  Dev = {@DEV@}
INVARIANTS @INV@
CHECK_DEADLOCK FALSE
