---------------------------- MODULE HandshakeNeg ----------------------------
(* Vacuity check of Handshake's invariants in ONE TLC run: every behaviour   *)
(* picks one deviation flag (DevChoices = the singletons); whenever an       *)
(* invariant fails in a reachable state, TLC register (flag, invariant) is   *)
(* set.  The post-condition prints the matrix; the driver requires a 1 in    *)
(* the row of every flag (in the column of the invariant the flag is about). *)
(* Run with -workers 1 (TLC registers are per worker).                       *)
EXTENDS Handshake, Json

Flags == <<"ReplyOffsetsMoved", "MethodSlice11", "FlagBitOther", "SidLittleEndian",
           "WindowInclusive", "NoTimestampCheck", "IgnoreDecryptError", "SkipMethodCheck", "SkipUidCheck", "AdminNoSid",
           "LowOrderAccepted", "SkipRecheckSessionless", "SkewSubSaturates", "ZeroUidBypassNoAdmin",
           "MethodCheckOnOpenOnly", "IdleSkippedInUpload">>
InvNames == <<"Agreement", "KeyAgreement", "Soundness", "AdminGate">>
InvVals  == <<Agreement, KeyAgreement, Soundness, AdminGate>>

FlagIdx(d) == CHOOSE i \in 1..Len(Flags) : Flags[i] = d
Reg(i, j)  == (i - 1) * Len(InvNames) + j

NegInit == Init /\ \A r \in 1..(Len(Flags) * Len(InvNames)) : TLCSet(r, 0)
NegSpec == NegInit /\ [][Next]_hvars

\* never violated: it records
Witness ==
  \A j \in 1..Len(InvNames) :
    (~InvVals[j]) => \A d \in dev : TLCSet(Reg(FlagIdx(d), j), 1)

Matrix == [i \in 1..Len(Flags) |-> [j \in 1..Len(InvNames) |-> TLCGet(Reg(i, j))]]
Post == PrintT(<<"NEGMATRIX", ToJson([flags |-> Flags, invs |-> InvNames, matrix |-> Matrix])>>)
=============================================================================
