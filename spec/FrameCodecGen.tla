---------------------------- MODULE FrameCodecGen ----------------------------
(* Case generator for FrameCodec: every terminal state is printed as one   *)
(* abstract case with the expected observation (C04: tamper = "none";      *)
(* C11: a tamper kind, the fields it touches and whether the symbolic      *)
(* decoder accepts).  tools/props/c04.py / c11.py deduplicate the cases    *)
(* and hand them to the Go drivers, which expand every class exhaustively. *)
EXTENDS FrameCodec, Json

LenClass(n) == IF n = 1 THEN "1" ELSE IF n = MaxPayload THEN "max"
               ELSE IF n = MaxPayload - 1 THEN "max-1" ELSE "small"
PadClass(p, m) == IF p = 0 THEN "0" ELSE IF p = MaxPad(m) THEN "max" ELSE "mid"

Case == [ prop       |-> IF tamper = "none" THEN "C04" ELSE "C11",
          method     |-> method,
          methodByte |-> MethodByte(method),
          tag        |-> Tag(method),
          side       |-> IF frame.seq < PadFirstN THEN "below" ELSE "at-or-above",
          closing    |-> frame.closing,
          place      |-> place,
          lenClass   |-> LenClass(frame.pay.len),
          padClass   |-> PadClass(pad, method),
          padded     |-> pad > 0,
          extraMin   |-> Tag(method),
          extraMax   |-> MaxExtra,
          tamper     |-> tamper,
          touched    |-> touched,
          detail     |-> detail,
          expect     |-> result.ok,
          why        |-> result.why ]

Emit == phase = "done" => PrintT(<<"BEHAVIOUR", ToJson(Case)>>)
=============================================================================
