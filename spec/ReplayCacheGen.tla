--------------------------- MODULE ReplayCacheGen ---------------------------
(* History generator for ReplayCache.  `hist` records every step together   *)
(* with the observation the model expects (last').  Redundant interleavings  *)
(* are pruned (they commute in the model and in the code):                   *)
(*   - within one tick, Issue steps come first                               *)
(*   - block 1 is issued at tick 0 (time translation)                        *)
(*   - no clean-up directly after a clean-up, none on an empty cache         *)
(*   - a history ends with its last presentation                             *)
(* SplitClean = FALSE: a clean-up is the single step Clean (the sweep with   *)
(*                  nothing in between); the driver may still let the next   *)
(*                  presentation ARRIVE while the real sweep is parked       *)
(* SplitClean = TRUE : CleanBegin, CleanVisit(key)*, CleanEnd with time      *)
(*                  passing (and blocks being issued) in between; with       *)
(*                  "CleanerSnapshotSwap" also presentations in the gap      *)
(* EmitCex = FALSE: print every history that used all MaxPresent             *)
(*                  presentations (BFS: all of them; -simulate: a sample)    *)
(* EmitCex = TRUE : print exactly the histories in which some block is       *)
(*                  accepted a second time, and stop there (used with the    *)
(*                  deviation flags: the counter-examples of AtMostOnce)     *)
EXTENDS ReplayCache, TLC, Json, Sequences

CONSTANTS EmitCex, SplitClean

VARIABLE hist
gvars == <<vars, hist>>

Violated == \E b \in Blocks : accepts[b] >= 2
Open     == nPresent < MaxPresent /\ ~Violated

GInit == Init /\ hist = <<>>

GIssue == /\ Open
          /\ last.a \in {"Init", "Tick", "Issue"}
          /\ \E b \in Blocks, s \in Skews : Issue(b, s)
          /\ hist' = Append(hist, last')

GPresent == /\ Open
            /\ \E b \in Blocks, v \in Variants : Present(b, v)
            /\ hist' = Append(hist, last')

GClean == /\ Open
          /\ ~SplitClean
          /\ last.a # "Clean"
          /\ Entries(cache) > 0
          /\ Clean
          /\ hist' = Append(hist, last')

GSweep == /\ Open
          /\ SplitClean
          /\ \/ (last.a \notin {"CleanEnd", "CleanSwap"} /\ Entries(cache) > 0 /\ CleanBegin)
             \/ \E key \in RawKeys : CleanVisit(key)
             \/ CleanEnd
             \/ CleanSwap
          /\ hist' = Append(hist, last')

GForeign == /\ Open
            /\ nPresent > 0          \* a flood before anything was presented is just a bigger cache
            /\ Foreign
            /\ hist' = Append(hist, last')

GTick == /\ Open
         /\ issued[1] # None
         /\ Tick
         /\ hist' = Append(hist, last')

GNext == GIssue \/ GPresent \/ GClean \/ GSweep \/ GForeign \/ GTick
GSpec == GInit /\ [][GNext]_gvars

Doc == [dev |-> Dev, w |-> W, r |-> R, cap |-> Cap, steps |-> hist]

Emit == IF EmitCex
          THEN Violated => PrintT(<<"BEHAVIOUR", ToJson(Doc)>>)
          ELSE (nPresent = MaxPresent /\ ~Violated) => PrintT(<<"BEHAVIOUR", ToJson(Doc)>>)
=============================================================================
