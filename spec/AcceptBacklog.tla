--------------------------- MODULE AcceptBacklog ---------------------------
(* The accept queue of a Session (Go: buffered channel acceptCh of capacity  *)
(* acceptBacklog) and the table lock streamsM.  A deplex goroutine that       *)
(* receives the first frame of a new stream pushes it into acceptCh WHILE     *)
(* HOLDING streamsM (session.go, recvDataFromRemote); closeSession needs      *)
(* streamsM to close acceptCh.  If the application has stopped calling        *)
(* Accept and the queue is full, the push blocks forever with the lock held   *)
(* and Session.Close can never finish (defect D13, a known finding of C12:    *)
(* "every blocked ... call returns" / "all connections end up closed").       *)
(* Dev = {"PushUnderLock"} is the code; Dev = {} pushes after unlocking and   *)
(* gives up when the session has been closed.                                 *)
EXTENDS Naturals, Sequences

CONSTANTS Cap,       \* channel capacity (1024 in the code; the argument only needs "full")
          NewStreams, \* frames of distinct new streams that arrive
          Accepts,   \* Accept calls the application still makes (0 = it has stopped accepting)
          Dev

VARIABLES q,        \* number of queued streams
          lock,     \* holder of streamsM: "none", "deplex", "closer"
          dpc,      \* deplex: "idle", "locked", "sendL" (sending with the lock held), "pushing" (sending without it)
          arrived,  \* new-stream frames processed so far
          cpc,      \* closer: "idle", "marked", "locked", "done"
          closedFlag, chClosed, accepts

vars == <<q, lock, dpc, arrived, cpc, closedFlag, chClosed, accepts>>

Init == q = 0 /\ lock = "none" /\ dpc = "idle" /\ arrived = 0 /\ cpc = "idle"
        /\ closedFlag = FALSE /\ chClosed = FALSE /\ accepts = Accepts

DLock == dpc = "idle" /\ arrived < NewStreams /\ lock = "none"
         /\ lock' = "deplex" /\ dpc' = "locked"
         /\ UNCHANGED <<q, arrived, cpc, closedFlag, chClosed, accepts>>

\* under the lock: closed? -> drop; else register the stream and go on to push it
DCheck == /\ dpc = "locked"
          /\ IF closedFlag
               THEN lock' = "none" /\ dpc' = "idle" /\ arrived' = arrived + 1
               ELSE IF "PushUnderLock" \in Dev
                 THEN dpc' = "sendL" /\ UNCHANGED <<lock, arrived>>       \* keeps streamsM
                 ELSE lock' = "none" /\ dpc' = "pushing" /\ UNCHANGED arrived
          /\ UNCHANGED <<q, cpc, closedFlag, chClosed, accepts>>

\* acceptCh <- newStream while still holding streamsM: blocks as long as the queue is full
DPush == /\ dpc = "sendL" /\ q < Cap
         /\ q' = q + 1 /\ lock' = "none" /\ dpc' = "idle" /\ arrived' = arrived + 1
         /\ UNCHANGED <<cpc, closedFlag, chClosed, accepts>>

\* repaired design: push outside the lock, give up once the session is closed
DPushOutside == /\ dpc = "pushing"
                /\ \/ (q < Cap /\ ~chClosed /\ q' = q + 1)
                   \/ (closedFlag /\ UNCHANGED q)
                /\ dpc' = "idle" /\ arrived' = arrived + 1
                /\ UNCHANGED <<lock, cpc, closedFlag, chClosed, accepts>>

Accept == accepts > 0 /\ q > 0 /\ q' = q - 1 /\ accepts' = accepts - 1
          /\ UNCHANGED <<lock, dpc, arrived, cpc, closedFlag, chClosed>>

CMark == cpc = "idle" /\ cpc' = "marked" /\ closedFlag' = TRUE
         /\ UNCHANGED <<q, lock, dpc, arrived, chClosed, accepts>>
CLock == cpc = "marked" /\ lock = "none" /\ lock' = "closer" /\ cpc' = "locked"
         /\ UNCHANGED <<q, dpc, arrived, closedFlag, chClosed, accepts>>
CSweep == cpc = "locked" /\ chClosed' = TRUE /\ lock' = "none" /\ cpc' = "done"
          /\ UNCHANGED <<q, dpc, arrived, closedFlag, accepts>>

Next == DLock \/ DCheck \/ DPush \/ DPushOutside \/ Accept \/ CMark \/ CLock \/ CSweep
Spec == Init /\ [][Next]_vars

\* Session.Close always terminates: no reachable state in which nothing can move while the closer is unfinished
CloseReturns == (~ENABLED Next) => cpc \in {"idle", "done"}
\* a started Close is never stuck behind a deplex that waits for queue space with the lock held
NoLockedWait == ~(cpc = "marked" /\ lock = "deplex" /\ dpc = "sendL" /\ q = Cap /\ accepts = 0)
=============================================================================
