SPECIFICATION Spec
CONSTANTS
  Limit = @LIMIT@
  LenMode = "classes"
  PadMode = "classes"
  TamperMode = "@TAMPER@"
  HeaderTailUnbound = @TAIL@
  PadSlack = 0
  Sids = {0}
  Seqs = {4, 5}
INVARIANTS Emit TypeOK ExtraFits SizeInv RoundTrip NonceInv PlaceInv
CHECK_DEADLOCK FALSE
