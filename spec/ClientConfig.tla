---------------------------- MODULE ClientConfig ----------------------------
(* C20 - the client option table of README.md ("Instructions for clients /  *)
(* ### Client"), example_config/ckclient.json and the usage text of         *)
(* cmd/ck-client (-i -l -s -p -u), written down as a TOTAL function         *)
(*       Expected : abstract raw configuration -> documented processed form *)
(* Every option is one column with a handful of abstract values.  A state   *)
(* is a partially filled configuration; one action fixes the next option.   *)
(* A terminal state (Done) is one row of the decision table.                *)
(*                                                                          *)
(* The expectation "undocumented" (U) means: the documentation is silent,   *)
(* nothing is demanded from the code for that output (it is only logged,    *)
(* must not panic and must be the same in both input syntaxes).             *)
(* Nothing in this module is derived from internal/client/state.go.         *)
EXTENDS Naturals, Sequences, FiniteSets

CONSTANTS Free,        \* options that may deviate from the baseline configuration
          MaxDev,      \* at most MaxDev options deviate from the baseline (t-wise coverage)
          MaxInvalid,  \* at most MaxInvalid required fields are absent / malformed
          CaseFold     \* TRUE: option *names of values* are matched case-insensitively
                       \* (the README itself writes `CDN` where the example file and the
                       \* code write lower case; properties.jsonl quantifies over
                       \* "mixed-case names")

U == "undocumented"

\* ---------------------------------------------------------------- the columns
\* order in which the options are fixed (interacting group first)
Order == << "Transport", "BrowserSig", "CDNOriginHost", "CDNWsUrlPath", "RemoteHost",
            "NumConn", "KeepAlive", "StreamTimeout", "AlternativeNames",
            "EncryptionMethod", "UDP",
            "ServerName", "ProxyMethod", "UID", "PublicKey",
            "RemotePort", "LocalHost", "LocalPort" >>
OptNames == {Order[i] : i \in 1..Len(Order)}

Values == [
  Transport        |-> {"absent", "direct", "CDN", "cdn", "Cdn", "Direct", "quic"},
  BrowserSig       |-> {"absent", "chrome", "firefox", "safari", "FireFox", "SAFARI", "Chrome", "opera"},
  CDNOriginHost    |-> {"absent", "set"},
  CDNWsUrlPath     |-> {"absent", "set"},
  NumConn          |-> {"absent", "neg", "zero", "pos"},
  KeepAlive        |-> {"absent", "neg", "zero", "pos"},
  StreamTimeout    |-> {"absent", "zero", "pos"},
  AlternativeNames |-> {"absent", "empty", "e", "a", "ab", "aeb"},   \* absent [] [""] [a] [a,b] [a,"",b]
  EncryptionMethod |-> {"absent", "plain", "aes-gcm", "aes-256-gcm", "aes-128-gcm", "chacha20-poly1305",
                        "AES-GCM", "Aes-256-Gcm", "AES-128-gcm", "ChaCha20-Poly1305", "Plain", "rc4"},
  UDP              |-> {"absent", "true", "false"},
  ServerName       |-> {"absent", "set"},
  ProxyMethod      |-> {"absent", "set"},
  UID              |-> {"absent", "set", "badb64"},   \* badb64: not base64 at all
  PublicKey        |-> {"absent", "set", "short"},    \* short: valid base64 of fewer than 32 bytes
  RemoteHost       |-> {"absent", "set"},
  RemotePort       |-> {"absent", "set"},
  LocalHost        |-> {"absent", "set"},
  LocalPort        |-> {"absent", "set"} ]

\* baseline = example_config/ckclient.json with UID/PublicKey filled in and the four addresses given
Base == [
  Transport |-> "direct", BrowserSig |-> "chrome", CDNOriginHost |-> "absent", CDNWsUrlPath |-> "absent",
  NumConn |-> "pos", KeepAlive |-> "absent", StreamTimeout |-> "pos", AlternativeNames |-> "absent",
  EncryptionMethod |-> "plain", UDP |-> "absent",
  ServerName |-> "set", ProxyMethod |-> "set", UID |-> "set", PublicKey |-> "set",
  RemoteHost |-> "set", RemotePort |-> "set", LocalHost |-> "set", LocalPort |-> "set" ]

Required == {"ServerName", "ProxyMethod", "UID", "PublicKey", "RemoteHost", "RemotePort", "LocalHost", "LocalPort"}

\* values that make a configuration incomplete or malformed
IsInvalid(o, v) == o \in Required /\ v # "set"

\* ---------------------------------------------------------------- names
Lower(s) ==
  CASE s \in {"CDN", "Cdn"}                        -> "cdn"
    [] s = "Direct"                                -> "direct"
    [] s = "FireFox"                               -> "firefox"
    [] s = "SAFARI"                                -> "safari"
    [] s = "Chrome"                                -> "chrome"
    [] s = "AES-GCM"                               -> "aes-gcm"
    [] s = "Aes-256-Gcm"                           -> "aes-256-gcm"
    [] s = "AES-128-gcm"                           -> "aes-128-gcm"
    [] s = "ChaCha20-Poly1305"                     -> "chacha20-poly1305"
    [] s = "Plain"                                 -> "plain"
    [] OTHER                                       -> s

DocTransport == {"direct", "CDN"}                                   \* README: "either `direct` or `CDN`"
DocBrowser   == {"chrome", "firefox", "safari"}                     \* README: "`chrome`, `firefox` and `safari` are supported"
DocEnc       == {"plain", "aes-256-gcm", "aes-gcm", "aes-128-gcm", "chacha20-poly1305"}

\* the documented name that s denotes; U if only a case variant and ~CaseFold; "none" if no such name
Match(s, doc) ==
  IF s \in doc THEN s
  ELSE IF \E d \in doc : Lower(d) = Lower(s)
       THEN IF CaseFold THEN CHOOSE d \in doc : Lower(d) = Lower(s) ELSE U
       ELSE "none"

AltSeq(v) == CASE v = "a"   -> <<"a">>
               [] v = "ab"  -> <<"a", "b">>
               [] v = "aeb" -> <<"a", "b">>      \* the empty string is not a server name
               [] OTHER     -> <<>>              \* absent, [], [""]

\* ---------------------------------------------------------------- the table
Expected(c) ==
  LET tr   == IF c.Transport = "absent" THEN "none" ELSE Match(c.Transport, DocTransport)
      br   == IF c.BrowserSig = "absent" THEN "none" ELSE Match(c.BrowserSig, DocBrowser)
      en   == IF c.EncryptionMethod = "absent" THEN U ELSE Match(c.EncryptionMethod, DocEnc)
      bad  == \E o \in Required : IsInvalid(o, c[o])
  IN [
    \* "invalid or incomplete configurations are rejected with an error"; README lists the only
    \* encryption options; it names no default method, so an absent one is undocumented
    outcome    |-> IF bad \/ en = "none" THEN "error" ELSE IF en = U THEN U ELSE "ok",
    \* README `Transport`: direct | CDN.  No default is documented; unknown names are not discussed.
    mode       |-> CASE tr = "direct" -> "direct" [] tr = "CDN" -> "cdn" [] OTHER -> U,
    \* README `BrowserSig` (applies to the direct/TLS transport).  No default documented.
    browser    |-> IF br = "none" THEN U ELSE br,
    \* README `CDNOriginHost`: "If unset, it will default to the remote hostname"; Host header
    wsHost     |-> IF c.CDNOriginHost = "set" THEN "origin" ELSE "remote",
    \* README `CDNWsUrlPath`: "If unset, it will default to "/""
    wsPath     |-> IF c.CDNWsUrlPath = "set" THEN "set" ELSE "/",
    \* README `NumConn`: "Setting it to 0 will disable connection multiplexing and each TCP connection
    \* will spawn a separate short-lived session"; properties.jsonl: NumConn <= 0.  Absent: the README
    \* speaks of "the default of 4" (the value in the example file) - ambiguous, not demanded.
    singleplex |-> CASE c.NumConn \in {"neg", "zero"} -> "yes" [] c.NumConn = "pos" -> "no" [] OTHER -> U,
    numConn    |-> CASE c.NumConn \in {"neg", "zero"} -> "1" [] c.NumConn = "pos" -> "N" [] OTHER -> U,
    \* README `KeepAlive`: N seconds; "Zero or negative value disables it. Default is 0 (disabled)"
    keepAlive  |-> IF c.KeepAlive = "pos" THEN "N" ELSE "disabled",
    \* the same sentence at the place where it takes effect: the TCP socket ck-client dials the Cloak server with
    \* ("the number of seconds to tell the OS to wait after no activity before sending TCP KeepAlive probes"):
    \* SO_KEEPALIVE off, or on with an idle time of N seconds.  Observable only by running ck-client's main().
    dialer     |-> IF c.KeepAlive = "pos" THEN "idle=N" ELSE "off",
    \* README `StreamTimeout`: "the number of seconds".  No default documented (the code's 300 s).
    timeout    |-> IF c.StreamTimeout = "pos" THEN "N" ELSE U,
    \* README `AlternativeNames`: used alongside ServerName to shuffle between server names
    names      |-> AltSeq(c.AlternativeNames) \o <<"ServerName">>,
    \* README `EncryptionMethod`: plain, aes-256-gcm (synonymous to aes-gcm), aes-128-gcm, chacha20-poly1305
    enc        |-> CASE en = "aes-gcm" -> "aes-256-gcm" [] en = "none" -> "n/a" [] OTHER -> en,
    \* ck-client usage text: "-u  set this flag if the underlying proxy is using UDP protocol";
    \* the JSON key UDP is what -u sets.  Absent key: not documented.
    unordered  |-> IF c.UDP = "absent" THEN U ELSE c.UDP ]

\* outputs that must be the input verbatim (decoded from base64 for UID / PublicKey):
\* UID, PublicKey, ProxyMethod, ServerName -> AuthInfo; RemoteHost:RemotePort; LocalHost:LocalPort
Verbatim == {"UID", "PublicKey", "ProxyMethod", "ServerName", "RemoteAddr", "LocalAddr"}

\* ---------------------------------------------------------------- enumeration
VARIABLES cfg, idx
vars == <<cfg, idx>>

Init == cfg = [o \in OptNames |-> "?"] /\ idx = 0

Devs    == Cardinality({o \in OptNames : cfg[o] # "?" /\ cfg[o] # Base[o]})
Invalid == Cardinality({o \in OptNames : cfg[o] # "?" /\ IsInvalid(o, cfg[o])})

Choose(v) ==
  /\ idx < Len(Order)
  /\ LET o == Order[idx + 1] IN
       /\ v \in Values[o]
       /\ \/ v = Base[o]
          \/ /\ o \in Free
             /\ Devs < MaxDev
             /\ IsInvalid(o, v) => Invalid < MaxInvalid
       /\ cfg' = [cfg EXCEPT ![o] = v]
  /\ idx' = idx + 1

AllValues == UNION {Values[o] : o \in OptNames}
Next == \E v \in AllValues : Choose(v)
Spec == Init /\ [][Next]_vars

Done == idx = Len(Order)

\* ---------------------------------------------------------------- invariants (about the table)
OutRange == [
  outcome |-> {"ok", "error", U}, mode |-> {"direct", "cdn", U}, browser |-> DocBrowser \cup {U},
  wsHost |-> {"origin", "remote"}, wsPath |-> {"set", "/"},
  singleplex |-> {"yes", "no", U}, numConn |-> {"1", "N", U}, keepAlive |-> {"N", "disabled"}, dialer |-> {"idle=N", "off"},
  timeout |-> {"N", U}, enc |-> {"plain", "aes-256-gcm", "aes-128-gcm", "chacha20-poly1305", "n/a", U},
  unordered |-> {"true", "false", U} ]

TypeOK == /\ idx \in 0..Len(Order)
          /\ \A i \in 1..Len(Order) : cfg[Order[i]] \in (IF i <= idx THEN Values[Order[i]] ELSE {"?"})

\* Expected is defined, and within range, for every row
Total == Done =>
  LET e == Expected(cfg) IN
    /\ DOMAIN e = DOMAIN OutRange \cup {"names"}
    /\ \A f \in DOMAIN OutRange : e[f] \in OutRange[f]
    /\ Len(e.names) >= 1 /\ e.names[Len(e.names)] = "ServerName"
    /\ \A i \in 1..Len(e.names) : e.names[i] \in {"a", "b", "ServerName"}

\* an error is demanded exactly for incomplete/malformed rows and unknown encryption names
ErrorIff == Done =>
  LET unknownEnc == /\ cfg.EncryptionMethod # "absent"
                    /\ ~\E d \in DocEnc : Lower(d) = Lower(cfg.EncryptionMethod)
      bad == \E o \in Required : cfg[o] # "set"
  IN /\ Expected(cfg).outcome = "error" <=> (bad \/ unknownEnc)
     /\ Expected(cfg).outcome = "ok" => Expected(cfg).enc \in OutRange.enc \ {"n/a", U}
     /\ (~bad /\ cfg.EncryptionMethod = "plain") => Expected(cfg).outcome = "ok"

\* README sentences, each stated a second time independently of the CASE arms above
Sentences == Done =>
  LET e == Expected(cfg) IN
    /\ cfg.NumConn = "zero" => e.singleplex = "yes" /\ e.numConn = "1"
    /\ cfg.NumConn = "neg"  => e.singleplex = "yes"
    /\ cfg.NumConn = "pos"  => e.singleplex = "no" /\ e.numConn = "N"
    /\ (e.keepAlive = "N") <=> (cfg.KeepAlive = "pos")
    /\ cfg.KeepAlive \in {"absent", "zero", "neg"} => e.dialer = "off"
    /\ cfg.KeepAlive = "pos" => e.dialer = "idle=N"
    /\ cfg.StreamTimeout = "pos" => e.timeout = "N"
    /\ cfg.Transport = "direct" => e.mode = "direct"
    /\ cfg.Transport = "CDN" => e.mode = "cdn"
    /\ cfg.BrowserSig \in DocBrowser => e.browser = cfg.BrowserSig
    /\ cfg.CDNOriginHost = "absent" => e.wsHost = "remote"
    /\ cfg.CDNWsUrlPath = "absent" => e.wsPath = "/"
    /\ cfg.EncryptionMethod \in {"aes-gcm", "aes-256-gcm"} => e.enc = "aes-256-gcm"

\* the silent places of the README stay unchecked (never demand more than documented)
Silent == Done =>
  LET e == Expected(cfg) IN
    /\ cfg.StreamTimeout \in {"absent", "zero"} => e.timeout = U
    /\ cfg.BrowserSig \in {"absent", "opera"} => e.browser = U
    /\ cfg.Transport \in {"absent", "quic"} => e.mode = U
    /\ cfg.NumConn = "absent" => e.singleplex = U /\ e.numConn = U
    /\ cfg.UDP = "absent" => e.unordered = U
    /\ (cfg.EncryptionMethod = "absent" /\ e.outcome # "error") => e.outcome = U
    /\ ~CaseFold => /\ cfg.Transport \in {"cdn", "Cdn", "Direct"} => e.mode = U
                    /\ cfg.BrowserSig \in {"FireFox", "SAFARI", "Chrome"} => e.browser = U

\* spelling documented names in another case changes nothing
Canon(o, v) == CASE o = "Transport" /\ v # "absent" /\ Match(v, DocTransport) \notin {U, "none"} -> Match(v, DocTransport)
                 [] o = "BrowserSig" /\ v # "absent" /\ Match(v, DocBrowser) \notin {U, "none"} -> Match(v, DocBrowser)
                 [] o = "EncryptionMethod" /\ v # "absent" /\ Match(v, DocEnc) \notin {U, "none"} -> Match(v, DocEnc)
                 [] OTHER -> v
CaseInv == (Done /\ CaseFold) => Expected([o \in OptNames |-> Canon(o, cfg[o])]) = Expected(cfg)

\* each output column depends on its own option only: this is what makes t-wise enumeration
\* (MaxDev) plus random rows an adequate cover of the full product
DependsOn == [
  outcome |-> Required \cup {"EncryptionMethod"}, mode |-> {"Transport"}, browser |-> {"BrowserSig"},
  wsHost |-> {"CDNOriginHost"}, wsPath |-> {"CDNWsUrlPath"}, singleplex |-> {"NumConn"}, numConn |-> {"NumConn"},
  keepAlive |-> {"KeepAlive"}, dialer |-> {"KeepAlive"}, timeout |-> {"StreamTimeout"}, names |-> {"AlternativeNames"},
  enc |-> {"EncryptionMethod"}, unordered |-> {"UDP"} ]
\* (bound variables, not LET: TLC evaluates the two rows once instead of once per use)
Separable == Done =>
  \A e1 \in {Expected(cfg)} : \A o \in OptNames : \A v \in Values[o] :
    \A e2 \in {Expected([cfg EXCEPT ![o] = v])} :
      \A f \in DOMAIN DependsOn : o \notin DependsOn[f] => e2[f] = e1[f]
=============================================================================
