SPECIFICATION GSpec
CONSTANT N = @N@
INVARIANTS Emit OrderInv CloseInv HeapInv CompleteInv
CHECK_DEADLOCK FALSE
