----------------------------- MODULE StreamOpen -----------------------------
(* Stream-id allocation at the grain of the code's atomic operations (C13:  *)
(* "no two messages sent by one endpoint under one session key share a      *)
(* (stream id, sequence number) pair" - across streams this rests on every  *)
(* OpenStream call getting an id of its own; each stream then numbers its   *)
(* frames from 0).  Go: Session.OpenStream does ONE atomic fetch-and-add on *)
(* nextStreamID; ck-client's RouteTCP calls it from one goroutine per       *)
(* accepted connection, so calls do overlap.                                *)
(*                                                                          *)
(* Openers step: Take (the fetch-and-add; with the deviation LoadThenAdd a  *)
(* Load followed later by an Add), then Send frames (id, 0), (id, 1).       *)
EXTENDS Naturals, FiniteSets, Sequences, TLC

CONSTANTS Openers,     \* concurrent OpenStream callers
          Frames,      \* frames each sends on its stream
          Dev          \* {} = the code; {"LoadThenAdd"} = id read and counter bump as two steps

VARIABLES nextId, pc, myId, sent, wire
vars == <<nextId, pc, myId, sent, wire>>

Init == /\ nextId = 1
        /\ pc = [o \in Openers |-> "start"]
        /\ myId = [o \in Openers |-> 0]
        /\ sent = [o \in Openers |-> 0]
        /\ wire = {}                       \* set of <<id, seq, opener>> put on the wire

Take(o) == /\ pc[o] = "start" /\ "LoadThenAdd" \notin Dev
           /\ myId' = [myId EXCEPT ![o] = nextId]
           /\ nextId' = nextId + 1
           /\ pc' = [pc EXCEPT ![o] = "open"]
           /\ UNCHANGED <<sent, wire>>
Load(o) == /\ pc[o] = "start" /\ "LoadThenAdd" \in Dev
           /\ myId' = [myId EXCEPT ![o] = nextId]
           /\ pc' = [pc EXCEPT ![o] = "loaded"]
           /\ UNCHANGED <<nextId, sent, wire>>
Add(o)  == /\ pc[o] = "loaded"
           /\ nextId' = nextId + 1
           /\ pc' = [pc EXCEPT ![o] = "open"]
           /\ UNCHANGED <<myId, sent, wire>>
Send(o) == /\ pc[o] = "open" /\ sent[o] < Frames
           /\ wire' = wire \cup {<<myId[o], sent[o], o>>}
           /\ sent' = [sent EXCEPT ![o] = @ + 1]
           /\ UNCHANGED <<nextId, pc, myId>>

Next == \E o \in Openers : Take(o) \/ Load(o) \/ Add(o) \/ Send(o)
Spec == Init /\ [][Next]_vars

\* every (stream id, seq) pair is on the wire once: the cipher nonce is never reused
NonceInv == \A a, b \in wire : (a[1] = b[1] /\ a[2] = b[2]) => a = b
\* two callers never hold the same stream
DistinctIds == \A a, b \in Openers : (a # b /\ pc[a] = "open" /\ pc[b] = "open") => myId[a] # myId[b]
=============================================================================
