------------------------------ MODULE Dispatch ------------------------------
(* C09 - unauthenticated peers see only the redirect target, byte for byte. *)
(*                                                                          *)
(* One connection accepted by server.dispatchConnection.  The peer's byte   *)
(* stream is abstract: a CASE fixes its shape (first byte class, declared   *)
(* record length / position of the blank line, how much of it the peer      *)
(* really sends, what the first packet turns out to be when authenticated), *)
(* positions are plain integers 1..total.  Only the ORDER of the anchors    *)
(* (1, Hdr, Hdr+dlen, blank line, Buf, total) matters to the code, so the   *)
(* constants are scaled down (Buf = 12 stands for firstPacketSize = 3000,   *)
(* Big for a declared length of 65535); the Go driver maps every abstract   *)
(* position to a concrete one anchor by anchor and replays each case with   *)
(* many concrete streams.                                                   *)
(*                                                                          *)
(* Server actions = the blocking points of the Go code:                     *)
(*   Read      readFirstPacket (dispatcher.go:63-126) taking what it needs  *)
(*   GiveUp    read error / 15 s deadline: close, no redirect               *)
(*   Decide    AuthFirstPacket + the decision tree (dispatcher.go:154-246)  *)
(*   goWeb     dial, replay the consumed prefix (dispatcher.go:135-152)     *)
(*   CopyUp / CopyDown   the two common.Copy goroutines                     *)
(* Environment: Deliver (the peer's next segment), Timeout (15 s pass),     *)
(* PeerClose; the target follows one of the Scripts.                        *)
EXTENDS Integers, Sequences, FiniteSets, TLC

CONSTANTS Buf,        \* firstPacketSize (scaled)
          Hdr,        \* TLS record header length (5)
          Small,      \* a declared length that fits with room to spare
          Big,        \* a declared length far beyond the buffer (65535)
          LS,         \* end of the blank line of a short HTTP request
          Trail,      \* bytes the peer sends after its first record/request
          BannerLen,  \* length of the target's banner
          MaxChunks,  \* segments the peer's stream is cut into
          Scripts,    \* target behaviours: "silent", "banner", "echo", "close"
          Downs,      \* target reachability: "up", "refuse", "closeatonce"
          AuthClasses,\* what a complete small TLS record can be
          HiddenClasses, \* what a complete short HTTP request can be
          PortMode,   \* "all": every redirect-port configuration below; "one": RedirAddr with a port only.  Records [cfg, lp, first]:
                      \*   cfg   "fixed" = RedirAddr names a port (P), "none" = it does not: the target port is the
                      \*           port the peer connected to (dispatcher.go:136-139, conn.LocalAddr)
                      \*   lp    "A" | "B": the listener (bind port) this connection arrived on; one State serves both
                      \*   first "none" | "A" | "B": the listener of an EARLIER redirected connection of the same State
          AllCuts,    \* TRUE: every cut position; FALSE: anchors and their neighbours only
          Dev         \* deviations (negative configurations)

None == 0 - 1

PortCfgs == IF PortMode = "all"
            THEN [cfg : {"fixed", "none"}, lp : {"A", "B"}, first : {"none", "A", "B"}]
            ELSE {[cfg |-> "fixed", lp |-> "A", first |-> "none"]}

VARIABLES case,      \* the shape of the peer's stream (constant per behaviour)
          sent,      \* bytes of the stream the peer has sent so far
          nchunks,   \* segments delivered so far
          peerClosed, timedOut,
          phase,     \* "read" | "relay" | "idle" | "closed" | "accepted"
          consumed,  \* bytes readFirstPacket has taken
          outcome,   \* "none" | "redirect" | "close" | "accept" | "hang" | "noredirect"
          closedIncomplete, \* the close decision was taken while the first packet was incomplete
          toTarget,  \* sequence of stream positions the target has received
          fwd,       \* stream position up to which the server has taken bytes from the peer connection
          tgtOut,    \* bytes the target has written
          toPeer,    \* what the peer has received: i > 0 = i-th byte of the target, 0 = a byte made by the server
          tgtClosed, srvClosedPeer, srvClosedTgt

vars == <<case, sent, nchunks, peerClosed, timedOut, phase, consumed, outcome, closedIncomplete,
          toTarget, fwd, tgtOut, toPeer, tgtClosed, srvClosedPeer, srvClosedTgt>>

-----------------------------------------------------------------------------
(* --------------------------------- cases -------------------------------- *)

Pos(S) == {x \in S : x >= 1}

TlsCases ==
  UNION { { [kind |-> "tls", dlen |-> d, bl |-> None, total |-> t, content |-> c] :
              t \in Pos({1, Hdr - 1, Hdr, Hdr + 1, Hdr + d - 1, Hdr + d, Hdr + d + Trail}),
              c \in AuthClasses \cup {"garbage"} } :
          d \in {0, Small, Buf - Hdr, Buf - Hdr + 1, Big} }

HttpCases ==
  { [kind |-> "http", dlen |-> 0, bl |-> b, total |-> t, content |-> c] :
      b \in {LS, Buf - 1, Buf, Buf + 1, None},
      t \in Pos({1, 2, LS - 1, LS, LS + Trail, Buf - 1, Buf, Buf + 1, Buf + 1 + Trail}),
      c \in HiddenClasses \cup {"none"} }

OtherCases ==
  { [kind |-> "other", dlen |-> 0, bl |-> None, total |-> t, content |-> "garbage"] : t \in {1, 2, Buf + Trail} }

\* the first packet as far as the reader is concerned: where it stops reading, and whether what it then
\* holds goes to AuthFirstPacket ("auth") or straight to the redirect ("redir")
\* dispatcher.go:90: the record does not fit the buffer
Oversize(c) == IF "ThresholdGE" \in Dev THEN c.dlen + Hdr >= Buf ELSE c.dlen + Hdr > Buf

Stop(c) ==
  CASE c.kind = "other" -> 1
    [] c.kind = "tls"   -> IF Oversize(c) THEN Hdr ELSE Hdr + c.dlen
    [] c.kind = "http"  -> IF c.bl # None /\ c.bl <= Buf THEN c.bl ELSE Buf

Route(c) ==
  CASE c.kind = "other" -> "redir"
    [] c.kind = "tls"   -> IF Oversize(c) THEN "redir" ELSE "auth"
    [] c.kind = "http"  -> IF c.bl # None /\ c.bl <= Buf THEN "auth" ELSE "redir"

\* a case is well-formed when the content class is possible for its shape
WellFormed(c) ==
  /\ c.kind = "tls" =>
       /\ (c.content # "garbage" => c.dlen = Small /\ c.total >= Hdr + c.dlen)
       /\ c.total <= Hdr + c.dlen + Trail
       /\ (c.dlen = Big => c.total <= Hdr + Trail + 2)        \* nobody sends 65535 bytes in the model
  /\ c.kind = "http" =>
       /\ (c.content # "none" => c.bl = LS /\ c.total >= LS)
       /\ (c.bl # None => (c.total <= c.bl + Trail))
       /\ (c.bl = None => TRUE)

Cases == {c \in TlsCases \cup HttpCases \cup OtherCases : WellFormed(c)}

\* statement: "complete first record or request, or something unrecognisable" (Dev does not apply here)
CompleteFaithful(c, n) ==
  n >= (CASE c.kind = "other" -> 1
          [] c.kind = "tls"   -> IF c.dlen + Hdr > Buf THEN Hdr ELSE Hdr + c.dlen
          [] c.kind = "http"  -> IF c.bl # None /\ c.bl <= Buf THEN c.bl ELSE Buf)

Authenticated(c) == c.content \in {"ok", "nosession"}

Anchors(c) ==
  LET base == {1, Hdr, Stop(c), c.total, Buf} \cup (IF c.kind = "tls" THEN {Hdr + c.dlen} ELSE {})
                 \cup (IF c.bl # None THEN {c.bl} ELSE {})
  IN {x \in base \cup {y - 1 : y \in base} \cup {y + 1 : y \in base} : x >= 1 /\ x <= c.total}

-----------------------------------------------------------------------------
(* ------------------------------ environment ------------------------------ *)

Init ==
  /\ case \in [c : Cases, script : Scripts, down : Downs, port : PortCfgs]
  /\ sent = 0 /\ nchunks = 0 /\ peerClosed = FALSE /\ timedOut = FALSE
  /\ phase = "read" /\ consumed = 0 /\ outcome = "none" /\ closedIncomplete = FALSE
  /\ toTarget = <<>> /\ fwd = 0 /\ tgtOut = 0 /\ toPeer = <<>>
  /\ tgtClosed = FALSE /\ srvClosedPeer = FALSE /\ srvClosedTgt = FALSE

C == case.c

Deliver(n) ==
  /\ ~peerClosed /\ sent + n <= C.total /\ n >= 1
  /\ nchunks < MaxChunks
  /\ (nchunks = MaxChunks - 1 => sent + n = C.total)       \* the last allowed segment carries the rest
  /\ (AllCuts \/ sent + n \in Anchors(C))
  /\ sent' = sent + n /\ nchunks' = nchunks + 1
  /\ UNCHANGED <<case, peerClosed, timedOut, phase, consumed, outcome, closedIncomplete, toTarget, fwd,
                 tgtOut, toPeer, tgtClosed, srvClosedPeer, srvClosedTgt>>

Timeout ==
  /\ ~timedOut /\ timedOut' = TRUE
  /\ UNCHANGED <<case, sent, nchunks, peerClosed, phase, consumed, outcome, closedIncomplete, toTarget, fwd,
                 tgtOut, toPeer, tgtClosed, srvClosedPeer, srvClosedTgt>>

PeerClose ==
  /\ ~peerClosed /\ peerClosed' = TRUE
  /\ UNCHANGED <<case, sent, nchunks, timedOut, phase, consumed, outcome, closedIncomplete, toTarget, fwd,
                 tgtOut, toPeer, tgtClosed, srvClosedPeer, srvClosedTgt>>

-----------------------------------------------------------------------------
(* --------------------------------- server -------------------------------- *)

Range(a, b) == [i \in 1..(b - a + 1) |-> a + i - 1]      \* the positions a..b as a sequence

\* readFirstPacket: io.ReadFull / connReadLine take bytes as they come, never beyond Stop
ReadG == phase = "read" /\ consumed < Stop(C) /\ consumed < sent
Read ==
  /\ ReadG
  /\ consumed' = IF sent < Stop(C) THEN sent ELSE Stop(C)
  /\ fwd' = consumed'
  /\ UNCHANGED <<case, sent, nchunks, peerClosed, timedOut, phase, outcome, closedIncomplete, toTarget,
                 tgtOut, toPeer, tgtClosed, srvClosedPeer, srvClosedTgt>>

\* dispatcher.go:68-72,84-88,96-100,111-115: a read error or the deadline closes the connection, no redirect
GiveUpG == phase = "read" /\ consumed < Stop(C) /\ consumed = sent /\ (timedOut \/ peerClosed)
GiveUp ==
  /\ GiveUpG
  /\ phase' = "closed" /\ outcome' = "close" /\ srvClosedPeer' = TRUE
  /\ closedIncomplete' = ~CompleteFaithful(C, sent)
  /\ UNCHANGED <<case, sent, nchunks, peerClosed, timedOut, consumed, toTarget, fwd, tgtOut, toPeer,
                 tgtClosed, srvClosedTgt>>

\* what the decision tree does with a complete first packet
Verdict ==
  IF Route(C) = "redir" THEN "redirect"
  ELSE CASE C.content = "ok"        -> "accept"
         [] C.content = "nosession" -> "hang"       \* GetSession refused: connection left open, un-answered
         [] C.content = "method" /\ "CloseOnMethod" \in Dev -> "close"
         [] OTHER                   -> "redirect"

\* goWeb: dial; on success write the consumed prefix, then the two Copy goroutines take over
GoWeb ==
  IF case.down # "up"
  THEN /\ phase' = "idle" /\ outcome' = "noredirect"      \* peer connection stays open and idle (Appendix E 15)
       /\ UNCHANGED <<toTarget, toPeer, tgtOut, srvClosedPeer, closedIncomplete>>
  ELSE /\ phase' = "relay" /\ outcome' = "redirect"
       /\ toTarget' = IF "ReplayShort" \in Dev THEN Range(1, consumed - 1) ELSE Range(1, consumed)
       /\ toPeer' = IF "Banner" \in Dev THEN <<0>> ELSE <<>>
       /\ tgtOut' = IF case.script = "banner" THEN BannerLen ELSE 0
       /\ UNCHANGED <<srvClosedPeer, closedIncomplete>>

DecideG == phase = "read" /\ consumed = Stop(C)
Decide ==
  /\ DecideG
  /\ LET v == Verdict IN
     CASE v = "redirect" -> GoWeb
       [] v = "accept"   -> /\ phase' = "accepted" /\ outcome' = "accept"
                            /\ toPeer' = <<0, 0, 0>>        \* ServerHello, ChangeCipherSpec, application data
                            /\ UNCHANGED <<toTarget, tgtOut, srvClosedPeer, closedIncomplete>>
       [] v = "hang"     -> /\ phase' = "idle" /\ outcome' = "hang"
                            /\ UNCHANGED <<toTarget, toPeer, tgtOut, srvClosedPeer, closedIncomplete>>
       [] v = "close"    -> /\ phase' = "closed" /\ outcome' = "close" /\ srvClosedPeer' = TRUE
                            /\ closedIncomplete' = FALSE
                            /\ UNCHANGED <<toTarget, toPeer, tgtOut>>
  /\ UNCHANGED <<case, sent, nchunks, peerClosed, timedOut, consumed, fwd, tgtClosed, srvClosedTgt>>

BothClosed == srvClosedPeer /\ srvClosedTgt
CloseBoth == srvClosedPeer' = TRUE /\ srvClosedTgt' = TRUE /\ phase' = "closed"

\* common.Copy(webConn, conn): peer -> target
CopyUpG == phase = "relay" /\ fwd < sent
CopyUp ==
  /\ CopyUpG
  /\ fwd' = sent
  /\ IF tgtClosed
     THEN CloseBoth /\ UNCHANGED toTarget                 \* write to a closed target fails: Copy closes both
     ELSE toTarget' = toTarget \o Range(fwd + 1, sent) /\ UNCHANGED <<srvClosedPeer, srvClosedTgt, phase>>
  /\ UNCHANGED <<case, sent, nchunks, peerClosed, timedOut, consumed, outcome, closedIncomplete, tgtOut,
                 toPeer, tgtClosed>>

CopyUpEOFG == phase = "relay" /\ fwd = sent /\ peerClosed
CopyUpEOF ==
  /\ CopyUpEOFG
  /\ CloseBoth
  /\ UNCHANGED <<case, sent, nchunks, peerClosed, timedOut, consumed, outcome, closedIncomplete, toTarget,
                 fwd, tgtOut, toPeer, tgtClosed>>

\* the target's script
TargetActG ==
  /\ phase = "relay" /\ ~tgtClosed /\ ~srvClosedTgt
  /\ \/ case.script = "echo" /\ tgtOut < Len(toTarget)
     \/ case.script = "close" /\ Len(toTarget) >= 1
TargetAct ==
  /\ phase = "relay" /\ ~tgtClosed /\ ~srvClosedTgt
  /\ \/ /\ case.script = "echo" /\ tgtOut < Len(toTarget)
        /\ tgtOut' = Len(toTarget) /\ UNCHANGED tgtClosed
     \/ /\ case.script = "close" /\ Len(toTarget) >= 1
        /\ tgtClosed' = TRUE /\ UNCHANGED tgtOut
  /\ UNCHANGED <<case, sent, nchunks, peerClosed, timedOut, phase, consumed, outcome, closedIncomplete,
                 toTarget, fwd, toPeer, srvClosedPeer, srvClosedTgt>>

TargetBytes == Len(SelectSeq(toPeer, LAMBDA x : x > 0))

\* common.Copy(conn, webConn): target -> peer
CopyDownG == phase = "relay" /\ TargetBytes < tgtOut
CopyDown ==
  /\ CopyDownG
  /\ toPeer' = toPeer \o Range(TargetBytes + 1, tgtOut)
  /\ UNCHANGED <<case, sent, nchunks, peerClosed, timedOut, phase, consumed, outcome, closedIncomplete,
                 toTarget, fwd, tgtOut, tgtClosed, srvClosedPeer, srvClosedTgt>>

CopyDownEOFG == phase = "relay" /\ TargetBytes = tgtOut /\ tgtClosed
CopyDownEOF ==
  /\ CopyDownEOFG
  /\ CloseBoth
  /\ UNCHANGED <<case, sent, nchunks, peerClosed, timedOut, consumed, outcome, closedIncomplete, toTarget,
                 fwd, tgtOut, toPeer, tgtClosed>>

ServerNext == Read \/ GiveUp \/ Decide \/ CopyUp \/ CopyUpEOF \/ TargetAct \/ CopyDown \/ CopyDownEOF
EnvNext == (\E n \in 1..(Buf + Big) : Deliver(n)) \/ Timeout \/ PeerClose

Next == ServerNext \/ EnvNext
Spec == Init /\ [][Next]_vars

\* nothing left to do for the server and the target (the guards of ServerNext, spelled out: cheaper than ENABLED)
\* the port goWeb dials.  A function of the configuration alone in the design: what an earlier connection did
\* does not matter.  Deviation PortCached: the first redirected connection's port is kept in the shared State.
DialPort(p) ==
  IF p.cfg = "fixed" THEN "P"
  ELSE IF "PortCached" \in Dev /\ p.first # "none" THEN p.first
  ELSE p.lp
DialTo == IF outcome \in {"redirect", "noredirect"} THEN DialPort(case.port) ELSE "none"

Quiescent == ~(ReadG \/ GiveUpG \/ DecideG \/ CopyUpG \/ CopyUpEOFG \/ TargetActG \/ CopyDownG \/ CopyDownEOFG)

-----------------------------------------------------------------------------
(* ------------------------------- properties ------------------------------ *)

TypeOK ==
  /\ phase \in {"read", "relay", "idle", "closed", "accepted"}
  /\ outcome \in {"none", "redirect", "close", "accept", "hang", "noredirect"}
  /\ consumed \in 0..Buf /\ consumed <= sent /\ fwd <= sent /\ sent <= C.total

\* the target receives a byte-exact prefix of the peer's stream
TargetPrefix == /\ \A i \in 1..Len(toTarget) : toTarget[i] = i
                /\ Len(toTarget) <= sent

\* the server never emits a byte of its own to a peer it has not authenticated, and the peer receives
\* exactly (a prefix of) what the target replied
PeerOnlyTarget ==
  outcome # "accept" => /\ \A i \in 1..Len(toPeer) : toPeer[i] = i
                        /\ Len(toPeer) <= tgtOut

AcceptOnlyValid == outcome = "accept" => C.content = "ok"
HangOnlyAuthenticated == outcome = "hang" => Authenticated(C)

\* "or just closes" is for peers that did not get as far as a complete first packet
CloseOnlyIncomplete == outcome = "close" => closedIncomplete

\* all of it, once the peer has sent a complete first record or request, or something unrecognisable
\* (evaluated when nothing is left to do; a close by the peer or the target ends the relay)
AllForwarded ==
  (Quiescent /\ ~Authenticated(C) /\ CompleteFaithful(C, sent) /\ ~closedIncomplete /\ case.down = "up")
    => /\ outcome = "redirect"
       /\ (~peerClosed /\ ~tgtClosed => Len(toTarget) = sent /\ Len(toPeer) = tgtOut /\ ~srvClosedPeer)

\* "relay to the configured redirect target": the configured port, or - RedirAddr without a port - the port this
\* peer connected to, whatever other connections of the same server did before
RightTarget == DialTo \in {"none", IF case.port.cfg = "fixed" THEN "P" ELSE case.port.lp}

\* not part of the statement: the reader decides exactly at the faithful stop position
DecidesAtStop == outcome \in {"redirect", "accept", "hang", "noredirect"} => consumed = Stop(C) /\ CompleteFaithful(C, consumed)
=============================================================================
