------------------------------ MODULE Handshake ------------------------------
(***************************************************************************)
(* The Cloak handshake with SYMBOLIC cryptography (C06 agreement, C07      *)
(* soundness + admin gate).                                                *)
(*                                                                         *)
(* Go anchors                                                              *)
(*   ClientSend    client/auth.go makeAuthenticationPayload +              *)
(*                 client/TLS.go DirectTLS.Handshake (hello) /             *)
(*                 client/websocket.go WSOverTLS.Handshake (GET + hidden)  *)
(*   Tamper(c)     the network (attacker without keys; loworder = forgery) *)
(*   ServerDecide  server/dispatcher.go dispatchConnection up to the       *)
(*                 reply / goWeb: readFirstPacket, AuthFirstPacket         *)
(*                 (TLS.go / websocket.go processFirstPacket, auth.go      *)
(*                 decryptClientInfo), admin gate, ProxyBook, GetUser      *)
(*   ClientFinish  client/TLS.go:143-168 / client/websocket.go:59-76       *)
(*                                                                         *)
(* Symbolic terms: private keys are names ("s" server static, "x" some     *)
(* other static key, "e" the client's ephemeral key, "j" = the unknown     *)
(* discrete log of a junk point).  Pub(k) is the public key of k,          *)
(* DH(a, Pub(b)) = {a, b} (symmetric by construction), Seal(key, nonce,    *)
(* pt) is an AEAD box that opens iff key and nonce match and the box is    *)
(* unmodified.  Nothing else can be learnt from a box.                     *)
(*                                                                         *)
(* Time: the server clock is 0, the timestamp sealed by the client is      *)
(* env.off (ticks).  The statement's window is STRICT: |ts - now| < W.     *)
(***************************************************************************)
EXTENDS Integers, FiniteSets, Sequences, TLC

CONSTANTS
  W,          \* half width of the acceptance window in ticks
  MaxTamper,  \* how many distinct tamper classes the network may combine (0 = honest network)
  Scope,      \* "agree" = C06 enumeration, "sound" = C07 enumeration, "neg" = small mixed space (restricts Init only)
  DevChoices  \* set of sets of deviation flags, one is picked per behaviour; {{}} = the design.
              \* Every flag must break an invariant (HandshakeNeg.tla checks that in one run).

VARIABLES
  phase,    \* "start" -> "wire" -> "decided" -> "done"
  cfg,      \* what the client was configured with
  env,      \* [ustate, off, rightKey]: state of cfg.uid at the server, clock offset, server key configured right
  pkt,      \* first packet on the wire
  tampers,  \* set of tamper classes applied to pkt
  srv,      \* server's decision [verdict, info, key, reply]
  cli,      \* client's result [ok, key]
  dev       \* the deviation flags of this behaviour (constant along it)

hvars == <<phase, cfg, env, pkt, tampers, srv, cli, dev>>
Dev == dev

-----------------------------------------------------------------------------
\* ------------------------------------------------------------ value spaces
UStates    == {"bypass", "admin", "dbok", "nocredit", "expired", "unknown"}
MLens      == {1, 11, 12}                 \* length classes of the proxy-method name (field is 12 bytes)
Encs       == {"plain", "aes256gcm", "aes128gcm", "chacha20"}
Sids       == {"zero", "mid", "max"}      \* mid is not a byte palindrome
Sigs       == {"chrome", "firefox", "safari"}
Transports == {"direct", "cdn"}
Snis       == {"fixed", "random", "address"}   \* "address": ServerName is an IP literal, the ClientHello carries no server_name (RFC 6066)

TamperClasses(tr) ==
  {"randsig",  \* bits 96..254 of the 32-byte random: change the X25519 point
   "nonce",    \* bits 0..95 of random: change the point AND the AEAD nonce
   "bit255",   \* top bit of random: ignored by X25519 (RFC 7748) - same key, same nonce
   "blockA",   \* first half of the sealed block  (TLS: session id;  WS: hidden[32:64])
   "blockB",   \* second half of the sealed block (TLS: x25519 key share; WS: hidden[64:96])
   "other",    \* TLS: SNI, cipher suites, other extensions; WS: request line and other headers
   "loworder"} \* a FORGED packet: random = a small-order point (0, 1, order 8, p-1, p, p+1), for which X25519
               \* yields the all-zero secret whatever the private key: the sender needs no server key
  \cup (IF tr = "direct" THEN {"len"}   \* record / handshake / vector length, type and version fields
                         ELSE {"b64"})  \* hidden value no longer well-formed base64

\* env.ustate is what the server's configuration / database says about cfg.uid NOW.  env.cache is the history
\* of that UID at this server: "none" = no record in the panel; "idle" = it connected earlier (it was authorised
\* then), its last session has just been removed and the record is still cached, session-less; "busy" = the
\* record is cached with another live session.  A new session needs the CURRENT authorisation in all three.
Authorised(us) == us \in {"bypass", "admin", "dbok"}
Caches == {"none", "idle", "busy", "same"}
\* "same" = a live session of this very (UID, session id) is registered: the connection JOINS it.  Joining is served
\* from the cached record; the authorisation of a live session is withdrawn at the usage-upload tick that follows the
\* revocation (env.tick = such a tick has happened since).  Everything else about the packet is checked as for a
\* fresh session: key, integrity, window, proxy method.

\* ---- server configuration.  Who is authorised without a database is exactly the configured set: the BypassUID
\* entries and, if one is configured, the AdminUID.  conf = [admin: an AdminUID is configured, nb: number of BypassUID
\* entries]; probe = which UID the first packet names ("std" = the user of env.ustate on the standard configuration).
Confs   == [admin : BOOLEAN, nb : {0, 1, 3}]
StdConf == [admin |-> TRUE, nb |-> 1]
Probes  == {"zero",      \* 16 zero bytes (what an absent / empty UID pads to)
            "ones",      \* 16 bytes 0xff
            "bypass",    \* a configured bypass UID
            "admin",     \* the configured admin UID
            "variant",   \* a bypass UID truncated and padded / shifted by one byte
            "random"}    \* an unlisted UID
ProbeExists(cf, pr) == ((pr \in {"bypass", "variant"}) => cf.nb > 0) /\ (pr = "admin" => cf.admin)
ProbeState(cf, pr)  == IF pr = "bypass" THEN "bypass" ELSE IF pr = "admin" THEN "admin" ELSE "unknown"
ConfEnvs == {[ustate |-> ProbeState(x[1], x[2]), off |-> 0, rightKey |-> TRUE, cache |-> "none", conf |-> x[1], probe |-> x[2], tick |-> FALSE] :
               x \in {y \in Confs \X Probes : ProbeExists(y[1], y[2])}}

-----------------------------------------------------------------------------
\* ------------------------------------------------------------ symbolic crypto
Pub(k)        == [pubof |-> k]
DH(priv, pub) == {priv, pub.pubof}
Seal(k, n, p) == [key |-> k, nonce |-> n, pt |-> p]

\* the 48-byte plaintext  uid16 | method12 | enc1 | ts8 | sid4 | flags1 | rsvd6
MethodId(c)   == [len |-> c.mlen, served |-> c.served]          \* identity of the configured name
Plaintext(c, ts) ==
  [uid    |-> c.uid,
   mfield |-> [name |-> MethodId(c), pad |-> 12 - c.mlen],      \* name followed by NUL padding
   enc    |-> c.enc,
   ts     |-> ts,
   sidbe  |-> c.sid,                                            \* 4 bytes big endian
   flags  |-> IF c.unord THEN {0} ELSE {}]                      \* set of set bit numbers

\* what the client was configured with, in the server's vocabulary
CfgInfo(c) == [uid |-> c.uid, method |-> MethodId(c), enc |-> c.enc, sid |-> c.sid, unord |-> c.unord]
NoInfo     == [uid |-> "none", method |-> [len |-> 0, served |-> FALSE], enc |-> "none", sid |-> "none", unord |-> FALSE]

-----------------------------------------------------------------------------
\* ------------------------------------------------------------ client, first packet
Target == IF env.rightKey THEN "s" ELSE "x"                     \* whose public key the client was given
ClientSecret == DH("e", Pub(Target))

Hello(c) ==
  LET blk == Seal(ClientSecret, "e", Plaintext(c, env.off)) IN  \* nonce = first 12 bytes of Pub(e)
  [tr  |-> c.tr, sig |-> c.sig, sni |-> c.sni,
   point |-> "e",            \* the curve point the 255 significant bits of random decode to
   n12   |-> "e",            \* first 12 bytes of random
   top   |-> 0,              \* bit 255 of random
   f1    |-> [blk |-> blk, ok |-> TRUE],     \* TLS session id / hidden[32:64]
   f2    |-> [blk |-> blk, ok |-> TRUE],     \* TLS x25519 key share / hidden[64:96]
   lenok |-> TRUE, otherok |-> TRUE, b64ok |-> TRUE]

ZeroSecret == {"zero"}     \* X25519(anything, small-order point): known to everybody

\* the forger seals a plaintext of its choice (here: the identity and stamp of cfg) under the zero secret
Forged(p) == Seal(ZeroSecret, "z", p.f1.blk.pt)

Apply(p, c) ==
  CASE c = "randsig" -> [p EXCEPT !.point = "j"]
    [] c = "nonce"   -> [p EXCEPT !.point = "j", !.n12 = "j"]
    [] c = "loworder" -> [p EXCEPT !.point = IF @ = "e" THEN "z" ELSE "j", !.n12 = IF @ = "e" THEN "z" ELSE "j",
                                   !.f1.blk = Forged(p), !.f2.blk = Forged(p)]
    [] c = "bit255"  -> [p EXCEPT !.top = 1 - @]
    [] c = "blockA"  -> [p EXCEPT !.f1.ok = FALSE]
    [] c = "blockB"  -> [p EXCEPT !.f2.ok = FALSE]
    [] c = "len"     -> [p EXCEPT !.lenok = FALSE]
    [] c = "b64"     -> [p EXCEPT !.b64ok = FALSE]
    [] c = "other"   -> [p EXCEPT !.otherok = FALSE]

-----------------------------------------------------------------------------
\* ------------------------------------------------------------ server
\* A packet whose framing / encoding / unrelated bytes were touched may be refused by the parser, may be
\* read with the authentication fields at other positions ("garbled"), or may be read as before.  The
\* statement leaves this open, so does the spec.
\* "joincached": read as "same", and the user is taken from the cached record of its live session without asking
\* the database - what the code does for a join; allowed until the next upload tick.
ParseChoices(p) ==
  (IF p.lenok /\ p.otherok /\ p.b64ok THEN {"same"} ELSE {"same", "garbled", "fail"})
  \cup (IF env.cache = "same" /\ ~Authorised(env.ustate) /\ (~env.tick \/ "IdleSkippedInUpload" \in Dev)
          THEN {"joincached"} ELSE {})

ServerSecret(p) == IF p.point = "z" THEN ZeroSecret ELSE DH("s", Pub(p.point))

\* X25519 reports an error exactly for small-order points; the server must stop there (TLS.go / websocket.go)
PointOK(p) == p.point # "z" \/ "LowOrderAccepted" \in Dev

OpenHello(p, choice) ==
  LET intact == choice \in {"same", "joincached"} /\ p.f1.ok /\ p.f2.ok
      match  == p.f1.blk.key = ServerSecret(p) /\ p.f1.blk.nonce = p.n12
  IN  IF choice # "fail" /\ PointOK(p) /\ ((intact /\ match) \/ (intact /\ "IgnoreDecryptError" \in Dev))
        THEN [ok |-> TRUE, pt |-> p.f1.blk.pt]
        ELSE [ok |-> FALSE, pt |-> p.f1.blk.pt]

\* ---- time.  1 tick = tolerance / 2 = 90 s; the server clock is 0, the sealed stamp is env.off ticks.  Besides the
\* offsets around both window edges the stamp may be arbitrarily far away (the 8 wire bytes carry any int64 number of
\* seconds and the server clock is whatever it is): exact integer distances in ticks, a year = 365.25 days.
\* Big stands for every distance beyond 584 years (stamps such as MaxInt64 / MinInt64 seconds).
Day  == 960
Year == 350640
Big  == 2000000000
FarMags == {Day, Year, 100 * Year, 292 * Year, 293 * Year, 300 * Year, 584 * Year, Big}
FarOffsets == FarMags \cup {0 - m : m \in FarMags}
SatTicks == 102481911    \* 2^63 ns: where a 64-bit nanosecond difference saturates (292.47 years)

InWindow(d) ==
  IF "NoTimestampCheck" \in Dev THEN TRUE
  ELSE IF "SkewSubSaturates" \in Dev /\ d > SatTicks THEN TRUE    \* |now - stamp| computed in saturating int64 ns
  ELSE IF "WindowInclusive" \in Dev THEN d >= -W /\ d <= W
  ELSE d > -W /\ d < W

TrimName(f) == IF "MethodSlice11" \in Dev /\ f.name.len = 12
                 THEN [len |-> 11, served |-> FALSE]       \* a truncated name is not in the proxy book
                 ELSE f.name
DecSid(s)   == IF "SidLittleEndian" \in Dev /\ s = "mid" THEN "midrev" ELSE s
FlagBit     == IF "FlagBitOther" \in Dev THEN 1 ELSE 0

Decode(pt) == [uid |-> pt.uid, method |-> TrimName(pt.mfield), enc |-> pt.enc,
               sid |-> DecSid(pt.sidbe), unord |-> FlagBit \in pt.flags]

Redirect == [verdict |-> "redirect", info |-> NoInfo, key |-> "none",
             reply |-> [present |-> FALSE, blk |-> Seal({}, "none", "none")]]

\* the decision of dispatchConnection, in the order of the code
Outcome(p, choice) ==
  LET o == OpenHello(p, choice) IN
  IF ~o.ok THEN Redirect
  ELSE IF ~InWindow(o.pt.ts) THEN Redirect
  ELSE
    LET info  == Decode(o.pt)
        us    == IF "ZeroUidBypassNoAdmin" \in Dev /\ env.probe = "zero" /\ ~env.conf.admin
                   THEN "bypass" ELSE env.ustate                \* info.uid can only be cfg.uid (sealed)
        reply == [present |-> TRUE, blk |-> Seal(ServerSecret(p), "rn", "K")]
        admin == us = "admin" /\ (info.sid = "zero" \/ "AdminNoSid" \in Dev)
    IN IF admin THEN [verdict |-> "admin", info |-> info, key |-> "K", reply |-> reply]
       ELSE IF ~info.method.served /\ "SkipMethodCheck" \notin Dev
               /\ ~(env.cache = "same" /\ "MethodCheckOnOpenOnly" \in Dev) THEN Redirect
       ELSE IF ~Authorised(us) /\ "SkipUidCheck" \notin Dev /\ choice # "joincached"
               /\ ~(env.cache = "idle" /\ "SkipRecheckSessionless" \in Dev) THEN Redirect
       ELSE [verdict |-> "accept", info |-> info, key |-> "K", reply |-> reply]

-----------------------------------------------------------------------------
\* ------------------------------------------------------------ client, reply
\* direct: ServerHello.random = nonce ++ ct[0:20], key_share = ct[20:48] ++ 4 random bytes, the client joins
\* buf[6:38] and buf[84:116]; cdn: one 60-byte binary message nonce ++ ct.
ClientResult(r) ==
  IF ~r.present THEN [ok |-> FALSE, key |-> "none"]
  ELSE IF "ReplyOffsetsMoved" \in Dev /\ cfg.tr = "direct" THEN [ok |-> FALSE, key |-> "none"]
  ELSE IF r.blk.key = ClientSecret THEN [ok |-> TRUE, key |-> r.blk.pt]
  ELSE [ok |-> FALSE, key |-> "none"]

-----------------------------------------------------------------------------
\* ------------------------------------------------------------ behaviour
\* Scope "agree": the C06 enumeration - every option combination, honest network, stamp strictly inside the
\*   window; uid u1 is a bypass user, u2 a database user, the admin user is explored on the options that can
\*   matter to the admin gate.   Scope "sound": the C07 enumeration.   Scope "neg": a small mixed space on which
\*   every deviation flag must break an invariant.
Offsets == IF Scope = "agree" THEN (1 - W)..(W - 1) ELSE (0 - W - 1)..(W + 1)

Configs ==
  IF Scope = "agree"
    THEN [uid : {"u1", "u2"}, mlen : MLens, served : {TRUE}, enc : Encs, sid : Sids, unord : BOOLEAN,
          sig : Sigs, tr : Transports, sni : Snis]
  ELSE IF Scope \in {"sound", "neg7"}   \* neg7 = the vacuity space of the C07 flags: small configurations
    THEN [uid : {"u1"}, mlen : {11}, served : BOOLEAN, enc : {"aes256gcm"}, sid : {"zero", "mid"},
          unord : {FALSE}, sig : {"chrome"}, tr : Transports, sni : {"fixed"}]
  ELSE [uid : {"u1"}, mlen : {11, 12}, served : BOOLEAN, enc : {"aes256gcm"}, sid : {"zero", "mid"},
        unord : BOOLEAN, sig : {"chrome"}, tr : Transports, sni : {"fixed"}]

Envs ==
  IF Scope = "agree"
    THEN [ustate : {"bypass", "dbok", "admin"}, off : Offsets, rightKey : {TRUE}, cache : {"none"}, conf : {StdConf}, probe : {"std"}, tick : {FALSE}]
  ELSE IF Scope = "sound"
    THEN [ustate : UStates, off : Offsets, rightKey : BOOLEAN, cache : {"none"}, conf : {StdConf}, probe : {"std"}, tick : {FALSE}]
         \cup [ustate : {"dbok", "nocredit", "expired", "unknown"}, off : {0}, rightKey : {TRUE}, cache : {"idle", "busy"},
                conf : {StdConf}, probe : {"std"}, tick : {FALSE}]
         \cup [ustate : {"nocredit", "expired", "unknown"}, off : {0}, rightKey : {TRUE}, cache : {"busy", "same"},
                conf : {StdConf}, probe : {"std"}, tick : {TRUE}]
         \cup [ustate : {"bypass", "dbok", "nocredit", "expired", "unknown"}, off : {0, W, 0 - W - 1}, rightKey : BOOLEAN,
                cache : {"same"}, conf : {StdConf}, probe : {"std"}, tick : {FALSE}]
         \cup [ustate : {"bypass", "dbok", "admin"}, off : FarOffsets, rightKey : {TRUE}, cache : {"none"}, conf : {StdConf}, probe : {"std"}, tick : {FALSE}]
         \cup ConfEnvs
  ELSE [ustate : {"bypass", "admin", "unknown"}, off : {0, W, W + 1, 293 * Year}, rightKey : BOOLEAN, cache : {"none"},
        conf : {StdConf}, probe : {"std"}, tick : {FALSE}]
       \cup [ustate : {"unknown"}, off : {0}, rightKey : {TRUE}, cache : {"idle"}, conf : {StdConf}, probe : {"std"}, tick : {FALSE}]
       \cup {e \in ConfEnvs : e.probe = "zero"}
       \cup [ustate : {"unknown"}, off : {0}, rightKey : {TRUE}, cache : {"same"}, conf : {StdConf}, probe : {"std"}, tick : {TRUE}]
       \cup [ustate : {"bypass"}, off : {0}, rightKey : {TRUE}, cache : {"same"}, conf : {StdConf}, probe : {"std"}, tick : {FALSE}]

Compatible(c, e) ==
  Scope = "agree" =>
    \/ c.uid = "u1" /\ e.ustate = "bypass"
    \/ c.uid = "u2" /\ e.ustate = "dbok"
    \/ e.ustate = "admin" /\ c.uid = "u1" /\ c.mlen = 11 /\ ~c.unord /\ c.sig = "chrome" /\ c.sni = "fixed"

Init ==
  /\ phase = "start"
  /\ cfg \in Configs
  /\ env \in Envs
  /\ Compatible(cfg, env)
  /\ dev \in DevChoices
  /\ pkt = [tr |-> "none"]
  /\ tampers = {}
  /\ srv = Redirect
  /\ cli = [ok |-> FALSE, key |-> "none"]

ClientSend ==
  /\ phase = "start"
  /\ phase' = "wire"
  /\ pkt' = Hello(cfg)
  /\ UNCHANGED <<cfg, env, tampers, srv, cli, dev>>

Tamper(c) ==
  /\ phase = "wire"
  /\ Cardinality(tampers) < MaxTamper
  /\ c \in TamperClasses(cfg.tr) \ tampers
  /\ env.cache \in {"none", "same"} /\ env.probe = "std"   \* histories, configurations and far-away stamps are explored
  /\ env.off \in (0 - W - 1)..(W + 1)          \* on untouched packets
  /\ (Scope \in {"neg", "neg7"} => c = "loworder")        \* the vacuity space needs this one class only
  /\ pkt' = Apply(pkt, c)
  /\ tampers' = tampers \cup {c}
  /\ UNCHANGED <<phase, cfg, env, srv, cli, dev>>

ServerDecide(choice) ==
  /\ phase = "wire"
  /\ choice \in ParseChoices(pkt)
  /\ srv' = Outcome(pkt, choice)
  /\ phase' = "decided"
  /\ UNCHANGED <<cfg, env, pkt, tampers, cli, dev>>

ClientFinish ==
  /\ phase = "decided"
  /\ cli' = ClientResult(srv.reply)
  /\ phase' = "done"
  /\ UNCHANGED <<cfg, env, pkt, tampers, srv, dev>>

Next ==
  \/ ClientSend
  \/ \E c \in {"randsig", "nonce", "bit255", "blockA", "blockB", "len", "b64", "other", "loworder"} : Tamper(c)
  \/ \E ch \in {"same", "garbled", "fail", "joincached"} : ServerDecide(ch)
  \/ ClientFinish

Spec == Init /\ [][Next]_hvars

-----------------------------------------------------------------------------
\* ------------------------------------------------------------ the properties
Accepted == phase \in {"decided", "done"} /\ srv.verdict \in {"accept", "admin"}

StrictWindow == env.off > -W /\ env.off < W

\* ghost facts about the packet the server saw
SealedToS      == env.rightKey /\ "loworder" \notin tampers
BlockUnmodified ==
  /\ pkt.f1.ok /\ pkt.f2.ok                 \* sealed block as sent
  /\ pkt.point = "e" /\ pkt.n12 = "e"       \* the key and nonce it was sealed under (bit 255 is not part of either)

\* C06: honest network, right key, timestamp strictly inside the window, authorised user, served method:
\* the client is accepted, the server's view of the client equals the configuration, both hold one key.
Agreement ==
  (phase = "done" /\ tampers = {} /\ env.rightKey /\ StrictWindow /\ Authorised(env.ustate) /\ cfg.served)
    => /\ srv.verdict \in {"accept", "admin"}
       /\ srv.info = CfgInfo(cfg)
       /\ cli.ok
       /\ cli.key = srv.key

\* whenever the client completes, under any network, it completed with the server's key and its own identity
KeyAgreement ==
  (phase = "done" /\ cli.ok) => (srv.verdict \in {"accept", "admin"} /\ cli.key = srv.key /\ srv.info = CfgInfo(cfg))

\* C07, first sentence.  An admin session (second sentence) carries no proxy traffic: the method clause
\* applies to proxy sessions.
Soundness ==
  Accepted =>
    /\ SealedToS
    /\ BlockUnmodified
    /\ StrictWindow
    /\ (Authorised(env.ustate) \/ (env.cache = "same" /\ ~env.tick))   \* a join: re-authorised at the next upload tick
    /\ (srv.verdict = "accept" => cfg.served)
    /\ srv.info = CfgInfo(cfg)

\* C07, second sentence
AdminGate ==
  (phase \in {"decided", "done"} /\ srv.verdict = "admin") => (env.ustate = "admin" /\ cfg.sid = "zero")

\* completeness of the admin gate (used for the expected observation of the replay, not part of C07)
AdminReach ==
  (Accepted /\ env.ustate = "admin" /\ cfg.sid = "zero") => srv.verdict = "admin"

TypeOK ==
  /\ phase \in {"start", "wire", "decided", "done"}
  /\ tampers \subseteq {"randsig", "nonce", "bit255", "blockA", "blockB", "len", "b64", "other", "loworder"}
  /\ env.cache \in Caches /\ env.tick \in BOOLEAN
  /\ env.conf \in Confs /\ env.probe \in Probes \cup {"std"}
  /\ Cardinality(tampers) <= MaxTamper
  /\ srv.verdict \in {"accept", "admin", "redirect"}
  /\ cli.ok \in BOOLEAN

-----------------------------------------------------------------------------
\* expected observation of a packet on the wire = the set of decisions the spec allows
Verdicts(p) == {Outcome(p, ch).verdict : ch \in ParseChoices(p)}
Expected(p) ==
  LET vs == Verdicts(p) IN
  IF vs \subseteq {"redirect"} THEN "must-redirect"
  ELSE IF "redirect" \notin vs THEN "must-accept"
  ELSE "either-but-same-identity"
=============================================================================
