----------------------------- MODULE RelayScript -----------------------------
(* RelayGen driven by a fixed script of environment steps (JSON array of      *)
(* {a,i,s,side} in the file named by the environment variable VERIF_SCRIPT):   *)
(* the one behaviour with exactly these steps (continuations in canonical      *)
(* order, then the canonical drain) is emitted.  Used to bind each named       *)
(* deviation of Relay.tla to the code with a scenario that exhibits it, and    *)
(* to reproduce a reported schedule.                                           *)
EXTENDS RelayGen, IOUtils

Script == JsonDeserialize(IOEnv.VERIF_SCRIPT)

SStep == IF InternalEnabled(st) THEN IntStep
         ELSE IF Len(hist) < Len(Script)
           THEN EnvStep /\ hist'[Len(hist')].ev = Script[Len(hist')]
           ELSE DrainStep
SSpec == GInit /\ [][SStep]_gvars
SDone == ~InternalEnabled(st) /\ Len(hist) >= Len(Script) /\ ~DeliverEnabled(st) /\ ~AppReadEnabled(st)
SEmit == SDone => PrintT(<<"BEHAVIOUR", ToJson([steps |-> hist])>>)
=============================================================================
