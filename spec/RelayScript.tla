----------------------------- MODULE RelayScript -----------------------------
(* RelayGen driven by fixed scripts of environment steps (a JSON array of     *)
(* scripts, each an array of {a,i,s,side}, in the file named by the           *)
(* environment variable VERIF_SCRIPT): for every script the one behaviour     *)
(* with exactly these steps (continuations in canonical order, then the       *)
(* canonical drain) is emitted.  Used to bind each named deviation of         *)
(* Relay.tla to the code with a scenario that exhibits it, and to reproduce a *)
(* reported schedule.  A script with a step the model does not enable emits   *)
(* nothing (the driver treats that as an error of the script).                *)
EXTENDS RelayGen, IOUtils

VARIABLE sidx
svars == <<st, hist, sidx>>

Scripts == JsonDeserialize(IOEnv.VERIF_SCRIPT)

SInit == GInit /\ sidx \in 1..Len(Scripts)
SStep == /\ UNCHANGED sidx
         /\ IF InternalEnabled(st) THEN IntStep
            ELSE IF Len(hist) < Len(Scripts[sidx])
              THEN EnvStep /\ hist'[Len(hist')].ev = Scripts[sidx][Len(hist')]
              ELSE DrainStep
SSpec == SInit /\ [][SStep]_svars
SDone == ~InternalEnabled(st) /\ Len(hist) >= Len(Scripts[sidx]) /\ ~DeliverEnabled(st) /\ ~AppReadEnabled(st)
SEmit == SDone => PrintT(<<"BEHAVIOUR", ToJson([steps |-> hist, script |-> sidx])>>)
=============================================================================
