--------------------------- MODULE ClientTimeouts ---------------------------
(* C20, behavioural meaning of the time-valued option StreamTimeout          *)
(* (README.md, "### Client"):                                                *)
(*   "StreamTimeout is the number of seconds of Cloak waits for an incoming  *)
(*    connection from a proxy program to send any data, after which the      *)
(*    connection will be closed by Cloak. Cloak will not enforce any timeout *)
(*    on TCP connections after it is established."                           *)
(* One local TCP connection of the proxy program, on a discrete clock whose  *)
(* unit is StreamTimeout/T (T = 1000: the harness checks to 1/1000 of the    *)
(* configured value on a virtual clock).  The environment waits, sends the   *)
(* first bytes, uploads and downloads; the spec says after every step what   *)
(* the proxy program must observe.  Nothing is said about UDP (the README    *)
(* sentence is about TCP connections only) and nothing about KeepAlive       *)
(* beyond the processed value checked by ClientConfig.                       *)
EXTENDS Naturals, Sequences

CONSTANTS T,         \* StreamTimeout in clock units
          Waits,     \* the pauses the environment may make
          MaxSteps   \* length of a behaviour

VARIABLES phase,     \* "waiting": accepted, nothing sent yet; "established"; "closed" (by Cloak)
          elapsed,   \* clock units since the connection was accepted
          hist       \* the steps so far, each with the expected observation
vars == <<phase, elapsed, hist>>

Init == phase = "waiting" /\ elapsed = 0 /\ hist = <<>>

LastIsWait == hist # <<>> /\ hist[Len(hist)].a = "wait"

\* time passes.  The deadline itself is never sampled (the README does not say which side of the
\* instant T belongs to), and back-to-back pauses are only interesting while waiting.
Wait(d) ==
  /\ phase \in {"waiting", "established"}
  /\ phase = "established" => ~LastIsWait
  /\ elapsed + d # T
  /\ elapsed' = elapsed + d
  /\ phase' = IF phase = "waiting" /\ elapsed + d > T THEN "closed" ELSE phase
  /\ hist' = Append(hist, [a |-> "wait", d |-> d, open |-> phase' # "closed"])

\* the proxy program sends its first bytes in time: the connection is established and the bytes
\* reach the far end of a new stream
First ==
  /\ phase = "waiting"
  /\ phase' = "established"
  /\ hist' = Append(hist, [a |-> "first", d |-> 0, open |-> TRUE])
  /\ UNCHANGED elapsed

\* established: bytes flow in both directions, intact, whatever the clock says
Up   == phase = "established" /\ hist' = Append(hist, [a |-> "up", d |-> 0, open |-> TRUE]) /\ UNCHANGED <<phase, elapsed>>
Down == phase = "established" /\ hist' = Append(hist, [a |-> "down", d |-> 0, open |-> TRUE]) /\ UNCHANGED <<phase, elapsed>>

Next == Len(hist) < MaxSteps /\ ((\E d \in Waits : Wait(d)) \/ First \/ Up \/ Down)
Spec == Init /\ [][Next]_vars

Terminal == Len(hist) = MaxSteps \/ phase = "closed"

\* ---------------------------------------------------------------- the README sentences
TypeOK == /\ phase \in {"waiting", "established", "closed"}
          /\ elapsed \in Nat
          /\ Len(hist) <= MaxSteps

Sent == \E i \in 1..Len(hist) : hist[i].a = "first"

\* "waits ... to send any data, after which the connection will be closed": closed exactly when the
\* clock passed T with nothing sent - not before, not later
WaitingInv == /\ phase = "waiting" => elapsed < T /\ ~Sent
              /\ phase = "closed" => elapsed > T /\ ~Sent
\* "will not enforce any timeout on TCP connections after it is established"
EstablishedInv == Sent => phase = "established"
NoTimeoutOnceEstablished == [][phase = "established" => phase' = "established"]_vars
\* every observation recorded so far says "open" except the one that closed the connection
ObsInv == \A i \in 1..Len(hist) : hist[i].open <=> ~(phase = "closed" /\ i = Len(hist))
=============================================================================
