SPECIFICATION SpecFwd
CONSTANT N = @N@
INVARIANTS IndInvHolds TypeOK OrderInv CloseInv HeapInv CompleteInv NoStaleErr
PROPERTY IndSpec
CHECK_DEADLOCK FALSE
