SPECIFICATION SpecSweep
CONSTANT N = @N@
INVARIANTS DrainEq
CHECK_DEADLOCK FALSE
