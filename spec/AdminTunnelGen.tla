--------------------------- MODULE AdminTunnelGen ---------------------------
(* Behaviour generator for X05: AdminTunnel's own steps, with the random    *)
(* walk kept out of the corners where nothing happens (an empty database    *)
(* refusing everybody, the same refusal over and over).  The filter only    *)
(* removes behaviours; every behaviour printed is one of AdminTunnel.       *)
EXTENDS AdminTunnel

Cnt(P(_)) == Cardinality({i \in 1..Len(hist) : P(hist[i])})
IsRefusal(e)  == e.o = "uopen" /\ e.v \in {"redirected", "hung"}
IsRead(e)     == e.o \in {"get", "list", "mismatch"}
IsJoin(e)     == e.o = "ujoin"
IsAdminSess(e) == e.o \in {"aopen", "aclose"}

Worthwhile ==
  /\ Len(hist) >= 1 => hist[1].o = "aopen"                       \* the administrator is there first
  /\ Len(hist) >= 2 => (hist[2].o = "post" /\ hist[2].k = "full")  \* ... and creates somebody
  /\ Cnt(IsRefusal) <= 3
  /\ Cnt(IsRead) <= 2
  /\ Cnt(IsJoin) <= 2
  /\ Cnt(IsAdminSess) <= 3

GenNext == Next /\ Worthwhile'
GenSpec == Init /\ [][GenNext]_vars
=============================================================================
