--------------------------- MODULE ReassemblyShim ---------------------------
(***************************************************************************)
(* Apalache flavour of the shim of ReassemblyInd.tla (the TLC / TLAPS      *)
(* flavour is spec/ReassemblyShim.tla).  Apalache 0.58 wants constant      *)
(* bounds in a..b when it has to enumerate the interval and does not read  *)
(* a function over 1..n as a sequence, hence:                              *)
(*   Rng(a, b)  = a..b   whenever a >= -1 and b <= 9 (or a > b)            *)
(*   AsSeq(f,l) = f      whenever DOMAIN f = 1..l and l <= 9               *)
(* which covers every use in ReassemblyInd.tla for N <= 8.                 *)
(***************************************************************************)
EXTENDS Integers, Sequences, Apalache

\* @type: (Int, Int) => Set(Int);
Rng(a, b) == {x \in (-1)..9 : a <= x /\ x <= b}

\* @type: (Int -> Int, Int) => Seq(Int);
AsSeq(f, len) == FunAsSeq(f, len, 9)

\* Seq(Int) is the declared type of the argument: nothing left to say
\* @type: Seq(Int) => Bool;
IsIntSeq(s) == TRUE
=============================================================================
