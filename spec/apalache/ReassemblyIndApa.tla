-------------------------- MODULE ReassemblyIndApa --------------------------
(***************************************************************************)
(* Apalache cross-check of the inductive argument of ReassemblyInd.tla for *)
(* a SYMBOLIC number of frames N \in 1..8 (the TLAPS proof in              *)
(* ReassemblyIndProof.tla covers every N).  Run in a directory that holds  *)
(* this file, ReassemblyInd.tla and the APALACHE flavour of                *)
(* ReassemblyShim.tla (spec/apalache/):                                    *)
(*   apalache-mc check --cinit=ConstInit --init=Init --inv=IndInv --length=0        *)
(*   apalache-mc check --cinit=ConstInit --init=IndInit --inv=IndInv --length=1     *)
(* The second run starts from ALL states that satisfy IndInv (reachable or *)
(* not): sets of at most 8 indices and sequences of at most 8 units are    *)
(* all there is for N <= 8, because IndInv bounds them by N.               *)
(***************************************************************************)
EXTENDS ReassemblyInd

ConstInit == N \in 1..8

IndInit ==
  /\ closeIdx = Gen(1)
  /\ arrived = Gen(8)
  /\ next = Gen(1)
  /\ heap = Gen(8)
  /\ pipe = Gen(8)
  /\ closeRep = Gen(1)
  /\ consumed = Gen(8)
  /\ staleErr = Gen(1)
  /\ IndInv
=============================================================================
