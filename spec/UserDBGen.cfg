SPECIFICATION GSpec
CONSTANTS
  UIDs = {"u1", "u2"}
  FirstUID = "u1"
  MaxOps = @DEPTH@
  OneFields = @ONEF@
  ValsOne = @ONEV@
  AllButFields = @ABF@
  ValsAllBut = @ABV@
  ValsAll = @ALLV@
  WithNone = @NONE@
  UpUsages = @UPU@
  DownUsages = @DNU@
  NoUser = NoUser
  Absent = Absent
  AbsentReadsZero = TRUE
  RejectNonPositiveRate = TRUE
INVARIANTS Emit Persist GenNoPanic
CHECK_DEADLOCK FALSE
