SPECIFICATION GSpec
CONSTANTS
  UIDs = {"u1", "u2"}
  FirstUID = "u1"
  MaxOps = @DEPTH@
  OneFields = @ONEF@
  ValsOne = @ONEV@
  AllButFields = @ABF@
  ValsAllBut = @ABV@
  ValsAll = @ALLV@
  WithNone = @NONE@
  UpUsages = @UPU@
  DownUsages = @DNU@
  AbsentReadsZero = TRUE
  RejectNonPositiveRate = TRUE
INVARIANTS Emit TypeOK Persist ConsumersTotal
PROPERTIES RejectedUnchanged ReadYourWrites DeletedGone UploadDecreases
CHECK_DEADLOCK FALSE
