-------------------------- MODULE TokenBucketTrace --------------------------
(* Trace validation for C19.  harness/multiplex/c19_test.go runs real      *)
(* multiplex.Sessions that share one LimitedValve inside a testing/        *)
(* synctest bubble (virtual clock) and records, in time order,             *)
(*   {ev:"reset", scn, tx:{rpm,burst,relax,maxmsg}, rx:{...}}              *)
(*        a new scenario; per direction the rate in bytes per millisecond, *)
(*        the burst the statement allows (one second of the rate), the     *)
(*        low-rate relaxation (largest message if it exceeds the burst,    *)
(*        else 0) and the largest message (for the lower bound)            *)
(*   {ev:"pass", dir:"tx"|"rx", t:<virtual ms>, n:<bytes>}                 *)
(*        n bytes crossed the measuring point: tx = accepted by the        *)
(*        network from the limited side, rx = handed to the limited        *)
(*        session after rxWait                                             *)
(*   {ev:"activate", t}   a new user record (full buckets) was made        *)
(*   {ev:"backlog.start"|"backlog.end", dir, t}                            *)
(*        between them at least one sender of that direction always has    *)
(*        more to send                                                     *)
(* The time stamps are replayed through the two meters of                  *)
(* TokenBucketDefs (the same operators the design model TokenBucket.tla    *)
(* checks against the bucket), so the virtual-queue invariant decides the  *)
(* upper bound for EVERY interval of the recorded execution in one pass.   *)
(*                                                                         *)
(* Units: bytes and milliseconds; rates are multiples of 1000 B/s so that  *)
(* rpm = rate/1000 is an integer.  With rate <= 10^5 B/s (rpm <= 100) and  *)
(* scenarios shorter than 10^6 ms every product stays below 10^8, inside   *)
(* TLC's 32-bit integers.  Time stamps are floored to the millisecond: an  *)
(* interval is mis-measured by < 1 ms = rpm bytes <= burst/1000, which the *)
(* statement's 1% granularity (burst/100) absorbs.                         *)
EXTENDS TokenBucketDefs, Sequences, TLC, Json, IOUtils

Trace == ndJsonDeserialize(IOEnv.VERIF_TRACE)

Dirs == {"tx", "rx"}

VARIABLES l,     \* next trace line to consume
          scn,   \* current scenario
          cfg,   \* cfg[dir] = [rpm, burst, relax, maxmsg]
          q,     \* q[dir]: virtual queue, bytes - the statement's literal bound
          qr,    \* qr[dir]: the same queue, but every re-activation of the user ("activate") forgives one burst:
                 \* what is over the bound here is NOT explained by fresh buckets on re-activation (defect D18)
          d,     \* d[dir]: deficit, bytes (0 outside backlogged phases)
          dpre,  \* dpre[dir]: deficit just before the last event of that direction paid in
          last,  \* last[dir]: time of the last event of that direction, ms
          bl,    \* bl[dir]: inside a backlogged phase
          cur    \* direction of the last event (diagnosis)
tvars == <<l, scn, cfg, q, qr, d, dpre, last, bl, cur>>

Ev == Trace[l]
IsEvent(e) == l <= Len(Trace) /\ Ev.ev = e /\ l' = l + 1

Zero == [x \in Dirs |-> 0]

TInit == /\ l = 1 /\ scn = 0
         /\ cfg = [x \in Dirs |-> [rpm |-> 0, burst |-> 0, relax |-> 0, maxmsg |-> 0]]
         /\ q = Zero /\ qr = Zero /\ d = Zero /\ dpre = Zero /\ last = Zero
         /\ bl = [x \in Dirs |-> FALSE] /\ cur = "-"
         /\ TLCSet(1, 1)

TReset == /\ IsEvent("reset")
          /\ scn' = Ev.scn
          /\ cfg' = [x \in Dirs |-> IF x = "tx" THEN Ev.tx ELSE Ev.rx]
          /\ q' = Zero /\ qr' = Zero /\ d' = Zero /\ dpre' = Zero /\ last' = Zero   \* the buckets are created full at t = 0
          /\ bl' = [x \in Dirs |-> FALSE] /\ cur' = "-"

\* rate * dt for an event of direction x at time t (events of one direction are in time order)
Flow(x, t) == cfg[x].rpm * (t - last[x])

Bound(x) == cfg[x].burst + (cfg[x].burst \div 100) + cfg[x].relax
\* first time in a scenario that the literal bound is exceeded while the forgiving one still holds: printed, not fatal
LitReport(x, nq) ==
  IF nq > Bound(x) /\ q[x] <= Bound(x) /\ qr[x] # q[x]
  THEN PrintT(<<"LITERAL_EXCEEDED", scn, l, x, nq, Bound(x)>>) ELSE TRUE

TPass == /\ IsEvent("pass")
         /\ LET x == Ev.dir  f == Flow(Ev.dir, Ev.t) IN
            /\ Ev.t >= last[x] /\ Ev.n > 0
            /\ q' = [q EXCEPT ![x] = VQPass(@, f, Ev.n)]
            /\ qr' = [qr EXCEPT ![x] = VQPass(@, f, Ev.n)]
            /\ LitReport(x, VQPass(q[x], f, Ev.n))
            /\ dpre' = [dpre EXCEPT ![x] = IF bl[x] THEN DefBefore(d[x], f) ELSE 0]
            /\ d' = [d EXCEPT ![x] = IF bl[x] THEN DefPass(@, f, Ev.n) ELSE 0]
            /\ last' = [last EXCEPT ![x] = Ev.t]
            /\ cur' = x
         /\ UNCHANGED <<scn, cfg, bl>>

TBacklogStart ==
         /\ IsEvent("backlog.start")
         /\ LET x == Ev.dir  f == Flow(Ev.dir, Ev.t) IN
            /\ Ev.t >= last[x] /\ ~bl[x]
            /\ q' = [q EXCEPT ![x] = VQPass(@, f, 0)] /\ qr' = [qr EXCEPT ![x] = VQPass(@, f, 0)]
            /\ d' = [d EXCEPT ![x] = 0] /\ dpre' = [dpre EXCEPT ![x] = 0]
            /\ last' = [last EXCEPT ![x] = Ev.t]
            /\ bl' = [bl EXCEPT ![x] = TRUE]
            /\ cur' = x
         /\ UNCHANGED <<scn, cfg>>

TBacklogEnd ==
         /\ IsEvent("backlog.end")
         /\ LET x == Ev.dir  f == Flow(Ev.dir, Ev.t) IN
            /\ Ev.t >= last[x] /\ bl[x]
            /\ q' = [q EXCEPT ![x] = VQPass(@, f, 0)] /\ qr' = [qr EXCEPT ![x] = VQPass(@, f, 0)]
            /\ dpre' = [dpre EXCEPT ![x] = DefBefore(d[x], f)]
            /\ d' = [d EXCEPT ![x] = 0]
            /\ last' = [last EXCEPT ![x] = Ev.t]
            /\ bl' = [bl EXCEPT ![x] = FALSE]
            /\ cur' = x
         /\ UNCHANGED <<scn, cfg>>

\* the user is activated anew (a fresh ActiveUser record, life-cycle scenarios).  The literal queue q takes no
\* notice; qr forgives one burst, so that TUpper tells an excess that fresh buckets explain (the known
\* defect D18, reported from the LITERAL_EXCEEDED lines) from one they do not (e.g. two valves alive at once)
TActivate ==
         /\ IsEvent("activate")
         /\ \A x \in Dirs : Ev.t >= last[x]
         /\ q' = [x \in Dirs |-> VQPass(q[x], Flow(x, Ev.t), 0)]
         /\ qr' = [x \in Dirs |-> VQPass(qr[x], Flow(x, Ev.t) + cfg[x].burst, 0)]
         /\ last' = [x \in Dirs |-> Ev.t]
         /\ cur' = "-"
         /\ UNCHANGED <<scn, cfg, d, dpre, bl>>

TNext == TReset \/ TPass \/ TBacklogStart \/ TBacklogEnd \/ TActivate
TSpec == TInit /\ [][TNext]_tvars

-----------------------------------------------------------------------------
\* the statement's 1% granularity
Gran(x) == cfg[x].burst \div 100

\* C19 upper bound: every interval [t1,t2] carries at most rate*(t2-t1) + burst (+ one message in the
\* low-rate scenarios where a single message is larger than the burst: relax > 0 only there)
\* (qr = q in every scenario without re-activations, i.e. everywhere outside the life-cycle stage)
TUpper == \A x \in Dirs : qr[x] <= cfg[x].burst + Gran(x) + cfg[x].relax

\* C19 lower bound: in a backlogged phase no interval falls short of rate*t by more than one message
TNotStarved == \A x \in Dirs : dpre[x] <= cfg[x].maxmsg + Gran(x)

HW == TLCSet(1, IF l > TLCGet(1) THEN l ELSE TLCGet(1))
TraceAccepted ==
  IF TLCGet(1) = Len(Trace) + 1 THEN TRUE
  ELSE PrintT(<<"REJECTED_AT_LINE", TLCGet(1)>>) /\ FALSE
=============================================================================
