--------------------------- MODULE ClientSessionGen ---------------------------
EXTENDS ClientSession, TLC, Json
Emit == pc = "done" => PrintT(<<"BEHAVIOUR", ToJson([mode |-> Mode, browser0 |-> Browser0, attempts |-> hist])>>)
=============================================================================
