SPECIFICATION TSpec
CONSTRAINT HW
POSTCONDITION TraceAccepted
CHECK_DEADLOCK FALSE
