-------------------------- MODULE RecordLayerTrace --------------------------
(* Trace validation for RecordLayer.  Recorded from the real code (harness/common/c05_test.go):  *)
(*   Reset(buf)        a new connection; the reader passes buffers of buf bytes                  *)
(*   W(w, id, len, ok) a complete record appeared on the wire, in WIRE ORDER: emitted by the     *)
(*                     byte-stream tap (under the segmenting conn's lock / on the receiving side *)
(*                     of a TCP socket) which re-parses the raw stream on its own; ok = the body *)
(*                     is, byte for byte, message id of writer w (messages are self-describing)  *)
(*   WF(w, id, len)    a Write call failed with zero bytes accepted by the transport             *)
(*   WX(w, id, len)    a Write call refused its message                                          *)
(*   R(w, id, len|err) one Read call of the receiving TLSConn / WebSocketConn returned           *)
(*   End(cnt)          all writers finished (cnt[w] = successful Write calls of writer w), the   *)
(*                     write side was closed and the reader stopped                              *)
(* W is WriteRec, R is Return; the underlying Reads (Chunk) are not observed and are silent      *)
(* steps - the returned values do not depend on them, so only the largest chunk is tried.        *)
(* Real lengths are mapped onto the model's 0..Buf+1 by Alpha, which keeps =0, <=buf and >buf.   *)
(* The design invariants are established on RecordLayer itself (RecordLayer_mc.cfg); here the    *)
(* conformance conditions sit in the guards of TWrite / TReturn / TEnd (the returned value must  *)
(* equal Expected(i), ids must be consecutive per writer, nothing may be missing at the end), so *)
(* the cfg only lists the cheap TypeOK: InOrderWhole / NoInterleave cost O(history) per state.   *)
EXTENDS RecordLayer, TLC, Json, IOUtils

Trace == ndJsonDeserialize(IOEnv.VERIF_TRACE)

VARIABLES l,      \* next trace line to consume
          rbuf,   \* the real reader buffer length of this connection
          rlen    \* real body length of every record
tvars == <<vars, l, rbuf, rlen>>

Ev == Trace[l]
IsEvent(e) == l <= Len(Trace) /\ Ev.ev = e /\ l' = l + 1

RealFmtMax == 65535

Alpha(n) == IF n > rbuf THEN Buf + 1
            ELSE IF n = rbuf THEN Buf
            ELSE Min(n, Buf - 1)

TInit == RLInit /\ l = 1 /\ rbuf = 0 /\ rlen = <<>> /\ TLCSet(1, 1)

TReset == /\ IsEvent("Reset")
          /\ wire' = <<>> /\ recs' = <<>>
          /\ cnt' = [w \in 1..NW |-> 0] /\ pend' = [w \in 1..NW |-> 0] /\ lock' = 0
          /\ fails' = <<>> /\ broken' = FALSE /\ stale' = 0
          /\ phase' = "hdr" /\ need' = H /\ hgot' = <<>> /\ bgot' = <<>> /\ nbc' = 0
          /\ out' = <<>>
          /\ rbuf' = Ev.buf /\ rlen' = <<>>

\* a whole record of writer w reached the wire; it must be that writer's next message
TWrite == /\ IsEvent("W")
          /\ Ev.ok /\ Ev.w \in 1..NW
          /\ Ev.id = cnt[Ev.w] + 1
          /\ Ev.len <= RealFmtMax          \* an accepted message fits the 16-bit length field
          /\ WriteRec(Ev.w, Alpha(Ev.len))
          /\ rlen' = Append(rlen, Ev.len)
          /\ UNCHANGED rbuf

\* a Write call reported failure and the transport had accepted none of its bytes: the message id is
\* used up and the message must not show up (a later W or R naming it has no matching step)
TWriteFail == /\ IsEvent("WF")
              /\ Ev.w \in 1..NW /\ Ev.id = cnt[Ev.w] + 1 /\ Ev.sent = 0
              /\ WriteFail(Ev.w, Alpha(Ev.len), 0)
              /\ UNCHANGED <<rbuf, rlen>>

\* a Write call refused its message (always allowed): the id is used up, nothing else happens
TRefuse == /\ IsEvent("WX")
           /\ Ev.w \in 1..NW /\ Ev.id = cnt[Ev.w] + 1
           /\ cnt' = [cnt EXCEPT ![Ev.w] = @ + 1]
           /\ UNCHANGED <<wire, recs, pend, lock, fails, broken, stale, rdvars, out, rbuf, rlen>>

\* silent: one underlying Read
TChunk == /\ need > 0 /\ wire # <<>>
          /\ Chunk(Min(need, Len(wire)))
          /\ UNCHANGED <<l, rbuf, rlen>>

\* the recorded return value must be the one the specification computes
TReturn == /\ IsEvent("R")
           /\ Return
           /\ LET i == Len(out') IN
              /\ i <= Len(recs)
              /\ out'[i] = Expected(i)
              /\ Ev.err = out'[i].err
              /\ ~Ev.err => (Ev.w = recs[i].w /\ Ev.id = recs[i].k /\ Ev.len = rlen[i])
           /\ UNCHANGED <<rbuf, rlen>>

\* clean end of a connection (cnt[w] = Write calls of writer w that returned): every accepted Write reached the wire, and unless the reader
\* stopped on an oversize record everything on the wire was returned
TEnd == /\ IsEvent("End")
        /\ \A w \in 1..Len(Ev.cnt) : w \in 1..NW /\ cnt[w] = Ev.cnt[w]
        /\ phase = "dead" \/ (wire = <<>> /\ phase = "hdr" /\ need = H /\ Len(out) = Len(recs))
        /\ UNCHANGED <<vars, rbuf, rlen>>

TNext == TReset \/ TWrite \/ TWriteFail \/ TRefuse \/ TChunk \/ TReturn \/ TEnd
TSpec == TInit /\ [][TNext]_tvars

HW == TLCSet(1, IF l > TLCGet(1) THEN l ELSE TLCGet(1))
TraceAccepted ==
  IF TLCGet(1) = Len(Trace) + 1 THEN TRUE
  ELSE PrintT(<<"REJECTED_AT_LINE", TLCGet(1)>>) /\ FALSE
=============================================================================
