----------------------------- MODULE StreamPipe -----------------------------
(* The receive pipe of a stream: multiplex.streamBufferedPipe (Mode =        *)
(* "stream", a byte FIFO) and multiplex.datagramBufferedPipe (Mode =         *)
(* "datagram", a FIFO of whole messages: pLens next to one byte buffer).     *)
(* One mutex + one condition variable (rwCond) shared by readers AND         *)
(* writers, one re-armed AfterFunc timer (broadcastAfter).                   *)
(*                                                                           *)
(* One action per critical section of the Go code.  A call is                *)
(*   idle --Enter--> chk --Block--> park --(Broadcast)--> woken --Wake--> chk *)
(*                   chk --Arm--> armed --Park--> park   (Read with deadline, *)
(*                                                        TimerUnlocked only) *)
(*                   chk --Return/Done--> idle                               *)
(* "chk" = contending for / holding the mutex, about to run the loop body;   *)
(* Block = the loop body ended in rwCond.Wait() (atomically releases the     *)
(* mutex and parks), Return/Done = it ended in a return.                     *)
(*                                                                           *)
(* Modelled AS THE CODE DOES IT (named, see x01.NOTES.md):                   *)
(*  DeadlineBeforeData  Read tests the deadline before it tests for data: an *)
(*                      expired deadline wins over buffered data             *)
(*  EofBeforeDeadline   closed-and-empty is tested first: EOF wins over an   *)
(*                      expired deadline                                     *)
(*  ShortKeepsMessage   datagram Read into a too small target returns        *)
(*                      (0, ErrShortBuffer), consumes nothing, no broadcast  *)
(*  LimitCheckedBefore  Write tests Len(buf) <= Limit BEFORE appending: the  *)
(*                      buffer may exceed the limit by one whole write       *)
(*  StaleTimer          the timer is neither stopped when the Read returns   *)
(*                      nor when the deadline is cleared: it fires later as  *)
(*                      a spurious broadcast                                 *)
(*  SharedCond          a Read that consumed nothing useful for a writer     *)
(*                      still wakes writers, every Write wakes writers too   *)
(* CONSTANT TimerUnlocked: FALSE = the code (since fix 90f21f9, defect D19:   *)
(* the AfterFunc callback takes the mutex around Broadcast, so it cannot fall *)
(* between a reader's broadcastAfter() and its Wait()).  TRUE = the code      *)
(* before that fix, time.AfterFunc(d, rwCond.Broadcast): kept as a negative   *)
(* config - NoLostWakeup and TimerCovers FAIL (Read arms the timer, the       *)
(* deadline passes, the timer fires before Wait() has registered the reader,  *)
(* which then parks with nothing left to wake it).                            *)
EXTENDS Integers, Sequences, FiniteSets, TLC

CONSTANTS
  Mode,        \* "stream" | "datagram"
  Readers,     \* reader threads (integers)
  Writers,     \* writer threads (integers, disjoint from Readers)
  Limit,       \* recvBufferSizeLimit in units: Write waits while Len(buf) > Limit
  Sizes,       \* payload sizes a Write may carry (units, 0..7)
  Caps,        \* target sizes a Read may offer (units)
  T,           \* time runs 1..T
  DLs,         \* SetReadDeadline(now + d) for d \in DLs (0 = already expired); clearing (zero time) is always possible
  MaxWrites, MaxReads, MaxCtl,   \* bounds on the number of Write / Read / Close+SetReadDeadline calls
  TimerUnlocked,  \* FALSE = the code: the timer's callback takes the mutex, so for the timer a reader's arming and parking
                  \*         are one step;
                  \* TRUE  = deviation (the code before fix 90f21f9): the callback broadcasts WITHOUT the mutex and can fall
                  \*         between broadcastAfter() and rwCond.Wait() of a Read that still holds the mutex (state "armed")
  DevChoices   \* set of sets of deviation flags; a behaviour picks one in Init ({{}} = the code as it is)

VARIABLES
  buf,      \* buffered units, each unit is  (index of the Write call) * 8 + position
  plens,    \* datagram: lengths of the queued messages (<<>> in stream mode)
  closed,
  dl,       \* read deadline, absolute; 0 = none (time.Time{})
  now,
  timer,    \* pending AfterFunc: absolute firing time, 0 = none pending
  pc, arg,  \* per thread: control state and the call's arguments
  nw, nr, nctl,  \* calls issued so far; a call is named (kind, index): Read #nr, Write #nw
  wlog,     \* ghost: accepted payloads in acceptance order (stream: units; datagram: messages)
  rlog,     \* ghost: what Reads returned, in return order (stream: units; datagram: messages)
  eofAt,    \* ghost: -1, or Len(rlog) when a Read first returned EOF
  last,     \* the last return, with a snapshot of the state it was decided on
  nret,     \* number of returns so far
  dev       \* deviation flags of this behaviour

pvars == <<buf, plens, closed, dl, now, timer, pc, arg, nw, nr, nctl, wlog, rlog, eofAt, last, nret, dev>>

Threads == Readers \cup Writers
Dgram   == Mode = "datagram"
Min(a, b) == IF a <= b THEN a ELSE b
Empty   == IF Dgram THEN plens = <<>> ELSE buf = <<>>
Expired == dl # 0 /\ dl <= now
Units(id, n) == TLCEval([j \in 1..n |-> id * 8 + j])
NoArg == [id |-> 0, n |-> 0, closing |-> FALSE]
NoRet == [id |-> 0, kind |-> "", n |-> 0, data |-> <<>>, err |-> "", tbc |-> FALSE,
          sclosed |-> FALSE, sempty |-> TRUE, sdl |-> 0, snow |-> 0, slen |-> 0]

\* the mutex: a reader in "armed" is inside its critical section (between broadcastAfter and Wait)
LockFree == \A q \in Threads : pc[q] # "armed"

\* rwCond.Broadcast(): every thread parked in Wait becomes runnable
BroadcastOn(f) == TLCEval([p \in Threads |-> IF f[p] = "park" THEN "woken" ELSE f[p]])
\* rwCond.Signal() instead (deviation CloseSignal): one parked thread, if any
SignalOn(f) == IF \E p \in Threads : f[p] = "park"
                 THEN {[f EXCEPT ![p] = "woken"] : p \in {q \in Threads : f[q] = "park"}}
                 ELSE {f}

Ret(p, kind, n, data, err, tbc) ==
  [id |-> arg[p].id, kind |-> kind, n |-> n, data |-> data, err |-> err, tbc |-> tbc,
   sclosed |-> closed, sempty |-> Empty, sdl |-> dl, snow |-> now, slen |-> Len(buf)]

Init ==
  /\ buf = <<>> /\ plens = <<>> /\ closed = FALSE /\ dl = 0 /\ now = 1 /\ timer = 0
  /\ pc = [p \in Threads |-> "idle"] /\ arg = [p \in Threads |-> NoArg]
  /\ nw = 0 /\ nr = 0 /\ nctl = 0
  /\ wlog = <<>> /\ rlog = <<>> /\ eofAt = -1 /\ last = NoRet /\ nret = 0
  /\ dev \in DevChoices

----------------------------------------------------------------------------
\* Read(target), len(target) = c units

ReadEnter(p, c) ==
  /\ p \in Readers /\ pc[p] = "idle" /\ nr < MaxReads
  /\ pc' = [pc EXCEPT ![p] = "chk"]
  /\ arg' = [arg EXCEPT ![p] = [id |-> nr + 1, n |-> c, closing |-> FALSE]]
  /\ nr' = nr + 1
  /\ UNCHANGED <<buf, plens, closed, dl, now, timer, nw, nctl, wlog, rlog, eofAt, last, nret, dev>>

\* the loop body reaches rwCond.Wait(): not (closed and empty), deadline not passed, nothing buffered.
\* With a deadline it first calls broadcastAfter(time.Until(deadline)): Stop the previous timer, arm a new one.
ReadBlock(p) ==
  /\ p \in Readers /\ pc[p] = "chk" /\ LockFree
  /\ ~(closed /\ Empty) /\ ~Expired /\ Empty
  /\ timer' = IF dl = 0 THEN timer
              ELSE IF "TimerNotRearmed" \in dev /\ timer # 0 THEN timer
              ELSE dl
  /\ pc' = [pc EXCEPT ![p] = IF TimerUnlocked /\ dl # 0 THEN "armed" ELSE "park"]
  /\ UNCHANGED <<buf, plens, closed, dl, now, arg, nw, nr, nctl, wlog, rlog, eofAt, last, nret, dev>>

\* rwCond.Wait() registers the reader and releases the mutex (only TimerUnlocked has this as a step of its own)
ReadPark(p) ==
  /\ p \in Readers /\ pc[p] = "armed"
  /\ pc' = [pc EXCEPT ![p] = "park"]
  /\ UNCHANGED <<buf, plens, closed, dl, now, timer, arg, nw, nr, nctl, wlog, rlog, eofAt, last, nret, dev>>

ReadReturn(p) ==
  /\ p \in Readers /\ pc[p] = "chk" /\ LockFree
  /\ (closed /\ Empty) \/ Expired \/ ~Empty
  /\ nret' = nret + 1
  /\ arg' = [arg EXCEPT ![p] = NoArg]
  /\ UNCHANGED <<closed, dl, now, timer, nw, nr, nctl, wlog, dev>>
  /\ LET idle == [pc EXCEPT ![p] = "idle"]
         bc   == IF "ReadNoBroadcast" \in dev THEN idle ELSE BroadcastOn(idle)
     IN
     IF closed /\ Empty THEN                                   \* EofBeforeDeadline
       /\ last' = Ret(p, "R", 0, <<>>, "eof", FALSE)
       /\ eofAt' = IF eofAt = -1 THEN Len(rlog) ELSE eofAt
       /\ pc' = idle /\ UNCHANGED <<buf, plens, rlog>>
     ELSE IF Expired THEN                                      \* DeadlineBeforeData
       /\ last' = Ret(p, "R", 0, <<>>, "timeout", FALSE)
       /\ pc' = idle /\ UNCHANGED <<buf, plens, rlog, eofAt>>
     ELSE IF ~Dgram THEN                                       \* bytes.Buffer.Read: up to len(target) bytes
       LET n == Min(arg[p].n, Len(buf)) IN
       /\ last' = Ret(p, "R", n, SubSeq(buf, 1, n), "", FALSE)
       /\ buf' = SubSeq(buf, n + 1, Len(buf))
       /\ rlog' = rlog \o SubSeq(buf, 1, n)
       /\ pc' = bc /\ UNCHANGED <<plens, eofAt>>
     ELSE LET m == Head(plens) IN
       IF arg[p].n < m THEN                                    \* ShortKeepsMessage
         /\ last' = Ret(p, "R", 0, <<>>, "short", FALSE)
         /\ pc' = idle /\ UNCHANGED <<buf, plens, rlog, eofAt>>
       ELSE
         /\ last' = Ret(p, "R", m, SubSeq(buf, 1, m), "", FALSE)
         /\ buf' = SubSeq(buf, m + 1, Len(buf))
         /\ plens' = Tail(plens)
         /\ rlog' = Append(rlog, SubSeq(buf, 1, m))
         /\ pc' = bc /\ UNCHANGED eofAt

Wake(p) ==                        \* ReadWake / WriteWake: Wait() returns, the mutex is re-acquired, the loop re-checks
  /\ pc[p] = "woken"
  /\ pc' = [pc EXCEPT ![p] = "chk"]
  /\ UNCHANGED <<buf, plens, closed, dl, now, timer, arg, nw, nr, nctl, wlog, rlog, eofAt, last, nret, dev>>
ReadWake(p)  == p \in Readers /\ Wake(p)
WriteWake(p) == p \in Writers /\ Wake(p)

----------------------------------------------------------------------------
\* Write(payload of s units); datagram mode also Write(closing frame)

WriteEnter(p, s, closing) ==
  /\ p \in Writers /\ pc[p] = "idle" /\ nw < MaxWrites
  /\ closing => Dgram /\ s = 0
  /\ pc' = [pc EXCEPT ![p] = "chk"]
  /\ arg' = [arg EXCEPT ![p] = [id |-> nw + 1, n |-> s, closing |-> closing]]
  /\ nw' = nw + 1
  /\ UNCHANGED <<buf, plens, closed, dl, now, timer, nr, nctl, wlog, rlog, eofAt, last, nret, dev>>

WriteBlock(p) ==
  /\ p \in Writers /\ pc[p] = "chk" /\ LockFree
  /\ ~closed /\ Len(buf) > Limit
  /\ pc' = [pc EXCEPT ![p] = "park"]
  /\ UNCHANGED <<buf, plens, closed, dl, now, timer, arg, nw, nr, nctl, wlog, rlog, eofAt, last, nret, dev>>

WriteDone(p) ==
  /\ p \in Writers /\ pc[p] = "chk" /\ LockFree
  /\ closed \/ Len(buf) <= Limit                               \* LimitCheckedBefore
  /\ nret' = nret + 1
  /\ arg' = [arg EXCEPT ![p] = NoArg]
  /\ UNCHANGED <<dl, now, timer, nw, nr, nctl, rlog, eofAt, dev>>
  /\ LET idle == [pc EXCEPT ![p] = "idle"]
         bc   == IF "WriteNoBroadcast" \in dev THEN idle ELSE BroadcastOn(idle)
         data == Units(arg[p].id, arg[p].n)
     IN
     IF closed THEN
       /\ last' = Ret(p, "W", 0, <<>>, "closed", TRUE)
       /\ pc' = idle /\ UNCHANGED <<buf, plens, closed, wlog>>
     ELSE IF arg[p].closing THEN
       /\ last' = Ret(p, "W", 0, <<>>, "", TRUE)
       /\ closed' = TRUE
       /\ pc' = bc /\ UNCHANGED <<buf, plens, wlog>>
     ELSE
       /\ last' = Ret(p, "W", arg[p].n, <<>>, "", FALSE)
       /\ buf' = buf \o data
       /\ plens' = IF Dgram THEN Append(plens, arg[p].n) ELSE plens
       /\ wlog' = IF Dgram THEN Append(wlog, data) ELSE wlog \o data
       /\ pc' = bc /\ UNCHANGED closed

----------------------------------------------------------------------------
\* Close, SetReadDeadline: one critical section each, they never wait

Close ==
  /\ nctl < MaxCtl /\ LockFree
  /\ nctl' = nctl + 1
  /\ closed' = TRUE
  /\ pc' \in (IF "CloseWithoutBroadcast" \in dev THEN {pc}
              ELSE IF "CloseSignal" \in dev THEN SignalOn(pc)
              ELSE {BroadcastOn(pc)})
  /\ UNCHANGED <<buf, plens, dl, now, timer, arg, nw, nr, wlog, rlog, eofAt, last, nret, dev>>

\* d = -1: SetReadDeadline(time.Time{}) clears; d >= 0: SetReadDeadline(now + d)
SetReadDeadline(d) ==
  /\ nctl < MaxCtl /\ LockFree
  /\ nctl' = nctl + 1
  /\ dl' = IF d < 0 THEN 0 ELSE now + d
  /\ pc' = IF "DeadlineNoBroadcast" \in dev THEN pc ELSE BroadcastOn(pc)
  /\ UNCHANGED <<buf, plens, closed, now, timer, arg, nw, nr, wlog, rlog, eofAt, last, nret, dev>>

----------------------------------------------------------------------------
\* time: a due timer fires before time moves on (its broadcast may still be overtaken by any other step at that instant)

Tick ==
  /\ now < T
  /\ timer = 0 \/ timer > now
  /\ now' = now + 1
  /\ UNCHANGED <<buf, plens, closed, dl, timer, pc, arg, nw, nr, nctl, wlog, rlog, eofAt, last, nret, dev>>

TimerFire ==
  /\ timer # 0 /\ timer <= now
  /\ timer' = 0
  /\ pc' = BroadcastOn(pc)
  /\ UNCHANGED <<buf, plens, closed, dl, now, arg, nw, nr, nctl, wlog, rlog, eofAt, last, nret, dev>>

----------------------------------------------------------------------------
Internal(p) == ReadBlock(p) \/ ReadPark(p) \/ ReadReturn(p) \/ ReadWake(p) \/ WriteBlock(p) \/ WriteDone(p) \/ WriteWake(p)
EnvCall ==
  \/ \E p \in Readers, c \in Caps : ReadEnter(p, c)
  \/ \E p \in Writers, s \in Sizes : WriteEnter(p, s, FALSE)
  \/ \E p \in Writers : WriteEnter(p, 0, TRUE)
  \/ Close
  \/ \E d \in DLs \cup {-1} : SetReadDeadline(d)
Next == EnvCall \/ Tick \/ TimerFire \/ \E p \in Threads : Internal(p)
Spec == Init /\ [][Next]_pvars

----------------------------------------------------------------------------
\* properties

IsPrefix(s, t) == Len(s) <= Len(t) /\ SubSeq(t, 1, Len(s)) = s
RECURSIVE Flat(_)
Flat(ss) == IF ss = <<>> THEN <<>> ELSE Head(ss) \o Flat(Tail(ss))
RECURSIVE Sum(_)
Sum(s) == IF s = <<>> THEN 0 ELSE Head(s) + Sum(Tail(s))

TypeOK ==
  /\ pc \in [Threads -> {"idle", "chk", "armed", "park", "woken"}]
  /\ closed \in BOOLEAN /\ now \in 1..T /\ dl >= 0 /\ timer >= 0
  /\ Dgram => Sum(plens) = Len(buf)
  /\ ~Dgram => plens = <<>>

\* (a) what Reads returned is a prefix of what Writes were accepted (whole messages in datagram mode) ...
PrefixInv == IsPrefix(rlog, wlog)
\* ... and nothing is lost or invented in between: accepted = returned ++ still buffered
Conservation ==
  IF Dgram THEN /\ Flat(wlog) = Flat(rlog) \o buf
                /\ Len(wlog) = Len(rlog) + Len(plens)
                /\ \A i \in 1..Len(plens) : Len(wlog[Len(rlog) + i]) = plens[i]
           ELSE wlog = rlog \o buf

\* (b) EOF only when closed and drained; nothing is returned (or accepted) after an EOF
EofSoundP(l)  == l.err = "eof" => l.sclosed /\ l.sempty
EofFinal      == eofAt >= 0 => Len(rlog) = eofAt /\ closed /\ Empty
\* (c) ErrTimeout only if a deadline is set and has passed at the moment of return
TimeoutSoundP(l) == l.err = "timeout" => l.sdl # 0 /\ l.sdl <= l.snow
\* a Write is accepted only by an open pipe holding at most Limit, refused only by a closed one
WriteSoundP(l) == l.kind = "W" => /\ (l.err = "closed") = l.sclosed
                                  /\ l.err = "" => l.slen <= Limit
ShortSoundP(l) == l.err = "short" => Dgram /\ ~l.sempty
\* as invariants over the ghost `last` (its snapshot fields are the state the return was decided on) ...
EofSound == EofSoundP(last)
TimeoutSound == TimeoutSoundP(last)
WriteSound == WriteSoundP(last)
ShortSound == ShortSoundP(last)
\* ... and as action properties, so that the exhaustive run can leave `last`/`nret` out of the state VIEW
RetSound == [][EofSoundP(last') /\ TimeoutSoundP(last') /\ WriteSoundP(last') /\ ShortSoundP(last')]_pvars
McView == <<buf, plens, closed, dl, now, timer, pc, arg, nw, nr, nctl, wlog, rlog, eofAt, dev>>
Sym == Permutations(Readers) \cup Permutations(Writers)

\* (d) no lost wake-up.  Quiescent: nothing can happen at this instant without the environment (no thread runnable,
\* no timer due).  This is stronger than "no pending timer at all": a parked call whose condition holds must not have
\* to wait for some unrelated later timer either.
Quiescent == /\ \A p \in Threads : pc[p] \in {"idle", "park"}
             /\ timer = 0 \/ timer > now
ReaderMustGo == ~Empty \/ closed \/ Expired
WriterMustGo == Len(buf) <= Limit \/ closed
NoLostWakeup ==
  Quiescent => /\ \A r \in Readers : pc[r] = "park" => ~ReaderMustGo
               /\ \A w \in Writers : pc[w] = "park" => ~WriterMustGo
\* the part of (d) that does not depend on the timer: data, close, writers (holds even with TimerUnlocked = TRUE)
NoLostWakeupData ==
  Quiescent => /\ \A r \in Readers : pc[r] = "park" => ~(~Empty \/ closed)
               /\ \A w \in Writers : pc[w] = "park" => ~WriterMustGo
\* (e) a parked reader with a deadline has a pending timer firing no later than the deadline
TimerCovers == \A r \in Readers : (pc[r] = "park" /\ dl # 0) => (timer # 0 /\ timer <= dl)
\* consequence: a reader and a writer are never parked together once things settle
NotBothParked == Quiescent => ~(\E r \in Readers, w \in Writers : pc[r] = "park" /\ pc[w] = "park")

----------------------------------------------------------------------------
\* Non-vacuity: StreamPipe_neg.cfg runs the same Spec with DevChoices = {{flag}} and ONE invariant; TLC must report it
\* violated: CloseWithoutBroadcast, CloseSignal, ReadNoBroadcast, WriteNoBroadcast -> NoLostWakeup;
\* DeadlineNoBroadcast, TimerNotRearmed -> NoLostWakeup and TimerCovers.
\* TimerUnlocked = TRUE (StreamPipe_mc.cfg with that one invariant) -> NoLostWakeup and TimerCovers as well.
=============================================================================
