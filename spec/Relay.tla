------------------------------- MODULE Relay -------------------------------
(* X02 - the relay layer between applications and the multiplexer.           *)
(*   client: internal/client/piper.go RouteTCP (accept loop, session reuse,   *)
(*           first read under streamTimeout, OpenStream, first Write, the two *)
(*           common.Copy directions);                                         *)
(*   server: internal/server/dispatcher.go serveSession (Accept loop, proxy   *)
(*           dial per stream, the two copy directions, session accounting).   *)
(* The multiplexer is abstracted to what Mux.tla / C01,C03,C12 decide: one    *)
(* tunnel connection per session = a FIFO of frames per direction, a stream   *)
(* close travels as a frame behind the stream's data, a session close as a    *)
(* "bye" frame; a session side that closes, closes its tunnel connection.     *)
(* The network is the harness's vnet: a write on a connection whose peer end  *)
(* is closed fails at once; EOF is read after the data in flight; application *)
(* links (local app <-> RouteTCP, serveSession <-> proxy app) hold ONE write  *)
(* per direction (Bound), so that a copy goroutine can be blocked in Write.   *)
(* Time is counted in ticks of 15 s: session inactivity check = 2 ticks       *)
(* (time.AfterFunc(30 s) at MakeSession and at every zero-crossing of the     *)
(* stream count; stale checks are NOT cancelled), first read deadline = STO.  *)
(*                                                                            *)
(* The state is ONE record st; actions are guard + state transformer, so the  *)
(* composite effects of the code (Copy's deferred src.Close();dst.Close()     *)
(* -> Stream.Close -> closing frame -> count 0 -> singleplex Session.Close    *)
(* -> bye -> closeAll) are function composition.                              *)
(*                                                                            *)
(* What the code does is modelled as it is.  Surprising behaviour has a name  *)
(* (history flags / comments marked DEVIATION):                               *)
(*  EitherEndClosesBoth  common.Copy closes BOTH ends when either direction   *)
(*                       ends: no half-close.  A design limit of the relay,   *)
(*                       not judged: property (a) is restricted to what the   *)
(*                       relay can promise - the bytes written before an      *)
(*                       application's EOF are delivered if the other         *)
(*                       direction has not ended first, i.e. the peer has not *)
(*                       closed and sends nothing the closing side can no     *)
(*                       longer take (history cutUp/cutDn, causes A, B, C).   *)
(*  DialFailKillsSession serveSession answers a failed proxy dial by closing  *)
(*                       the WHOLE session (all neighbours), not the stream   *)
(*                       (documented nowhere; modelled as it is, not judged). *)
(*  SessionChosenAtAccept  (flag in Dev; part of every code-faithful        *)
(*                       configuration; known finding D23) the session is     *)
(*                       chosen at accept time; the goroutine opens its       *)
(*                       stream after the first read, which may be later than *)
(*                       the session's 30 s idle check -> the connection is   *)
(*                       dropped with its first bytes.  FirstBytesInv is      *)
(*                       violated with the flag and holds without it.         *)
(*  SingleplexIdleLeak   singleplex: a connection that ends before its first  *)
(*                       read leaves its freshly made session to the 30 s     *)
(*                       idle check (nobody closes it).                       *)
(*  ClosedQueueServed    Accept() drains streams still queued in the closed   *)
(*                       accept channel: a proxy connection is dialled for a  *)
(*                       stream of a session that is already closed.          *)
(* Dev = seeded deviations for the negative (non-vacuity) configs.            *)
EXTENDS Integers, Sequences, FiniteSets, TLC

CONSTANTS NConn,       \* local connections 1..NConn (accepted in this order)
          MaxUp,       \* units a local application may write
          MaxDown,     \* units a proxy application may write
          Singleplex,  \* BOOLEAN: NumConn <= 0 in the client configuration
          MaxSess,     \* bound on session generations
          STO,         \* streamTimeout in ticks (first read deadline), >= 1
          Feat,        \* environment features: "fail","dialfail","time","reset","async","prio"
          Dev          \* seeded deviations (negative configs)

C == 1..NConn
S == 1..MaxSess
IdleTicks == 2
U(i, k) == i * 10 + k
ConnOf(u) == u \div 10
AllUnits(i, n) == [k \in 1..n |-> U(i, k)]
IsPrefix(a, b) == Len(a) <= Len(b) /\ \A k \in 1..Len(a) : a[k] = b[k]

VARIABLE st
vars == <<st>>

DFrame(i, us) == [t |-> "d", c |-> i, u |-> us]
XFrame(i) == [t |-> "x", c |-> i, u |-> <<>>]
Bye == [t |-> "bye", c |-> 0, u |-> <<>>]

Init ==
  st = [loop |-> 0, cur |-> 0, nsess |-> 0, needs |-> 0,
        lapp |-> [i \in C |-> "none"], lrel |-> [i \in C |-> "none"],
        upL |-> [i \in C |-> <<>>], dnL |-> [i \in C |-> <<>>],
        wroteUp |-> [i \in C |-> 0], wroteDn |-> [i \in C |-> 0],
        gotUp |-> [i \in C |-> <<>>], gotDn |-> [i \in C |-> <<>>],
        eofUp |-> [i \in C |-> FALSE], eofDn |-> [i \in C |-> FALSE],
        rpc |-> [i \in C |-> "none"], sess |-> [i \in C |-> 0],
        first |-> [i \in C |-> <<>>], frdl |-> [i \in C |-> 0],
        cst |-> [i \in C |-> "none"], cbuf |-> [i \in C |-> <<>>],
        cup |-> [i \in C |-> "none"], cdn |-> [i \in C |-> "none"], cdnH |-> [i \in C |-> <<>>],
        sst |-> [i \in C |-> "none"], sbuf |-> [i \in C |-> <<>>],
        sup |-> [i \in C |-> "none"], supH |-> [i \in C |-> <<>>], sdn |-> [i \in C |-> "none"],
        prel |-> [i \in C |-> "none"], papp |-> [i \in C |-> "none"],
        upP |-> [i \in C |-> <<>>], dnP |-> [i \in C |-> <<>>],
        cs |-> [s \in S |-> "none"], ss |-> [s \in S |-> "none"],
        tqU |-> [s \in S |-> <<>>], tqD |-> [s \in S |-> <<>>],
        tclC |-> [s \in S |-> FALSE], tclS |-> [s \in S |-> FALSE], tfail |-> [s \in S |-> FALSE],
        accQ |-> [s \in S |-> <<>>], serve |-> [s \in S |-> FALSE],
        cidle |-> [s \in S |-> {}], sidle |-> [s \in S |-> {}],
        armFail |-> FALSE, pord |-> <<>>,
        \* history (never read by the actions)
        kill |-> [s \in S |-> ""], hurt |-> [i \in C |-> FALSE], timedOut |-> [i \in C |-> FALSE],
        reset |-> [i \in C |-> FALSE], cutUp |-> [i \in C |-> FALSE], cutDn |-> [i \in C |-> FALSE],
        attClosed |-> [i \in C |-> FALSE], stale |-> [i \in C |-> FALSE], lateDial |-> [i \in C |-> FALSE], dfail |-> [i \in C |-> FALSE]]

-----------------------------------------------------------------------------
(* session / tunnel helpers (x = a state record)                             *)
SessOpen(x, side, s) == (IF side = "c" THEN x.cs[s] ELSE x.ss[s]) = "open"
StOf(x, side) == IF side = "c" THEN x.cst ELSE x.sst
Count(x, side, s) == Cardinality({i \in C : x.sess[i] = s /\ StOf(x, side)[i] = "open"})
CanSend(x, s) == ~x.tfail[s] /\ ~x.tclC[s] /\ ~x.tclS[s]
SendOk(x, side, s) == SessOpen(x, side, s) /\ CanSend(x, s)
Enq(x, side, s, f) == IF side = "c" THEN [x EXCEPT !.tqU[s] = Append(@, f)] ELSE [x EXCEPT !.tqD[s] = Append(@, f)]
Attached(x, s) == {i \in C : x.sess[i] = s}

\* closeSession: closed flag + closeStreams (every open stream of this side closed, receive buffers keep their data);
\* pending idle checks of a closed session are no-ops, they are dropped here
CloseMark(x, side, s) ==
  IF side = "c"
    THEN [x EXCEPT !.cs[s] = "closed", !.cidle[s] = {},
                   !.cst = [i \in C |-> IF x.sess[i] = s /\ x.cst[i] = "open" THEN "closed" ELSE x.cst[i]]]
    ELSE [x EXCEPT !.ss[s] = "closed", !.sidle[s] = {},
                   !.sst = [i \in C |-> IF x.sess[i] = s /\ x.sst[i] = "open" THEN "closed" ELSE x.sst[i]]]
\* sb.closeAll: this side's end of the tunnel connection is closed; nobody reads the frames travelling towards it
CloseConn(x, side, s) ==
  IF side = "c" THEN [x EXCEPT !.tclC[s] = TRUE, !.tqD[s] = <<>>] ELSE [x EXCEPT !.tclS[s] = TRUE, !.tqU[s] = <<>>]
PassiveClose(x, side, s) == IF ~SessOpen(x, side, s) THEN x ELSE CloseConn(CloseMark(x, side, s), side, s)
\* a write on the tunnel connection fails (the peer has closed its end): passiveClose.  DEVIATION EitherEndClosesBoth,
\* cause C: frames still in flight TOWARDS this side are never read - opposite traffic after the peer's (singleplex)
\* session close loses the peer's last bytes
SendFailClose(x, side, s) ==
  IF ~SessOpen(x, side, s) THEN x
  ELSE LET lost == (IF side = "s" THEN x.tqU[s] ELSE x.tqD[s]) # <<>>
           a == IF ~lost THEN x
                ELSE IF side = "s" THEN [x EXCEPT !.cutUp = [i \in C |-> x.cutUp[i] \/ x.sess[i] = s]]
                ELSE [x EXCEPT !.cutDn = [i \in C |-> x.cutDn[i] \/ x.sess[i] = s]]
       IN PassiveClose(a, side, s)
\* Session.Close / checkTimeout: mark, notice frame if it can still be written, closeAll
ActiveClose(x, side, s) ==
  IF ~SessOpen(x, side, s) THEN x
  ELSE LET a == CloseMark(x, side, s)
           b == IF CanSend(a, s) THEN Enq(a, side, s, Bye) ELSE a
       IN CloseConn(b, side, s)
MarkKill(x, s, why) == [x EXCEPT !.kill[s] = IF @ = "" THEN why ELSE @]
Hurt(x, s) == [x EXCEPT !.hurt = [i \in C |-> x.hurt[i] \/ x.sess[i] = s]]
ArmIdle(x, side, s) ==
  IF "time" \notin Feat THEN x
  ELSE IF side = "c" THEN [x EXCEPT !.cidle[s] = @ \cup {IdleTicks}] ELSE [x EXCEPT !.sidle[s] = @ \cup {IdleTicks}]
\* after the stream count of a side was decremented
ZeroCross(x, side, s) ==
  IF Count(x, side, s) # 0 THEN x
  ELSE IF side = "c" /\ Singleplex /\ "SingleNoClose" \notin Dev
         THEN ActiveClose(MarkKill(x, s, "single"), "c", s)
  ELSE IF side = "c" /\ "MuxCloseOnZero" \in Dev THEN ActiveClose(x, "c", s)
  ELSE IF "NoRearm" \in Dev THEN x
  ELSE ArmIdle(x, side, s)
SetStream(x, side, i, v) == IF side = "c" THEN [x EXCEPT !.cst[i] = v] ELSE [x EXCEPT !.sst[i] = v]
\* Stream.Close(): no-op on a closed stream; closing frame; if that cannot be sent the session is gone (passiveClose)
StreamActiveClose(x, side, i) ==
  LET s == x.sess[i] IN
  IF StOf(x, side)[i] # "open" THEN x
  ELSE LET a == SetStream(x, side, i, "closed") IN
       IF SendOk(a, side, s) THEN ZeroCross(Enq(a, side, s, XFrame(i)), side, s) ELSE SendFailClose(a, side, s)
\* closing frame received
StreamPassiveClose(x, side, i) ==
  IF StOf(x, side)[i] # "open" THEN x ELSE ZeroCross(SetStream(x, side, i, "closed"), side, x.sess[i])
\* a data frame: written, or the write fails and the session is closed passively
SendData(x, side, s, f) == IF SendOk(x, side, s) THEN Enq(x, side, s, f) ELSE SendFailClose(x, side, s)

MakeSess(x) ==
  LET g == x.nsess + 1 IN
  [x EXCEPT !.nsess = g, !.cs[g] = "open", !.ss[g] = "open", !.serve[g] = TRUE,
            !.cidle[g] = IF "time" \in Feat THEN {IdleTicks} ELSE {},
            !.sidle[g] = IF "time" \in Feat THEN {IdleTicks} ELSE {}]

RpcDone(x, i) == IF x.cup[i] = "done" /\ x.cdn[i] = "done" THEN [x EXCEPT !.rpc[i] = "done"] ELSE x

-----------------------------------------------------------------------------
(* RouteTCP: accept loop                                                      *)
Shared == ~Singleplex \/ "SingleShared" \in Dev
NeedNew(x) == IF x.cur = 0 THEN TRUE ELSE (x.cs[x.cur] = "closed" /\ "NoIsClosedCheck" \notin Dev)
\* (model bound: a connection is dialled only while the session it may need can still be made)
G_LocalDial(x, i) == /\ x.lapp[i] = "none" /\ (IF i = 1 THEN TRUE ELSE x.lapp[i - 1] # "none") /\ x.loop = 0
                     /\ x.nsess < MaxSess \/ (Shared /\ ~NeedNew(x) /\ "RemakeAlways" \notin Dev)
E_LocalDial(x, i) == [x EXCEPT !.lapp[i] = "open", !.lrel[i] = "open", !.loop = i]

G_NeedSession(x) == x.loop # 0 /\ (Shared /\ (NeedNew(x) \/ "RemakeAlways" \in Dev) => x.nsess < MaxSess)
E_NeedSession(x) ==
  LET i == x.loop IN
  IF ~Shared THEN [x EXCEPT !.loop = 0, !.rpc[i] = "needsess"]
  ELSE LET a == IF NeedNew(x) \/ "RemakeAlways" \in Dev
                  THEN [MakeSess(x) EXCEPT !.cur = x.nsess + 1, !.needs = IF NeedNew(x) THEN @ + 1 ELSE @]
                  ELSE x
       \* attached to a session that has been killed but whose client side does not know yet: the kill is this
       \* connection's cause as well
       IN [a EXCEPT !.loop = 0, !.rpc[i] = "firstread", !.sess[i] = a.cur, !.frdl[i] = STO,
                    !.attClosed[i] = (a.cs[a.cur] = "closed"), !.hurt[i] = (a.kill[a.cur] # "")]
\* singleplex: the connection's goroutine makes its own session
G_SingleMake(x, i) == x.rpc[i] = "needsess" /\ x.nsess < MaxSess
E_SingleMake(x, i) == [MakeSess(x) EXCEPT !.rpc[i] = "firstread", !.sess[i] = x.nsess + 1, !.frdl[i] = STO, !.needs = @ + 1]

(* RouteTCP: per-connection goroutine                                         *)
G_FirstRead(x, i) == x.rpc[i] = "firstread" /\ x.upL[i] # <<>>
E_FirstRead(x, i) == [x EXCEPT !.first[i] = x.upL[i], !.upL[i] = <<>>, !.rpc[i] = "open", !.frdl[i] = 0]
\* EOF / reset before the first byte.  DEVIATION SingleplexIdleLeak: the session made for it is not closed
G_FirstReadEnd(x, i) == x.rpc[i] = "firstread" /\ x.upL[i] = <<>> /\ x.lapp[i] = "closed"
E_FirstReadEnd(x, i) == [x EXCEPT !.lrel[i] = "closed", !.rpc[i] = "done", !.frdl[i] = 0]
G_FirstReadTimeout(x, i) == x.rpc[i] = "firstread" /\ x.upL[i] = <<>> /\ x.frdl[i] = 0 /\ "time" \in Feat
                            /\ "NoFirstReadDeadline" \notin Dev
E_FirstReadTimeout(x, i) == [x EXCEPT !.lrel[i] = "closed", !.rpc[i] = "done", !.timedOut[i] = TRUE]

\* DEVIATION SessionChosenAtAccept (code-faithful flag, known finding D23): the session was chosen when the connection was
\* accepted; if it has closed since (30 s idle check while the connection was silent, tunnel failure, ...) OpenStream fails
\* and the connection is dropped with its first bytes.  Without the flag (what a repair would do): the session is chosen
\* after the first read - the current one if it is open, otherwise a new one.
CurOpen(x) == Shared /\ x.cur # 0 /\ (IF x.cur = 0 THEN FALSE ELSE x.cs[x.cur] = "open")
G_OpenStream(x, i) == /\ x.rpc[i] = "open"
                      /\ "SessionChosenAtAccept" \in Dev \/ x.cs[x.sess[i]] = "open" \/ CurOpen(x) \/ x.nsess < MaxSess
E_OpenStream(x, i) ==
  IF x.cs[x.sess[i]] = "open" THEN [x EXCEPT !.cst[i] = "open", !.rpc[i] = "firstwrite"]
  ELSE IF "SessionChosenAtAccept" \in Dev
    THEN [x EXCEPT !.lrel[i] = "closed", !.rpc[i] = "done", !.first[i] = <<>>, !.stale[i] = TRUE]
    ELSE LET a == IF CurOpen(x) THEN x
                  ELSE [MakeSess(x) EXCEPT !.cur = IF Shared THEN x.nsess + 1 ELSE @, !.needs = @ + 1]
             g == IF CurOpen(x) THEN x.cur ELSE x.nsess + 1
         IN [a EXCEPT !.sess[i] = g, !.cst[i] = "open", !.rpc[i] = "firstwrite", !.hurt[i] = (a.kill[g] # "")]

G_FirstWrite(x, i) == x.rpc[i] = "firstwrite"
E_FirstWrite(x, i) ==
  LET s == x.sess[i] IN
  IF x.cst[i] = "open" /\ SendOk(x, "c", s)
    THEN [Enq(x, "c", s, DFrame(i, x.first[i])) EXCEPT !.first[i] = <<>>, !.rpc[i] = "copy", !.cup[i] = "run", !.cdn[i] = "run"]
    ELSE LET a == IF x.cst[i] = "open" THEN SendFailClose(x, "c", s) ELSE x
             b == [a EXCEPT !.lrel[i] = "closed", !.first[i] = <<>>, !.rpc[i] = "done"]
         IN (IF "FirstWriteFailLeavesConn" \in Dev THEN [b EXCEPT !.lrel[i] = "open"] ELSE StreamActiveClose(b, "c", i))

\* common.Copy(stream, localConn): Stream.ReadFrom(localConn); on return src.Close(); dst.Close()
\* DEVIATION EitherEndClosesBoth, by cause:
\*   A  the reading side finds its stream closed after it has read application bytes (opposite traffic after a close)
\*   B  the write towards an application fails because that application has closed
\* in both cases Copy closes both ends at once and whatever is buffered for the other direction is dropped
FinishCUp(x, i) == RpcDone(StreamActiveClose([x EXCEPT !.lrel[i] = "closed", !.cup[i] = "done"], "c", i), i)
G_CUp(x, i) == x.cup[i] = "run" /\ (x.upL[i] # <<>> \/ x.lapp[i] = "closed" \/ x.lrel[i] = "closed")
E_CUp(x, i) ==
  LET s == x.sess[i] IN
  IF x.lrel[i] = "closed" THEN FinishCUp(x, i)
  ELSE IF x.upL[i] # <<>>
    THEN LET a == [x EXCEPT !.upL[i] = <<>>] IN
         IF x.cst[i] # "open" THEN FinishCUp([a EXCEPT !.cutDn[i] = TRUE], i)     \* cause A
         ELSE IF SendOk(x, "c", s) THEN Enq(a, "c", s, DFrame(i, x.upL[i]))
         ELSE FinishCUp(SendFailClose(a, "c", s), i)
    ELSE FinishCUp(x, i)                                  \* EOF
\* common.Copy(localConn, stream): generic loop  stream.Read -> localConn.Write
FinishCDn(x, i) ==
  LET a == StreamActiveClose(x, "c", i)
      b == IF "DownCopyKeepsConn" \in Dev THEN a ELSE [a EXCEPT !.lrel[i] = "closed"]
  IN RpcDone([b EXCEPT !.cdn[i] = "done", !.cdnH[i] = <<>>], i)
G_CDn(x, i) ==
  \/ x.cdn[i] = "run" /\ (x.cbuf[i] # <<>> \/ x.cst[i] # "open")
  \/ x.cdn[i] = "hand" /\ (x.lrel[i] = "closed" \/ x.lapp[i] = "closed" \/ x.dnL[i] = <<>>)
E_CDn(x, i) ==
  IF x.cdn[i] = "run"
    THEN IF x.cbuf[i] # <<>> THEN [x EXCEPT !.cdnH[i] = x.cbuf[i], !.cbuf[i] = <<>>, !.cdn[i] = "hand"]
         ELSE FinishCDn(x, i)
    ELSE IF x.lrel[i] = "closed" THEN FinishCDn(x, i)
         ELSE IF x.lapp[i] = "closed" THEN FinishCDn([x EXCEPT !.cutUp[i] = TRUE], i)     \* cause B
         ELSE [x EXCEPT !.dnL[i] = x.cdnH[i], !.cdnH[i] = <<>>, !.cdn[i] = "run"]

-----------------------------------------------------------------------------
(* serveSession                                                               *)
\* Accept + ProxyDialer.Dial + the two copy goroutines.  DEVIATION ClosedQueueServed: no closed check between the
\* channel receive and the dial.  DEVIATION DialFailKillsSession.
G_ServeAccept(x, s) == x.serve[s] /\ x.accQ[s] # <<>>
E_ServeAccept(x, s) ==
  LET i == Head(x.accQ[s]) IN
  IF x.armFail
    THEN IF "DialFailStreamOnly" \in Dev
           THEN [StreamActiveClose([x EXCEPT !.armFail = FALSE, !.accQ[s] = Tail(@), !.dfail[i] = TRUE], "s", i) EXCEPT !.sbuf[i] = <<>>]
           ELSE LET a == Hurt(MarkKill([x EXCEPT !.armFail = FALSE, !.accQ[s] = <<>>, !.serve[s] = FALSE, !.dfail[i] = TRUE], s, "dial"), s)
                IN ActiveClose(a, "s", s)
    ELSE LET a == [x EXCEPT !.accQ[s] = Tail(@), !.prel[i] = "open", !.papp[i] = "open", !.sup[i] = "run", !.sdn[i] = "run",
                            !.pord = Append(@, i), !.lateDial[i] = (x.ss[s] = "closed")]
         IN IF a.ss[s] = "closed" THEN [a EXCEPT !.serve[s] = FALSE, !.accQ[s] = <<>>] ELSE a
G_ServeExit(x, s) == x.serve[s] /\ x.accQ[s] = <<>> /\ x.ss[s] = "closed"
E_ServeExit(x, s) == [x EXCEPT !.serve[s] = FALSE]

\* common.Copy(proxyConn, stream): generic loop  stream.Read -> proxyConn.Write
FinishSUp(x, i) == [StreamActiveClose(x, "s", i) EXCEPT !.prel[i] = "closed", !.sup[i] = "done", !.supH[i] = <<>>]
G_SUp(x, i) ==
  \/ x.sup[i] = "run" /\ (x.sbuf[i] # <<>> \/ x.sst[i] # "open")
  \/ x.sup[i] = "hand" /\ (x.prel[i] = "closed" \/ x.papp[i] = "closed" \/ x.upP[i] = <<>>)
E_SUp(x, i) ==
  IF x.sup[i] = "run"
    THEN IF x.sbuf[i] # <<>> THEN [x EXCEPT !.supH[i] = x.sbuf[i], !.sbuf[i] = <<>>, !.sup[i] = "hand"]
         ELSE FinishSUp(x, i)
    ELSE IF x.prel[i] = "closed" THEN FinishSUp(x, i)
         ELSE IF x.papp[i] = "closed" THEN FinishSUp([x EXCEPT !.cutDn[i] = TRUE], i)     \* cause B
         ELSE [x EXCEPT !.upP[i] = x.supH[i], !.supH[i] = <<>>, !.sup[i] = "run"]
\* common.Copy(stream, proxyConn): Stream.ReadFrom(proxyConn)
FinishSDn(x, i) == StreamActiveClose([x EXCEPT !.prel[i] = "closed", !.sdn[i] = "done"], "s", i)
G_SDn(x, i) == x.sdn[i] = "run" /\ (x.dnP[i] # <<>> \/ x.papp[i] = "closed" \/ x.prel[i] = "closed")
E_SDn(x, i) ==
  LET s == x.sess[i] IN
  IF x.prel[i] = "closed" THEN FinishSDn(x, i)
  ELSE IF x.dnP[i] # <<>>
    THEN LET a == [x EXCEPT !.dnP[i] = <<>>] IN
         IF x.sst[i] # "open" THEN FinishSDn([a EXCEPT !.cutUp[i] = TRUE], i)     \* cause A
         ELSE IF SendOk(x, "s", s) THEN Enq(a, "s", s, DFrame(i, x.dnP[i]))
         ELSE FinishSDn(SendFailClose(a, "s", s), i)
    ELSE FinishSDn(x, i)

-----------------------------------------------------------------------------
(* tunnel                                                                      *)
Q(x, side, s) == IF side = "c" THEN x.tqD[s] ELSE x.tqU[s]      \* frames travelling TOWARDS side
Pop(x, side, s) == IF side = "c" THEN [x EXCEPT !.tqD[s] = Tail(@)] ELSE [x EXCEPT !.tqU[s] = Tail(@)]
G_Deliver(x, side, s) == SessOpen(x, side, s) /\ ~x.tfail[s] /\ Q(x, side, s) # <<>>
Target(x, i) == IF "WrongStream" \in Dev /\ \E j \in C : j # i /\ x.sst[j] = "open"
                  THEN CHOOSE j \in C : j # i /\ x.sst[j] = "open" ELSE i
E_Deliver(x, side, s) ==
  LET f == Head(Q(x, side, s))
      a == Pop(x, side, s)
  IN CASE f.t = "bye" -> PassiveClose(a, side, s)
       [] f.t = "x"   -> StreamPassiveClose(a, side, f.c)
       [] f.t = "d" /\ side = "c" ->
            IF a.cst[f.c] = "open" THEN [a EXCEPT !.cbuf[f.c] = IF "Reorder" \in Dev THEN f.u \o @ ELSE @ \o f.u] ELSE a
       [] f.t = "d" /\ side = "s" ->
            LET i == Target(a, f.c) IN
            IF a.sst[i] = "none" THEN [a EXCEPT !.sst[i] = "open", !.sbuf[i] = f.u, !.accQ[s] = Append(@, i)]
            ELSE IF a.sst[i] = "open" THEN [a EXCEPT !.sbuf[i] = @ \o f.u]
            ELSE a
\* deplex: read error (reset) or EOF (peer end closed, everything in flight read) -> passiveClose
PeerClosedConn(x, side, s) == IF side = "c" THEN x.tclS[s] ELSE x.tclC[s]
G_DeplexEnd(x, side, s) == SessOpen(x, side, s) /\ (x.tfail[s] \/ (PeerClosedConn(x, side, s) /\ Q(x, side, s) = <<>>))
E_DeplexEnd(x, side, s) == PassiveClose(x, side, s)

G_TunnelFail(x, s) == "fail" \in Feat /\ ~x.tfail[s] /\ (x.cs[s] = "open" \/ x.ss[s] = "open")
E_TunnelFail(x, s) == Hurt(MarkKill([x EXCEPT !.tfail[s] = TRUE, !.tqU[s] = <<>>, !.tqD[s] = <<>>], s, "fail"), s)

G_ArmDialFail(x) == "dialfail" \in Feat /\ ~x.armFail
E_ArmDialFail(x) == [x EXCEPT !.armFail = TRUE]

-----------------------------------------------------------------------------
(* applications                                                                *)
G_LocalWrite(x, i) == x.lapp[i] = "open" /\ x.lrel[i] = "open" /\ x.wroteUp[i] < MaxUp /\ x.upL[i] = <<>>
E_LocalWrite(x, i) == [x EXCEPT !.wroteUp[i] = @ + 1, !.upL[i] = <<U(i, x.wroteUp[i] + 1)>>]
G_LocalRead(x, i) == x.lapp[i] = "open" /\ (x.dnL[i] # <<>> \/ (x.lrel[i] = "closed" /\ ~x.eofDn[i]))
E_LocalRead(x, i) == IF x.dnL[i] # <<>> THEN [x EXCEPT !.gotDn[i] = @ \o x.dnL[i], !.dnL[i] = <<>>] ELSE [x EXCEPT !.eofDn[i] = TRUE]
G_LocalClose(x, i) == x.lapp[i] = "open"
E_LocalClose(x, i) == [x EXCEPT !.lapp[i] = "closed", !.dnL[i] = <<>>]
G_LocalReset(x, i) == "reset" \in Feat /\ x.lapp[i] = "open" /\ x.lrel[i] = "open"
E_LocalReset(x, i) == [x EXCEPT !.lapp[i] = "closed", !.dnL[i] = <<>>, !.upL[i] = <<>>, !.reset[i] = TRUE]

G_ProxyWrite(x, i) == x.papp[i] = "open" /\ x.prel[i] = "open" /\ x.wroteDn[i] < MaxDown /\ x.dnP[i] = <<>>
E_ProxyWrite(x, i) == [x EXCEPT !.wroteDn[i] = @ + 1, !.dnP[i] = <<U(i, x.wroteDn[i] + 1)>>]
G_ProxyRead(x, i) == x.papp[i] = "open" /\ (x.upP[i] # <<>> \/ (x.prel[i] = "closed" /\ ~x.eofUp[i]))
E_ProxyRead(x, i) == IF x.upP[i] # <<>> THEN [x EXCEPT !.gotUp[i] = @ \o x.upP[i], !.upP[i] = <<>>] ELSE [x EXCEPT !.eofUp[i] = TRUE]
G_ProxyClose(x, i) == x.papp[i] = "open"
E_ProxyClose(x, i) == [x EXCEPT !.papp[i] = "closed", !.upP[i] = <<>>]

-----------------------------------------------------------------------------
(* time                                                                        *)
Dec(T) == {t - 1 : t \in T}
TimerPending(x) == \/ \E s \in S : x.cidle[s] # {} \/ x.sidle[s] # {}
                   \/ \E i \in C : x.rpc[i] = "firstread"
TimerDue(x) == \/ \E s \in S : 0 \in x.cidle[s] \/ 0 \in x.sidle[s]
               \/ \E i \in C : G_FirstReadTimeout(x, i)
G_Advance(x) == "time" \in Feat /\ TimerPending(x) /\ ~TimerDue(x)
E_Advance(x) == [x EXCEPT !.cidle = [s \in S |-> Dec(x.cidle[s])], !.sidle = [s \in S |-> Dec(x.sidle[s])],
                          !.frdl = [i \in C |-> IF x.rpc[i] = "firstread" /\ x.frdl[i] > 0 THEN x.frdl[i] - 1 ELSE x.frdl[i]]]
IdleSet(x, side, s) == IF side = "c" THEN x.cidle[s] ELSE x.sidle[s]
G_IdleFire(x, side, s) == 0 \in IdleSet(x, side, s)
E_IdleFire(x, side, s) ==
  LET a == IF side = "c" THEN [x EXCEPT !.cidle[s] = @ \ {0}] ELSE [x EXCEPT !.sidle[s] = @ \ {0}] IN
  IF SessOpen(a, side, s) /\ Count(a, side, s) = 0 THEN ActiveClose(Hurt(MarkKill(a, s, "idle"), s), side, s) ELSE a

-----------------------------------------------------------------------------
Sides == {"c", "s"}
\* (G = TRUE): the guard is evaluated as a plain expression (short-circuit), not split into action disjuncts
Do(G, E) == (G = TRUE) /\ st' = TLCEval(E)

\* continuations of running goroutines (the harness cannot hold them back)
Internal ==
  \/ Do(G_NeedSession(st), E_NeedSession(st))
  \/ \E i \in C :
       \/ Do(G_SingleMake(st, i), E_SingleMake(st, i))
       \/ Do(G_FirstRead(st, i), E_FirstRead(st, i))
       \/ Do(G_FirstReadEnd(st, i), E_FirstReadEnd(st, i))
       \/ Do(G_FirstReadTimeout(st, i), E_FirstReadTimeout(st, i))
       \/ Do(G_OpenStream(st, i), E_OpenStream(st, i))
       \/ Do(G_FirstWrite(st, i), E_FirstWrite(st, i))
       \/ Do(G_CUp(st, i), E_CUp(st, i))
       \/ Do(G_CDn(st, i), E_CDn(st, i))
       \/ Do(G_SUp(st, i), E_SUp(st, i))
       \/ Do(G_SDn(st, i), E_SDn(st, i))
  \/ \E s \in S :
       \/ Do(G_ServeAccept(st, s), E_ServeAccept(st, s))
       \/ Do(G_ServeExit(st, s), E_ServeExit(st, s))
       \/ \E side \in Sides :
            \/ Do(G_DeplexEnd(st, side, s), E_DeplexEnd(st, side, s))
            \/ Do(G_IdleFire(st, side, s), E_IdleFire(st, side, s))

InternalEnabled(x) ==
  \/ G_NeedSession(x)
  \/ \E i \in C : G_SingleMake(x, i) \/ G_FirstRead(x, i) \/ G_FirstReadEnd(x, i) \/ G_FirstReadTimeout(x, i)
                  \/ G_OpenStream(x, i) \/ G_FirstWrite(x, i) \/ G_CUp(x, i) \/ G_CDn(x, i) \/ G_SUp(x, i) \/ G_SDn(x, i)
  \/ \E s \in S : G_ServeAccept(x, s) \/ G_ServeExit(x, s)
                  \/ \E side \in Sides : G_DeplexEnd(x, side, s) \/ G_IdleFire(x, side, s)

\* frames are delivered one at a time by the environment ("async") or at once (an Internal step) otherwise
DeliverStep == \E s \in S, side \in Sides : Do(G_Deliver(st, side, s), E_Deliver(st, side, s))
DeliverEnabled(x) == \E s \in S, side \in Sides : G_Deliver(x, side, s)

Env ==
  \/ \E i \in C :
       \/ Do(G_LocalDial(st, i), E_LocalDial(st, i))
       \/ Do(G_LocalWrite(st, i), E_LocalWrite(st, i))
       \/ Do(G_LocalRead(st, i), E_LocalRead(st, i))
       \/ Do(G_LocalClose(st, i), E_LocalClose(st, i))
       \/ Do(G_LocalReset(st, i), E_LocalReset(st, i))
       \/ Do(G_ProxyWrite(st, i), E_ProxyWrite(st, i))
       \/ Do(G_ProxyRead(st, i), E_ProxyRead(st, i))
       \/ Do(G_ProxyClose(st, i), E_ProxyClose(st, i))
  \/ \E s \in S : Do(G_TunnelFail(st, s), E_TunnelFail(st, s))
  \/ Do(G_ArmDialFail(st), E_ArmDialFail(st))
  \/ Do(G_Advance(st), E_Advance(st))

\* free interleaving of everything; without "async" frames are delivered before any other environment step; with "prio"
\* the environment moves only when no goroutine can (the granularity of the replay: used for the larger constants)
Next == Internal \/ (("prio" \notin Feat \/ ~InternalEnabled(st)) /\ (DeliverStep \/ (("async" \in Feat \/ ~DeliverEnabled(st)) /\ Env)))
Spec == Init /\ [][Next]_vars

-----------------------------------------------------------------------------
(* properties                                                                  *)
AppReadEnabled(x) == \E i \in C : G_LocalRead(x, i) \/ G_ProxyRead(x, i)
Quiescent(x) == ~InternalEnabled(x) /\ ~DeliverEnabled(x) /\ ~AppReadEnabled(x)

TypeOK ==
  /\ st.loop \in 0..NConn /\ st.cur \in 0..MaxSess /\ st.nsess \in 0..MaxSess
  /\ \A i \in C : /\ st.lapp[i] \in {"none", "open", "closed"} /\ st.lrel[i] \in {"none", "open", "closed"}
                  /\ st.rpc[i] \in {"none", "needsess", "firstread", "open", "firstwrite", "copy", "done"}
                  /\ st.cst[i] \in {"none", "open", "closed"} /\ st.sst[i] \in {"none", "open", "closed"}
                  /\ st.cup[i] \in {"none", "run", "done"} /\ st.cdn[i] \in {"none", "run", "hand", "done"}
                  /\ st.sup[i] \in {"none", "run", "hand", "done"} /\ st.sdn[i] \in {"none", "run", "done"}
                  /\ st.sess[i] \in 0..MaxSess
  /\ \A s \in S : st.cs[s] \in {"none", "open", "closed"} /\ st.ss[s] \in {"none", "open", "closed"}

\* (a) prefix: what an application has received is a prefix of what its counterpart wrote; (b) and carries its own tag
PrefixInv == \A i \in C : IsPrefix(st.gotUp[i], AllUnits(i, st.wroteUp[i])) /\ IsPrefix(st.gotDn[i], AllUnits(i, st.wroteDn[i]))
Tagged(q, i) == \A k \in 1..Len(q) : ConnOf(q[k]) = i
NoCrossTalk ==
  \A i \in C : /\ Tagged(st.gotUp[i], i) /\ Tagged(st.gotDn[i], i) /\ Tagged(st.sbuf[i], i) /\ Tagged(st.cbuf[i], i)
               /\ Tagged(st.upP[i], i) /\ Tagged(st.dnL[i], i) /\ Tagged(st.supH[i], i) /\ Tagged(st.cdnH[i], i)
\* (a) completeness at quiescence, restricted to what a relay without half-close can promise: the bytes an application
\* wrote before its EOF are delivered if the other direction has not ended first.  Owed: the writer ended with a clean
\* close, its session was not killed under it, the reader is still there (has not closed) and no opposite traffic met the
\* closed end (causes A, B, C of EitherEndClosesBoth: a design limit, not judged)
UpOwed(x, i) == x.lapp[i] = "closed" /\ ~x.reset[i] /\ ~x.hurt[i] /\ x.papp[i] # "closed" /\ ~x.cutUp[i] /\ ~x.stale[i] /\ ~x.dfail[i]
DnOwed(x, i) == x.papp[i] = "closed" /\ ~x.hurt[i] /\ x.lapp[i] = "open" /\ ~x.cutDn[i]
CompleteInv ==
  Quiescent(st) => \A i \in C : /\ UpOwed(st, i) => st.gotUp[i] = AllUnits(i, st.wroteUp[i])
                                /\ DnOwed(st, i) => st.gotDn[i] = AllUnits(i, st.wroteDn[i])
\* the same without the cut clause: what a relay with half-close would give; REFUTED by the code's Copy (negative config)
CompleteStrict ==
  Quiescent(st) => \A i \in C :
     /\ (st.lapp[i] = "closed" /\ ~st.reset[i] /\ ~st.hurt[i] /\ st.papp[i] # "closed" /\ ~st.stale[i]) => st.gotUp[i] = AllUnits(i, st.wroteUp[i])
     /\ (st.papp[i] = "closed" /\ ~st.hurt[i] /\ st.lapp[i] = "open") => st.gotDn[i] = AllUnits(i, st.wroteDn[i])

\* (c) a connection / stream is closed only for a reason of its own pair or because its session was killed
\* (tunnel failure, idle check, dial failure); a multiplexed session closes only when it is killed
OwnCause(x, j) == x.lapp[j] = "closed" \/ x.papp[j] = "closed" \/ x.timedOut[j] \/ x.hurt[j] \/ x.stale[j] \/ x.dfail[j]
NeighbourInv ==
  /\ \A j \in C : (st.lrel[j] = "closed" \/ st.prel[j] = "closed" \/ st.cst[j] = "closed" \/ st.sst[j] = "closed") => OwnCause(st, j)
  /\ \A s \in S : st.kill[s] = "" => st.cs[s] # "closed" /\ st.ss[s] # "closed"
\* the same, not accepting a neighbour's failed proxy dial as a cause: REFUTED (DialFailKillsSession); holds with
\* Dev = {"DialFailStreamOnly"}
DialHurt(x, j) == x.sess[j] # 0 /\ x.kill[x.sess[j]] = "dial"
NeighbourStrict ==
  \A j \in C : (st.lrel[j] = "closed" /\ DialHurt(st, j)) => (st.lapp[j] = "closed" \/ st.papp[j] = "closed" \/ st.timedOut[j] \/ st.dfail[j])

\* (d) nothing of a finished pair remains; nothing hangs on a dead session
PairGone(x, i) ==
  /\ x.lrel[i] = "closed" /\ x.prel[i] \in {"none", "closed"} /\ x.cst[i] \in {"none", "closed"} /\ x.sst[i] \in {"none", "closed"}
  /\ x.rpc[i] = "done" /\ x.sup[i] \in {"none", "done"} /\ x.sdn[i] \in {"none", "done"}
OrphanInv ==
  Quiescent(st) =>
    /\ \A i \in C : (st.lapp[i] = "closed" \/ st.papp[i] = "closed") => PairGone(st, i)
    /\ \A i \in C : (st.sess[i] # 0 /\ st.cs[st.sess[i]] = "closed") =>
                       \/ PairGone(st, i)
                       \/ st.rpc[i] = "firstread" /\ st.frdl[i] > 0 /\ "NoFirstReadDeadline" \notin Dev  \* bounded by streamTimeout
    /\ \A s \in S : (st.cs[s] = "closed" <=> st.ss[s] = "closed") /\ (st.ss[s] = "open" <=> st.serve[s])
\* a session without streams always has an idle check pending (so SingleplexIdleLeak is bounded by 30 s)
IdleArmedInv ==
  "time" \in Feat => \A s \in S : /\ (st.cs[s] = "open" /\ Count(st, "c", s) = 0) => st.cidle[s] # {}
                                  /\ (st.ss[s] = "open" /\ Count(st, "s", s) = 0) => st.sidle[s] # {}

\* (e) never attached to a session that was closed at the time; one session per need
RenewInv == (\A i \in C : ~st.attClosed[i]) /\ st.nsess = st.needs
\* nothing is ever written into a closed session: frames are queued only by an open sender (by construction of SendOk);
\* visible form: a frame in flight towards a side implies the sending side's connection end was open when queued
\* (f) singleplex: sessions and local connections are 1:1; a finished connection that had a stream has closed its session
SingleInv ==
  Singleplex =>
    /\ \A i, j \in C : (i # j /\ st.sess[i] # 0) => st.sess[i] # st.sess[j]
    /\ Quiescent(st) => \A i \in C : (st.lrel[i] = "closed" /\ st.cst[i] # "none") => st.cs[st.sess[i]] = "closed"

\* reachability witnesses for the vacuity run (each must be VIOLATED)
W_FirstWriteFail == \A i \in C : ~(st.rpc[i] = "done" /\ st.cst[i] = "closed" /\ st.cup[i] = "none")
W_Stale == \A i \in C : ~st.stale[i]
\* D23: the first bytes of a connection are never refused because of the session it was given (violated with
\* SessionChosenAtAccept, holds without)
FirstBytesInv == \A i \in C : ~st.stale[i]
W_Cut == \A i \in C : ~st.cutUp[i] /\ ~st.cutDn[i]
W_LateDial == \A i \in C : ~st.lateDial[i]
=============================================================================
