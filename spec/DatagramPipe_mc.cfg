SPECIFICATION Spec
CONSTANT N = @N@
INVARIANTS OnceInOrder NoLossWhileOpen
CHECK_DEADLOCK FALSE
