--------------------------- MODULE ReassemblyTrace ---------------------------
(* Trace validation for Reassembly.  The recorded execution has up to four *)
(* writer goroutines (one deplex goroutine per connection) and one reader  *)
(* goroutine running in parallel, so events are call/return pairs and the  *)
(* state change of each call is a silent step that TLC places between      *)
(* them.  Several traces are concatenated, separated by "Reset" events.    *)
EXTENDS Reassembly, TLC, Json, IOUtils

Trace == ndJsonDeserialize(IOEnv.VERIF_TRACE)

Writers == 0..3

VARIABLES l,        \* next trace line to consume
          wpend,    \* wpend[w]: index passed to writer w's Write call in progress, or -1
          wdone,    \* wdone[w]: its state change has happened
          wres,     \* wres[w]: what the specification returned to that call
          rpend,    \* a Read call is in progress
          rdone     \* its state change has happened
tvars == <<rvars, l, wpend, wdone, wres, rpend, rdone>>

NoW == [w \in Writers |-> -1]
NoD == [w \in Writers |-> FALSE]
NoR == [w \in Writers |-> [a |-> "Init", i |-> -1, tbc |-> FALSE, err |-> FALSE]]

Ev == Trace[l]
IsEvent(e) == l <= Len(Trace) /\ Ev.ev = e /\ l' = l + 1

TInit == /\ RInit(-1)
         /\ l = 1 /\ wpend = NoW /\ wdone = NoD /\ wres = NoR /\ rpend = FALSE /\ rdone = FALSE
         /\ TLCSet(1, 1)

TReset == /\ IsEvent("Reset")
          /\ closeIdx' = Ev.closeIdx
          /\ arrived' = {} /\ next' = 0 /\ heap' = {} /\ pipe' = <<>>
          /\ closeRep' = FALSE /\ consumed' = <<>>
          /\ lastW' = [a |-> "Init", i |-> -1, tbc |-> FALSE, err |-> FALSE] /\ lastR' = <<>>
          /\ wpend' = NoW /\ wdone' = NoD /\ wres' = NoR /\ rpend' = FALSE /\ rdone' = FALSE

WCall == /\ IsEvent("W.call") /\ wpend[Ev.w] = -1
         /\ wpend' = [wpend EXCEPT ![Ev.w] = Ev.i] /\ wdone' = [wdone EXCEPT ![Ev.w] = FALSE]
         /\ UNCHANGED <<rvars, wres, rpend, rdone>>

\* silent: the critical section of streamBuffer.Write of writer w
WDo(w) == /\ wpend[w] # -1 /\ ~wdone[w]
          /\ Arrive(wpend[w]) /\ wdone' = [wdone EXCEPT ![w] = TRUE]
          /\ wres' = [wres EXCEPT ![w] = lastW']
          /\ UNCHANGED <<l, wpend, rpend, rdone>>

\* the recorded return values must be what the specification computed for that call
WRet == /\ IsEvent("W.ret") /\ wpend[Ev.w] # -1 /\ wdone[Ev.w]
        /\ wres[Ev.w].tbc = Ev.tbc /\ wres[Ev.w].err = Ev.err
        /\ wpend' = [wpend EXCEPT ![Ev.w] = -1] /\ wdone' = [wdone EXCEPT ![Ev.w] = FALSE]
        /\ UNCHANGED <<rvars, wres, rpend, rdone>>

RCall == /\ IsEvent("R.call") /\ ~rpend
         /\ rpend' = TRUE /\ rdone' = FALSE
         /\ UNCHANGED <<rvars, wpend, wdone, wres>>

RDo == /\ rpend /\ ~rdone
       /\ \E k \in 1..Len(pipe) : Read(k)
       /\ rdone' = TRUE
       /\ UNCHANGED <<l, wpend, wdone, wres, rpend>>

RRet == /\ IsEvent("R.ret") /\ rpend /\ rdone
        /\ lastR = Ev.got
        /\ rpend' = FALSE /\ rdone' = FALSE
        /\ UNCHANGED <<rvars, wpend, wdone, wres>>

TNext == TReset \/ WCall \/ (\E w \in Writers : WDo(w)) \/ WRet \/ RCall \/ RDo \/ RRet
TSpec == TInit /\ [][TNext]_tvars

HW == TLCSet(1, IF l > TLCGet(1) THEN l ELSE TLCGet(1))
TraceAccepted ==
  IF TLCGet(1) = Len(Trace) + 1 THEN TRUE
  ELSE PrintT(<<"REJECTED_AT_LINE", TLCGet(1)>>) /\ FALSE
=============================================================================
