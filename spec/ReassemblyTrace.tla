--------------------------- MODULE ReassemblyTrace ---------------------------
(* Trace validation for Reassembly.  The recorded execution has one writer *)
(* goroutine (deplex's role) and one reader goroutine running in parallel, *)
(* so events are call/return pairs and the state change of each call is a  *)
(* silent step that TLC places between them.  Several traces are           *)
(* concatenated, separated by "Reset" events.                              *)
EXTENDS Reassembly, TLC, Json, IOUtils

Trace == ndJsonDeserialize(IOEnv.VERIF_TRACE)

VARIABLES l,        \* next trace line to consume
          wpend,    \* index passed to a Write call in progress, or -1
          wdone,    \* its state change has happened
          rpend,    \* a Read call is in progress
          rdone     \* its state change has happened
tvars == <<rvars, l, wpend, wdone, rpend, rdone>>

Ev == Trace[l]
IsEvent(e) == l <= Len(Trace) /\ Ev.ev = e /\ l' = l + 1

TInit == /\ RInit(-1)
         /\ l = 1 /\ wpend = -1 /\ wdone = FALSE /\ rpend = FALSE /\ rdone = FALSE
         /\ TLCSet(1, 1)

TReset == /\ IsEvent("Reset")
          /\ closeIdx' = Ev.closeIdx
          /\ arrived' = {} /\ next' = 0 /\ heap' = {} /\ pipe' = <<>>
          /\ closeRep' = FALSE /\ consumed' = <<>>
          /\ lastW' = [a |-> "Init", i |-> -1, tbc |-> FALSE, err |-> FALSE] /\ lastR' = <<>>
          /\ wpend' = -1 /\ wdone' = FALSE /\ rpend' = FALSE /\ rdone' = FALSE

WCall == /\ IsEvent("W.call") /\ wpend = -1
         /\ wpend' = Ev.i /\ wdone' = FALSE
         /\ UNCHANGED <<rvars, rpend, rdone>>

\* silent: the critical section of streamBuffer.Write
WDo == /\ wpend # -1 /\ ~wdone
       /\ Arrive(wpend) /\ wdone' = TRUE
       /\ UNCHANGED <<l, wpend, rpend, rdone>>

\* the recorded return values must be what the specification computed
WRet == /\ IsEvent("W.ret") /\ wpend # -1 /\ wdone
        /\ lastW.tbc = Ev.tbc /\ lastW.err = Ev.err
        /\ wpend' = -1 /\ wdone' = FALSE
        /\ UNCHANGED <<rvars, rpend, rdone>>

RCall == /\ IsEvent("R.call") /\ ~rpend
         /\ rpend' = TRUE /\ rdone' = FALSE
         /\ UNCHANGED <<rvars, wpend, wdone>>

RDo == /\ rpend /\ ~rdone
       /\ \E k \in 1..Len(pipe) : Read(k)
       /\ rdone' = TRUE
       /\ UNCHANGED <<l, wpend, wdone, rpend>>

RRet == /\ IsEvent("R.ret") /\ rpend /\ rdone
        /\ lastR = Ev.got
        /\ rpend' = FALSE /\ rdone' = FALSE
        /\ UNCHANGED <<rvars, wpend, wdone>>

TNext == TReset \/ WCall \/ WDo \/ WRet \/ RCall \/ RDo \/ RRet
TSpec == TInit /\ [][TNext]_tvars

HW == TLCSet(1, IF l > TLCGet(1) THEN l ELSE TLCGet(1))
TraceAccepted ==
  IF TLCGet(1) = Len(Trace) + 1 THEN TRUE
  ELSE PrintT(<<"REJECTED_AT_LINE", TLCGet(1)>>) /\ FALSE
=============================================================================
