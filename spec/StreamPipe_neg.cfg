SPECIFICATION Spec
CONSTANTS
  Mode = "@MODE@"
  Readers = @READERS@
  Writers = @WRITERS@
  Limit = @LIMIT@
  Sizes = @SIZES@
  Caps = @CAPS@
  T = @T@
  DLs = @DLS@
  MaxWrites = @MAXW@
  MaxReads = @MAXR@
  MaxCtl = @MAXC@
  TimerUnlocked = FALSE
  DevChoices = {{"@FLAG@"}}
INVARIANTS TypeOK @INV@
VIEW McView
SYMMETRY Sym
CHECK_DEADLOCK FALSE
