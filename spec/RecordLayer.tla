----------------------------- MODULE RecordLayer -----------------------------
(***************************************************************************)
(* Message framing on ONE underlying byte-stream connection                *)
(* (Go: common.TLSConn over a net.Conn; common.WebSocketConn has the same  *)
(* observable contract with gorilla's frame header in place of the 5-byte  *)
(* record header).                                                         *)
(*                                                                         *)
(* `wire` is the sequence of bytes in flight.  Every byte is tagged with   *)
(* the record it belongs to: <<rec, "h", i>> is header byte i of record    *)
(* rec, <<rec, "b", j>> is body byte j.  Record ids are handed out in the  *)
(* order in which headers reach the wire.                                  *)
(*                                                                         *)
(* Writers (processes 1..NW, each with its own message sequence 1,2,...):  *)
(*   WriteRec(w,n)  TLSConn.Write: header+body in ONE underlying Write     *)
(*                  (tls.go:96-108) - the design under test, WMode=atomic  *)
(*   WriteHdr/WriteBody  deviation candidate: header and body in two       *)
(*                  underlying Writes; WMode=split (no mutual exclusion)   *)
(*                  or splitLocked (a write mutex around both, which is    *)
(*                  what WebSocketConn.writeM provides around gorilla's    *)
(*                  multi-Write WriteMessage, websocket.go:19-28)          *)
(*   WriteRefuse    Write refuses a message longer than WLimit             *)
(*   WriteFail(w,n,p) the transport fails the underlying Write after p     *)
(*                  bytes (deadline expiry): p = 0 leaves the stream       *)
(*                  intact, p > 0 leaves a torn record and ends it.        *)
(*                  staleBuf = deviation candidate: the failed record      *)
(*                  stays in the pooled buffer and precedes the next one.  *)
(* Transport:                                                              *)
(*   Chunk(n)       one underlying Read: the transport hands the reader    *)
(*                  ANY non-empty prefix of what is in flight, at most     *)
(*                  what the reader asked for                              *)
(* Reader (one Read call at a time, tls.go:74-94):                         *)
(*   phase hdr  : io.ReadFull of H header bytes (need counts down)         *)
(*   header complete: decode length l; l > Buf -> phase over (the call     *)
(*                  returns io.ErrShortBuffer), else phase body, need = l  *)
(*   phase body : io.ReadFull of l body bytes                              *)
(*   Return     : the Read call returns (message | error)                  *)
(*   RMode = full is the design; single (body fetched by ONE underlying    *)
(*   Read) and trunc (oversize record cut to Buf instead of an error) are  *)
(*   deviation candidates that the negative configurations must refute.    *)
(***************************************************************************)
EXTENDS Integers, Sequences, FiniteSets

CONSTANTS
  H,        \* header length (Go: recordLayerLength = 5)
  Buf,      \* length of the buffer the reader passes to Read
  Lens,     \* body lengths writers choose from
  NW,       \* number of writer processes
  MaxRec,   \* number of records written in one behaviour
  WMode,    \* "atomic" | "split" | "splitLocked" | "staleBuf"
  RMode,    \* "full" | "single" | "trunc"
  MaxFail,  \* how many Write calls the transport may refuse in one behaviour
  FmtMax,   \* largest body length the header's length field can carry (Go: 2^16 - 1)
  WLimit    \* largest body length Write accepts (Go: 2^14 + 256); the design needs WLimit <= FmtMax

VARIABLES
  wire,     \* tagged bytes in flight
  recs,     \* record id -> [w, k, len, hl, cut]: writer, index in that writer's sequence, body length,
            \*   length announced by the header (len mod FmtMax+1), bytes of the record that reached the wire
  cnt,      \* per writer: Write calls made so far (accepted, refused or failed)
  fails,    \* Write calls the transport failed with ZERO bytes sent: [w, k, len] (must never be delivered)
  broken,   \* a Write failed after a prefix of its record was sent: the stream cannot continue
  stale,    \* staleBuf deviation: index in fails of the record still sitting in the pooled write buffer
  pend,     \* per writer: record whose body is still to be written (split modes), 0 if none
  lock,     \* writer holding the write mutex (splitLocked), 0 if free
  phase,    \* "hdr" | "body" | "over" | "dead"
  need,     \* bytes the current ReadFull still wants
  hgot,     \* header bytes collected by the Read call in progress
  bgot,     \* body bytes collected by the Read call in progress
  nbc,      \* underlying Reads that delivered body bytes to the call in progress
  out       \* what the Read calls returned so far, in order: [err, msg]

wvars == <<wire, recs, cnt, pend, lock, fails, broken, stale>>
rdvars == <<phase, need, hgot, bgot, nbc>>
vars == <<wire, recs, cnt, pend, lock, fails, broken, stale, phase, need, hgot, bgot, nbc, out>>

Min(a, b) == IF a < b THEN a ELSE b

HdrBytes(r)     == [i \in 1..H |-> <<r, "h", i>>]
BodyBytes(r, n) == [j \in 1..n |-> <<r, "b", j>>]
RecBytes(r, n)  == HdrBytes(r) \o BodyBytes(r, n)

\* length field of a collected header; a "header" that is not the header of one record (only
\* reachable after a deviation has already corrupted the stream) decodes to 0
\* (records of failed writes that a deviation puts on the wire all the same carry negative ids)
Decode(h) == LET r == h[1][1] IN
             IF h # HdrBytes(r) THEN 0
             ELSE IF r \in 1..Len(recs) THEN recs[r].hl
             ELSE IF -r \in 1..Len(fails) THEN fails[-r].len
             ELSE 0

RLInit ==
  /\ wire = <<>> /\ recs = <<>>
  /\ cnt = [w \in 1..NW |-> 0] /\ pend = [w \in 1..NW |-> 0] /\ lock = 0
  /\ fails = <<>> /\ broken = FALSE /\ stale = 0
  /\ phase = "hdr" /\ need = H /\ hgot = <<>> /\ bgot = <<>> /\ nbc = 0
  /\ out = <<>>

-----------------------------------------------------------------------------
\* writers

RECURSIVE SumTo(_, _)
SumTo(f, n) == IF n = 0 THEN 0 ELSE f[n] + SumTo(f, n - 1)
Calls == SumTo(cnt, NW)         \* Write calls made so far

NewRec(w, n) == [w |-> w, k |-> cnt[w] + 1, len |-> n, hl |-> n % (FmtMax + 1), cut |-> H + n]

\* one underlying Write carries the whole record.  (staleBuf deviation: a record whose Write failed is
\* still in the pooled buffer; it goes out first, followed by this record without its 3-byte prefix.)
WriteRec(w, n) ==
  /\ WMode \in {"atomic", "staleBuf"}
  /\ Calls < MaxRec /\ ~broken
  /\ n <= WLimit
  /\ recs' = Append(recs, NewRec(w, n))
  /\ cnt' = [cnt EXCEPT ![w] = @ + 1]
  /\ wire' = wire \o (IF stale # 0
                        THEN RecBytes(-stale, fails[stale].len) \o SubSeq(RecBytes(Len(recs) + 1, n), 4, H + n)
                        ELSE RecBytes(Len(recs) + 1, n))
  /\ stale' = 0
  /\ UNCHANGED <<pend, lock, fails, broken, rdvars, out>>

\* Write refuses a message (tls.go:98-100): nothing reaches the wire.  Always allowed by the statement.
WriteRefuse(w, n) ==
  /\ WMode \in {"atomic", "staleBuf"}
  /\ Calls < MaxRec /\ ~broken
  /\ n > WLimit
  /\ cnt' = [cnt EXCEPT ![w] = @ + 1]
  /\ UNCHANGED <<wire, recs, pend, lock, fails, broken, stale, rdvars, out>>

\* the transport fails the underlying Write (e.g. write deadline expired while the peer's window is
\* full) after accepting p bytes - net.Conn permits any p < record length.  p = 0: the call reports
\* failure, the stream is intact and later Writes must work; the message must never be delivered.
\* p > 0: a torn record is on the wire and nothing can follow it (the caller closes the connection).
WriteFail(w, n, p) ==
  /\ WMode \in {"atomic", "staleBuf"}
  /\ Calls < MaxRec /\ ~broken
  /\ Len(fails) < MaxFail
  /\ n <= WLimit
  /\ p \in 0..(H + n - 1)
  /\ cnt' = [cnt EXCEPT ![w] = @ + 1]
  /\ IF p = 0
       THEN /\ fails' = Append(fails, [w |-> w, k |-> cnt[w] + 1, len |-> n])
            /\ stale' = IF WMode = "staleBuf" THEN Len(fails) + 1 ELSE 0
            /\ UNCHANGED <<wire, recs, broken>>
       ELSE /\ recs' = Append(recs, [NewRec(w, n) EXCEPT !.cut = p])
            /\ wire' = wire \o SubSeq(RecBytes(Len(recs) + 1, n), 1, p)
            /\ broken' = TRUE
            /\ UNCHANGED <<fails, stale>>
  /\ UNCHANGED <<pend, lock, rdvars, out>>

WriteHdr(w, n) ==
  /\ WMode \in {"split", "splitLocked"}
  /\ Calls < MaxRec
  /\ pend[w] = 0
  /\ WMode = "splitLocked" => lock = 0
  /\ recs' = Append(recs, NewRec(w, n))
  /\ cnt' = [cnt EXCEPT ![w] = @ + 1]
  /\ wire' = wire \o HdrBytes(Len(recs) + 1)
  /\ pend' = [pend EXCEPT ![w] = Len(recs) + 1]
  /\ lock' = IF WMode = "splitLocked" THEN w ELSE 0
  /\ UNCHANGED <<fails, broken, stale, rdvars, out>>

WriteBody(w) ==
  /\ pend[w] # 0
  /\ wire' = wire \o BodyBytes(pend[w], recs[pend[w]].len)
  /\ pend' = [pend EXCEPT ![w] = 0]
  /\ lock' = 0
  /\ UNCHANGED <<recs, cnt, fails, broken, stale, rdvars, out>>

-----------------------------------------------------------------------------
\* transport + reader

Chunk(n) ==
  /\ phase \in {"hdr", "body"}
  /\ n \in 1..Min(need, Len(wire))
  /\ (RMode = "single" /\ phase = "body") => nbc = 0
  /\ wire' = SubSeq(wire, n + 1, Len(wire))
  /\ IF phase = "hdr"
       THEN LET h == hgot \o SubSeq(wire, 1, n) IN
            /\ hgot' = h /\ bgot' = bgot /\ nbc' = 0
            /\ IF n < need
                 THEN phase' = "hdr" /\ need' = need - n
                 ELSE LET l == Decode(h) IN
                      IF l > Buf /\ RMode # "trunc"
                        THEN phase' = "over" /\ need' = 0
                        ELSE phase' = "body" /\ need' = Min(l, Buf)
       ELSE /\ bgot' = bgot \o SubSeq(wire, 1, n) /\ hgot' = hgot
            /\ nbc' = nbc + 1 /\ need' = need - n /\ phase' = "body"
  /\ UNCHANGED <<recs, cnt, pend, lock, fails, broken, stale, out>>

ReturnEnabled ==
  \/ phase = "over"
  \/ phase = "body" /\ (need = 0 \/ (RMode = "single" /\ nbc > 0))

Return ==
  /\ ReturnEnabled
  /\ IF phase = "over"
       THEN /\ out' = Append(out, [err |-> TRUE, msg |-> <<>>])
            /\ phase' = "dead" /\ need' = 0 /\ UNCHANGED <<hgot, bgot, nbc>>
       ELSE /\ out' = Append(out, [err |-> FALSE, msg |-> bgot])
            /\ phase' = "hdr" /\ need' = H /\ hgot' = <<>> /\ bgot' = <<>> /\ nbc' = 0
  /\ UNCHANGED wvars

Next ==
  \/ \E w \in 1..NW, n \in Lens : WriteRec(w, n) \/ WriteHdr(w, n) \/ WriteRefuse(w, n)
  \/ \E w \in 1..NW, n \in Lens : \E p \in 0..(H + n - 1) : WriteFail(w, n, p)
  \/ \E w \in 1..NW : WriteBody(w)
  \/ \E n \in 1..(H + Buf) : Chunk(n)
  \/ Return

Spec == RLInit /\ [][Next]_vars

-----------------------------------------------------------------------------
\* the property

Expected(i) == IF recs[i].len > Buf THEN [err |-> TRUE, msg |-> <<>>]
               ELSE [err |-> FALSE, msg |-> BodyBytes(i, recs[i].len)]

\* every Read call returned exactly one written message, whole, in wire order ...
Whole == \A i \in 1..Len(out) :
           ~out[i].err => (i <= Len(recs) /\ out[i].msg = BodyBytes(i, recs[i].len))

\* ... and an error exactly for a record longer than the buffer (never a short message)
OversizeErr == \A i \in 1..Len(out) : i <= Len(recs) /\ (out[i].err <=> recs[i].len > Buf)

InOrderWhole == \A i \in 1..Len(out) : i <= Len(recs) /\ out[i] = Expected(i)

\* nothing is returned after an error (the stream position is lost)
ErrIsFinal == \A i \in 1..Len(out) : out[i].err => (i = Len(out) /\ phase = "dead")

\* messages of one writer keep their order on the wire
PerWriterOrder == \A i, j \in 1..Len(recs) :
                    (i < j /\ recs[i].w = recs[j].w) => recs[i].k < recs[j].k

\* records never interleave on the wire: what the current Read call holds plus what is in
\* flight is the concatenation of the not-yet-returned records, whole, in id order (a record
\* whose body write is pending may be cut short at the very end only)
RECURSIVE Cat(_, _)
Cat(i, n) == IF i > n THEN <<>>
             ELSE SubSeq(RecBytes(i, recs[i].len), 1, recs[i].cut) \o Cat(i + 1, n)
IsPrefix(s, t) == Len(s) <= Len(t) /\ s = SubSeq(t, 1, Len(s))
InFlight == hgot \o bgot \o wire
NoInterleave ==
  phase \in {"hdr", "body"} =>
     /\ IsPrefix(InFlight, Cat(Len(out) + 1, Len(recs)))
     /\ (\A w \in 1..NW : pend[w] = 0) => InFlight = Cat(Len(out) + 1, Len(recs))

\* a Read call never sits on a complete message, and once everything in flight is consumed
\* everything written has been returned
Complete ==
  (wire = <<>> /\ (\A w \in 1..NW : pend[w] = 0) /\ phase \in {"hdr", "body"} /\ ~ReturnEnabled /\ ~broken)
     => (phase = "hdr" /\ need = H /\ Len(out) = Len(recs))

\* a message whose Write failed with nothing sent is never delivered, in whole or in part
NoGhost == \A i \in 1..Len(out) : \A j \in 1..Len(out[i].msg) : out[i].msg[j][1] > 0

\* a torn record (Write failed after a prefix) is never delivered as a message
NoTorn == \A i \in 1..Len(out) : (~out[i].err /\ i <= Len(recs)) => recs[i].cut = H + recs[i].len

\* Write accepts a message only if its length fits the header's length field
Fits == \A i \in 1..Len(recs) : recs[i].len <= FmtMax /\ recs[i].hl = recs[i].len

TypeOK ==
  /\ phase \in {"hdr", "body", "over", "dead"}
  /\ need \in 0..(H + Buf)
  /\ Len(hgot) <= H /\ Len(bgot) <= Buf
  /\ phase = "hdr" => (Len(hgot) + need = H /\ bgot = <<>>)
  /\ phase = "body" => Len(hgot) = H
  /\ lock \in 0..NW
  /\ broken \in BOOLEAN /\ stale \in 0..Len(fails)
=============================================================================
