SPECIFICATION Spec
CONSTANTS
  Src = {@SRC@}
  MaxData = @MAXDATA@
  MaxStream = @MAXSTREAM@
  MaxSess = @MAXSESS@
  MaxReply = @MAXREPLY@
  Singleplex = @SINGLE@
  Dev = {@DEV@}
INVARIANTS @INV@
CHECK_DEADLOCK FALSE
