SPECIFICATION Spec
CONSTANTS
  Mode = "@MODE@"
  Readers = @READERS@
  Writers = @WRITERS@
  Limit = @LIMIT@
  Sizes = @SIZES@
  Caps = @CAPS@
  T = @T@
  DLs = @DLS@
  MaxWrites = @MAXW@
  MaxReads = @MAXR@
  MaxCtl = @MAXC@
  TimerUnlocked = @UNLOCKED@
  DevChoices = @DEV@
INVARIANTS TypeOK PrefixInv Conservation EofFinal NotBothParked @INVS@
PROPERTIES RetSound
VIEW McView
SYMMETRY Sym
CHECK_DEADLOCK FALSE
