SPECIFICATION GSpec
CONSTANTS
  Mode = "@MODE@"
  Readers = @READERS@
  Writers = @WRITERS@
  Limit = @LIMIT@
  Sizes = @SIZES@
  Caps = @CAPS@
  T = @T@
  DLs = @DLS@
  MaxWrites = @DEPTH@
  MaxReads = @DEPTH@
  MaxCtl = @DEPTH@
  MaxDepth = @DEPTH@
  TimerUnlocked = FALSE
  DevChoices = @DEV@
INVARIANTS Emit @INVS@
CHECK_DEADLOCK FALSE
