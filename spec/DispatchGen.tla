---------------------------- MODULE DispatchGen ----------------------------
(* Behaviour generator for Dispatch.  Environment steps (Deliver, Timeout,  *)
(* PeerClose) are taken only when the server and the target have nothing    *)
(* left to do, and each is recorded together with the observation of the    *)
(* quiescent state it starts from; a behaviour therefore reads "do step k,  *)
(* wait for quiescence, expect pre of step k+1 (or fin after the last)".    *)
(* The server's own steps are confluent: the quiescent state reached after  *)
(* an environment step does not depend on their interleaving, so one        *)
(* behaviour per environment sequence is printed.                           *)
EXTENDS Dispatch, Json

VARIABLE hist
gvars == <<vars, hist>>

Obs == [outcome |-> outcome, consumed |-> consumed, nt |-> Len(toTarget), np |-> Len(toPeer),
        peerOpen |-> ~srvClosedPeer, dial |-> DialTo, own |-> Len(SelectSeq(toPeer, LAMBDA x : x = 0))]

CONSTANTS FullTimeline,  \* TRUE: Timeout and PeerClose at any point; FALSE: at the start, after the first segment, at the end
          Mode           \* "reader": every stream shape against a silent, reachable target (reading, segmentation, deadline, close)
                         \* "relay" : streams that get as far as the decision, against every target script / reachability;
                         \*           deadline and close only after the last segment
                         \* "full"  : the product (scripts only where they can matter)

\* the target's script and reachability only matter once the stream can get as far as the redirect
Relevant ==
  CASE Mode = "reader" -> case.script = "silent" /\ case.down = "up"
    [] Mode = "relay"  -> /\ CompleteFaithful(C, C.total) /\ (case.down # "up" => case.script = "silent")
                          /\ ~(case.script = "silent" /\ case.down = "up")        \* that one is the reader mode's
    [] OTHER           -> /\ (case.down # "up" => case.script = "silent")
                          /\ (~CompleteFaithful(C, C.total) => case.script = "silent" /\ case.down = "up")

GInit == Init /\ Relevant /\ hist = <<>>

When == IF Mode = "relay" THEN sent = C.total ELSE (FullTimeline \/ nchunks <= 1 \/ sent = C.total)

GDeliver == \E n \in 1..(Buf + Trail + 1) : Deliver(n) /\ hist' = Append(hist, [a |-> "Deliver", n |-> n, pre |-> Obs])
GTimeout == When /\ Timeout /\ hist' = Append(hist, [a |-> "Timeout", n |-> 0, pre |-> Obs])
GPeerClose == When /\ PeerClose /\ hist' = Append(hist, [a |-> "PeerClose", n |-> 0, pre |-> Obs])

GNext == \/ Quiescent /\ (GDeliver \/ GTimeout \/ GPeerClose)
         \/ ~Quiescent /\ ServerNext /\ UNCHANGED hist
GSpec == GInit /\ [][GNext]_gvars

\* a behaviour is complete when the peer has nothing more to send (or has closed) and the 15 s have passed
Terminal == Quiescent /\ timedOut /\ (peerClosed \/ sent = C.total)

Emit == Terminal => PrintT(<<"BEHAVIOUR", ToJson([case |-> case, steps |-> hist, fin |-> Obs, dev |-> Dev])>>)
=============================================================================
