SPECIFICATION Spec
CONSTANTS
  Limit = @LIMIT@
  LenMode = "@LENMODE@"
  PadMode = "@PADMODE@"
  TamperMode = "@TAMPER@"
  HeaderTailUnbound = @TAIL@
  PadSlack = @SLACK@
  Sids = @SIDS@
  Seqs = @SEQS@
INVARIANTS @INVS@
CHECK_DEADLOCK FALSE
