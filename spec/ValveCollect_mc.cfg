SPECIFICATION Spec
CONSTANTS
  Meters = {1, 2}
  Collectors = {1, 2}
  MaxAdds = 4
  MaxCollects = 3
  Dev = {@DEV@}
INVARIANTS Conservation
CHECK_DEADLOCK FALSE
