----------------------------- MODULE UserDBTrace -----------------------------
(* Trace validation for UserDB (C18, B2): the recorded execution has a       *)
(* sequential driver (thread 0: set-up requests and the full read-back) and  *)
(* up to four goroutines issuing overlapping admin requests / usage uploads  *)
(* against one APIRouter + localManager.  Events are call/return pairs in    *)
(* the order of a global atomic sequence number; the state change of each    *)
(* call is a silent step (one of UserDB's actions, unchanged) that TLC       *)
(* places somewhere between the call and its return.  The recording is       *)
(* accepted iff every completed operation can be given such a point and      *)
(* every read (GET / LIST, concurrent or in the read-back) returned exactly  *)
(* the model's store at its point: linearizability w.r.t. UserDB.            *)
(* Episodes are concatenated, each starts with a "Reset" (empty database).   *)
(* Status codes and TERMINATE answers are recorded but do not decide.        *)
EXTENDS UserDB, Sequences, Json, IOUtils

Trace == ndJsonDeserialize(IOEnv.VERIF_TRACE)

Threads == 0..4

VARIABLES l,      \* next trace line to consume
          pend    \* per thread: the call in progress, whether its step was taken, the store it saw
tvars == <<vars, l, pend>>

FieldSeq == <<"SessionsCap", "UpRate", "DownRate", "UpCredit", "DownCredit", "ExpiryTime">>
Idx(f)   == CHOOSE j \in 1..6 : FieldSeq[j] = f

\* six cells (<<>> not mentioned / null, <<v>>) -> a write class / a record as read
WOf(c)     == [f \in Fields |-> IF Len(c[Idx(f)]) = 0 THEN Absent ELSE c[Idx(f)][1]]
CellVal(c) == IF Len(c) = 0 THEN 0 ELSE c[1]
\* what a GET / a LIST entry showed against the model's record (a missing user is <<>>; null reads as 0)
MatchRec(r, cells) ==
  IF r = NoUser THEN Len(cells) = 0
  ELSE /\ Len(cells) = 6
       /\ \A i \in 1..6 : CellVal(cells[i]) = (IF r[FieldSeq[i]] = Absent THEN 0 ELSE r[FieldSeq[i]])

Idle == [busy |-> FALSE, done |-> FALSE, e |-> <<>>, saw |-> <<>>]

Ev == Trace[l]
IsEvent(e) == l <= Len(Trace) /\ Ev.ev = e /\ l' = l + 1

TInit == /\ Init
         /\ l = 1
         /\ pend = [t \in Threads |-> Idle]
         /\ TLCSet(1, 1)

\* the driver empties the database between episodes (no operation is in flight)
TReset == /\ IsEvent("Reset")
          /\ db' = NoDB /\ disk' = NoDB /\ last' = NoArg /\ nops' = 0
          /\ pend' = [t \in Threads |-> Idle]

Call == /\ IsEvent("call")
        /\ ~pend[Ev.t].busy
        /\ pend' = [pend EXCEPT ![Ev.t] = [busy |-> TRUE, done |-> FALSE, e |-> Ev, saw |-> <<>>]]
        /\ UNCHANGED vars

\* silent: the linearisation point of the call of thread t - exactly one action of UserDB
Do(t) == /\ pend[t].busy /\ ~pend[t].done
         /\ LET e == pend[t].e IN
            \/ e.op = "post"   /\ Post(e.pu, e.bu, WOf(e.w))
            \/ e.op = "delete" /\ Delete(e.pu)
            \/ e.op = "upload" /\ Upload(e.pu, e.up, e.dn)
            \/ e.op = "get"    /\ Get(e.pu)
            \/ e.op = "list"   /\ List
         /\ pend' = [pend EXCEPT ![t].done = TRUE, ![t].saw = db]
         /\ UNCHANGED l

\* the recorded answer of a read must be the store at the linearisation point
Ret == /\ IsEvent("ret")
       /\ pend[Ev.t].busy /\ pend[Ev.t].done
       /\ LET p == pend[Ev.t] IN
          \/ Ev.void                         \* the call crashed and returned nothing (reported by the driver)
          \/ /\ p.e.op = "get"  => MatchRec(p.saw[p.e.pu], Ev.rec)
             /\ p.e.op = "list" => \A u \in UIDs : MatchRec(p.saw[u], Ev.users[u])
       /\ pend' = [pend EXCEPT ![Ev.t] = Idle]
       /\ UNCHANGED vars

TNext == TReset \/ Call \/ (\E t \in Threads : Do(t)) \/ Ret
TSpec == TInit /\ [][TNext]_tvars

HW == TLCSet(1, IF l > TLCGet(1) THEN l ELSE TLCGet(1))
TraceAccepted ==
  IF TLCGet(1) = Len(Trace) + 1 THEN TRUE
  ELSE PrintT(<<"REJECTED_AT_LINE", TLCGet(1)>>) /\ FALSE
=============================================================================
