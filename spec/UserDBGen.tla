------------------------------ MODULE UserDBGen ------------------------------
(* Behaviour generator for UserDB: a history variable records every step     *)
(* with the verdict, the expected full store after the step and the expected *)
(* consumer results; behaviours of exactly MaxOps operations are printed as  *)
(* JSON.  Get and List are not offered as steps of their own because the     *)
(* replay reads the whole store back (GET every UID + LIST) after EVERY      *)
(* step.  UIDs are interchangeable, so the first operation is pinned to      *)
(* FirstUID (the replay maps u1/u2 to concrete UIDs in both byte orders).    *)
EXTENDS UserDB, Sequences, Json

CONSTANT FirstUID

VARIABLE hist
gvars == <<vars, hist>>

FieldSeq == <<"SessionsCap", "UpRate", "DownRate", "UpCredit", "DownCredit", "ExpiryTime">>

\* a record as six cells in FieldSeq order: <<v>> written, <<>> never written; a missing user is <<>>
Cells(r)   == [i \in 1..6 |-> IF r[FieldSeq[i]] # Absent THEN <<r[FieldSeq[i]]>> ELSE <<>>]
Snap(d)    == [u \in UIDs |-> IF Has(d, u) THEN Cells(d[u]) ELSE <<>>]

\* body of a mismatching POST: the replay sends values that occur nowhere else
MismatchW == Only(Fields, 7)

Entry(l, pre, d) ==
  [o |-> l.op, p |-> l.pu, b |-> l.bu, w |-> Cells(l.w), up |-> l.up, dn |-> l.dn, ok |-> l.ok,
   s |-> Snap(d),
   c |-> [u \in UIDs |-> ConnectRes(d, u)],
   a |-> [u \in UIDs |-> AuthoriseRes(d, u)],
   t |-> [u \in UIDs |-> UploadRes(d, u, 0, 0)],
   r |-> IF l.op = "upload" THEN UploadRes(pre, l.pu, l.up, l.dn) ELSE {}]

First(u) == nops > 0 \/ u = FirstUID

GInit == Init /\ hist = <<>>

GNext ==
  /\ \/ \E u \in UIDs, w \in Writes : First(u) /\ Post(u, u, w)
     \/ \E pu \in UIDs, bu \in UIDs : pu # bu /\ First(pu) /\ Post(pu, bu, MismatchW)
     \/ PostMalformed("all")            \* the replay sends every kind of MalformedKinds at this step (and two
                                        \* POSTs whose body names a UID outside UIDs: Post(pu, bu, w) with pu # bu)
     \/ \E u \in UIDs : First(u) /\ Delete(u)
     \/ Reopen
     \/ \E u \in UIDs, up \in VS(UpUsages), dn \in VS(DownUsages) : First(u) /\ Upload(u, up, dn)
  /\ hist' = Append(hist, Entry(last', db, db'))

GSpec == GInit /\ [][GNext]_gvars

\* the consumer results recorded for the step just taken (ConsumersTotal of UserDB, already evaluated)
GenNoPanic == hist # <<>> =>
  LET e == hist[Len(hist)] IN
  \A u \in UIDs : e.c[u] # "panic" /\ e.a[u] # "panic" /\ "panic" \notin e.t[u] /\ "panic" \notin e.r

Emit == nops = MaxOps => PrintT(<<"C18BEHAVIOUR", ToJson([steps |-> hist])>>)
=============================================================================
