SPECIFICATION Spec
CONSTANTS
  Free = @FREE@
  MaxDev = @MAXDEV@
  MaxInvalid = @MAXINVALID@
INVARIANTS Emit TypeOK Total ErrorIff Sentences BypassExact Silent ListenInv
CHECK_DEADLOCK FALSE
