---------------------------- MODULE WireTLSTrace ----------------------------
(* Trace validation for WireTLS.  The trace is what the tap of the rig saw, *)
(* parsed by harness/kit/tlsparse.go: per connection one "Open" event (the  *)
(* configured server name), then one "Rec" event per TLS record of either   *)
(* direction in wire order with the measured fields, then one "End" event.  *)
(* Every record is judged by the observer of WireTLS (same Judge/Advance);  *)
(* the sender model of WireTLS plays no part here.  A rejected record stops *)
(* the run: its line and the key of the broken rule are printed.            *)
EXTENDS WireTLS, Json, IOUtils

Trace == ndJsonDeserialize(IOEnv.VERIF_TRACE)

VARIABLE l      \* next trace line
tvars == <<vars, l>>

Ev == Trace[l]
IsEvent(e) == l <= Len(Trace) /\ Ev.ev = e /\ l' = l + 1

TInit == /\ cph = "start" /\ sph = "start" /\ chsid = "" /\ cfgName = "" /\ cfgRand = FALSE
         /\ bad = "none" /\ cst = "new" /\ sst = "new" /\ nfr = [d \in {"c2s", "s2c"} |-> 0]
         /\ l = 1 /\ TLCSet(1, 1)

TOpen == /\ IsEvent("Open")
         /\ cph' = "start" /\ sph' = "start" /\ chsid' = ""
         /\ cfgName' = Ev.cfg_sni /\ cfgRand' = Ev.cfg_random
         /\ UNCHANGED <<bad, snd>>

TRec == /\ IsEvent("Rec")
        /\ LET k == Judge(Ev.dir, Ev) IN
           IF k = "ok" THEN Advance(Ev.dir, Ev)
           ELSE PrintT(<<"REJECTED_KEY", l, k>>) /\ FALSE
        /\ UNCHANGED <<conf, bad, snd>>

\* bytes after the last complete record are reported as an incomplete Rec; End carries counts only
TEnd == /\ IsEvent("End") /\ UNCHANGED vars

TNext == TOpen \/ TRec \/ TEnd
TSpec == TInit /\ [][TNext]_tvars

HW == TLCSet(1, IF l > TLCGet(1) THEN l ELSE TLCGet(1))
TraceAccepted ==
  IF TLCGet(1) = Len(Trace) + 1 THEN TRUE
  ELSE PrintT(<<"REJECTED_AT_LINE", TLCGet(1)>>) /\ FALSE
=============================================================================
