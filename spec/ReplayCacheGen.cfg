SPECIFICATION GSpec
CONSTANTS
  W = @W@
  R = @R@
  Horizon = @H@
  NPackets = @NP@
  MaxPresent = @MP@
  MaxClean = @MC@
  MaxSkew = @SK@
  Dev = @DEV@
  Cap = @CAP@
  MaxForeign = @MF@
  EmitCex = @CEX@
  SplitClean = @SPLIT@
INVARIANTS Emit @INV@
CHECK_DEADLOCK FALSE
