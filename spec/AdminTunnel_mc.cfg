SPECIFICATION Spec
CONSTANTS
  Users = @USERS@
  AdminU = "adm"
  Sids = @SIDS@
  Handles = @HANDLES@
  MaxOps = @DEPTH@
  MaxAdminOps = @MAXADMIN@
  Dev = {@DEV@}
INVARIANTS @INVS@
PROPERTIES @PROPS@
VIEW View
CHECK_DEADLOCK FALSE
