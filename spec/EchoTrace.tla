------------------------------ MODULE EchoTrace ------------------------------
(* C01 end to end (B2): application-level events recorded around a full     *)
(* ck-client (RouteTCP -> Session) / ck-server (dispatchConnection ->        *)
(* serveSession -> proxy target) pair whose target echoes.  Per application  *)
(* connection k the client side logs S(k, n): n more bytes handed to the      *)
(* local socket, R(k, off, n): n bytes read back that are, by content, bytes  *)
(* off..off+n-1 of what this connection sent (the driver decodes the offset   *)
(* from the position-dependent pattern; -1 = not this connection's bytes),    *)
(* and E(k): end-of-stream.  The specification is the per-stream FIFO that    *)
(* Mux.tla's PrefixInv/NoStall describe, composed with an echoing target:    *)
(* what comes back is always the next unread part of what was sent.           *)
EXTENDS Integers, Sequences, TLC, Json, IOUtils

Trace == ndJsonDeserialize(IOEnv.VERIF_TRACE)

VARIABLES l, sent, rcvd, ended
tvars == <<l, sent, rcvd, ended>>

Ev == Trace[l]
Get(f, k, d) == IF k \in DOMAIN f THEN f[k] ELSE d
Put(f, k, v) == [x \in DOMAIN f \cup {k} |-> IF x = k THEN v ELSE f[x]]

TInit == l = 1 /\ sent = <<>> /\ rcvd = <<>> /\ ended = <<>> /\ TLCSet(1, 1)

Reset == /\ l <= Len(Trace) /\ Ev.ev = "Reset" /\ l' = l + 1
         /\ sent' = <<>> /\ rcvd' = <<>> /\ ended' = <<>>

S == /\ l <= Len(Trace) /\ Ev.ev = "S" /\ l' = l + 1
     /\ sent' = Put(sent, Ev.k, Get(sent, Ev.k, 0) + Ev.n)
     /\ UNCHANGED <<rcvd, ended>>

\* bytes come back in order, each exactly once, never ahead of what was sent, never after end-of-stream
R == /\ l <= Len(Trace) /\ Ev.ev = "R" /\ l' = l + 1
     /\ ~Get(ended, Ev.k, FALSE)
     /\ Ev.off = Get(rcvd, Ev.k, 0)
     /\ Ev.off + Ev.n <= Get(sent, Ev.k, 0)
     /\ rcvd' = Put(rcvd, Ev.k, Ev.off + Ev.n)
     /\ UNCHANGED <<sent, ended>>

\* end-of-stream on a healthy run: only after everything sent has come back (the driver closes after reading all)
E == /\ l <= Len(Trace) /\ Ev.ev = "E" /\ l' = l + 1
     /\ Ev.clean => Get(rcvd, Ev.k, 0) = Get(sent, Ev.k, 0)
     /\ ended' = Put(ended, Ev.k, TRUE)
     /\ UNCHANGED <<sent, rcvd>>

TNext == Reset \/ S \/ R \/ E
TSpec == TInit /\ [][TNext]_tvars

HW == TLCSet(1, IF l > TLCGet(1) THEN l ELSE TLCGet(1))
TraceAccepted ==
  IF TLCGet(1) = Len(Trace) + 1 THEN TRUE
  ELSE PrintT(<<"REJECTED_AT_LINE", TLCGet(1)>>) /\ FALSE
=============================================================================
