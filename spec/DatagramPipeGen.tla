-------------------------- MODULE DatagramPipeGen --------------------------
EXTENDS DatagramPipe, TLC, Json
CONSTANT MaxDepth
VARIABLE hist
GInit == Init /\ hist = <<>>
GNext == Len(hist) < MaxDepth /\ Next /\ hist' = Append(hist, last')
GSpec == GInit /\ [][GNext]_<<dvars, hist>>
Done == Len(hist) = MaxDepth \/ ~ENABLED GNext
Emit == Done => PrintT(<<"BEHAVIOUR", ToJson([n |-> N, steps |-> hist])>>)
=============================================================================
