SPECIFICATION TSpec
CONSTANTS
  MaxCipher = 16640
  WireLimit = 16401
  WriteLimit = 16640
  FrameHdr = 14
  MaxExtra = 255
  Tags = {8, 16}
  CertLens = {27}
  Names = {"x"}
  MaxFrames = 0
  Dev = {}
CONSTRAINT HW
POSTCONDITION TraceAccepted
INVARIANTS ObserverAccepts
CHECK_DEADLOCK FALSE
