SPECIFICATION Spec
CONSTANTS
  Free = @FREE@
  MaxDev = @MAXDEV@
  MaxInvalid = @MAXINVALID@
  CaseFold = @CASEFOLD@
INVARIANTS Emit TypeOK Total ErrorIff Sentences Silent CaseInv
CHECK_DEADLOCK FALSE
