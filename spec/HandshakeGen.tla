---------------------------- MODULE HandshakeGen ----------------------------
(* Case generator for Handshake: every distinct state with a packet on the   *)
(* wire (honest or tampered) is one abstract case; it is printed with the    *)
(* observation the spec allows for it (Expected = the set of decisions over  *)
(* all parser choices) and, where acceptance is possible, the identity the   *)
(* server must derive and whether the admin API must be what is reached.     *)
EXTENDS Handshake, Json

Case ==
  [scope    |-> Scope,
   w        |-> W,
   uid      |-> cfg.uid, mlen |-> cfg.mlen, served |-> cfg.served, enc |-> cfg.enc, sid |-> cfg.sid,
   unord    |-> cfg.unord, sig |-> cfg.sig, tr |-> cfg.tr, sni |-> cfg.sni,
   ustate   |-> env.ustate, off |-> env.off, rightKey |-> env.rightKey, cache |-> env.cache, tick |-> env.tick,
   admin    |-> env.conf.admin, nb |-> env.conf.nb, probe |-> env.probe,
   tampers  |-> tampers,
   verdict  |-> Expected(pkt),
   api      |-> "admin" \in Verdicts(pkt)]

Emit == (phase = "wire") => PrintT(<<"BEHAVIOUR", ToJson(Case)>>)
=============================================================================
