SPECIFICATION TSpec
CONSTANT N = 0
CONSTRAINT HW
POSTCONDITION TraceAccepted
INVARIANTS OrderInv CloseInv HeapInv
CHECK_DEADLOCK FALSE
