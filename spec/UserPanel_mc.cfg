SPECIFICATION Spec
CONSTANTS
  NU = @NU@
  NS = @NS@
  Progs = {@PROGS@}
  Caps = {@CAPS@}
  Creds = {@CREDS@}
  InitSess = {@INITSESS@}
  MaxNew = @MAXNEW@
  MaxTraffic = @MAXTRAFFIC@
  AdminOps = {@ADMINOPS@}
  MaxAdmin = @MAXADMIN@
  Dev = {@DEV@}
INVARIANTS TypeOK @INV@
CHECK_DEADLOCK FALSE
