---------------------------- MODULE ValveCollect ----------------------------
(* Usage collection at the grain of the code's atomic operations (C16:      *)
(* "usage is charged exactly once").  Go: LimitedValve.AddRx / AddTx are     *)
(* atomic adds on a counter; LimitedValve.Nullify is ONE atomic swap with 0  *)
(* per counter; userPanel.updateUsageQueue adds what Nullify returned to the *)
(* pending queue, commitUpdate hands the queue to the manager.  Metering     *)
(* goes on while a collection runs (deplex / send of every connection), and  *)
(* two collections can overlap (regularQueueUpload starts a goroutine per    *)
(* tick; TerminateActiveUser collects on its own).                           *)
(*                                                                           *)
(* One counter is modelled (the two directions are independent).             *)
EXTENDS Naturals, FiniteSets, TLC

CONSTANTS Meters,      \* goroutines that meter one unit each time they step (bounded by MaxAdds)
          Collectors,  \* goroutines that collect
          MaxAdds, MaxCollects,
          Dev          \* {} = the code (swap); {"LoadThenStore"} = read the counter, then store 0

VARIABLES counter, charged, added, pc, loaded, ncollect
vars == <<counter, charged, added, pc, loaded, ncollect>>

Init == /\ counter = 0 /\ charged = 0 /\ added = 0 /\ ncollect = 0
        /\ pc = [c \in Collectors |-> "idle"]
        /\ loaded = [c \in Collectors |-> 0]

Add(m) == /\ added < MaxAdds
          /\ counter' = counter + 1 /\ added' = added + 1
          /\ UNCHANGED <<charged, pc, loaded, ncollect>>

Swap(c) == /\ pc[c] = "idle" /\ "LoadThenStore" \notin Dev /\ ncollect < MaxCollects
           /\ charged' = charged + counter /\ counter' = 0
           /\ ncollect' = ncollect + 1
           /\ UNCHANGED <<added, pc, loaded>>
Load(c) == /\ pc[c] = "idle" /\ "LoadThenStore" \in Dev /\ ncollect < MaxCollects
           /\ loaded' = [loaded EXCEPT ![c] = counter]
           /\ pc' = [pc EXCEPT ![c] = "loaded"]
           /\ ncollect' = ncollect + 1
           /\ UNCHANGED <<counter, charged, added>>
Store(c) == /\ pc[c] = "loaded"
            /\ counter' = 0
            /\ charged' = charged + loaded[c]
            /\ pc' = [pc EXCEPT ![c] = "idle"]
            /\ UNCHANGED <<added, loaded, ncollect>>

Next == (\E m \in Meters : Add(m)) \/ (\E c \in Collectors : Swap(c) \/ Load(c) \/ Store(c))
Spec == Init /\ [][Next]_vars

\* every metered unit is either charged or still waiting in the counter: never lost, never charged twice
Conservation == (\A c \in Collectors : pc[c] = "idle") => charged + counter = added
=============================================================================
