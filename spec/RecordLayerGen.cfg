SPECIFICATION GSpec
CONSTANTS
  H = @H@
  Buf = @BUF@
  Lens = @LENS@
  NW = @NW@
  MaxRec = @MAXREC@
  MaxFail = @MAXFAIL@
  FmtMax = @FMTMAX@
  WLimit = @WLIMIT@
  WMode = "atomic"
  RMode = "full"
INVARIANTS Emit InOrderWhole ErrIsFinal NoInterleave Complete
CHECK_DEADLOCK FALSE
