SPECIFICATION TSpec
CONSTANTS
  NU = @NU@
  NS = @NS@
  Progs = {{@SLOTS@}}
  Caps = {@CAPS@}
  Creds = {@CREDS@}
  InitSess = {@INITSESS@}
  MaxNew = @MAXNEW@
  MaxTraffic = 0
  AdminOps = {"expire", "unexpire"}
  MaxAdmin = 1000000
  Dev = {@DEV@}
CONSTRAINT HW
POSTCONDITION TraceAccepted
INVARIANTS @INV@
CHECK_DEADLOCK FALSE
