------------------------------ MODULE RelayGen ------------------------------
(* Behaviour generator for Relay.  Continuations of running goroutines       *)
(* (Internal) are taken with priority and - with Canon - in one canonical    *)
(* order; the environment's steps (applications, one frame delivered on the  *)
(* gated tunnel connection, reset of the tunnel connection, a proxy dial     *)
(* armed to fail, 15 s of virtual time) are the choices.  hist holds one      *)
(* entry per environment step: the step and the observation the harness can   *)
(* make at the quiescent point that follows it.  With Canon = FALSE every     *)
(* order of the continuations is generated (confluence check: all behaviours  *)
(* with the same environment steps must carry the same observations).         *)
EXTENDS Relay, Json

CONSTANTS MaxDepth, Canon

VARIABLE hist
gvars == <<st, hist>>

B2N(b) == IF b THEN 1 ELSE 0
Sum(f, D) == LET RECURSIVE R(_) 
                 R(T) == IF T = {} THEN 0 ELSE LET e == CHOOSE e \in T : TRUE IN f[e] + R(T \ {e})
             IN R(D)
\* goroutines of Cloak alive at a quiescent point: RouteTCP loop, per local connection the connection goroutine
\* (before copying) or the two copy directions, per session the client's deplex, the server's deplex and the
\* dispatchConnection/serveSession goroutine, per proxy connection the two copy directions
Gor(x) ==
  1 + Sum([i \in C |-> B2N(x.rpc[i] \in {"needsess", "firstread", "open", "firstwrite"}) + B2N(x.cup[i] = "run")
                        + B2N(x.cdn[i] \in {"run", "hand"}) + B2N(x.sup[i] \in {"run", "hand"}) + B2N(x.sdn[i] = "run")], C)
    + Sum([s \in S |-> B2N(x.cs[s] = "open") + B2N(x.ss[s] = "open") + B2N(x.serve[s])], S)

Obs(x) == [lrel |-> x.lrel, prel |-> x.prel, nsess |-> x.nsess, cs |-> x.cs, ss |-> x.ss, sess |-> x.sess,
           tq |-> [s \in S |-> <<Len(x.tqU[s]), Len(x.tqD[s])>>], pord |-> x.pord, gor |-> Gor(x),
           gotUp |-> x.gotUp, gotDn |-> x.gotDn, eofUp |-> x.eofUp, eofDn |-> x.eofDn,
           wroteUp |-> x.wroteUp, wroteDn |-> x.wroteDn,
           quiet |-> Quiescent(x),
           owedUp |-> [i \in C |-> UpOwed(x, i)], owedDn |-> [i \in C |-> DnOwed(x, i)],
           own |-> [i \in C |-> OwnCause(x, i)], kill |-> x.kill, hurt |-> x.hurt,
           frdl |-> x.frdl, rpc |-> x.rpc, cst |-> x.cst, lapp |-> x.lapp, papp |-> x.papp]

Min(T) == CHOOSE m \in T : \A n \in T : m <= n
\* the canonical continuation: first enabled kind, smallest index
CanonInt(x) ==
  IF G_NeedSession(x) THEN E_NeedSession(x)
  ELSE IF \E i \in C : G_SingleMake(x, i) THEN E_SingleMake(x, Min({i \in C : G_SingleMake(x, i)}))
  ELSE IF \E i \in C : G_FirstRead(x, i) THEN E_FirstRead(x, Min({i \in C : G_FirstRead(x, i)}))
  ELSE IF \E i \in C : G_FirstReadEnd(x, i) THEN E_FirstReadEnd(x, Min({i \in C : G_FirstReadEnd(x, i)}))
  ELSE IF \E i \in C : G_OpenStream(x, i) THEN E_OpenStream(x, Min({i \in C : G_OpenStream(x, i)}))
  ELSE IF \E i \in C : G_FirstWrite(x, i) THEN E_FirstWrite(x, Min({i \in C : G_FirstWrite(x, i)}))
  ELSE IF \E s \in S : G_IdleFire(x, "c", s) THEN E_IdleFire(x, "c", Min({s \in S : G_IdleFire(x, "c", s)}))
  ELSE IF \E s \in S : G_IdleFire(x, "s", s) THEN E_IdleFire(x, "s", Min({s \in S : G_IdleFire(x, "s", s)}))
  ELSE IF \E i \in C : G_FirstReadTimeout(x, i) THEN E_FirstReadTimeout(x, Min({i \in C : G_FirstReadTimeout(x, i)}))
  ELSE IF \E s \in S : G_DeplexEnd(x, "c", s) THEN E_DeplexEnd(x, "c", Min({s \in S : G_DeplexEnd(x, "c", s)}))
  ELSE IF \E s \in S : G_DeplexEnd(x, "s", s) THEN E_DeplexEnd(x, "s", Min({s \in S : G_DeplexEnd(x, "s", s)}))
  ELSE IF \E s \in S : G_ServeAccept(x, s) THEN E_ServeAccept(x, Min({s \in S : G_ServeAccept(x, s)}))
  ELSE IF \E s \in S : G_ServeExit(x, s) THEN E_ServeExit(x, Min({s \in S : G_ServeExit(x, s)}))
  ELSE IF \E i \in C : G_CUp(x, i) THEN E_CUp(x, Min({i \in C : G_CUp(x, i)}))
  ELSE IF \E i \in C : G_CDn(x, i) THEN E_CDn(x, Min({i \in C : G_CDn(x, i)}))
  ELSE IF \E i \in C : G_SUp(x, i) THEN E_SUp(x, Min({i \in C : G_SUp(x, i)}))
  ELSE E_SDn(x, Min({i \in C : G_SDn(x, i)}))

Ev(a, i, s, side) == [a |-> a, i |-> i, s |-> s, side |-> side]
\* one environment step, labelled
EnvStep ==
  \/ \E i \in C :
       \/ Do(G_LocalDial(st, i), E_LocalDial(st, i)) /\ hist' = Append(hist, [ev |-> Ev("LocalDial", i, 0, ""), obs |-> Obs(st')])
       \/ Do(G_LocalWrite(st, i), E_LocalWrite(st, i)) /\ hist' = Append(hist, [ev |-> Ev("LocalWrite", i, 0, ""), obs |-> Obs(st')])
       \/ Do(G_LocalRead(st, i), E_LocalRead(st, i)) /\ hist' = Append(hist, [ev |-> Ev("LocalRead", i, 0, ""), obs |-> Obs(st')])
       \/ Do(G_LocalClose(st, i), E_LocalClose(st, i)) /\ hist' = Append(hist, [ev |-> Ev("LocalClose", i, 0, ""), obs |-> Obs(st')])
       \/ Do(G_LocalReset(st, i), E_LocalReset(st, i)) /\ hist' = Append(hist, [ev |-> Ev("LocalReset", i, 0, ""), obs |-> Obs(st')])
       \/ Do(G_ProxyWrite(st, i), E_ProxyWrite(st, i)) /\ hist' = Append(hist, [ev |-> Ev("ProxyWrite", i, 0, ""), obs |-> Obs(st')])
       \/ Do(G_ProxyRead(st, i), E_ProxyRead(st, i)) /\ hist' = Append(hist, [ev |-> Ev("ProxyRead", i, 0, ""), obs |-> Obs(st')])
       \/ Do(G_ProxyClose(st, i), E_ProxyClose(st, i)) /\ hist' = Append(hist, [ev |-> Ev("ProxyClose", i, 0, ""), obs |-> Obs(st')])
  \/ \E s \in S :
       \/ Do(G_TunnelFail(st, s), E_TunnelFail(st, s)) /\ hist' = Append(hist, [ev |-> Ev("TunnelFail", 0, s, ""), obs |-> Obs(st')])
       \/ \E side \in Sides : Do(G_Deliver(st, side, s), E_Deliver(st, side, s))
                              /\ hist' = Append(hist, [ev |-> Ev("Deliver", 0, s, side), obs |-> Obs(st')])
  \/ Do(G_ArmDialFail(st), E_ArmDialFail(st)) /\ hist' = Append(hist, [ev |-> Ev("ArmDialFail", 0, 0, ""), obs |-> Obs(st')])
  \/ Do(G_Advance(st), E_Advance(st)) /\ hist' = Append(hist, [ev |-> Ev("Advance", 0, 0, ""), obs |-> Obs(st')])

\* a continuation: the observation of the last environment step is brought up to date
IntStep ==
  /\ IF Canon THEN st' = TLCEval(CanonInt(st)) ELSE Internal
  /\ hist' = IF hist = <<>> THEN hist ELSE [hist EXCEPT ![Len(hist)].obs = Obs(st')]

\* after MaxDepth steps the behaviour is drained in a canonical order (frames in flight are delivered, applications read
\* what has arrived) so that it ends at a quiescent point, where completeness and the absence of orphans are judged
DrainEv == {"Deliver", "LocalRead", "ProxyRead"}
Rank(e) == (IF e.a = "Deliver" THEN 0 ELSE IF e.a = "LocalRead" THEN 100 ELSE 200) + e.s * 10 + e.i * 2 + (IF e.side = "s" THEN 1 ELSE 0)
DrainCands(x) == {Ev("Deliver", 0, s, side) : s \in {s \in S : TRUE}, side \in Sides} \cup {Ev("LocalRead", i, 0, "") : i \in C} \cup {Ev("ProxyRead", i, 0, "") : i \in C}
DrainOn(x, e) == IF e.a = "Deliver" THEN G_Deliver(x, e.side, e.s) ELSE IF e.a = "LocalRead" THEN G_LocalRead(x, e.i) ELSE G_ProxyRead(x, e.i)
DrainStep ==
  /\ EnvStep
  /\ LET e == hist'[Len(hist')].ev IN
       /\ e.a \in DrainEv
       /\ \A f \in DrainCands(st) : DrainOn(st, f) => Rank(e) <= Rank(f)

GInit == Init /\ hist = <<>>
GStep == IF InternalEnabled(st) THEN IntStep
         ELSE IF Len(hist) < MaxDepth
           THEN /\ EnvStep
                \* without "async" frames in flight are delivered before anything else happens
                /\ ("async" \in Feat \/ ~DeliverEnabled(st) \/ hist'[Len(hist')].ev.a = "Deliver")
           ELSE DrainStep
GSpec == GInit /\ [][GStep]_gvars

EnvEnabled(x) ==
  \/ \E i \in C : G_LocalDial(x, i) \/ G_LocalWrite(x, i) \/ G_LocalRead(x, i) \/ G_LocalClose(x, i) \/ G_LocalReset(x, i)
                  \/ G_ProxyWrite(x, i) \/ G_ProxyRead(x, i) \/ G_ProxyClose(x, i)
  \/ \E s \in S : G_TunnelFail(x, s) \/ \E side \in Sides : G_Deliver(x, side, s)
  \/ G_ArmDialFail(x) \/ G_Advance(x)
Done == ~InternalEnabled(st) /\ ((Len(hist) >= MaxDepth /\ ~DeliverEnabled(st) /\ ~AppReadEnabled(st)) \/ ~EnvEnabled(st))
Emit == Done => PrintT(<<"BEHAVIOUR", ToJson([steps |-> hist])>>)
=============================================================================
