----------------------------- MODULE FrameCodec -----------------------------
(***************************************************************************)
(* The Cloak v2 frame codec (Go: internal/multiplex/obfs.go, the payload   *)
(* maximum of session.go:112) with SYMBOLIC cryptography.                  *)
(*                                                                         *)
(* Wire layout of one message (all integers big-endian):                   *)
(*   bytes 0..3   stream id        \                                       *)
(*   bytes 4..11  sequence number   | 14-byte header, XOR-masked with the  *)
(*   byte  12     closing flag      | Salsa20 key stream (session key,     *)
(*   byte  13     extra = pad+tag  /  nonce = LAST 8 bytes of the message) *)
(*   AEAD methods : Seal(K_m, nonce = header bytes 0..11 (unmasked),       *)
(*                  plaintext = payload \o pad, NO associated data)        *)
(*                  = ciphertext(len+pad) \o tag(16)                       *)
(*   plain        : payload \o pad \o 8 random bytes  (tag(plain) = 8)     *)
(* Method bytes: 0 plain, 1 AES-256-GCM (key[0..31]), 2 ChaCha20-Poly1305  *)
(* (key[0..31]), 3 AES-128-GCM (key[0..15]); Salsa20 always uses all 32.   *)
(*                                                                         *)
(* Symbolic terms: a sealed body remembers under which key / method /      *)
(* header it was sealed, which regions were modified in transit (dirty)    *)
(* and by how many bytes its length changed (delta).  An ideal AEAD opens  *)
(* iff key, method and everything it binds are the sealed ones and nothing *)
(* is dirty.  The header mask is a XOR stream: a modification of a masked  *)
(* header field modifies the same plaintext field; unmasking with another  *)
(* key or another tail gives junk.                                         *)
(*                                                                         *)
(* Deviation flag HeaderTailUnbound (DESIGN.md section 8, D3): the code    *)
(* binds only header bytes 0..11 (they are the nonce); bytes 12 (closing)  *)
(* and 13 (extra) are in neither nonce nor associated data.  TRUE = what   *)
(* the code does, FALSE = the ideal codec in which the whole header is     *)
(* authenticated.                                                          *)
(***************************************************************************)
EXTENDS Integers, Sequences, FiniteSets, TLC

CONSTANTS
  Limit,              \* on-wire size limit (scaled; client and server use 16401)
  LenMode,            \* "all": every length 1..MaxPayload | "classes": {1, 2, Max-1, Max}
  PadMode,            \* "all": every pad the code can draw | "classes": {0, mid, max}
  TamperMode,         \* "none" (C04) | "classes" (generator) | "full" (C11 model check)
  HeaderTailUnbound,  \* deviation flag D3 (see above)
  PadSlack,           \* 0 = the code's padding bound; > 0 = deliberately wrong bound (vacuity probe)
  Sids, Seqs          \* stream ids / sequence numbers explored (Seqs straddles PadFirstN)

VARIABLES phase, frame, method, pad, place, sent, wire, tamper, touched, detail, result
vars == <<phase, frame, method, pad, place, sent, wire, tamper, touched, detail, result>>

HeaderLen   == 14
StreamNonce == 8      \* Salsa20 nonce = last 8 message bytes
MaxExtra    == 255    \* the extra field is one byte
PadFirstN   == 5      \* obfs.go: padFirstNFrames
GarbageMax  == 20480  \* session.go: connReceiveBufferSize

Methods == {"plain", "aes-256-gcm", "chacha20-poly1305", "aes-128-gcm"}
MethodByte(m) == CASE m = "plain" -> 0 [] m = "aes-256-gcm" -> 1
                   [] m = "chacha20-poly1305" -> 2 [] m = "aes-128-gcm" -> 3
IsAEAD(m)  == m # "plain"
Tag(m)     == IF IsAEAD(m) THEN 16 ELSE StreamNonce
MaxPayload == Limit - HeaderLen - MaxExtra          \* session.go:112
MaxPad(m)  == MaxExtra - Tag(m) + PadSlack          \* obfs.go:77  RandInt(maxExtraLen - tagLen + 1)
Pads(m, seq) == IF seq >= PadFirstN THEN {0}
                ELSE IF PadMode = "all" THEN 0..MaxPad(m)
                ELSE {0, MaxPad(m) \div 2, MaxPad(m)}
\* TamperMode "classes" (generator / quick C11 check) starts from fewer frames: the tamper table is keyed by
\* (method, padded, tamper kind, touched fields, detail) only
LenSet   == IF LenMode = "all" THEN 1..MaxPayload
            ELSE IF TamperMode = "classes" THEN {1, MaxPayload}
            ELSE {1, 2, MaxPayload - 1, MaxPayload}
Closings == {0, 1, 2}
InitClosings == IF TamperMode = "classes" THEN {0} ELSE Closings
Places   == IF TamperMode = "none" THEN {"in", "out"} ELSE {"out"}

ASSUME Limit >= HeaderLen + MaxExtra + 4 /\ PadSlack \in Nat

-----------------------------------------------------------------------------
(* encoder *)
NoFrame == [sid |-> 0 - 1, seq |-> 0 - 1, closing |-> 0 - 1, pay |-> [id |-> "none", len |-> 0]]
NoMsg   == [kind |-> "garbage", len |-> 0]

\* buf[14 .. 14+len) when obfuscate starts, and after obfs.go:86-89 (copy only when out of place)
BufAt14(f, pl)   == IF pl = "in" THEN f.pay ELSE [id |-> "stale", len |-> f.pay.len]
AfterCopy(f, pl) == IF pl # "in" THEN f.pay ELSE BufAt14(f, pl)

Hdr(f, extra) == [sid |-> f.sid, seq |-> f.seq, closing |-> f.closing, extra |-> extra % 256]
Nonce(h) == <<h.sid, h.seq>>                        \* header bytes 0..11
Bound(h) == IF HeaderTailUnbound THEN Nonce(h) ELSE <<h.sid, h.seq, h.closing, h.extra>>

Seal(k, m, f, p, pl) ==
  LET h == Hdr(f, p + Tag(m)) IN
  [ kind |-> "sealed",
    hdr  |-> [streamKey |-> k, streamNonce |-> "tail", val |-> h],   \* Mask(Stream(K, Last8(body)), h)
    body |-> [ key |-> k, method |-> m, nonce |-> Nonce(h), sealedHdr |-> h,
               pt |-> AfterCopy(f, pl), pad |-> p, tag |-> Tag(m),
               dirty |-> {}, delta |-> 0 ] ]

Total(w) == IF w.kind = "garbage" THEN w.len
            ELSE HeaderLen + w.body.pt.len + w.body.pad + w.body.tag + w.body.delta

-----------------------------------------------------------------------------
(* decoder, branch by branch as obfs.go:114-156 *)
Reject(why) == [ok |-> "no",  why |-> why, frame |-> NoFrame]
Accept(fr)  == [ok |-> "yes", why |-> "",  frame |-> fr]
Unknown     == [ok |-> "any", why |-> "unauthenticated", frame |-> NoFrame]

\* identity of the last 8 bytes of the message
Last8(w) == IF w.body.delta = 0 /\ "tagHi" \notin w.body.dirty THEN "tail" ELSE "moved"

Unmask(hm, k, tl) == [ok |-> (hm.streamKey = k /\ hm.streamNonce = tl), val |-> hm.val]

Open(k, m, h, b) ==
  /\ b.key = k /\ b.method = m /\ IsAEAD(b.method)
  /\ Bound(h) = Bound(b.sealedHdr)
  /\ b.dirty = {} /\ b.delta = 0

Slice(b, n) == IF n = b.pt.len /\ "payload" \notin b.dirty THEN b.pt ELSE [id |-> "other", len |-> n]

Decode(k, m, w) ==
  IF Total(w) < HeaderLen + StreamNonce THEN Reject("short")
  ELSE IF w.kind = "garbage" THEN (IF IsAEAD(m) THEN Reject("junk") ELSE Unknown)
  ELSE LET u == Unmask(w.hdr, k, Last8(w)) IN
    IF ~u.ok THEN (IF IsAEAD(m) THEN Reject("junk-header") ELSE Unknown)
    ELSE LET h       == u.val
             bodyLen == Total(w) - HeaderLen
             useful  == bodyLen - h.extra
             fr      == [sid |-> h.sid, seq |-> h.seq, closing |-> h.closing, pay |-> Slice(w.body, useful)]
         IN IF useful < 0 THEN Reject("extra")
            ELSE IF ~IsAEAD(m) THEN Accept(fr)
            ELSE IF ~Open(k, m, h, w.body) THEN Reject("auth")
            ELSE Accept(fr)

-----------------------------------------------------------------------------
\* the request (frame, method, buffer placement) is chosen in Init so that TLC spreads the work over many
\* initial states; Encode then draws the padding (obfs.go:75-78) and seals
Init ==
  /\ phase = "init"
  /\ \E m \in Methods, sid \in Sids, seq \in Seqs, c \in InitClosings, n \in LenSet, pl \in Places :
       /\ frame = [sid |-> sid, seq |-> seq, closing |-> c, pay |-> [id |-> "P", len |-> n]]
       /\ method = m /\ place = pl
  /\ pad = 0 /\ sent = NoMsg /\ wire = NoMsg /\ tamper = "none" /\ touched = {} /\ detail = ""
  /\ result = Reject("none")

Encode ==
  /\ phase = "init"
  /\ \E p \in Pads(method, frame.seq) :
       /\ pad' = p
       /\ sent' = Seal("K", method, frame, p, place)
       /\ wire' = sent'
  /\ phase' = "sealed"
  /\ UNCHANGED <<frame, method, place, tamper, touched, detail, result>>

\* an independent implementation of the v2 format: the extra field of ANY frame may hold tag + padding (the format
\* does not know the sender's habit of padding only the first PadFirstN frames of a stream); the decoder must take it
EncodeForeign ==
  /\ phase = "init" /\ frame.seq >= PadFirstN /\ TamperMode = "none"
  /\ \E p \in {MaxPad(method) \div 2, MaxPad(method)} :
       /\ pad' = p
       /\ sent' = Seal("K", method, frame, p, place)
       /\ wire' = sent'
  /\ phase' = "sealed"
  /\ UNCHANGED <<frame, method, place, tamper, touched, detail, result>>

Tampered(name, T, d, w) ==
  /\ phase = "sealed" /\ TamperMode # "none"
  /\ tamper' = name /\ touched' = T /\ detail' = d /\ wire' = w
  /\ phase' = "tampered"
  /\ UNCHANGED <<frame, method, pad, place, sent, result>>

Full == TamperMode = "full"
H == sent.hdr.val
BodyLen == Total(sent) - HeaderLen
SetHdr(w, h2) == [w EXCEPT !.hdr.val = h2]
Dirty(w, S)   == [w EXCEPT !.body.dirty = @ \cup S]
Fits(e) == IF e <= BodyLen THEN "fits" ELSE "overflows"

\* Flip(field) = ANY modification confined to that field (single bit, several bits, overwrite)
FlipSid     == \E v \in (IF Full THEN {H.sid + 1, H.sid + 2} ELSE {H.sid + 1}) :
                 Tampered("FlipSid", {"sid"}, "", SetHdr(sent, [H EXCEPT !.sid = v]))
FlipSeq     == \E v \in (IF Full THEN (0..7) \ {H.seq} ELSE {H.seq + 1}) :
                 Tampered("FlipSeq", {"seq"}, "", SetHdr(sent, [H EXCEPT !.seq = v]))
FlipClosing == \E v \in (0..3) \ {H.closing} :
                 Tampered("FlipClosing", {"closing"}, "", SetHdr(sent, [H EXCEPT !.closing = v]))
FlipExtra   == \E v \in ((IF Full THEN 0..255 ELSE {0, H.extra - 1, H.extra + 1, BodyLen, BodyLen + 1, 255})
                         \cap (0..255)) \ {H.extra} :
                 Tampered("FlipExtra", {"extra"}, Fits(v), SetHdr(sent, [H EXCEPT !.extra = v]))
FlipPayload == Tampered("FlipPayload", {"payload"}, "", Dirty(sent, {"payload"}))
FlipPad     == pad > 0 /\ Tampered("FlipPad", {"pad"}, "", Dirty(sent, {"pad"}))
FlipTagLo   == Tampered("FlipTagLo", {"tagLo"}, "", Dirty(sent, {"tagLo"}))
FlipTagHi   == Tampered("FlipTagHi", {"tagHi"}, "", Dirty(sent, {"tagHi"}))

Fields == {"sid", "seq", "closing", "extra", "payload", "pad", "tagLo", "tagHi"}
\* random multi-byte corruption: several fields at once (representative values for header fields)
Corrupt ==
  \E S \in SUBSET Fields :
    /\ Cardinality(S) >= 2 /\ (Full \/ Cardinality(S) = 2)
    /\ ("pad" \in S => pad > 0)
    /\ \E e2 \in {H.extra - 1, 255} \ {H.extra} :
       LET h2 == [sid     |-> IF "sid" \in S THEN H.sid + 1 ELSE H.sid,
                  seq     |-> IF "seq" \in S THEN H.seq + 1 ELSE H.seq,
                  closing |-> IF "closing" \in S THEN (H.closing + 1) % 3 ELSE H.closing,
                  extra   |-> IF "extra" \in S THEN e2 ELSE H.extra]
       IN Tampered("Corrupt", S, IF "extra" \in S THEN Fits(e2) ELSE "",
                   Dirty(SetHdr(sent, h2), S \cap {"payload", "pad", "tagLo", "tagHi"}))

Truncate == \E k \in (IF Full THEN 1..Total(sent)
                      ELSE {1, 7, 8, 9, Total(sent) - 22, Total(sent) - 21, Total(sent)} \cap (1..Total(sent))) :
              Tampered("Truncate", {"length"},
                       IF Total(sent) - k < HeaderLen + StreamNonce THEN "short" ELSE "long",
                       [sent EXCEPT !.body.delta = 0 - k])
Extend   == \E k \in (IF Full THEN 1..32 ELSE {1, 8, 32}) :
              Tampered("Extend", {"length"}, "", [sent EXCEPT !.body.delta = k])
OtherKey == Tampered("OtherKey", {"key"}, "", Seal("K2", method, frame, pad, place))
OtherMethod == \E m2 \in Methods \ {method} :
              Tampered("OtherMethod", {"method"}, m2, Seal("K", m2, frame, pad, place))
Garbage  == \E n \in {0, 1, HeaderLen + StreamNonce - 1, HeaderLen + StreamNonce, HeaderLen + StreamNonce + 1,
                      Limit, Limit + 1, GarbageMax} :
              Tampered("Garbage", {"all"},
                       IF n < HeaderLen + StreamNonce THEN "short" ELSE "long",
                       [kind |-> "garbage", len |-> n])

\* under plain nothing is authenticated by design: only Garbage (no crash) is modelled there
Tamper == /\ phase = "sealed" /\ TamperMode # "none"
          /\ \/ IsAEAD(method) /\ (FlipSid \/ FlipSeq \/ FlipClosing \/ FlipExtra \/ FlipPayload \/ FlipPad
                                  \/ FlipTagLo \/ FlipTagHi \/ Corrupt \/ Truncate \/ Extend \/ OtherKey \/ OtherMethod)
             \/ Garbage

Receive ==
  /\ phase \in {"sealed", "tampered"}
  /\ result' = Decode("K", method, wire)
  /\ phase' = "done"
  /\ UNCHANGED <<frame, method, pad, place, sent, wire, tamper, touched, detail>>

Next == Encode \/ EncodeForeign \/ Tamper \/ Receive
Spec == Init /\ [][Next]_vars

-----------------------------------------------------------------------------
(* C04 *)
TypeOK == /\ phase \in {"init", "sealed", "tampered", "done"}
          /\ method \in Methods /\ pad \in Nat /\ place \in {"in", "out"}
          /\ result.ok \in {"yes", "no", "any"}

\* the one-byte length field cannot wrap
ExtraFits == phase # "init" => /\ pad + Tag(method) <= MaxExtra
                                /\ sent.hdr.val.extra = pad + Tag(method)
\* the encoded message never exceeds the on-wire limit
SizeInv   == phase # "init" => /\ Total(sent) = HeaderLen + frame.pay.len + pad + Tag(method)
                                /\ Total(sent) <= Limit
\* decoding the untouched message returns the identical frame
RoundTrip == (phase = "done" /\ tamper = "none") => result = Accept(frame)
\* the AEAD nonce is a function of (stream id, sequence number) only
NonceInv  == phase # "init" =>
               /\ sent.body.nonce = <<frame.sid, frame.seq>>
               /\ \A c \in Closings, pl \in {"in", "out"}, p \in {0, MaxPad(method)} :
                    Seal("K", method, [frame EXCEPT !.closing = c], p, pl).body.nonce = sent.body.nonce
\* encoding in place and from a separate buffer give the same message
PlaceInv  == phase # "init" => Seal("K", method, frame, pad, "in") = Seal("K", method, frame, pad, "out")

(* C11 *)
Same(a, b) == a.kind = b.kind /\ a = b
\* accepted => identical to a message sent under this key
Authenticity ==
  (phase = "done" /\ IsAEAD(method) /\ result.ok = "yes") => (Same(wire, sent) /\ result.frame = frame)
\* the same, outside the class of defect D3
TailOnly == touched # {} /\ touched \subseteq {"closing", "extra"}
AuthenticityExceptTail ==
  (phase = "done" /\ IsAEAD(method) /\ result.ok = "yes" /\ ~TailOnly) => (Same(wire, sent) /\ result.frame = frame)
\* garbage never reaches "any" under an authenticated method
GarbageDropped == (phase = "done" /\ IsAEAD(method) /\ tamper # "none" /\ ~TailOnly) => result.ok = "no"
=============================================================================
