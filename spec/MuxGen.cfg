SPECIFICATION GSpec
CONSTANTS
  NC = @NC@
  NS = @NS@
  Units = @UNITS@
  MaxWrite = @MAXWRITE@
  Unordered = @UNORDERED@
  Singleplex = @SINGLE@
  Feat = {@FEAT@}
  Dev = {@DEV@}
  LateConn = {@LATE@}
  TimerEp = "@TIMEREP@"
  MaxDepth = @DEPTH@
  MaxNoops = @NOOPS@
INVARIANTS Emit PrefixInv EofInv CountInv TimerOnlyWhenIdle
CHECK_DEADLOCK FALSE
