--------------------------- MODULE TokenBucketDefs ---------------------------
(* The two meters that state property C19, shared by the design model      *)
(* (TokenBucket.tla) and by trace validation (TokenBucketTrace.tla).       *)
(*                                                                         *)
(* Upper bound, GCRA / leaky-bucket-as-a-meter form.  A virtual queue q is *)
(* drained at the configured rate and every passing message adds its size: *)
(*        q' = max(0, q - rate * dt) + n                                   *)
(* Unfolding the recurrence, q after the pass at time t2 equals            *)
(*        max over t1 <= t2 of ( bytes passed in [t1,t2] - rate*(t2-t1) ) *)
(* taken over the instants t1 at which something passed, so                *)
(*        q <= burst + slack  at every pass                                *)
(*   <=>  for EVERY interval [t1,t2]:                                      *)
(*        bytes passed <= rate*(t2-t1) + burst + slack.                    *)
(* (TokenBucket.tla checks both formulations side by side.)                *)
(*                                                                         *)
(* Lower bound, the dual meter.  A deficit d earns rate * dt while a       *)
(* sender is backlogged and every passing message pays its size back:      *)
(*        d' = max(0, d + rate * dt - n)                                   *)
(* d + rate*dt (before paying) is the largest amount by which some         *)
(* interval ending now fell short of rate*t; "not held below the rate"     *)
(* is  d + rate*dt <= one message + slack  at every instant.               *)
(*                                                                         *)
(* All arguments are integers in whatever common unit the caller chose     *)
(* (the callers scale so that rate * dt is an integer).                    *)
EXTENDS Integers

Max(a, b) == IF a > b THEN a ELSE b
Min(a, b) == IF a < b THEN a ELSE b

\* virtual queue after `drained` units have leaked away and a message of n units passes
VQPass(q, drained, n) == Max(0, q - drained) + n

\* deficit just before a pass / at an arbitrary instant, `earned` = rate * dt
DefBefore(d, earned) == d + earned
\* deficit after a message of n units passed
DefPass(d, earned, n) == Max(0, d + earned - n)
=============================================================================
