----------------------------- MODULE UserDBPanel -----------------------------
(* Upload histories (C18): the record an owner has in the user database,   *)
(* what the admin does to it through the API, and the server's panel that  *)
(* lets the owner connect, meters his traffic and uploads the usage once a *)
(* minute (Go: userPanel.GetUser, valve.AddRx/AddTx, ActiveUser.CloseSession*)
(* -> TerminateActiveUser, regularQueueUpload = updateUsageQueue +         *)
(* commitUpdate -> localManager.UploadStatus -> TERMINATE answers).         *)
(* Extends UserDB: the store, POST and DELETE are UserDB's own actions;     *)
(* the panel adds                                                           *)
(*   active : UIDs with a live ActiveUser record                            *)
(*   valve  : usage metered since the last collection  <<up, down>>         *)
(*   queue  : usageUpdateQueue, NoQ or <<up, down>>                         *)
(* and a history variable.  TLC enumerates every history of MaxOps steps    *)
(* that ends with an upload round; the replay drives the real panel over    *)
(* the real localManager and compares store, live records and queue.        *)
EXTENDS UserDB, Sequences, Json

CONSTANTS PUIDs,        \* the UIDs that take part (subset of UIDs)
          MaxAdmin,     \* at most this many POST / DELETE in a history
          GuardNilUser  \* TRUE: a TERMINATE answer for a UID without live record is skipped (HEAD);
                        \* FALSE: it is passed to TerminateActiveUser(nil): nil dereference in the upload goroutine

VARIABLES active, valve, queue, plast, hist
pvars == <<vars, active, valve, queue, plast, hist>>

NoQ  == <<>>
Zero == <<0, 0>>
Add(p, q) == <<p[1] + q[1], p[2] + q[2]>>
Enq(q, p) == IF q = NoQ THEN p ELSE Add(q, p)

FieldSeq == <<"SessionsCap", "UpRate", "DownRate", "UpCredit", "DownCredit", "ExpiryTime">>
Cells(r) == [i \in 1..6 |-> IF r[FieldSeq[i]] # Absent THEN <<r[FieldSeq[i]]>> ELSE <<>>]
Snap(d)  == [u \in UIDs |-> IF Has(d, u) THEN Cells(d[u]) ELSE <<>>]

PNone == [o |-> "init", u |-> "", w |-> NoRec, a |-> 0, b |-> 0, v |-> "", n |-> 0]

PInit == /\ Init
         /\ active = {}
         /\ valve = [u \in UIDs |-> Zero]
         /\ queue = [u \in UIDs |-> NoQ]
         /\ plast = PNone
         /\ hist = <<>>

Admins == Cardinality({i \in 1..Len(hist) : hist[i].o \in {"post", "delete"}})
PTick  == nops < MaxOps /\ nops' = nops + 1 /\ UNCHANGED <<db, disk, last>>
Keep   == UNCHANGED <<active, valve, queue>>

\* admin requests: UserDB's actions, the panel is not told
APost(u, w) == /\ Admins < MaxAdmin
               /\ Post(u, u, w) /\ Keep
               /\ plast' = [PNone EXCEPT !.o = "post", !.u = u, !.w = w]
ADelete(u)  == /\ Admins < MaxAdmin /\ Has(db, u)
               /\ Delete(u) /\ Keep
               /\ plast' = [PNone EXCEPT !.o = "delete", !.u = u]

\* the owner connects: userPanel.GetUser (AuthenticateUser, rate test, MakeValve)
Connect(u) == /\ PTick /\ u \notin active /\ Has(db, u)
              /\ active' = IF ConnectRes(db, u) = "ok" THEN active \cup {u} ELSE active
              /\ valve' = [valve EXCEPT ![u] = Zero]
              /\ UNCHANGED queue
              /\ plast' = [PNone EXCEPT !.o = "connect", !.u = u, !.v = ConnectRes(db, u)]

\* traffic: valve.AddRx(a), valve.AddTx(b)
Use(u, a, b) == /\ PTick /\ u \in active /\ <<a, b>> # Zero
                /\ valve' = [valve EXCEPT ![u] = Add(valve[u], <<a, b>>)]
                /\ UNCHANGED <<active, queue>>
                /\ plast' = [PNone EXCEPT !.o = "use", !.u = u, !.a = a, !.b = b]

\* the owner's last session ends: CloseSession -> TerminateActiveUser (the last usage is queued)
Disconnect(u) == /\ PTick /\ u \in active
                 /\ queue' = [queue EXCEPT ![u] = Enq(queue[u], valve[u])]
                 /\ valve' = [valve EXCEPT ![u] = Zero]
                 /\ active' = active \ {u}
                 /\ plast' = [PNone EXCEPT !.o = "disconnect", !.u = u]

\* one periodic upload: updateUsageQueue; commitUpdate
Collected == [u \in UIDs |-> IF u \in active THEN Enq(queue[u], valve[u]) ELSE queue[u]]
Terms(q, u) == IF q[u] = NoQ THEN {} ELSE UploadRes(db, u, q[u][1], q[u][2])
\* TERMINATE answers that find no live record (each answer for a live record removes it)
NilTerms(q, u) == IF u \in active THEN (IF Terms(q, u) = {} THEN 0 ELSE Cardinality(Terms(q, u)) - 1)
                  ELSE Cardinality(Terms(q, u))
RECURSIVE SumNil(_, _)
SumNil(q, S) == IF S = {} THEN 0 ELSE LET u == CHOOSE x \in S : TRUE IN NilTerms(q, u) + SumNil(q, S \ {u})

Round ==
  LET q    == Collected
      gone == {u \in active : Terms(q, u) # {}}
      nil  == SumNil(q, UIDs)
  IN /\ nops < MaxOps /\ nops' = nops + 1
     /\ active # {} \/ \E u \in UIDs : queue[u] # NoQ
     /\ \A u \in UIDs : (q[u] # NoQ /\ Has(db, u)) =>
            /\ Read(db, u, "UpCredit") - q[u][1] >= MINV
            /\ Read(db, u, "DownCredit") - q[u][2] >= MINV
     /\ db' = [u \in UIDs |-> IF q[u] # NoQ /\ Has(db, u)
                                THEN [db[u] EXCEPT !["UpCredit"] = Read(db, u, "UpCredit") - q[u][1],
                                                   !["DownCredit"] = Read(db, u, "DownCredit") - q[u][2]]
                                ELSE db[u]]
     /\ disk' = db'
     /\ UNCHANGED last
     /\ active' = active \ gone
     /\ valve' = [u \in UIDs |-> Zero]
     /\ queue' = [u \in UIDs |-> IF u \in gone THEN Zero ELSE NoQ]   \* TerminateActiveUser queues the (empty) rest
     /\ plast' = [PNone EXCEPT !.o = "round", !.n = nil,
                               !.v = IF nil > 0 /\ ~GuardNilUser THEN "panic" ELSE "ok"]

Entry(l) == [o |-> l.o, u |-> l.u, w |-> Cells(l.w), a |-> l.a, b |-> l.b, v |-> l.v, n |-> l.n,
             s |-> Snap(db'),
             act |-> [u \in UIDs |-> u \in active'],
             q |-> queue']

PNext ==
  /\ \/ \E u \in PUIDs, w \in Writes : APost(u, w)
     \/ \E u \in PUIDs : ADelete(u) \/ Connect(u) \/ Disconnect(u)
     \/ \E u \in PUIDs, a \in VS(UpUsages), b \in VS(DownUsages) : Use(u, a, b)
     \/ Round
  /\ hist' = Append(hist, Entry(plast'))

PSpec == PInit /\ [][PNext]_pvars

\* the upload goroutine has no recover: a panic there ends the server
UploadNeverPanics == plast.v # "panic"
PanelTypeOK == /\ active \subseteq UIDs
               /\ \A u \in UIDs : u \notin active => valve[u] = Zero
\* a user without live record that is queued was disconnected or terminated before
QueueInv == \A u \in UIDs : (queue[u] # NoQ /\ u \notin active) => \E i \in 1..Len(hist) : hist[i].u = u \/ hist[i].o = "round"

\* histories of exactly MaxOps steps that end with an upload round
Emit == (nops = MaxOps /\ plast.o = "round") => PrintT(<<"C18PANEL", ToJson([steps |-> hist])>>)
=============================================================================
