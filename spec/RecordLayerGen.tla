--------------------------- MODULE RecordLayerGen ---------------------------
(* Behaviour generator for RecordLayer (design point WMode = atomic, RMode = full): a history     *)
(* variable records every step - W: a record is written, C: the transport hands the reader n      *)
(* bytes, R: the Read call returns, with the value the specification expects - and every maximal  *)
(* behaviour (MaxRec records written; everything in flight consumed and returned, or the reader   *)
(* stopped on an oversize record) is printed as JSON.  BFS enumerates every chunking x every      *)
(* placement of the writes; -simulate samples long ones.                                          *)
EXTENDS RecordLayer, TLC, Json

VARIABLE hist
gvars == <<vars, hist>>

GInit == RLInit /\ hist = <<>>

GWrite == \E w \in 1..NW, n \in Lens :
            /\ WriteRec(w, n)
            /\ hist' = Append(hist, [a |-> "W", w |-> w, k |-> cnt'[w], len |-> n, rec |-> Len(recs')])
GChunk == \E n \in 1..(H + Buf) :
            /\ Chunk(n)
            /\ hist' = Append(hist, [a |-> "C", n |-> n])
GReturn == /\ Return
           /\ LET o == out'[Len(out')] IN
              hist' = Append(hist, [a |-> "R", rec |-> Len(out'), err |-> o.err, len |-> Len(o.msg)])

GNext == GWrite \/ GChunk \/ GReturn
GSpec == GInit /\ [][GNext]_gvars

Terminal == /\ Len(recs) = MaxRec
            /\ \/ phase = "dead"
               \/ wire = <<>> /\ phase = "hdr" /\ need = H

Emit == Terminal => PrintT(<<"BEHAVIOUR", ToJson([h |-> H, buf |-> Buf, steps |-> hist])>>)
=============================================================================
