--------------------------- MODULE RecordLayerGen ---------------------------
(* Behaviour generator for RecordLayer (design point WMode = atomic, RMode = full): a history     *)
(* variable records every step - W: a record is written, F: a Write fails after `sent` bytes were  *)
(* accepted by the transport (MaxFail > 0), C: the transport hands the reader n                   *)
(* bytes, R: the Read call returns, with the value the specification expects - and every maximal  *)
(* behaviour (MaxRec records written; everything in flight consumed and returned, or the reader   *)
(* stopped on an oversize record) is printed as JSON.  BFS enumerates every chunking x every      *)
(* placement of the writes; -simulate samples long ones.                                          *)
EXTENDS RecordLayer, TLC, Json

VARIABLE hist
gvars == <<vars, hist>>

GInit == RLInit /\ hist = <<>>

GWrite == \E w \in 1..NW, n \in Lens :
            /\ WriteRec(w, n)
            /\ hist' = Append(hist, [a |-> "W", w |-> w, k |-> cnt'[w], len |-> n, rec |-> Len(recs')])
GFail == \E w \in 1..NW, n \in Lens : \E p \in 0..(H + n - 1) :
            /\ WriteFail(w, n, p)
            /\ hist' = Append(hist, [a |-> "F", w |-> w, k |-> cnt'[w], len |-> n, sent |-> p,
                                     rec |-> IF p = 0 THEN 0 ELSE Len(recs')])
GChunk == \E n \in 1..(H + Buf) :
            /\ Chunk(n)
            /\ hist' = Append(hist, [a |-> "C", n |-> n])
GReturn == /\ Return
           /\ LET o == out'[Len(out')] IN
              hist' = Append(hist, [a |-> "R", rec |-> Len(out'), err |-> o.err, len |-> Len(o.msg)])

GNext == GWrite \/ GFail \/ GChunk \/ GReturn
GSpec == GInit /\ [][GNext]_gvars

Terminal == /\ Calls = MaxRec \/ broken
            /\ \/ phase = "dead"
               \/ wire = <<>> /\ phase \in {"hdr", "body"} /\ ~ReturnEnabled

Emit == Terminal => PrintT(<<"BEHAVIOUR", ToJson([h |-> H, buf |-> Buf, steps |-> hist])>>)
=============================================================================
