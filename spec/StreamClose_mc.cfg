SPECIFICATION Spec
CONSTANT Dev = {@DEV@}
INVARIANTS TypeOK @INVS@
CHECK_DEADLOCK FALSE
