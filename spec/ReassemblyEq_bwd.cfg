SPECIFICATION SpecBwd
CONSTANT N = @N@
INVARIANTS IndInvHolds TypeOK OrderInv CloseInv HeapInv CompleteInv NoStaleErr
PROPERTY OrigSpec
CHECK_DEADLOCK FALSE
