SPECIFICATION Spec
INVARIANTS Emit FlagWins JsonBeatsEnv NeverGuessed
CHECK_DEADLOCK FALSE
