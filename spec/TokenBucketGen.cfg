SPECIFICATION GSpec
CONSTANTS
  w1 = w1
  w2 = w2
  w3 = w3
  Waiters = {w1, w2, w3}
  Quanta = @QUANTA@
  FillIntervals = @FIS@
  Bursts = @BURSTS@
  BacklogCounts = {0, 1}
  Sizes = @SIZES@
  MaxTime = @MAXTIME@
  Mode = "before"
  CapFactor = 1
  AllowRelax = TRUE
  Prompt = TRUE
  History = FALSE
  OwnBucket = FALSE
  CheckThenTake = FALSE
  ClosingSkipsTake = FALSE
  HistLen = @HISTLEN@
CONSTRAINT Short
INVARIANTS Emit UpperVQ NotStarved
CHECK_DEADLOCK FALSE
