SPECIFICATION Spec
CONSTANTS
  W = @W@
  R = @R@
  Horizon = @H@
  NPackets = @NP@
  MaxPresent = @MP@
  MaxClean = @MC@
  MaxSkew = @SK@
  Dev = @DEV@
  Cap = @CAP@
  MaxForeign = @MF@
INVARIANTS @INV@
CHECK_DEADLOCK FALSE
VIEW View
