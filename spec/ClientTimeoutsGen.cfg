SPECIFICATION Spec
CONSTANTS
  T = 1000
  Waits = @WAITS@
  MaxSteps = @MAXSTEPS@
INVARIANTS Emit TypeOK WaitingInv EstablishedInv ObsInv
PROPERTIES NoTimeoutOnceEstablished
CHECK_DEADLOCK FALSE
