SPECIFICATION Spec
CONSTANTS
  Openers = {1, 2, 3}
  Frames = 2
  Dev = {@DEV@}
INVARIANTS @INVS@
CHECK_DEADLOCK FALSE
