#!/bin/sh
# Runs the repository's pinned test suite with the verif guard OFF and prints a pass/fail summary.
# Equivalent to the command in /root/.vp/BASELINE.json (single module at /repo root).
cd /repo || exit 2
export GOPROXY=off
go test -mod=mod -json -vet=off -count=1 -timeout 25m ./... > /tmp/verif_baseline_off.json 2>/tmp/verif_baseline_off.err
python3 - <<'PY'
import json,sys
passed=set();failed=set()
for l in open('/tmp/verif_baseline_off.json'):
    try: e=json.loads(l)
    except Exception: continue
    if e.get('Test') and e.get('Action') in('pass','fail'):
        (passed if e['Action']=='pass' else failed).add(e['Package']+'::'+e['Test'])
base=json.load(open('/root/.vp/BASELINE.json'))
stable=set(base['stable_pass'])
missing=sorted(stable-passed)
print(f"passed={len(passed)} failed={len(failed)} stable_baseline={len(stable)} stable_missing={len(missing)}")
for m in missing: print("MISSING",m)
for f in sorted(failed-set(base.get('always_fail',[]))): print("NEWFAIL",f)
sys.exit(1 if missing else 0)
PY
