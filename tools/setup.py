#!/usr/bin/env python3
"""Offline setup: verifies the tools the checks need and warms the Go build cache (hooks on)."""
import os, subprocess, sys
sys.path.insert(0, os.path.dirname(os.path.abspath(__file__)))
import lib
def sh(cmd, **kw):
    print("+", cmd, flush=True)
    return subprocess.run(cmd, shell=True, **kw)
ok = True
for tool in ("tlc", "go1.26.8", "java"):
    if sh("command -v %s >/dev/null" % tool).returncode != 0:
        print("missing tool", tool); ok = False
env = dict(os.environ); env.update(lib.GOENV); env.pop("GOSUMDB", None)
r = sh("go1.26.8 build -tags verif ./... && go1.26.8 test -tags verif -count=1 -vet=off -run '^$' ./internal/...", cwd=lib.REPO, env=env)
ok = ok and r.returncode == 0
os.makedirs(os.path.join(lib.VERIF, "evidence"), exist_ok=True)
sys.exit(0 if ok else 1)
