#!/usr/bin/env python3
"""Shared plumbing for the per-property checks: TLC runner, Go harness runner (overlay build from
/repo's current working tree), evidence writer, verdict discipline (exit 0 / 1 / 2)."""
import hashlib
import threading
import json
import os
import re
import shutil
import subprocess
import sys
import time

VERIF = os.path.dirname(os.path.dirname(os.path.abspath(__file__)))
REPO = os.environ.get("VERIF_REPO", "/repo")
SPEC = os.path.join(VERIF, "spec")
HARNESS = os.path.join(VERIF, "harness")
MODPATH = "github.com/cbeuw/Cloak"
NCPU = os.cpu_count() or 4


_CTX_LOCK = threading.Lock()


class Inconclusive(Exception):
    """Anything that is not a verdict about Cloak: build failure, TLC error, time-out, model drift."""


class Ctx:
    def __init__(self, pid, tier, seed):
        self.pid = pid
        self.tier = tier
        self.seed = seed
        self.t0 = time.time()
        self.work = os.path.join(VERIF, "work", "%s.%d" % (pid, os.getpid()))
        shutil.rmtree(self.work, ignore_errors=True)
        os.makedirs(self.work)
        self.violations = []   # dicts {key, what, replay}
        self.tlc_states = 0
        self.tlc_transitions = 0
        self.tlc_runs = []
        self.notes = []
        self.go_runs = []

    def quick(self):
        return self.tier != "thorough"

    def cleanup(self):
        shutil.rmtree(self.work, ignore_errors=True)
        try:
            os.rmdir(os.path.join(VERIF, "work"))
        except OSError:
            pass

    def log(self, *a):
        print("[%s %6.1fs]" % (self.pid, time.time() - self.t0), *a, flush=True)


# ----------------------------------------------------------------------------------------------- TLC

class TlcResult:
    def __init__(self):
        self.ok = False
        self.generated = 0
        self.distinct = 0
        self.behaviours = []
        self.violated = None      # name of violated invariant/property, or 'deadlock'
        self.rejected_at = None
        self.out = ""
        self.wall = 0.0
        self.cex = []             # counter-example states as text blocks


def render_cfg(template_name, subst):
    txt = open(os.path.join(SPEC, template_name)).read()
    for k, v in (subst or {}).items():
        txt = txt.replace("@%s@" % k, str(v))
    m = re.search(r"@\w+@", txt)
    if m:
        raise Inconclusive("cfg template %s has unbound %s" % (template_name, m.group(0)))
    return txt


def run_tlc(ctx, module, cfg, subst=None, workers=None, simulate=None, depth=None, env=None,
            timeout=600, expect_violation=False, tag=None, deadlock=False, dfs=False, extra=None):
    """Runs TLC on spec/<module>.tla with cfg template spec/<cfg> in a scratch directory."""
    tag = tag or (module + "_" + os.path.splitext(cfg)[0])
    d = os.path.join(ctx.work, "tlc_" + re.sub(r"\W", "_", tag))
    shutil.rmtree(d, ignore_errors=True)
    os.makedirs(d)
    for f in os.listdir(SPEC):
        if f.endswith(".tla"):
            shutil.copy(os.path.join(SPEC, f), d)
    with open(os.path.join(d, "run.cfg"), "w") as fh:
        fh.write(render_cfg(cfg, subst))
    cmd = ["tlc", "-metadir", os.path.join(d, "meta"), "-config", "run.cfg"]
    if workers is None:
        workers = NCPU
    cmd += ["-workers", str(workers)]
    if not deadlock:
        cmd += ["-deadlock"]
    if simulate:
        cmd += ["-simulate", "num=%d" % simulate, "-seed", str(ctx.seed)]
        if depth:
            cmd += ["-depth", str(depth)]
    if extra:
        cmd += extra
    cmd += [module + ".tla"]
    e = dict(os.environ)
    e.pop("JAVA_TOOL_OPTIONS", None)
    jopts = ["-Xss64m"]
    if dfs:
        jopts.append("-Dtlc2.tool.queue.IStateQueue=StateDeque")
    e["JAVA_TOOL_OPTIONS"] = " ".join(jopts)
    if env:
        e.update(env)
    t0 = time.time()
    try:
        p = subprocess.run(cmd, cwd=d, env=e, stdout=subprocess.PIPE, stderr=subprocess.STDOUT,
                           timeout=timeout, text=True, errors="replace")
    except subprocess.TimeoutExpired:
        subprocess.run(["pkill", "-f", "metadir %s" % os.path.join(d, "meta")])
        raise Inconclusive("TLC timed out after %ds on %s" % (timeout, tag))
    r = TlcResult()
    r.wall = time.time() - t0
    r.out = p.stdout
    for line in p.stdout.splitlines():
        if line.startswith('<<"BEHAVIOUR", '):
            m = re.match(r'<<"BEHAVIOUR", (".*")>>$', line)
            if m:
                r.behaviours.append(json.loads(_tla_unquote(m.group(1))))
        elif line.startswith('<<"REJECTED_AT_LINE", '):
            r.rejected_at = int(re.findall(r"(\d+)>>", line)[0])
        m = re.match(r"(\d+) states generated, (\d+) distinct states found", line)
        if m:
            r.generated, r.distinct = int(m.group(1)), int(m.group(2))
        m = re.match(r"Error: Invariant (\S+) is violated", line)
        if m:
            r.violated = m.group(1)
        m = re.match(r"Error: Action property (\S+) is violated", line)
        if m:
            r.violated = m.group(1)
        if line.startswith("Error: Temporal properties were violated"):
            r.violated = r.violated or "temporal"
        if line.startswith("Error: Deadlock reached"):
            r.violated = "deadlock"
        if "Error: Postcondition" in line or "Error: The postcondition" in line or "POSTCONDITION" in line and "violated" in line:
            r.violated = r.violated or "postcondition"
    if simulate and r.generated == 0:
        m = re.search(r"The number of states generated: (\d+)", p.stdout)
        if m:
            r.generated = int(m.group(1))
            r.distinct = r.distinct or r.generated
    r.ok = (p.returncode == 0 and r.violated is None)
    if r.violated:
        r.cex = _parse_cex(p.stdout)
    with _CTX_LOCK:
        ctx.tlc_states += r.distinct
        ctx.tlc_transitions += r.generated
    ctx.tlc_runs.append({"tag": tag, "cmd": " ".join(cmd), "generated": r.generated, "distinct": r.distinct,
                         "wall_s": round(r.wall, 2), "violated": r.violated,
                         "behaviours": len(r.behaviours)})
    with open(os.path.join(d, "tlc.out"), "w") as fh:
        fh.write(p.stdout)
    if not r.ok and not expect_violation:
        if r.violated:
            return r
        tail = "\n".join(p.stdout.splitlines()[-25:])
        raise Inconclusive("TLC failed on %s (rc=%d):\n%s" % (tag, p.returncode, tail))
    return r


def _tla_unquote(s):
    # TLC prints the string with TLA+ escapes, which coincide with JSON escapes for what ToJson emits
    return json.loads(s) if False else _unq(s)


def _unq(s):
    assert s[0] == '"' and s[-1] == '"'
    body = s[1:-1]
    out = []
    i = 0
    while i < len(body):
        c = body[i]
        if c == "\\" and i + 1 < len(body):
            n = body[i + 1]
            out.append({"n": "\n", "t": "\t", '"': '"', "\\": "\\"}.get(n, "\\" + n))
            i += 2
        else:
            out.append(c)
            i += 1
    return "".join(out)


def _parse_cex(out):
    blocks, cur = [], None
    for line in out.splitlines():
        if re.match(r"State \d+:", line):
            if cur:
                blocks.append("\n".join(cur))
            cur = [line]
        elif cur is not None:
            if line.strip() == "" and cur:
                blocks.append("\n".join(cur))
                cur = None
            else:
                cur.append(line)
    if cur:
        blocks.append("\n".join(cur))
    return blocks


def require_ok(r, what):
    if not r.ok:
        raise Inconclusive("TLC reports %s violated in %s; model and design disagree:\n%s" % (
            r.violated, what, "\n".join(r.cex[-3:])))
    return r


# ------------------------------------------------------------------------------------------ Go side

GOENV = {"GOTOOLCHAIN": "local", "GOFLAGS": "-mod=mod", "GOPROXY": "off"}
# harness/<dir> -> /repo/internal/<path> when they differ
PKG_ALIAS = {"usermanager": "server/usermanager",
             # package main harnesses (the real main() run in child processes): harness/cmd/<bin>/ -> /repo/cmd/<bin>/
             "cmd/ck-server": "../cmd/ck-server", "cmd/ck-client": "../cmd/ck-client"}
GOBIN = "go1.26.8"


def make_overlay(ctx, pkgdirs, prefixes=None):
    """Maps /verif/harness/<dir>/* into /repo/internal/<dir>/ (kit -> internal/verifkit). Only files whose
    name starts with the running property's id (c02_...) or with "shared" are taken from package
    directories, so that one property's harness never depends on another's compiling."""
    prefixes = tuple(prefixes or (ctx.pid.lower(), "shared"))
    repl = {}
    dirs = ["kit"] + [p for p in pkgdirs if p != "kit"]
    for d in dirs:
        src = os.path.join(HARNESS, d)
        if not os.path.isdir(src):
            continue
        dst = os.path.join(REPO, "internal", "verifkit" if d == "kit" else PKG_ALIAS.get(d, d))
        for f in sorted(os.listdir(src)):
            if f.endswith(".go") and (d == "kit" or f.startswith(prefixes)):
                name = f if d == "kit" else "zzverif_" + f
                repl[os.path.join(dst, name)] = os.path.join(src, f)
    path = os.path.join(ctx.work, "overlay.json")
    with open(path, "w") as fh:
        json.dump({"Replace": repl}, fh, indent=1)
    return path


def run_go(ctx, pkg, run, env=None, timeout=900, harness_dirs=None, race=False, tag=None, extra_args=None,
           prefixes=None):
    """go test -tags verif -overlay ... -run <run> ./internal/<pkg>/ ; returns the harness's result.json."""
    tag = tag or run
    out = os.path.join(ctx.work, "go_" + re.sub(r"\W", "_", tag))
    shutil.rmtree(out, ignore_errors=True)
    os.makedirs(out)
    hd = harness_dirs or [pkg]
    overlay = make_overlay(ctx, hd, prefixes)
    e = dict(os.environ)
    e.update(GOENV)
    e.pop("GOSUMDB", None)
    e["VERIF_OUT"] = out
    e["VERIF_SEED"] = str(ctx.seed)
    e["VERIF_TIER"] = ctx.tier
    e["VERIF_DIR"] = VERIF
    if env:
        e.update({k: str(v) for k, v in env.items()})
    cmd = [GOBIN, "test", "-tags", "verif", "-overlay", overlay, "-count=1", "-vet=off",
           "-timeout", "%ds" % timeout, "-run", "^%s$" % run]
    if race:
        cmd.append("-race")
    if extra_args:
        cmd += extra_args
    cmd.append("./internal/" + PKG_ALIAS.get(pkg, pkg) + "/")
    t0 = time.time()
    try:
        p = subprocess.run(cmd, cwd=REPO, env=e, stdout=subprocess.PIPE, stderr=subprocess.STDOUT,
                           timeout=timeout + 120, text=True, errors="replace")
    except subprocess.TimeoutExpired:
        raise Inconclusive("go test %s timed out" % tag)
    wall = time.time() - t0
    with open(os.path.join(out, "go.out"), "w") as fh:
        fh.write(p.stdout)
    resf = os.path.join(out, "result.json")
    res = None
    if os.path.exists(resf):
        try:
            res = json.load(open(resf))
        except Exception:
            res = None
    ctx.go_runs.append({"tag": tag, "cmd": " ".join(cmd), "wall_s": round(wall, 2), "rc": p.returncode})
    if res is None:
        tail = "\n".join(p.stdout.splitlines()[-40:])
        if "[build failed]" in p.stdout or "[setup failed]" in p.stdout:
            raise Inconclusive("harness for %s does not build against /repo's working tree:\n%s" % (tag, tail))
        raise Inconclusive("harness %s produced no result (rc=%d):\n%s" % (tag, p.returncode, tail))
    res["_out_dir"] = out
    res["_rc"] = p.returncode
    res["_stdout_tail"] = "\n".join(p.stdout.splitlines()[-30:])
    if p.returncode != 0 and res.get("complete", False) and not res.get("violations"):
        raise Inconclusive("go test %s failed (rc=%d) although the driver recorded no violation:\n%s" % (
            tag, p.returncode, "\n".join([l for l in p.stdout.splitlines() if "FAIL" in l or "panic" in l or "deadlock" in l][:8])))
    if not res.get("complete", False):
        # the harness died mid-way (panic on a Cloak goroutine, os.Exit, watchdog): the driver records
        # which scenario was running; whether that is a verdict is the property module's decision
        res["_died"] = True
    return res


def write_lines(path, objs):
    with open(path, "w") as fh:
        for o in objs:
            fh.write(json.dumps(o, separators=(",", ":")) + "\n")
    return path


# --------------------------------------------------------------------------------- verdict/evidence

def load_known():
    p = os.path.join(VERIF, "known_findings.json")
    if not os.path.exists(p):
        return []
    return json.load(open(p))


def save_replay(ctx, v):
    d = os.path.join(VERIF, "out", "replays")
    os.makedirs(d, exist_ok=True)
    body = json.dumps({"property": ctx.pid, "key": v.get("key"), "what": v.get("what"),
                       "seed": ctx.seed, "tier": ctx.tier, "replay": v.get("replay")}, indent=1, sort_keys=True)
    h = hashlib.sha1(body.encode()).hexdigest()[:10]
    path = os.path.join(d, "%s-%s-%s.json" % (ctx.pid, re.sub(r"[^\w.-]", "_", v.get("key", "x"))[:40], h))
    with open(path, "w") as fh:
        fh.write(body)
    return path


def finish(ctx, level, coverage, assumptions):
    """Prints verdict lines, writes evidence, returns the exit code."""
    known = [k for k in load_known() if k.get("property") == ctx.pid and "key" in k]
    known_keys = {k["key"]: k for k in known}
    n_viol = 0
    seen_known = set()
    printed = set()
    for v in ctx.violations:
        key = v.get("key", "")
        if key in known_keys:
            if key not in seen_known:
                seen_known.add(key)
                print("KNOWN-FINDING: property=%s %s [%s]" % (ctx.pid, known_keys[key]["what"], key), flush=True)
            continue
        n_viol += 1
        if key in printed:
            continue
        printed.add(key)
        path = save_replay(ctx, v)
        print("VIOLATION property=%s replay=%s" % (ctx.pid, path), flush=True)
        print("  key=%s what=%s" % (key, v.get("what")), flush=True)
    cov = dict(coverage)
    cov.setdefault("states", ctx.tlc_states)
    cov.setdefault("transitions", ctx.tlc_transitions)
    cov["tlc_runs"] = ctx.tlc_runs
    cov["go_runs"] = ctx.go_runs
    cov["known_findings_observed"] = sorted(seen_known)
    if ctx.notes:
        cov["notes"] = ctx.notes
    # the evidence schema types some coverage keys; a property module that used such a name for richer data keeps the
    # data under <key>_detail and the typed key gets the count
    typed = {"evaluations": int, "distinct_nontrivial": int, "rule": str, "samples": list, "states": int, "transitions": int,
             "traces_validated_against_impl": int, "obligations": int, "discharged": int, "checker_cmd": str, "trusted_base": list,
             "programs": int, "disagreements_checked": int, "explanation": str, "exhaustive": bool}
    for k, t in typed.items():
        if k in cov and (not isinstance(cov[k], t) or (t is int and isinstance(cov[k], bool))):
            v = cov.pop(k)
            cov[k + "_detail"] = v
            if t is int and isinstance(v, (list, dict, tuple, set)):
                cov[k] = len(v)
            elif t is int and isinstance(v, float):
                cov[k] = int(v)
            elif t is str:
                cov[k] = json.dumps(v, default=str)[:2000]
            elif t is list:
                cov[k] = [v]
            elif t is bool:
                cov[k] = bool(v)
    ev = {
        "property_id": ctx.pid,
        "tier": "thorough" if ctx.tier == "thorough" else "quick",
        "seed": int(ctx.seed),
        "level": level,
        "coverage": cov,
        "assumptions": assumptions,
        "wall_s": round(time.time() - ctx.t0, 2),
        "violations": n_viol,
    }
    # X.. ids are spec-coverage extras (behaviour outside the 20 listed properties): same machinery, own evidence directory
    evdir = os.path.join(VERIF, "evidence_extra" if ctx.pid.startswith("X") else "evidence")
    if os.path.realpath(REPO) != "/repo":
        # a run against another tree (seeded change in a scratch worktree) must not overwrite the evidence about /repo
        evdir = os.path.join(VERIF, "out", "evidence_other_tree")
    os.makedirs(evdir, exist_ok=True)
    with open(os.path.join(evdir, ctx.pid + ".json"), "w") as fh:
        json.dump(ev, fh, indent=1, sort_keys=True, default=str)
        fh.write("\n")
    ctx.log("done: violations=%d known=%d wall=%.1fs" % (n_viol, len(seen_known), time.time() - ctx.t0))
    return 1 if n_viol else 0


def collect_go(ctx, res, died_key=None):
    """Moves the harness's violations into the context. A harness that died without recording why is
    inconclusive unless the property module passes died_key (no-crash properties)."""
    for v in res.get("violations", []):
        ctx.violations.append(v)
    if res.get("_died"):
        running = res.get("running")
        if died_key and running is not None:
            ctx.violations.append({"key": died_key, "what": "process died while running scenario", "replay": running})
        else:
            raise Inconclusive("harness died mid-run (rc=%s): %s" % (res.get("_rc"), res.get("_stdout_tail")))
