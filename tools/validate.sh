#!/bin/sh
# validates MANIFEST.json and every evidence file against the schemas in /root/.vp (needs jsonschema: python3-vt has it)
PY=python3; $PY -c "import jsonschema" 2>/dev/null || PY=python3-vt
$PY - <<'PY'
import json, glob, sys, jsonschema
bad = 0
try:
    jsonschema.validate(json.load(open('/verif/MANIFEST.json')), json.load(open('/root/.vp/MANIFEST.schema.json')))
    print("MANIFEST.json valid")
except Exception as e:
    bad += 1; print("MANIFEST.json INVALID:", str(e)[:300])
es = json.load(open('/root/.vp/EVIDENCE.schema.json'))
for f in sorted(glob.glob('/verif/evidence/*.json')) + sorted(glob.glob('/verif/evidence_extra/*.json')):
    try:
        jsonschema.validate(json.load(open(f)), es)
    except Exception as e:
        bad += 1; print("INVALID", f, str(e)[:200])
print("evidence files checked, %d problem(s)" % bad)
sys.exit(1 if bad else 0)
PY
