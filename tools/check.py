#!/usr/bin/env python3
"""check.py <Cxx> [--tier quick|thorough] [--replay file]   -- the single entry point of every check.
exit 0: property held on everything explored (KNOWN-FINDING lines possible)
exit 1: VIOLATION property=<id> replay=<path>
exit 2: inconclusive (build failure, TLC error, time-out, model drift) - never a verdict about Cloak"""
import argparse
import importlib
import os
import sys
import traceback

sys.path.insert(0, os.path.dirname(os.path.abspath(__file__)))
import lib  # noqa: E402


def main():
    ap = argparse.ArgumentParser()
    ap.add_argument("prop")
    ap.add_argument("--tier", default=os.environ.get("VERIF_TIER", "quick"))
    ap.add_argument("--replay")
    ap.add_argument("--keep", action="store_true")
    a = ap.parse_args()
    tier = "thorough" if a.tier == "thorough" else "quick"
    os.environ["VERIF_TIER"] = tier
    try:
        seed = int(os.environ.get("VERIF_SEED", "1"))
    except ValueError:
        seed = 1
    pid = a.prop.upper()
    ctx = lib.Ctx(pid, tier, seed)
    rc = 2
    try:
        mod = importlib.import_module("props." + pid.lower())
        if a.replay:
            rc = mod.replay(ctx, a.replay)
        else:
            rc = mod.run(ctx)
    except lib.Inconclusive as e:
        print("INCONCLUSIVE property=%s: %s" % (pid, e), flush=True)
        rc = 2
    except Exception:
        traceback.print_exc()
        print("INCONCLUSIVE property=%s: internal error in the checking machinery" % pid, flush=True)
        rc = 2
    finally:
        if not a.keep:
            ctx.cleanup()
    sys.exit(rc)


if __name__ == "__main__":
    main()
