#!/usr/bin/env python3
"""Regenerates the seeded-change table of DESIGN.md (between the markers) from seeded/*/meta.json."""
import json, os, re
V = os.path.join(os.path.dirname(os.path.abspath(__file__)), "..")
rows = []
for n in sorted(os.listdir(os.path.join(V, "seeded"))):
    p = os.path.join(V, "seeded", n, "meta.json")
    if not os.path.exists(p):
        rows.append("| `%s` | ? | (no meta.json yet) | not yet run |" % n)
        continue
    m = json.load(open(p))
    s = re.sub(r"\s+", " ", m.get("summary", "")).replace("|", "/")
    if len(s) > 170:
        s = s[:170] + "..."
    r = re.sub(r"\s+", " ", m.get("check_result", "")).replace("|", "/")
    rows.append("| `%s` | %s | %s | %s |" % (n, m.get("property", "?"), s, r))
table = "| seeded change | property | what it does | result |\n|---|---|---|---|\n" + "\n".join(rows) + "\n"
p = os.path.join(V, "DESIGN.md")
s = open(p).read()
a, b = "<!-- seeded-table:begin -->\n", "<!-- seeded-table:end -->\n"
if a in s:
    s = s[:s.index(a) + len(a)] + table + s[s.index(b):]
else:
    i = s.index("| seeded change | property | what it does | result |")
    j = s.index("\n\n", i) + 1
    s = s[:i] + a + table + b + s[j:]
open(p, "w").write(s)
print("%d rows" % len(rows))
