#!/bin/sh
# runs every spec-coverage extra (tools/props/x*.py); usage: run_extras.sh [quick|thorough]
tier=${1:-quick}; rc=0
cd "$(dirname "$0")/.." || exit 2
for m in tools/props/x[0-9]*.py; do
  [ -e "$m" ] || continue
  id=$(basename "$m" .py | tr a-z A-Z)
  python3 tools/check.py "$id" --tier "$tier" || rc=$?
done
exit $rc
