#!/bin/sh
# usage: try_seeded.sh <seeded-dir-name> <Cxx> [tier]  -- applies seeded/<name>/patch.diff to a scratch worktree and runs the check
name=$1; prop=$2; tier=${3:-quick}
wt=/tmp/wt_seed_$$_$name
git -C /repo worktree add --detach $wt HEAD -q || exit 2
git -C $wt apply /verif/seeded/$name/patch.diff || { echo "PATCH DOES NOT APPLY"; git -C /repo worktree remove --force $wt; exit 2; }
(cd $wt && go build ./... ) || { echo "DOES NOT BUILD"; git -C /repo worktree remove --force $wt; exit 2; }
VERIF_REPO=$wt python3 /verif/tools/check.py $prop --tier $tier > /tmp/seed_$name.$prop.log 2>&1
rc=$?
grep -E "VIOLATION|key=|INCONCLUSIVE|KNOWN" /tmp/seed_$name.$prop.log | head -8
echo "== $name $prop rc=$rc"
git -C /repo worktree remove --force $wt
exit $rc
