#!/usr/bin/env python3
"""seed_meta.py <seed-name> <Cxx> "<check result>" ["<command run>"]  -- writes seeded/<name>/meta.json from the breaker's
agent_meta.json plus my own confirmation (validate_seed.sh) and the result of running the check against the change."""
import json, os, sys
name, prop, result = sys.argv[1:4]
ran = sys.argv[4] if len(sys.argv) > 4 else "tools/try_seeded.sh %s %s" % (name, prop)
d = os.path.join(os.path.dirname(os.path.abspath(__file__)), "..", "seeded", name)
am = {}
p = os.path.join(d, "agent_meta.json")
if os.path.exists(p):
    am = json.load(open(p))
def txt(v):
    return v if isinstance(v, str) else json.dumps(v)
meta = {
    "property": prop,
    "origin": "fresh sub-agent given only the property text and its own worktree (second wave: also the list of earlier changes to avoid)"
              if name.startswith(("s2-", "s3-", "s4-")) else "fresh sub-agent given only the property text and its own worktree",
    "summary": txt(am.get("summary") or am.get("what") or am.get("description") or ""),
    "needs": txt(am.get("needs") or am.get("trigger") or am.get("requires") or ""),
    "validated": "tools/validate_seed.sh: demo passes on HEAD, fails with the patch; full suite unchanged (load flakes of wall-clock tests re-run in isolation)",
    "check_result": result,
    "ran": ran,
}
json.dump(meta, open(os.path.join(d, "meta.json"), "w"), indent=1)
print("wrote", os.path.join(d, "meta.json"))
