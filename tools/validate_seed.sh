#!/bin/sh
# usage: validate_seed.sh <out_dir> <k> <pkgdir> <TestName> <seed_name>
# confirms in a scratch worktree: demo passes on HEAD, patch applies+builds, demo fails with it, package tests still pass
out=$1; k=$2; pkg=$3; tname=$4; name=$5
wt=/tmp/wt_val_$$
git -C /repo worktree add --detach $wt HEAD -q || exit 2
mkdir -p $wt/$pkg; cp $out/demo${k}_test.go $wt/$pkg/zz_demo${k}_test.go
cd $wt
export GOFLAGS=-mod=mod GOPROXY=off
go test $VAL_EXTRA -count=1 -run "$tname" ./$pkg/ > /tmp/val_clean_$$.log 2>&1; rc_clean=$?
git apply $out/patch$k.diff || { echo "PATCH FAILS TO APPLY"; cd /; git -C /repo worktree remove --force $wt; exit 2; }
go build ./... || { echo "BUILD FAILS"; cd /; git -C /repo worktree remove --force $wt; exit 2; }
go test $VAL_EXTRA -count=1 -run "$tname" ./$pkg/ > /tmp/val_patched_$$.log 2>&1; rc_patched=$?
rm $wt/$pkg/zz_demo${k}_test.go
go test -count=1 ./... > /tmp/val_suite_$$.log 2>&1
fails=$(grep -E "^(--- FAIL|FAIL)" /tmp/val_suite_$$.log | grep -v -E "TestParseRedirAddr|internal/server\s|internal/test|^FAIL$" | head -5)
if [ -n "$fails" ]; then
  # wall-clock tests flake when the machine is loaded: re-run the failing top-level tests in isolation, three times
  names=$(grep -E "^--- FAIL" /tmp/val_suite_$$.log | grep -v TestParseRedirAddr | sed -E 's/--- FAIL: ([A-Za-z0-9_]+).*/\1/' | sort -u | tr '\n' '|' | sed 's/|$//')
  if go test -count=3 -run "^($names)$" ./... > /tmp/val_suite2_$$.log 2>&1; then fails=""; echo "(suite failures [$names] did not recur in 3 isolated runs: load flake)"; fi
fi
echo "demo on HEAD rc=$rc_clean (want 0); demo with patch rc=$rc_patched (want !=0); unexpected suite failures: [$fails]"
cd /
git -C /repo worktree remove --force $wt
if [ $rc_clean -eq 0 ] && [ $rc_patched -ne 0 ] && [ -z "$fails" ]; then
  mkdir -p /verif/seeded/$name
  cp $out/patch$k.diff /verif/seeded/$name/patch.diff
  cp $out/demo${k}_test.go /verif/seeded/$name/demo_test.go
  cp $out/meta$k.json /verif/seeded/$name/agent_meta.json
  echo "KEPT as /verif/seeded/$name"
else
  echo "REJECTED $name"
fi
