#!/usr/bin/env python3
"""Writes MANIFEST.json from the table below (single source for the per-property registration)."""
import json, os, subprocess
V = os.path.dirname(os.path.dirname(os.path.abspath(__file__)))
props = [json.loads(l) for l in open(os.path.join(V, "properties.jsonl"))]
ids = [p["id"] for p in props]

CHECKS = {
 "C02": dict(cat="model_checking", tech="TLC exhaustive model check + TLC-generated behaviours replayed into streamBuffer + TLC trace validation of concurrent runs",
   text="Reassembly.tla is model-checked exhaustively (all arrival orders x read interleavings, N<=6 quick / 8 thorough); every maximal behaviour of ReassemblyGen (all N! orders x drain points, N<=5 quick / 6 thorough, plus simulated N up to 200) is replayed into the real streamBuffer with the expected return values and output as step-wise oracle; concurrent writer/reader executions of the real code are validated by TLC against ReassemblyTrace.tla.",
   ref="DESIGN.md section 7 C02",
   note="Each frame arrives exactly once; bytes.Buffer/sync.Cond trusted; in-package access to streamBuffer.nextRecvSeq to start a stream at a non-zero sequence base."),
}
NA_REASON = "check not built yet in this session (specification and harness pending); see DESIGN.md section 7"

hooks_commits = subprocess.run(["git", "-C", "/repo", "log", "--format=%H %s"], capture_output=True, text=True).stdout.splitlines()
hook_shas = [l.split()[0] for l in hooks_commits if l.split(" ", 1)[1].startswith(("verifhook:", "verif hooks:"))]

m = {
 "version": 1,
 "setup_cmd": "python3 tools/setup.py",
 "hooks": {
  "guard": "verif (Go build tag)",
  "enable": "GOTOOLCHAIN=local GOFLAGS=-mod=mod GOPROXY=off go1.26.8 test -tags verif -overlay <generated overlay.json> ./internal/<pkg>/ (run from /repo; harness sources are overlaid from /verif/harness, nothing is written into /repo)",
  "baseline_off_cmd": "sh /verif/tools/baseline_off.sh",
  "source_commits": list(reversed(hook_shas)),
  "add_only": True,
 },
 "engines": [
  {"name": "tlc", "path": "/usr/local/bin/tlc", "serves_properties": sorted(CHECKS), "kind_free_text": "TLA+ explicit-state model checker (exhaustive, simulation, trace validation)"},
  {"name": "go-harness", "path": "/verif/harness", "serves_properties": sorted(CHECKS), "kind_free_text": "in-package Go drivers overlaid into /repo at build time: replay TLC behaviours into the real code, record traces from it"},
 ],
 "checks": [],
 "not_applicable": [],
 "notes": "Entry point: python3 tools/check.py <Cxx> --tier quick|thorough [--replay file]. Exit 2 = inconclusive (never a verdict). Known findings: known_findings.json.",
}
for i in ids:
    if i in CHECKS:
        c = CHECKS[i]
        m["checks"].append({
          "property_id": i,
          "quick_cmd": "python3 tools/check.py %s --tier quick" % i,
          "thorough_cmd": "python3 tools/check.py %s --tier thorough" % i,
          "evidence_file": "/verif/evidence/%s.json" % i,
          "replay_cmd_template": "python3 tools/check.py %s --replay {path}" % i,
          "engine": "tlc + go-harness",
          "level_claimed": {"category": c["cat"], "text": c["text"], "design_ref": c["ref"]},
          "level_note": c["note"],
          "technique": c["tech"],
        })
    else:
        m["not_applicable"].append({"property_id": i, "reason": NA_REASON})
json.dump(m, open(os.path.join(V, "MANIFEST.json"), "w"), indent=1)
print("checks:", len(m["checks"]), "n/a:", len(m["not_applicable"]))
