"""C14 - datagram mode preserves message boundaries and stream isolation (Mux with Unordered = TRUE; DatagramPipe)."""
from props import muxcommon as mx, muxprop

LEVEL = "model_checking"
ASSUME = [
    "connections are reliable FIFO (vnet); exhaustive for <= 2 connections, <= 2 streams, <= 2-3 datagrams per direction",
]
KEYS = {"bytes-wrong", "bytes-missing", "eof-early", "read-blocked", "oversize-datagram-accepted", "call-blocked",
        "session-died", "dgram-short-consumed", "dgram-merged", "dgram-wrong", "dgram-lost",
        "dgram-cross-stream", "dgram-duplicate"}
RULE = ("behaviours of MuxGen with Unordered=TRUE (every arrival order of datagrams over 2-3 connections, oversize writes, closes) "
        "replayed on an unordered Session pair, plus behaviours of DatagramPipeGen (write/read/short-buffer/close orders) replayed "
        "into datagramBufferedPipe; non-trivial = arrival order differs from send order, or a short-buffer read / close occurs")


def run(ctx):
    q = ctx.quick()
    C = mx.cfg
    mcs = [("dgram_2c2s", C(nc=2, ns=2, units=2, maxwrite=2, unordered="TRUE", feat='"swrite"'), 900)]
    if not q:
        mcs += [("dgram_close", C(nc=2, ns=1, units=2, maxwrite=2, unordered="TRUE", feat='"swrite","close","lazy"'), 1800)]
    gens = [("dgram_bfs", C(nc=2, ns=1, units=2, maxwrite=2, unordered="TRUE", feat='"swrite"'), 30, 1, None, 2,
             {"unordered": True, "allconc": not q}),
            ("dgram_sim", C(nc=3, ns=2, units=3, maxwrite=2, unordered="TRUE", feat='"swrite","close","lazy"'), 60, 1,
             250 if q else 4000, 3, {"unordered": True})]
    return muxprop.run_property(ctx, LEVEL, ASSUME, KEYS, mcs, gens, RULE, extra=pipe_part)


def pipe_part(ctx):
    """DatagramPipe.tla: the length queue || byte buffer of datagramBufferedPipe in isolation."""
    import lib, os
    q = ctx.quick()
    lib.require_ok(lib.run_tlc(ctx, "DatagramPipe", "DatagramPipe_mc.cfg", {"N": 3 if q else 4}), "DatagramPipe")
    g = lib.require_ok(lib.run_tlc(ctx, "DatagramPipeGen", "DatagramPipeGen.cfg", {"N": 3, "DEPTH": 6 if q else 9}, tag="dpipe_gen"), "DatagramPipeGen")
    inp = lib.write_lines(os.path.join(ctx.work, "dpipe.ndjson"), g.behaviours)
    res = lib.run_go(ctx, "multiplex", "TestVerifC14Pipe", env={"VERIF_IN": inp})
    lib.collect_go(ctx, res)
    ctx.log("datagram pipe: %d behaviours replayed, %d violations" % (len(g.behaviours), len(res.get("violations", []))))
    conc = lib.run_go(ctx, "multiplex", "TestVerifC14Concurrent", timeout=600)
    lib.collect_go(ctx, conc)
    ctx.log("concurrent senders on one stream: %d datagrams received, %d violations" % (conc["stats"].get("datagrams_received", 0), len(conc.get("violations", []))))
    deep = lib.run_go(ctx, "multiplex", "TestVerifC14DeepBacklog", timeout=900, tag="deep_backlog")
    lib.collect_go(ctx, deep)
    ctx.log("deep datagram backlogs (consumer away): %d datagrams, %d violations" % (deep["stats"].get("deep_datagrams", 0), len(deep.get("violations", []))))
    rf = lib.run_go(ctx, "multiplex", "TestVerifC14ReadFrom", timeout=900)
    lib.collect_go(ctx, rf)
    ctx.log("ReadFrom relay (sizes up to the per-frame maximum, then concurrent streams): %d datagrams received, %d violations"
            % (rf["stats"].get("datagrams_received", 0), len(rf.get("violations", []))))
    # the UDP relay around the session: real client.RouteUDP on loopback sockets, concurrent proxy clients
    udp = lib.run_go(ctx, "client", "TestVerifC14RouteUDP", timeout=600)
    lib.collect_go(ctx, udp)
    if udp["stats"].get("silent_rounds"):
        raise lib.Inconclusive("RouteUDP rig: no datagram was echoed back (driver problem, not a verdict): %s" % udp.get("notes"))
    ctx.log("RouteUDP: %d datagrams sent, %d echoed, %d violations" % (udp["stats"].get("datagrams_sent", 0),
            udp["stats"].get("datagrams_echoed", 0), len(udp.get("violations", []))))
    return {"evaluations": res["evaluations"] + udp["evaluations"] + conc["evaluations"] + rf["evaluations"],
            "distinct_nontrivial": res["distinct_nontrivial"] + udp["distinct_nontrivial"] + conc["distinct_nontrivial"],
            "samples": res["samples"][:2] + udp["samples"][:1], "traces": len(g.behaviours),
            "routeudp": {k: v for k, v in udp["stats"].items() if not k.startswith("violations")}}


replay = muxprop.replay_file
