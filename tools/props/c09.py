"""C09 - unauthenticated peers see only the redirect target, byte for byte (spec/Dispatch*.tla).

1. Dispatch.tla (reader state machine first -> tlsHdr -> tlsBody | httpLine* -> decision, goWeb, the two Copy
   goroutines, target scripts) is model-checked: TargetPrefix, PeerOnlyTarget, AcceptOnlyValid,
   HangOnlyAuthenticated, CloseOnlyIncomplete, AllForwarded (+ DecidesAtStop, which is not part of the statement).
   Four negative configurations (the seeded defects as deviations of the model) must each break their invariant.
2. DispatchGen.tla exports every behaviour of the bounded model (abstract stream shape x segmentation x deadline
   x peer close x target script x reachability) with the observation expected at every quiescent point; the Go
   harness replays each against the real dispatchConnection with concrete streams.
3. The Go harness explores the concrete families of the statement's quantifier on its own (all first bytes,
   genuine / truncated / mutated / replayed hellos, HTTP corner cases, declared lengths, every cut position).
Verdict: only the statement's predicates evaluated on what the code did (keys relay:*, wedged, panic).  A
difference between the model's expected observation and the code that breaks no predicate is drift -> exit 2.
"""
import concurrent.futures
import glob
import json
import os
import re

import lib

LEVEL = "exploration"
ASSUME = [
    "peers do not half-close: the in-memory network closes both directions at once (a peer that shuts down its sending side and keeps reading is outside what is explored)",
    "an unreachable or immediately-closing redirect target leaves the peer connection open and idle (DESIGN Appendix E 15): logged as observation obs:unreachable-target-leaves-peer-open, not judged",
    "'in time' = before the 15 s first-packet deadline, measured on the virtual clock of testing/synctest; the deadline and the peer's hang-up are explored before, between and after segments",
    "abstract stream positions are mapped to concrete ones anchor by anchor (1, header end, record end / blank line, buffer size, total); only the order of the anchors matters to the code (firstPacketSize is read from the source and cross-checked in the harness)",
    "segment boundaries are quiescent points (the handler has taken all it wants before the next segment arrives); several segments arriving back to back are the same as one larger segment for a blocking reader",
    "AES-GCM / X25519 are trusted: a hello sealed for another key, a mutated or a stale one does not authenticate; mutated hellos are built from an UNAUTHORISED user's hello so that no altered copy may legitimately be served",
]

K = {"Buf": 12, "Hdr": 5, "Small": 3, "Big": 20, "LS": 4, "Trail": 2, "Banner": 2}
SCRIPTS = '{"silent", "banner", "echo", "close"}'
DOWNS = '{"up", "refuse", "closeatonce"}'
AUTH = '{"badhello", "badext", "badkey", "replay", "window", "encmethod", "method", "uid", "ok", "nosession"}'
HIDDEN = '{"short", "bogus", "replay", "method", "uid"}'
PORTS_ONE = "one"
PORTS_ALL = "all"
STATEMENT_INV = "TypeOK RightTarget TargetPrefix PeerOnlyTarget AcceptOnlyValid HangOnlyAuthenticated CloseOnlyIncomplete AllForwarded"
JVM = {"JAVA_TOOL_OPTIONS": "-Xss64m -XX:ParallelGCThreads=2 -XX:TieredStopAtLevel=1"}   # short jobs: stay in the C1 compiler
JVM_BIG = {"JAVA_TOOL_OPTIONS": "-Xss64m -XX:ParallelGCThreads=4"}
NEG = {  # deviation -> invariant it must break
    "ReplayShort": "TargetPrefix",
    "CloseOnMethod": "CloseOnlyIncomplete",
    "Banner": "PeerOnlyTarget",
    "ThresholdGE": "DecidesAtStop",
    "PortCached": "RightTarget",
}


def first_packet_size():
    txt = open(os.path.join(lib.REPO, "internal/server/dispatcher.go")).read()
    m = re.search(r"const firstPacketSize = (\d+)", txt)
    if not m:
        raise lib.Inconclusive("cannot find firstPacketSize in internal/server/dispatcher.go")
    return int(m.group(1))


# the quick model check keeps one representative of each branch of the decision tree
AUTH_Q = '{"badext", "badkey", "method", "ok", "nosession"}'
HIDDEN_Q = '{"bogus", "uid"}'


def _mc(ctx, tag, chunks, allcuts, dev="{}", inv=STATEMENT_INV + " DecidesAtStop", workers=4, small=False, tiny=False, ports=PORTS_ONE):
    sub = {"PORTS": ports, "BUF": K["Buf"], "MAXCHUNKS": chunks, "ALLCUTS": "TRUE" if allcuts else "FALSE", "DEV": dev, "INV": inv,
           "SCRIPTS": SCRIPTS, "DOWNS": DOWNS, "AUTH": AUTH_Q if small else AUTH, "HIDDEN": HIDDEN_Q if small else HIDDEN}
    if tiny:   # the negative configurations need one target script and one class only
        sub.update({"SCRIPTS": '{"echo"}', "DOWNS": '{"up"}', "AUTH": '{"method"}', "HIDDEN": '{"bogus"}', "PORTS": PORTS_ALL})
    return lib.run_tlc(ctx, "Dispatch", "Dispatch_mc.cfg", sub, tag=tag, workers=workers, expect_violation=True,
                       env=JVM_BIG if workers >= 8 else JVM, timeout=3000)


def _negatives(ctx):
    """One after the other (few JVMs at a time); each must stop at its own invariant."""
    out = {}
    for dev, inv in NEG.items():
        out[dev] = _mc(ctx, "neg_" + dev, 1, False, '{"%s"}' % dev, inv, 2, tiny=True)
    return out


def _gen(ctx, tag, mode, chunks, full=False, allcuts=False, dev="{}", workers=4, simulate=None, ports=PORTS_ONE, tiny=False):
    sub = {"PORTS": ports, "BUF": K["Buf"], "MAXCHUNKS": chunks, "ALLCUTS": "TRUE" if allcuts else "FALSE", "DEV": dev,
           "FULL": "TRUE" if full else "FALSE", "MODE": mode, "SCRIPTS": SCRIPTS, "DOWNS": DOWNS, "AUTH": AUTH, "HIDDEN": HIDDEN}
    if tiny:
        sub.update({"SCRIPTS": '{"banner", "echo"}', "DOWNS": '{"up", "refuse"}', "AUTH": '{"method", "uid", "ok"}', "HIDDEN": '{"bogus"}'})
    r = lib.run_tlc(ctx, "DispatchGen", "DispatchGen.cfg", sub, tag=tag, workers=1 if simulate else workers, env=JVM, timeout=3000,
                    simulate=simulate, depth=40 if simulate else None)
    lib.require_ok(r, tag)
    for b in r.behaviours:
        b["src"] = tag
        b["k"] = K
    return r


def run(ctx):
    q = ctx.quick()
    buf = first_packet_size()
    ctx.log("firstPacketSize of the code under test: %d" % buf)
    pool = concurrent.futures.ThreadPoolExecutor(max_workers=8)
    # the concrete exploration needs nothing from TLC: start it now
    explore_f = pool.submit(lib.run_go, ctx, "server", "TestVerifC09(Explore|Concurrent)", {"VERIF_C09_BUF": buf}, 3000, None, False, "TestVerifC09Explore")
    jobs = {}
    neg_f = pool.submit(_negatives, ctx)
    if q:
        jobs["mc"] = pool.submit(_mc, ctx, "mc_2chunks_anchor_cuts", 2, False, small=True)   # deadline, peer close, relay and target steps interleave freely
        jobs["gen_reader"] = pool.submit(_gen, ctx, "gen_reader", "reader", 3)          # every shape x every split into <= 3 segments at anchors x deadline/close
        jobs["gen_relay"] = pool.submit(_gen, ctx, "gen_relay", "relay", 2)             # every script x reachability
        jobs["gen_sim"] = pool.submit(_gen, ctx, "gen_sim", "full", 4, True, True, simulate=1500)   # seeded walks: 4 segments, any cut, any timeline
    else:
        jobs["mc"] = pool.submit(_mc, ctx, "mc_6chunks_all_cuts", 6, True, workers=8)
        jobs["gen_reader"] = pool.submit(_gen, ctx, "gen_reader", "reader", 4, True)    # 4 segments at anchors, deadline / close anywhere
        jobs["gen_relay"] = pool.submit(_gen, ctx, "gen_relay", "relay", 3)
        jobs["gen_sim"] = pool.submit(_gen, ctx, "gen_sim", "full", 4, True, True, simulate=20000)
    # the redirect-port dimension (RedirAddr with / without port x listener A / B x an earlier redirect on A / B / none)
    # is explored with one representative per branch of the decision tree: it is orthogonal to the stream shapes
    jobs["mc_ports"] = pool.submit(_mc, ctx, "mc_ports", 1, False, tiny=True)
    jobs["gen_ports"] = pool.submit(_gen, ctx, "gen_ports", "relay", 1, ports=PORTS_ALL, tiny=True)
    res = {n: f.result() for n, f in jobs.items()}
    lib.require_ok(res["mc_ports"], "Dispatch model check, port configurations")
    for dev, r in neg_f.result().items():
        if r.violated != NEG[dev]:
            raise lib.Inconclusive("negative configuration %s did not break %s (got %s): the invariant would be vacuous" % (dev, NEG[dev], r.violated))
    lib.require_ok(res["mc"], "Dispatch model check")
    ctx.log("model check: all invariants hold, %d distinct states (%.0fs); %d negative configurations rejected"
            % (res["mc"].distinct, res["mc"].wall, len(NEG)))
    behaviours, seen = [], set()
    for n, r in res.items():
        if not n.startswith("gen_"):
            continue
        k0 = len(behaviours)
        for b in r.behaviours:
            key = json.dumps([b["case"], [(s["a"], s["n"]) for s in b["steps"]]], sort_keys=True)   # case includes the port configuration
            if key in seen:
                continue
            seen.add(key)
            behaviours.append(b)
        ctx.log("%s: %d behaviours (%d new), %d states, %.0fs" % (n, len(r.behaviours), len(behaviours) - k0, r.distinct, r.wall))
    if not behaviours:
        raise lib.Inconclusive("TLC produced no behaviours")
    inp = lib.write_lines(os.path.join(ctx.work, "c09_behaviours.ndjson"), behaviours)
    replay_f = pool.submit(lib.run_go, ctx, "server", "TestVerifC09Replay",
                           {"VERIF_IN": inp, "VERIF_C09_BUF": buf, "VERIF_C09_CONCS": 2 if q else 3}, 3000)
    runs = []
    for name, f in (("explore", explore_f), ("replay", replay_f)):
        g = f.result()
        if g.get("_died"):
            flights = []
            for p in sorted(glob.glob(os.path.join(g["_out_dir"], "running_w*.json"))):
                try:
                    flights.append(json.load(open(p)))
                except Exception:
                    pass
            m = re.search(r"^(panic: .*|fatal error: .*)$", open(os.path.join(g["_out_dir"], "go.out")).read(), re.M)
            g["running"] = {"in_flight": flights, "message": m.group(1) if m else g.get("_stdout_tail", "")[-400:]}
            if g["stats"].get("watchdog_inconclusive"):
                raise lib.Inconclusive("a scenario did not settle and no handler goroutine is to blame: %s" % g.get("notes"))
            if any(v["key"] == "wedged" for v in g.get("violations", [])):
                g["_died"] = False   # the watchdog recorded its verdict and stopped the process itself
        lib.collect_go(ctx, g, died_key="panic")
        for v in ctx.violations:
            if v.get("key") == "panic" and "what" in v and isinstance(v.get("replay"), dict) and v["replay"].get("message"):
                v["what"] = "the server process died while handling one of the connections in flight: " + v["replay"]["message"]
        runs.append(g)
    ex, rp = runs
    drift = ex["stats"].get("drift", 0) + rp["stats"].get("drift", 0)
    ctl = (ex["stats"].get("control_accepted", 0), ex["stats"].get("control_hung", 0))
    ctx.log("concurrent presentations: %d rounds (N = 2..12 connections), served-per-round histogram %s"
            % (ex["stats"].get("concurrent_rounds", 0), {k[len("concurrent_served_"):]: v for k, v in ex["stats"].items() if k.startswith("concurrent_served_")}))
    ctx.log("explore: %d scenarios; replay: %d behaviours x concretisations = %d runs; drift %d; controls accepted/hung %s"
            % (ex["stats"].get("explore_scenarios", 0), len(behaviours), rp["evaluations"], drift, ctl))
    if not ctx.violations:
        if rp["stats"].get("concretise_errors"):
            raise lib.Inconclusive("behaviours could not be concretised: %s" % rp.get("notes"))
        if drift:
            notes = [n for n in (rp.get("notes", []) + ex.get("notes", [])) if n.startswith("DRIFT")]
            raise lib.Inconclusive("model and code disagree on %d run(s) without any predicate of the statement failing (model drift, "
                                   "or a behavioural change the statement does not forbid):\n  %s" % (drift, "\n  ".join(notes[:3])))
        if ex["stats"].get("concurrent_unsettled"):
            raise lib.Inconclusive("concurrent presentations: %d round(s) did not settle within 10 s (machine overloaded?): %s"
                                   % (ex["stats"]["concurrent_unsettled"], [n for n in ex.get("notes", []) if n.startswith("concurrent")][:2]))
        if ctl != (3, 3):
            raise lib.Inconclusive("control scenarios: %d of 3 authorised handshakes served, %d of 3 refused sessions left hanging - "
                                   "the rig cannot tell the outcomes apart" % ctl)
    stats = {"explore": ex["stats"], "replay": rp["stats"]}
    cov = {
        "evaluations": ex["evaluations"] + rp["evaluations"],
        "distinct_nontrivial": ex["distinct_nontrivial"] + rp["distinct_nontrivial"],
        "rule": "one evaluation = one connection handled by the real dispatchConnection in a synctest bubble. Model part: every maximal "
                "behaviour of DispatchGen (stream shapes: first byte class x declared length {0, small, buffer-5, buffer-4, 65535} / blank "
                "line at {short, buffer-1, buffer, buffer+1, never} x truncation points x first-packet class {garbage, badhello, badkey, "
                "replay, window, encmethod, method, uid, ok, nosession / none, short, bogus hidden ...} x segmentations into <= %d chunks at "
                "anchor positions x deadline / peer close positions x target script x reachability), each with %d concrete stream(s). "
                "Exploration part: 256 first bytes x 3 tails; corpus (browser hellos of 3 profiles in 6 classes + 27 broken ones, records "
                "declaring 0..65535 with 0..all bytes present, 35 HTTP shapes, random streams) whole / + peer close / every cut position "
                "(quick: every 7th and all boundaries) / random multi-cuts; every truncation (quick: every 7th) of authorised hellos; byte "
                "mutations of unauthorised hellos. distinct = distinct abstract case+timeline (model) or family/class/kind/script signature; "
                "non-trivial = the stream gets as far as a redirect decision" % (3 if q else 4, 2 if q else 3),
        "samples": (ex["samples"] + rp["samples"])[:10],
        "traces_validated_against_impl": rp["evaluations"] - rp["stats"].get("drift", 0),
        "behaviours_replayed": len(behaviours),
        "explored_scenarios": ex["stats"].get("explore_scenarios", 0),
        "drift": drift,
        "first_packet_size": buf,
        "model_constants": K,
        "exhaustive": False,
        "checker_cmd": "tlc Dispatch.tla (1 + 4 negative) / DispatchGen.tla + go test -run 'TestVerifC09(Explore|Replay)'",
        "harness_stats": stats,
    }
    return lib.finish(ctx, LEVEL, cov, ASSUME)


def replay(ctx, path):
    try:
        kind = (json.load(open(path)).get("replay") or {}).get("kind")
    except Exception:
        kind = None
    if kind == "concurrent":   # a schedule cannot be replayed from a file: the rounds are run again
        res = lib.run_go(ctx, "server", "TestVerifC09Concurrent", env={"VERIF_C09_BUF": first_packet_size()}, extra_args=["-v"])
        for v in res.get("violations", []):
            print("REPLAY-RESULT key=%r what=%r" % (v["key"], v["what"]))
        print("REPLAY-RESULT %d rounds, served-per-round %s" % (res["stats"].get("concurrent_rounds", 0),
              {k: v for k, v in res["stats"].items() if k.startswith("concurrent_served_")}))
        return 0
    res = lib.run_go(ctx, "server", "TestVerifC09Replay", env={"VERIF_REPLAY": os.path.abspath(path), "VERIF_C09_BUF": first_packet_size()},
                     extra_args=["-v"])
    print(open(os.path.join(res["_out_dir"], "go.out")).read())
    return 0
