"""Generic runner for a Mux-carried property: model-check configs, generate behaviours, replay, classify."""
import lib
from props import muxcommon as mx


def run_property(ctx, level, assume, keys, mcs, gens, rule, extra=None):
    res, nb = mx.run_all(ctx, mcs, gens)
    if res.get("_died"):
        raise lib.Inconclusive("replay driver died: " + res.get("_stdout_tail", ""))
    for v in res.get("violations", []):
        if v["key"] in keys:
            ctx.violations.append(v)
        else:
            ctx.notes.append("observation outside this property (%s): %s" % (v["key"], v["what"]))
    st = res.get("stats", {})
    more = extra(ctx) if extra else {}
    if st.get("diverged", 0) and not ctx.violations:
        raise lib.Inconclusive("model drift: %d behaviours could not be followed by the code without a property failure: %s"
                               % (st.get("diverged", 0), res.get("notes", [])[:3]))
    cov = {
        "evaluations": res["evaluations"] + more.get("evaluations", 0),
        "distinct_nontrivial": res["distinct_nontrivial"] + more.get("distinct_nontrivial", 0),
        "rule": rule, "samples": (res.get("samples", [])[:4] + more.get("samples", []))[:6],
        "traces_validated_against_impl": nb + more.get("traces", 0), "exhaustive": True,
        "diverged": st.get("diverged", 0), "unstable": st.get("unstable", 0),
        "replay_stats": {k: v for k, v in st.items() if ":" in k and not k.startswith("violations:")},
    }
    for k, v in more.items():
        if k not in ("evaluations", "distinct_nontrivial", "samples", "traces"):
            cov[k] = v
    return lib.finish(ctx, level, cov, assume)


def replay_file(ctx, path):
    import os
    res = lib.run_go(ctx, "multiplex", "TestVerifMuxReplay", env={"VERIF_REPLAY": os.path.abspath(path)}, extra_args=["-v"])
    print(open(res["_out_dir"] + "/go.out").read())
    return 0
