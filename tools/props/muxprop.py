"""Generic runner for a Mux-carried property: model-check configs, generate behaviours, replay, classify."""
import lib
from props import muxcommon as mx


def run_property(ctx, level, assume, keys, mcs, gens, rule, extra=None):
    """mcs: list of (name, subst, timeout); gens: list of (name, subst, depth, noops, simulate|None, nc, opts)."""
    results = []
    nb = 0
    for name, subst, timeout in mcs:
        mx.model_check(ctx, name, subst, timeout=timeout)
    for name, subst, depth, noops, simulate, nc, opts in gens:
        beh = mx.generate(ctx, name, subst, depth=depth, noops=noops, simulate=simulate)
        if not beh:
            raise lib.Inconclusive("no behaviours generated for " + name)
        nb += len(beh)
        results.append(mx.replay(ctx, name, beh, nc=nc, **opts))
    for r in results:
        if r.get("_died"):
            raise lib.Inconclusive("replay driver died: " + r.get("_stdout_tail", ""))
        for v in r.get("violations", []):
            if v["key"] in keys:
                ctx.violations.append(v)
            else:
                ctx.notes.append("observation outside this property (%s): %s" % (v["key"], v["what"]))
    tot = mx.merge(results)
    more = extra(ctx) if extra else {}
    if tot["diverged"] and not ctx.violations:
        raise lib.Inconclusive("model drift: %d behaviours could not be followed by the code without a property failure: %s"
                               % (tot["diverged"], tot["notes"][:3]))
    cov = {
        "evaluations": tot["evaluations"] + more.get("evaluations", 0),
        "distinct_nontrivial": tot["distinct_nontrivial"] + more.get("distinct_nontrivial", 0),
        "rule": rule, "samples": (tot["samples"] + more.get("samples", []))[:5],
        "traces_validated_against_impl": nb + more.get("traces", 0), "exhaustive": True,
        "diverged": tot["diverged"], "unstable": tot["unstable"],
    }
    for k, v in more.items():
        if k not in ("evaluations", "distinct_nontrivial", "samples", "traces"):
            cov[k] = v
    return lib.finish(ctx, level, cov, assume)


def replay_file(ctx, path):
    res = lib.run_go(ctx, "multiplex", "TestVerifMuxReplay", env={"VERIF_REPLAY": path})
    print(open(res["_out_dir"] + "/go.out").read())
    return 0
