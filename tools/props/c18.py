"""C18 - user database and admin API act as a keyed store and never crash the server (spec/UserDB*.tla).

1. TLC checks the design module UserDB (all admin operations incl. Get/List and every kind of malformed
   request, consumers as total functions) exhaustively to a depth bound.
2. TLC enumerates every behaviour of UserDBGen (history variable: operation, verdict, expected full store
   and expected consumer results after each step) for several alphabets / depths, plus -simulate runs.
3. harness/usermanager/c18_test.go replays every behaviour through the real APIRouter over a real
   localManager on a bolt file (close/reopen included), reads the whole store back after every step,
   runs the consumers under recover.
4. harness/server/c18_test.go lets the owner of every distinct record of those behaviours connect
   (userPanel.GetUser -> MakeValve) under recover.
5. spec/UserDBPanel.tla (UserDB + the panel's live records, valve and usage queue): TLC enumerates every upload
   history; TestVerifC18Panel replays them on the real userPanel/commitUpdate path over a real localManager.
6. B2: TestVerifC18Linear records call/return events of 2-4 goroutines issuing overlapping requests (episodes with
   a full read-back) and TLC validates the recording against UserDBTrace.tla (linearizability w.r.t. UserDB);
   a permutation search in Go is the second formulation; a forced LIST schedule runs first."""
import concurrent.futures
import json
import os
import random

import lib

LEVEL = "model_checking"
ASSUME = [
    "overlapping requests are sampled with real goroutines (no schedule control except the forced LIST schedule); "
    "a completed set of overlapping requests must be linearizable w.r.t. UserDB (the lead's reading of 'acts as a keyed store')",
    "UIDs are 16 bytes (what the Cloak client sends); two UIDs, both byte orders",
    "integers are concretised from a compressed number line: {min, min+k, -k..k, max-k, max} of the field's Go type; "
    "usage reports whose subtraction would overflow int64 are exercised for panics only, not for the stored result",
    "the world clock of the manager is pinned to Unix time 0; bbolt, encoding/json and gorilla/mux are trusted",
    "a field never written may read back as null or 0 (the statement does not choose); HTTP status codes and the "
    "verdicts of AuthenticateUser/AuthoriseNewSession/UploadStatus/GetUser are logged against the model, they do not decide",
    "userPanel.GetUser is exercised on every distinct record of the expected stores, created by one POST on a fresh "
    "database (the API driver has established that the real store equals the expected one)",
]

FIELDS = ["SessionsCap", "UpRate", "DownRate", "UpCredit", "DownCredit", "ExpiryTime"]
V5 = ["min", "m1", "z", "p1", "max"]
PTAG = '<<"C18PANEL", '
TAG = '<<"C18BEHAVIOUR", '


def S(items):
    return "{" + ", ".join('"%s"' % x for x in items) + "}"


def gen_subst(depth, onef, onev, abf, abv, allv, none, upu, dnu):
    return {"DEPTH": depth, "ONEF": S(onef), "ONEV": S(onev), "ABF": S(abf), "ABV": S(abv), "ALLV": S(allv),
            "NONE": "TRUE" if none else "FALSE", "UPU": S(upu), "DNU": S(dnu)}


def plan(ctx):
    """The TLC runs of a tier (tag, cfg substitution, (num, depth) for -simulate). In simulation mode TLC evaluates
    the invariants - hence Emit - on every candidate successor, so one random walk yields one behaviour per operation
    that is possible at its last step (about 140 with the full alphabet): num walks give ~140 x num behaviours.
    The representatives of the classes 'one field' / 'all but one field' rotate
    with the seed in the deep runs; the wide run takes every field and every value class."""
    rnd = random.Random(ctx.seed)
    f = FIELDS[:]
    rnd.shuffle(f)
    f1, f2, f3 = f[0], f[1], f[2]
    runs = []
    if ctx.quick():
        # every sequence of 4 operations over a reduced alphabet (3 write classes: 14 operations per step)
        runs.append(("deep4", gen_subst(4, [f1], ["z"], [], [], ["p1"], True, ["p1"], ["p2"]), None))
        # every sequence of 3 operations over 6 write classes incl. the extremes (20 operations per step)
        runs.append(("mid3", gen_subst(3, [f2], ["min", "m1"], [f3], ["p1"], ["max", "z"], True, ["p1"], ["p2"]), None))
        # every sequence of 2 operations over the full alphabet: 6 fields x 5 values for one / all-but-one, all x 5
        runs.append(("wide2", gen_subst(2, FIELDS, V5, FIELDS, V5, V5, True, ["p1", "max"], ["z", "p2"]), None))
        runs.append(("sim8", gen_subst(8, FIELDS, V5, [f2, f3], ["z", "p1"], V5, True, ["p1", "max"], ["z", "p2"]), (30, 8)))
        mc = dict(gen_subst(3, [f1], V5, [f2], ["p1"], ["z", "p1", "max"], True, ["p1"], ["p2"]))
    else:
        # every sequence of 5 operations over 12 operations per step (write classes one(f1):=0 and all:=1; the empty
        # write is in deep4). With the empty write as well (14 operations, 307 328 behaviours) the tier passed too but
        # needed 20-25 min on the shared, loaded machine.
        runs.append(("deep5", gen_subst(5, [f1], ["z"], [], [], ["p1"], False, ["p1"], ["p2"]), None))
        # every sequence of 4 operations over 6 write classes incl. the extremes (20 operations per step)
        runs.append(("deep4", gen_subst(4, [f2], ["min", "m1"], [f3], ["p1"], ["max", "z"], True, ["p1"], ["p2"]), None))
        runs.append(("wide2", gen_subst(2, FIELDS, V5, FIELDS, V5, V5, True, ["p1", "max"], ["z", "p2"]), None))
        # every sequence of 3 operations over 13 write classes (each single field, all x 5 values; 36 operations per step)
        runs.append(("wide3", gen_subst(3, FIELDS, ["z"], [f1], ["p1"], V5, True, ["p1", "max"], ["p2"]), None))
        runs.append(("sim10", gen_subst(10, FIELDS, V5, FIELDS, ["z", "p1", "max"], V5, True, ["p1", "max"], ["z", "p2"]), (100, 10)))
        runs.append(("sim30", gen_subst(30, FIELDS, V5, [f2, f3], ["z", "p1"], V5, True, ["p1", "p3"], ["z", "p2"]), (40, 30)))
        mc = dict(gen_subst(4, [f1], V5, [f2], ["p1"], ["z", "p1", "max"], True, ["p1"], ["p2"]))
    mc.pop("NONE")
    mc.update({"ARZ": "TRUE", "RNR": "TRUE"})
    return runs, mc


def panel_plan(ctx):
    """Upload histories (spec/UserDBPanel.tla): every history of exactly DEPTH steps that ends with an upload round.
    Steps: admin POST (write classes as in UserDB) / DELETE (at most MAXADMIN), owner connects, traffic (up, down),
    last session ends, upload round. Steps that cannot happen are not offered (traffic without live record, ...)."""
    rnd = random.Random(ctx.seed * 31 + 7)
    third = rnd.choice(["SessionsCap", "UpRate", "DownRate", "DownCredit"])
    q = ctx.quick()

    def sub(puids, depth, maxadmin, onef, onev, allv, none, upu, dnu):
        d = gen_subst(depth, onef, onev, [], [], allv, none, upu, dnu)
        d.update({"PUIDS": S(puids), "MAXADMIN": maxadmin, "GUARD": "TRUE"})
        return d
    return [
        # one owner; record all:=1, admin changes UpCredit / ExpiryTime / a seed-chosen field to 0 or -1 or deletes;
        # traffic (0,1) (1,0) (1,1): up, down, both, and expiry exhausted in one round, rounds twice in a row
        ("hist_deep", sub(["u1"], 6 if q else 7, 3, ["UpCredit", "ExpiryTime", third], ["z", "m1"], ["p1"], False, ["z", "p1"], ["z", "p1"])),
        # every record class: all := each value, each single field := each value, the empty write; traffic (1,1)
        ("hist_wide", sub(["u1"], 6 if q else 7, 2, FIELDS, V5, V5, True, ["p1"], ["p1"])),
        # two owners in the same rounds
        ("hist_two", sub(["u1", "u2"], 6 if q else 7, 2, ["UpCredit"], ["z"], ["p1"], False, ["p1"], ["p1"])),
    ]


def extract(r, fh, tag=TAG):
    """Copies the behaviours TLC printed into the ndjson file (one JSON document per line)."""
    n = 0
    for line in r.out.splitlines():
        if line.startswith(tag) and line.endswith(">>"):
            fh.write(json.loads(line[len(tag):-2]))  # the TLA+ string literal uses JSON's escapes
            fh.write("\n")
            n += 1
    r.out = ""
    return n


def go_usermanager(ctx, env, tag=None, extra_args=None):
    return lib.run_go(ctx, "usermanager", "TestVerifC18Replay", env=env, timeout=1500, tag=tag, extra_args=extra_args)


def tmp_env():
    # bolt fsyncs on every Update; a tmpfs keeps the replay CPU-bound
    for d in ("/dev/shm",):
        if os.path.isdir(d) and os.access(d, os.W_OK):
            return {"TMPDIR": d}
    return {}


def run(ctx):
    runs, mc = plan(ctx)
    inp = os.path.join(ctx.work, "c18_behaviours.ndjson")
    counts = {}
    per = max(2, lib.NCPU // 4)
    jenv = {"JAVA_TOOL_OPTIONS": "-Xss64m -XX:ParallelGCThreads=4"}  # several JVMs run side by side

    def one(item):
        tag, subst, sim = item
        if tag == "linear":
            return tag, linear(ctx)
        if tag.startswith("hist_"):
            return tag, lib.run_tlc(ctx, "UserDBPanel", "UserDBPanel.cfg", subst, workers=per, tag=tag, timeout=1500, env=jenv)
        if tag == "mc":
            return tag, lib.run_tlc(ctx, "UserDB", "UserDB_mc.cfg", subst, workers=per, tag="mc", timeout=1500, env=jenv)
        if sim:
            return tag, lib.run_tlc(ctx, "UserDBGen", "UserDBGen.cfg", subst, workers=1, simulate=sim[0], depth=sim[1] + 1,
                                    tag="gen_" + tag, timeout=1500, env=jenv)
        return tag, lib.run_tlc(ctx, "UserDBGen", "UserDBGen.cfg", subst, workers=lib.NCPU if tag.startswith("deep") else per,
                                tag="gen_" + tag, timeout=1500, env=jenv)

    # the concurrent driver runs first, next to the TLC jobs (no other go run is active: one overlay file)
    items = [("linear", None, None), ("mc", mc, None)] + runs + [(t, sb, None) for t, sb in panel_plan(ctx)]
    lin = None
    hinp = os.path.join(ctx.work, "c18_histories.ndjson")
    hcounts = {}
    hfh = open(hinp, "w")
    with open(inp, "w") as fh, concurrent.futures.ThreadPoolExecutor(max_workers=len(items)) as ex:
        for tag, r in ex.map(one, items):
            if tag == "linear":
                lin = r
                continue
            lib.require_ok(r, tag)
            if tag.startswith("hist_"):
                hcounts[tag] = extract(r, hfh, PTAG)
                ctx.tlc_runs[[t["tag"] for t in ctx.tlc_runs].index(tag)]["behaviours"] = hcounts[tag]
                ctx.log("gen %s: %d upload histories (%d states, %.1fs)" % (tag, hcounts[tag], r.distinct, r.wall))
                continue
            if tag == "mc":
                ctx.log("model check UserDB depth %s: %d distinct states, %.1fs" % (mc["DEPTH"], r.distinct, r.wall))
                continue
            counts[tag] = extract(r, fh)
            ctx.tlc_runs[[t["tag"] for t in ctx.tlc_runs].index("gen_" + tag)]["behaviours"] = counts[tag]
            ctx.log("gen %s: %d behaviours (%d states, %.1fs)" % (tag, counts[tag], r.distinct, r.wall))
    hfh.close()
    total = sum(counts.values())
    if not total or any(v == 0 for v in counts.values()) or any(v == 0 for v in hcounts.values()):
        raise lib.Inconclusive("TLC produced no behaviours in %s %s" % (counts, hcounts))

    env = {"VERIF_IN": inp, "GOGC": "400"}  # allocation-heavy (httptest), small live heap
    env.update(tmp_env())
    res = go_usermanager(ctx, env)
    lib.collect_go(ctx, res)
    ctx.log("api replay: %d evaluations, %d violations" % (res["evaluations"], len(res["violations"])))
    srv = lib.run_go(ctx, "server", "TestVerifC18Connect", env=env, harness_dirs=["server"], timeout=1500)
    lib.collect_go(ctx, srv)
    ctx.log("connect: %d distinct records, %d violations" % (srv["stats"].get("distinct_records", 0), len(srv["violations"])))
    henv = dict(env)
    henv["VERIF_IN"] = hinp
    pan = lib.run_go(ctx, "server", "TestVerifC18Panel", env=henv, harness_dirs=["server"], timeout=1500)
    lib.collect_go(ctx, pan, died_key="process-died:upload-history")
    ctx.log("upload histories: %d replayed, %d with a TERMINATE answer for a UID without live record, %d violations" % (
        pan["stats"].get("histories", 0), pan["stats"].get("histories_with_terminate_for_no_live_record", 0), len(pan["violations"])))
    if pan["stats"].get("undecodable", 0):
        raise lib.Inconclusive("the panel driver could not decode %d histories" % pan["stats"]["undecodable"])
    if pan["stats"].get("panel_state_diff", 0):
        ctx.notes.append("live records / usage queue differing from UserDBPanel (logged, not deciding): %d; e.g. %s" % (
            pan["stats"]["panel_state_diff"], (pan.get("notes") or ["?"])[:3]))
    diffs = res["stats"].get("consumer_result_diff", 0) + srv["stats"].get("consumer_result_diff", 0)
    if diffs:
        ctx.notes.append("consumer verdicts differing from the model (logged, not deciding): %d; e.g. %s" % (
            diffs, (res.get("notes") or srv.get("notes") or ["?"])[:3]))
    if res["stats"].get("undecodable", 0):
        raise lib.Inconclusive("the driver could not decode %d behaviours" % res["stats"]["undecodable"])
    status = {k: v for k, v in res["stats"].items() if k.startswith("status:")}
    cov = {
        "evaluations": res["evaluations"] + srv["evaluations"] + lin["evaluations"] + pan["evaluations"],
        "distinct_nontrivial": res["distinct_nontrivial"] + srv["distinct_nontrivial"] + lin["distinct_nontrivial"] + pan["distinct_nontrivial"],
        "upload_histories_per_run": hcounts,
        "upload_histories_with_terminate_for_no_live_record": pan["stats"].get("histories_with_terminate_for_no_live_record", 0),
        "panel_state_diff": pan["stats"].get("panel_state_diff", 0),
        "concurrent_episodes": lin["stats"].get("episodes", 0),
        "concurrent_episodes_overlapped": lin["stats"].get("episodes_overlapped", 0),
        "trace_events_validated": lin["stats"].get("trace_events", 0),
        "trace_accepted": lin["_accepted"],
        "rule": "behaviours = every path of UserDBGen with exactly MaxOps operations for each exhaustive alphabet (%s) plus "
                "TLC -simulate paths; operations: POST with a field subset of the classes none / one / all-but-one / all and a "
                "value class of {min,-1,0,1,max}, POST with mismatching UIDs, 52 malformed requests (7 kinds), DELETE, close+reopen, "
                "usage upload; after every step GET u1, GET u2, LIST are compared with the model's store. non-trivial = an "
                "accepted write of a proper subset of the fields, or a rejected request / reopen after an accepted write; "
                "distinct = distinct operation lists. connect: every distinct record of the expected stores, non-trivial = "
                "partial record or refused connection. upload histories: every history of UserDBPanel of the stated depth "
                "that ends with an upload round (admin POST/DELETE, connect, traffic, last session ends, round), replayed on "
                "the real userPanel (GetUser, valve, CloseSession, updateUsageQueue + commitUpdate) over a real localManager; "
                "non-trivial = a TERMINATE answer met no live record, or the admin changed a connected owner's record. concurrent (B2): episodes of 2-4 overlapping POST/DELETE/upload/GET/LIST "
                "on 1-2 UIDs from 2-4 goroutines after a sequential set-up, each followed by GET u1, GET u2, LIST; the "
                "call/return recording is validated by TLC against UserDBTrace (state change = silent UserDB action "
                "between call and return); non-trivial = at least 2 concurrent operations" % ", ".join("%s=%d" % kv for kv in sorted(counts.items())),
        "samples": res["samples"] + srv["samples"] + lin["samples"][:1],
        "traces_validated_against_impl": total + sum(hcounts.values()) + (lin["stats"].get("episodes", 0) if lin["_accepted"] else 0),
        "behaviours_replayed": total,
        "behaviours_per_run": counts,
        "steps_replayed": res["stats"].get("steps", 0),
        "distinct_records_connected": srv["stats"].get("distinct_records", 0),
        "connect_verdicts": {k: v for k, v in srv["stats"].items() if k.startswith("connect:")},
        "http_status_seen": status,
        "consumer_result_diff": diffs,
        "exhaustive": True,
        "checker_cmd": "tlc UserDB.tla / UserDBGen.tla / UserDBTrace.tla + go test -run TestVerifC18Linear + go test -run TestVerifC18Replay ./internal/server/usermanager/ "
                       "+ go test -run TestVerifC18Connect ./internal/server/",
    }
    return lib.finish(ctx, LEVEL, cov, ASSUME)


def linear(ctx, episodes=None):
    """B2: overlapping requests recorded from the real code, validated by TLC against UserDBTrace.tla."""
    env = {"VERIF_C18_EPISODES": episodes or (600 if ctx.quick() else 6000)}
    env.update(tmp_env())
    tr = lib.run_go(ctx, "usermanager", "TestVerifC18Linear", env=env, timeout=900)
    lib.collect_go(ctx, tr)
    tpath = os.path.join(tr["_out_dir"], "c18_trace.ndjson")
    eps = [json.loads(x) for x in open(os.path.join(tr["_out_dir"], "c18_episodes.ndjson"))]
    v = lib.run_tlc(ctx, "UserDBTrace", "UserDBTrace.cfg", workers=1, env={"VERIF_TRACE": tpath},
                    expect_violation=True, tag="trace", dfs=True, timeout=900)
    tr["_accepted"] = bool(v.ok)
    flagged = [e for e in eps if not e["explainable"]]
    ctx.log("concurrent: %d episodes (%d overlapped), %d events, TLC accepted=%s (%d states, %.1fs), permutation check flags %d" % (
        len(eps), tr["stats"].get("episodes_overlapped", 0), tr["stats"].get("trace_events", 0), v.ok, v.distinct, v.wall, len(flagged)))
    if v.ok:
        if flagged:
            raise lib.Inconclusive("the permutation check rejects episode %s but TLC accepts the recording: the two "
                                   "formulations disagree" % json.dumps(flagged[0]["episode"]))
        return tr
    if v.violated not in ("postcondition", None) and not v.rejected_at:
        ctx.violations.append({"key": "trace-invariant:" + str(v.violated), "what": "invariant %s fails on a recorded "
                               "execution" % v.violated, "replay": {"cex": v.cex[-2:]}})
        return tr
    line = v.rejected_at or 0
    ep = next((e for e in eps if e["first"] <= line <= e["last"]), None)
    if ep is None:
        raise lib.Inconclusive("TLC rejects the recording at line %s, which belongs to no episode" % line)
    events = open(tpath).read().splitlines()[ep["first"] - 1:ep["last"]]
    ctx.violations.append({
        "key": ep["key"],
        "what": "overlapping requests %s (after set-up %s) left a state / returned reads that no order of these requests "
                "explains: event %d of the recording cannot be matched (%s); permutation check agrees: %s" % (
                    json.dumps(ep["episode"]["conc"]), json.dumps(ep["episode"]["setup"]), line,
                    events[line - ep["first"]] if 0 <= line - ep["first"] < len(events) else "?", not ep["explainable"]),
        "replay": {"episode": ep["episode"], "conc_seen": ep["conc_seen"], "back_seen": ep["back_seen"], "events": events}})
    # every further episode the permutation check flags is reported under its own key (TLC stops at the first)
    for e in flagged:
        if e["n"] != ep["n"]:
            ctx.violations.append({"key": e["key"], "what": "no order of %s explains the read-back (permutation check; TLC had "
                                   "already rejected the recording at an earlier episode)" % json.dumps(e["episode"]["conc"]),
                                   "replay": {"episode": e["episode"], "conc_seen": e["conc_seen"], "back_seen": e["back_seen"]}})
    return tr


def replay(ctx, path):
    rp = json.load(open(path))
    env = {"VERIF_REPLAY": os.path.abspath(path)}
    env.update(tmp_env())
    if "history" in (rp.get("replay") or {}):
        res = lib.run_go(ctx, "server", "TestVerifC18Panel", env=env, harness_dirs=["server"], extra_args=["-v"])
        print(open(os.path.join(res["_out_dir"], "go.out")).read())
        return 0
    if "episode" in (rp.get("replay") or {}) or "schedule" in (rp.get("replay") or {}):
        res = lib.run_go(ctx, "usermanager", "TestVerifC18Linear", env=env, extra_args=["-v"])
        print(open(os.path.join(res["_out_dir"], "go.out")).read())
        return 0
    if "record" in (rp.get("replay") or {}):
        res = lib.run_go(ctx, "server", "TestVerifC18Connect", env=env, harness_dirs=["server"], extra_args=["-v"])
    else:
        res = go_usermanager(ctx, env, extra_args=["-v"])
    print(open(os.path.join(res["_out_dir"], "go.out")).read())
    return 0
