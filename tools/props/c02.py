"""C02 - stream reassembly is independent of arrival order (spec/Reassembly*.tla)."""
import os
from concurrent.futures import ThreadPoolExecutor
import lib
from props import c02_ind

LEVEL = "model_checking"
ASSUME = [
    "each frame is delivered to the reassembly buffer exactly once (duplicates are outside the statement)",
    "sequence numbers are Base+index; the code only compares them with == and <, Base is swept over 0, 2^32-3, 2^32, 2^63-2, 2^64-N-1",
    "bytes.Buffer and sync.Cond of the Go runtime are trusted",
    "the TLAPS proof (all N) is about ReassemblyInd.tla, whose equivalence with the replayed Reassembly.tla is TLC-checked for N<=8, not proved",
]


def validate_trace(ctx, trace_path, module, cfg, subst=None, tag=None, dfs=True):
    r = lib.run_tlc(ctx, module, cfg, subst=subst, workers=1, env={"VERIF_TRACE": trace_path},
                    expect_violation=True, tag=tag, dfs=dfs, timeout=900)
    return r


def run(ctx):
    q = ctx.quick()
    # 0. the inductive argument (TLAPS for every N, Apalache for symbolic N<=8: thorough tier; TLC equivalence of the
    #    closed-form spec with Reassembly.tla: both tiers) runs beside everything else. It says nothing about the code:
    #    if a prover cannot be re-run the verdict of the check is unaffected and the evidence says so.
    pool = ThreadPoolExecutor(max_workers=1)
    f_ind = pool.submit(c02_ind.stage, ctx)
    # 1. exhaustive model check: every arrival order x every read interleaving
    nmc = 6 if q else 8
    r = lib.require_ok(lib.run_tlc(ctx, "Reassembly", "Reassembly_mc.cfg", {"N": nmc}), "Reassembly N=%d" % nmc)
    ctx.log("model check N=%d: %d distinct states" % (nmc, r.distinct))
    # 2. behaviours: all N! orders x read points (BFS over the history-extended spec) ...
    behaviours = []
    for n in ([2, 3, 4, 5] if q else [2, 3, 4, 5, 6]):
        g = lib.require_ok(lib.run_tlc(ctx, "ReassemblyGen", "ReassemblyGen.cfg", {"N": n}, tag="gen_bfs_%d" % n), "gen")
        behaviours += g.behaviours
        ctx.log("gen N=%d: %d behaviours" % (n, len(g.behaviours)))
    exhaustive_n = 5 if q else 6
    # ... and random long ones by simulation
    for n, num in ([(12, 150), (40, 40)] if q else [(7, 3000), (12, 3000), (40, 600), (200, 40)]):
        g = lib.require_ok(lib.run_tlc(ctx, "ReassemblyGen", "ReassemblyGen.cfg", {"N": n}, workers=1,
                                       simulate=num, depth=2 * n + 2, tag="gen_sim_%d" % n), "gen sim")
        behaviours += g.behaviours
        ctx.log("sim N=%d: %d behaviours" % (n, len(g.behaviours)))
    if not behaviours:
        raise lib.Inconclusive("TLC produced no behaviours")
    inp = lib.write_lines(os.path.join(ctx.work, "c02_behaviours.ndjson"), behaviours)
    # 3. replay into the real streamBuffer
    res = lib.run_go(ctx, "multiplex", "TestVerifC02Replay", env={"VERIF_IN": inp})
    lib.collect_go(ctx, res)
    # 4. concurrent writer/reader traces recorded from the real code, validated by TLC
    tr = lib.run_go(ctx, "multiplex", "TestVerifC02Trace")
    lib.collect_go(ctx, tr)
    tpath = os.path.join(tr["_out_dir"], "trace.ndjson")
    nev = sum(1 for _ in open(tpath))
    v = validate_trace(ctx, tpath, "ReassemblyTrace", "ReassemblyTrace.cfg", tag="trace")
    traces_ok = tr["evaluations"]
    if not v.ok:
        line = v.rejected_at
        ev = open(tpath).read().splitlines()[line - 1] if line and line <= nev else "?"
        if v.violated == "postcondition" or v.rejected_at:
            ctx.violations.append({"key": "trace-rejected", "what": "recorded execution is not a behaviour of Reassembly: "
                                   "event %s at line %s cannot be explained" % (ev, line),
                                   "replay": {"trace_tail": open(tpath).read().splitlines()[max(0, (line or 1) - 12):(line or 1)]}})
        else:
            ctx.violations.append({"key": "trace-invariant:" + str(v.violated), "what": "invariant %s fails on a recorded execution" % v.violated,
                                   "replay": {"cex": v.cex[-2:]}})
        traces_ok = 0
    ctx.log("trace: %d events, accepted=%s (%d states)" % (nev, v.ok, v.distinct))
    try:
        ind = f_ind.result()
        ind = {k: ind[k] for k in ("method", "result", "obligations", "wall_s")}
    except lib.Inconclusive as e:
        ind = {"result": "not re-established in this run", "reason": str(e)[:400]}
        ctx.notes.append("inductive leg not re-established: %s" % str(e)[:200])
    cov = {
        "inductive_argument": ind,
        "evaluations": res["evaluations"] + tr["evaluations"],
        "distinct_nontrivial": res["distinct_nontrivial"] + tr["distinct_nontrivial"],
        "rule": "behaviours = every maximal path of ReassemblyGen (all N! arrival orders x drain points, N<=%d, both with and "
                "without a closing frame) plus TLC -simulate paths for larger N; each is run with 2+ concretisations "
                "(sequence base, payload sizes); non-trivial = at least one frame arrives ahead of its turn; distinct = "
                "distinct action lists" % exhaustive_n,
        "samples": res["samples"] + tr["samples"],
        "traces_validated_against_impl": len(behaviours) + traces_ok,
        "behaviours_replayed": len(behaviours),
        "exhaustive_orders_up_to_n": exhaustive_n,
        "trace_events_validated": nev,
        "exhaustive": True,
        "checker_cmd": "tlc Reassembly.tla / ReassemblyGen.tla / ReassemblyTrace.tla + go test -run TestVerifC02",
        "harness_stats": {"replay": res["stats"], "trace": tr["stats"]},
    }
    return lib.finish(ctx, LEVEL, cov, ASSUME)


def replay(ctx, path):
    res = lib.run_go(ctx, "multiplex", "TestVerifC02Replay", env={"VERIF_REPLAY": os.path.abspath(path)})
    print(open(os.path.join(res["_out_dir"], "go.out")).read())
    return 0
