"""C11 - forged, foreign or modified frames are rejected; garbage never breaks a session
(spec/FrameCodec.tla tamper actions, spec/FrameCodecGen.tla, harness/multiplex/c11_test.go)."""
import os
import re
from concurrent.futures import ThreadPoolExecutor
import lib

LEVEL = "exploration"
# Code-faithful deviation flags of FrameCodec.tla (DESIGN.md section 8). HeaderTailUnbound = D3: header bytes
# 12 (closing) and 13 (extra) are in neither AEAD nonce nor associated data. When the code is repaired the
# flag is dropped here in the same commit; until then the defect is re-found on every run and reported
# under the stable keys below (known_findings.json decides whether they are listed).
CODE_FAITHFUL = {"HeaderTailUnbound": True}
TAIL_KEYS = ("aead:header-byte-12", "aead:header-byte-13")
ASSUME = [
    "AES-GCM / ChaCha20-Poly1305 are ideal AEADs in the model (open succeeds only for the sealed key, method, nonce and "
    "unmodified ciphertext); the Go driver uses the real primitives, a forgery by chance has probability 2^-128",
    "Flip(field) of the model stands for any modification confined to that field; the driver expands it to every single-bit "
    "flip, whole-field overwrites and random multi-byte changes",
    "messages under attack are produced by the real obfuscate (padding present / absent selected through the sequence number)",
    "under the plain method nothing is authenticated by design: only absence of panics and continued operation are decided",
]


def tla_bool(b):
    return "TRUE" if b else "FALSE"


def wire_limit(ctx):
    for side in ("client", "server"):
        try:
            m = re.search(r"appDataMaxLength\s*=\s*(\d+)", open(os.path.join(lib.REPO, "internal", side, "TLS.go")).read())
        except OSError:
            m = None
        if m:
            return int(m.group(1))
    ctx.notes.append("appDataMaxLength not found; using 16401")
    return 16401


def mc(ctx, tag, tail, invs, expect_violation=False, limit=275, workers=None):
    # quick: tamper classes (representative values per tamper kind); thorough: every value / cut / field subset
    return lib.run_tlc(ctx, "FrameCodec", "FrameCodec_mc.cfg",
                       {"LIMIT": limit, "LENMODE": "classes", "PADMODE": "classes", "TAMPER": "classes" if ctx.quick() else "full",
                        "TAIL": tla_bool(tail),
                        "SLACK": 0, "SIDS": "{0}", "SEQS": "{4, 5}", "INVS": invs},
                       tag=tag, expect_violation=expect_violation, timeout=1500,
                       workers=workers or (max(2, lib.NCPU // 4) if ctx.quick() else None))


def tail_only(touched):
    return len(touched) > 0 and set(touched) <= {"closing", "extra"}


def run(ctx):
    q = ctx.quick()
    faithful = CODE_FAITHFUL["HeaderTailUnbound"]
    limit = 275 if q else 300
    pool = ThreadPoolExecutor(max_workers=4)   # the TLC runs are independent: they overlap each other and the Go replay
    # 1. ideal codec (whole header authenticated): Authenticity holds for every tamper action
    f_ideal = pool.submit(mc, ctx, "mc_ideal", False, "TypeOK Authenticity GarbageDropped RoundTrip", False, limit)
    # 2. code-faithful codec: TLC must find the D3 counter-example, and nothing outside that class
    if faithful:
        f_cex = pool.submit(mc, ctx, "mc_faithful_cex", True, "TypeOK Authenticity", True, limit)
        f_rest = pool.submit(mc, ctx, "mc_faithful_rest", True, "TypeOK AuthenticityExceptTail GarbageDropped RoundTrip", False, limit)
    # 3. abstract tamper cases with the model's verdict
    g = lib.require_ok(lib.run_tlc(ctx, "FrameCodecGen", "FrameCodecGen.cfg", {"LIMIT": 275, "TAMPER": "classes", "TAIL": tla_bool(faithful)},
                                   tag="gen", workers=max(2, lib.NCPU // 4)), "FrameCodecGen")
    table = {}
    for b in g.behaviours:
        if b["prop"] != "C11":
            continue
        k = (b["method"], b["padded"], b["tamper"], tuple(sorted(b["touched"])), b["detail"])
        if k in table and table[k]["expect"] != b["expect"]:
            raise lib.Inconclusive("abstraction unsound: case %r has verdicts %s and %s" % (k, table[k]["expect"], b["expect"]))
        table[k] = b
    cases = list(table.values())
    accepted = sorted(set((c["tamper"], tuple(sorted(c["touched"])), c["detail"]) for c in cases
                          if c["expect"] == "yes" and c["method"] != "plain"))
    for t in accepted:
        if not (faithful and tail_only(t[1]) and t[2] != "overflows"):
            raise lib.Inconclusive("model accepts a tampered message outside the declared deviation: %r" % (t,))
    if faithful and not accepted:
        raise lib.Inconclusive("code-faithful generator shows no accepted tamper case")
    ctx.log("abstract tamper cases: %d; accepted by the code-faithful model: %s" % (len(cases), accepted))
    inp = lib.write_lines(os.path.join(ctx.work, "c11_cases.ndjson"), cases)
    # 4. replay into the real deobfuscate / Session.recvDataFromRemote
    res = lib.run_go(ctx, "multiplex", "TestVerifC11Replay", env={"VERIF_IN": inp, "VERIF_WIRE_LIMIT": wire_limit(ctx)}, timeout=1500)
    if res.get("_died") and "test timed out" in res.get("_stdout_tail", ""):
        raise lib.Inconclusive("harness timed out (not a crash of the code under test)")
    lib.collect_go(ctx, res, died_key="panic:process")
    # "garbage never breaks a session", concurrent form: frames of new streams arriving on several connections while a
    # closing notice / close is processed on another (shared stress driver, see harness/multiplex/shared_muxrace_test.go)
    race = lib.run_go(ctx, "multiplex", "TestVerifMuxRecvCloseRace", timeout=900, tag="recv_close_race")
    for v in race.get("violations", []):
        v = dict(v)
        v["key"] = "concurrent:" + v["key"]
        ctx.violations.append(v)
    if race.get("_died"):
        ctx.violations.append({"key": "panic:recv-vs-close", "what": "the process died while frames were received concurrently with a session close",
                               "replay": race.get("running")})
    ctx.log("recv-vs-close race: %d rounds" % race["stats"].get("rounds", 0))
    st = res["stats"]
    uncovered = sorted(k for k in st if k.startswith("uncovered:"))
    drift = sorted(k for k in st if k.startswith("drift:"))
    confirmed = sorted(k for k in st if k.startswith("model-accept-confirmed:"))
    ctx.log("go: %d modified / arbitrary inputs; model-accept confirmed on the code: %s" % (res["evaluations"], {k.split(":", 1)[1]: st[k] for k in confirmed}))
    # join the model-checking runs
    r = lib.require_ok(f_ideal.result(), "FrameCodec ideal")
    ctx.log("ideal codec: Authenticity holds, %d distinct states" % r.distinct)
    if faithful:
        v = f_cex.result()
        if v.violated != "Authenticity":
            raise lib.Inconclusive("code-faithful model (HeaderTailUnbound) does not violate Authenticity (got %s)" % v.violated)
        cex = "\n".join(v.cex[-2:])
        m = re.search(r'tamper = "(\w+)"', cex)
        if not m or m.group(1) not in ("FlipClosing", "FlipExtra", "Corrupt"):
            raise lib.Inconclusive("unexpected counter-example in the code-faithful model:\n" + cex)
        ctx.log("code-faithful codec: TLC counter-example to Authenticity via %s" % m.group(1))
        r = lib.require_ok(f_rest.result(), "FrameCodec code-faithful, outside the header tail")
        ctx.log("code-faithful codec: no counter-example outside header bytes 12-13, %d distinct states" % r.distinct)
    known = set(k.get("key") for k in lib.load_known() if k.get("property") == ctx.pid)
    unlisted = [v for v in ctx.violations if v.get("key") not in known]
    other = [v for v in unlisted if v.get("key") not in TAIL_KEYS]
    if other and (drift or uncovered):
        # violations outside the declared deviation are reported (exit 1) even when the known deviation is no longer
        # reproduced; the disagreement between code-faithful model and code is recorded as a note
        ctx.notes.append("model/code drift while other violations were found: drift=%s uncovered=%s (the code-faithful model with "
                         "HeaderTailUnbound predicts acceptance that the code did not show)" % (drift, uncovered[:5]))
        ctx.log("note: model/code drift %s - reported as note because other violations were found" % drift)
    if not other:
        # nothing but the declared deviation: the model must then agree with the code instance by instance
        if uncovered:
            raise lib.Inconclusive("concrete inputs not covered by a model case: %s" % uncovered[:5])
        if st.get("unsealed-jobs"):
            raise lib.Inconclusive("could not produce the messages under attack: %s" % res.get("notes"))
        if drift:
            raise lib.Inconclusive("model counter-example not reproduced on the code (HeaderTailUnbound predicts acceptance, the code "
                                   "rejects): %s - if the codec now authenticates the header tail, drop the flag in c11.py" % drift)
        if faithful and not any(st.get("model-accept-confirmed:" + t) for t in ("FlipClosing", "FlipExtra")):
            raise lib.Inconclusive("model counter-example (FlipClosing / FlipExtra accepted) was not exercised on the code")
    cov = {
        "evaluations": res["evaluations"],
        "distinct_nontrivial": res["distinct_nontrivial"],
        "rule": "abstract cases = terminal states of FrameCodecGen in tamper mode, deduplicated to (method, padded, tamper kind, touched "
                "fields, detail) = %d; the driver attacks messages of payload sizes {1,2,15,16,255,1024,Max} x 3 AEAD methods x "
                "padded/unpadded produced by the real obfuscate: %s; all truncations (prefixes and dropped fronts%s), extensions by "
                "1..32 bytes x 3 contents, whole-field overwrites, random corruptions of one or two fields, 4 foreign keys, 3 foreign "
                "methods; arbitrary byte strings of %s for all 4 methods; every input goes through deobfuscate and a live Session's "
                "recvDataFromRemote, a valid frame must be readable afterwards; finally the garbage classes (every length 0..30 incl. the empty "
                "message, header-only, random / zero bytes up to the wire limit, tampered valid frames, empty TLS records, websocket text / "
                "ping / empty-binary messages) are delivered through real connection objects (net.Pipe, common.TLSConn, "
                "common.WebSocketConn over loopback) into a live Session via AddConnection/deplex for all 4 methods, and after every item a "
                "valid frame on the same connection must reach its reader; closing=1 / closing=2 frames produced by the real close "
                "paths get the same tamper series; after each garbage class 2k valid first frames of different streams arrive "
                "concurrently on k=2..4 connections (accept backlog full / free) and every stream must read its own payload; "
                "distinct = (message class, concrete modification)"
                % (len(cases), "every bit of every byte" if not q else "every bit of the 14 header bytes, of the first 32 payload bytes, "
                   "of the last 16 bytes, around the payload/pad border and of 400 random positions (all positions for messages <= 600 bytes)",
                   "" if not q else "; sampled for the Max-size message", "every length 0..20480 x 2 contents" if not q else
                   "lengths 0..64, around the wire limit and buffer size, 400 random"),
        "samples": res["samples"],
        "traces_validated_against_impl": res["evaluations"],
        "abstract_cases": len(cases),
        "model_accepts": [list(map(str, a)) for a in accepted],
        "deviation_flags": CODE_FAITHFUL,
        "exhaustive": not q,
        "exhaustive_scope": "TLC: all reachable states of the configs named in tlc_runs; Go: every single-bit flip at every position, "
                            "every truncation and every garbage length 0..20480 in the thorough tier (quick samples positions, cuts "
                            "and lengths); multi-byte corruptions, keys and garbage contents are sampled in both tiers",
        "checker_cmd": "tlc FrameCodec.tla (ideal / code-faithful) / FrameCodecGen.tla + go test -run TestVerifC11Replay",
        "harness_stats": {k: v for k, v in st.items() if not k.startswith("violations:")},
        "violation_counts": {k.split(":", 1)[1]: v for k, v in st.items() if k.startswith("violations:")},
    }
    return lib.finish(ctx, LEVEL, cov, ASSUME)


def replay(ctx, path):
    res = lib.run_go(ctx, "multiplex", "TestVerifC11Replay", env={"VERIF_REPLAY": os.path.abspath(path), "VERIF_WIRE_LIMIT": wire_limit(ctx)},
                     extra_args=["-v"])
    print(open(os.path.join(res["_out_dir"], "go.out")).read())
    return 0
