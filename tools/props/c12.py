"""C12 - faults tear a session down cleanly: prefixes only, nothing left blocked (spec/Mux.tla: fault, sessclose,
timer, blocked calls, schedule-point gates)."""
from props import muxcommon as mx, muxprop

LEVEL = "model_checking"
ASSUME = [
    "a connection fault is a reset seen by both ends (in-flight data discarded) or an orderly close (peer reads what was sent, then EOF)",
    "exhaustive for <= 2 connections, 1-2 streams, <= 2 units; one fault / close / timer firing at any point of the behaviour",
    "only one endpoint's inactivity timer is live in a given behaviour (the other is set to 10^6 s) so that virtual time can fire it exactly",
    "the accept backlog (1024) is not reached in these behaviours; the backlog defect D13 is checked by a dedicated scenario",
]
KEYS = {"bytes-wrong", "bytes-missing", "eof-early", "eof-missing", "read-blocked", "accept-blocked", "call-blocked",
        "session-died", "session-not-closed", "conn-not-closed", "count-mismatch", "open-on-closed", "accept-on-closed",
        "open-refused", "accept-failed", "write-refused", "write-after-close", "close-blocked:accept-backlog-full",
        "panic", "open-stream-on-closed-session", "teardown-stuck:stalled-consumer"}
RULE = ("behaviours of MuxGen with connection resets, active session closes by either side, the inactivity timer of one endpoint, "
        "parked Read/Accept calls, and (feature gates) goroutines parked at the labelled schedule points of OpenStream, of new-stream "
        "reception, of the timer and of AddConnection while other steps run; exhaustive BFS for small constants, TLC -simulate beyond; "
        "non-trivial = contains a fault, a close, a timer firing, a parked call or a gate step")


def run(ctx):
    q = ctx.quick()
    C = mx.cfg
    T = "Teardown"
    mcs = [("fault_2c1s", C(nc=2, ns=1, units=2, maxwrite=1, feat='"close","sessclose","fault"', extrainv=T), 900),
           ("gates_timer_c", C(nc=2, ns=1, units=1, maxwrite=1, feat='"close","gates"', timerep="c", extrainv=T), 900),
           ("gates_open", C(nc=2, ns=1, units=1, maxwrite=1, feat='"sessclose","blockread","gates"', extrainv=T), 900)]
    if not q:
        mcs += [("fault_block", C(nc=2, ns=1, units=2, maxwrite=1, feat='"close","sessclose","fault","blockread","blockaccept"', extrainv=T), 2400),
                ("gates_timer_s", C(nc=2, ns=1, units=1, maxwrite=1, feat='"swrite","close","gates"', timerep="s", extrainv=T), 1800),
                ("fault_2s", C(nc=2, ns=2, units=1, maxwrite=1, feat='"sessclose","fault"', extrainv=T), 1800),
                ("single", C(nc=1, ns=2, units=1, maxwrite=1, single="TRUE", feat='"swrite","close","blockread"', extrainv=T), 1800)]
    n = (lambda a, b: a if q else b)
    gens = [
        ("fault_bfs", C(nc=2, ns=1, units=1, maxwrite=1, feat='"sessclose","fault"'), 24, 0, None, 2, {"allconc": not q}),
        ("fault_accept", C(nc=2, ns=1, units=2, maxwrite=1, feat='"fault","blockaccept","blockread"'), 16, 0, n(300, 4000), 2, {"allconc": True}),
        ("fault_sim", C(nc=2, ns=2, units=2, maxwrite=2, feat='"swrite","close","sessclose","fault","blockread","blockaccept"'),
         50, 1, n(250, 5000), 2, {}),
        ("timer_c", C(nc=2, ns=1, units=1, maxwrite=1, feat='"swrite","close","gates"', timerep="c"), 40, 0, n(250, 4000), 2,
         {"gates": True, "timerep": "c"}),
        ("timer_s", C(nc=2, ns=2, units=1, maxwrite=1, feat='"swrite","close","gates"', timerep="s"), 40, 0, n(250, 4000), 2,
         {"gates": True, "timerep": "s"}),
        ("open_gate", C(nc=2, ns=2, units=1, maxwrite=1, feat='"sessclose","fault","blockread","gates"'), 40, 0, n(250, 4000), 2,
         {"gates": True}),
        # a singleplex client session (the server side never is): it closes with its single stream, whichever side closes first
        ("single", C(nc=1, ns=2, units=1, maxwrite=1, single="TRUE", feat='"swrite","close","blockread"'), 30, 0, n(200, 3000), 1,
         {"singleplex": True}),
    ]
    return muxprop.run_property(ctx, LEVEL, ASSUME, KEYS, mcs, gens, RULE, extra=backlog)


def backlog(ctx):
    """Defect D13 (known finding): spec/AcceptBacklog.tla + the scenario on the real Session."""
    import lib
    ok = lib.run_tlc(ctx, "AcceptBacklog", "AcceptBacklog.cfg", {"ACCEPTS": 0, "DEV": ""}, tag="backlog_ideal")
    lib.require_ok(ok, "AcceptBacklog ideal")
    bad = lib.run_tlc(ctx, "AcceptBacklog", "AcceptBacklog.cfg", {"ACCEPTS": 0, "DEV": '"PushUnderLock"'},
                      tag="backlog_code", expect_violation=True)
    if bad.ok:
        raise lib.Inconclusive("AcceptBacklog: the code-faithful configuration no longer produces its counter-example")
    res = lib.run_go(ctx, "multiplex", "TestVerifC12Backlog", timeout=300)
    lib.collect_go(ctx, res)
    if res["stats"].get("inconclusive"):
        raise lib.Inconclusive("backlog scenario: Close blocked without a visible lock cycle: %s" % res.get("notes"))
    ctx.log("backlog scenario: %d violations" % len(res.get("violations", [])))
    # a frame of a new stream taken in while the session closes (deviation RecvCheckThenAct must be refuted by TLC)
    neg = lib.run_tlc(ctx, "Mux", "Mux_data.cfg", mx.cfg(nc=2, ns=1, units=1, maxwrite=1, feat='"sessclose","fault"',
                                                        dev='"RecvCheckThenAct"', extrainv="Teardown"),
                      tag="mc_recvcheck_neg", expect_violation=True)
    if neg.ok:
        raise lib.Inconclusive("Mux: RecvCheckThenAct no longer yields a counter-example (vacuity)")
    stalled = lib.run_go(ctx, "multiplex", "TestVerifC12StalledConsumer", timeout=600)
    lib.collect_go(ctx, stalled)
    ctx.log("stalled consumer: %d scenarios, %d violations" % (stalled["evaluations"], len(stalled.get("violations", []))))
    race = lib.run_go(ctx, "multiplex", "TestVerifMuxRecvCloseRace", timeout=900)
    lib.collect_go(ctx, race, died_key="panic")
    ctx.log("recv-vs-close race: %d rounds, %d violations" % (race["stats"].get("rounds", 0), len(race.get("violations", []))))
    mf = lib.run_go(ctx, "multiplex", "TestVerifC12MultiFault", timeout=900, tag="multi_fault")
    lib.collect_go(ctx, mf)
    ctx.log("multi-fault: %d rounds, %d violations" % (mf["evaluations"], len(mf.get("violations", []))))
    cc = lib.run_go(ctx, "multiplex", "TestVerifMuxCloseVsCloseRace", timeout=900, tag="close_vs_close")
    lib.collect_go(ctx, cc)
    ctx.log("close-vs-close race: %d rounds, %d violations" % (cc["stats"].get("rounds", 0), len(cc.get("violations", []))))
    # a sender stalled in one connection while the peer's closing frame for its stream arrives on another (StreamClose.tla,
    # PassiveNeverWaitsForSender): the receive loop must stay free, or a later fault on that connection is never seen
    qd = lib.run_go(ctx, "multiplex", "TestVerifC03Queued", timeout=900, tag="queued", prefixes=("c03", "shared"))
    lib.collect_go(ctx, qd)
    ctx.log("stalled sender vs peer's close: %d scenarios, %d violations" % (qd["evaluations"], len(qd.get("violations", []))))
    return {"evaluations": res["evaluations"] + race["evaluations"] + cc["evaluations"] + qd["evaluations"], "close_vs_close_rounds": cc["stats"].get("rounds", 0),
            "distinct_nontrivial": res["distinct_nontrivial"] + race["distinct_nontrivial"],
            "samples": res["samples"][:1] + race["samples"][:1], "traces": res["evaluations"] + race["evaluations"]}


replay = muxprop.replay_file
