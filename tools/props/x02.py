"""X02 - the relay layer between applications and the multiplexer (spec/Relay.tla, RelayGen.tla):
client.RouteTCP (accept loop, session reuse, first read, OpenStream, first write, the two copy directions) and
server.serveSession (Accept loop, proxy dial per stream, the two copy directions, session accounting).
TLC decides the properties on the model (exhaustive, small constants; negative configurations show each invariant is
not vacuous); behaviours of RelayGen are replayed against the real RouteTCP + client.MakeSession + dispatchConnection /
serveSession in testing/synctest bubbles (harness/server/x02_test.go)."""
import copy
import json
import os
from concurrent.futures import ThreadPoolExecutor

import lib

LEVEL = "model_checking"
ASSUME = [
    "the multiplexer is what Mux.tla / C01, C03, C12 decide: per stream FIFO, stream close behind the stream's data, session close as a notice frame; one tunnel connection per session (NumConn=1) in the replay",
    "network = harness vnet: a write on a connection whose peer end is closed fails at once, EOF is read after the data in flight; application links hold one write per direction",
    "exhaustive results hold for the stated constants (<= 3 local connections, <= 2 units per direction, <= 3 session generations)",
    "time in ticks of 15 s (session idle check 30 s = 2 ticks, streamTimeout = STO ticks); timers due at the same instant are confluent",
    "UDP relay (RouteUDP) is specified in DatagramPipe / C14, not here",
]
KEYS = {"relay-bytes-wrong", "relay-bytes-missing", "relay-crosstalk", "relay-orphan-conn", "relay-closed-session-reused",
        "relay-neighbour-closed", "relay-singleplex-shared", "relay-session-surplus", "relay-udp-orphan-stream",
        "relay-first-bytes-lost:session-idled-out-before-first-read"}
INV = "TypeOK PrefixInv NoCrossTalk CompleteInv NeighbourInv OrphanInv IdleArmedInv RenewInv SingleInv"
RULE = ("behaviours of RelayGen (environment steps: local/proxy application dial, write, read, close, reset; one frame delivered on the gated "
        "tunnel connection; tunnel reset; proxy dial armed to fail; 15 s of virtual time) - BFS for 1 connection, TLC -simulate for 2-3 "
        "connections, multiplex and singleplex, streamTimeout 1 and 3 ticks - replayed on the real RouteTCP/MakeSession/serveSession in a synctest "
        "bubble; non-trivial = contains a frame delivery, an application close or a tunnel reset")


# short TLC jobs: C1 only and few GC threads (JVM start-up dominates them); long ones: fewer GC threads than cores
JVM_SHORT = {"JAVA_TOOL_OPTIONS": "-Xss64m -XX:TieredStopAtLevel=1 -XX:ParallelGCThreads=2"}
JVM_LONG = {"JAVA_TOOL_OPTIONS": "-Xss64m -XX:ParallelGCThreads=4"}


def q(s):
    return ",".join('"%s"' % x for x in s.split(",") if x)


CODE_FAITHFUL = "SessionChosenAtAccept"      # named deviation flags that ARE the code (known finding D23)


def C(nconn=1, up=1, down=1, single=False, maxsess=2, sto=1, feat="", dev="", inv=INV, ideal=False):
    """constants of a Relay configuration; every configuration models the code as it is (CODE_FAITHFUL flags on) unless ideal"""
    dev = ",".join(x for x in (("" if ideal else CODE_FAITHFUL), dev) if x)
    return {"NCONN": nconn, "MAXUP": up, "MAXDOWN": down, "SINGLE": "TRUE" if single else "FALSE", "MAXSESS": maxsess,
            "STO": sto, "FEAT": q(feat), "DEV": q(dev), "INV": inv}


# (tag, constants, invariant expected to be VIOLATED)
NEGATIVES = [
    ("prefix_reorder", C(down=2, dev="Reorder", inv="PrefixInv"), "PrefixInv"),
    ("crosstalk_wrongstream", C(nconn=2, feat="prio", dev="WrongStream", inv="NoCrossTalk"), "NoCrossTalk"),
    ("complete_strict_refuted", C(inv="CompleteStrict"), "CompleteStrict"),            # EitherEndClosesBoth
    ("neighbour_closeonzero", C(nconn=2, feat="prio", dev="MuxCloseOnZero", inv="NeighbourInv"), "NeighbourInv"),
    ("neighbour_strict_refuted", C(nconn=2, feat="prio,dialfail", inv="NeighbourStrict"), "NeighbourStrict"),  # DialFailKillsSession
    ("orphan_downcopy", C(dev="DownCopyKeepsConn", inv="OrphanInv"), "OrphanInv"),
    ("orphan_nodeadline", C(feat="fail,time", dev="NoFirstReadDeadline", inv="OrphanInv"), "OrphanInv"),
    ("orphan_firstwritefail", C(feat="async,fail", dev="FirstWriteFailLeavesConn", inv="OrphanInv"), "OrphanInv"),
    ("idle_norearm", C(feat="time", dev="NoRearm", inv="IdleArmedInv"), "IdleArmedInv"),
    ("renew_noclosedcheck", C(nconn=2, feat="prio,fail", dev="NoIsClosedCheck", inv="RenewInv"), "RenewInv"),
    ("renew_remakealways", C(nconn=2, feat="prio", dev="RemakeAlways", inv="RenewInv"), "RenewInv"),
    ("single_shared", C(nconn=2, single=True, feat="prio", dev="SingleShared", inv="SingleInv"), "SingleInv"),
    ("single_noclose", C(single=True, dev="SingleNoClose", inv="SingleInv"), "SingleInv"),
    # reachability witnesses of the named deviations
    ("reach_firstwritefail", C(feat="async,fail,dialfail", inv="W_FirstWriteFail"), "W_FirstWriteFail"),
    # D23: with the code-faithful flag SessionChosenAtAccept the first bytes of a silent connection are refused
    ("firstbytes_session_chosen_at_accept", C(feat="time", inv="FirstBytesInv"), "FirstBytesInv"),
    ("reach_cut", C(inv="W_Cut"), "W_Cut"),
    ("reach_latedial", C(feat="async,fail", inv="W_LateDial"), "W_LateDial"),
]
# hold once a deviation is idealised away (shows the strict invariant is the right statement of the deviation):
# DialFailKillsSession -> NeighbourStrict; SessionChosenAtAccept (D23) -> FirstBytesInv with every other invariant
POSITIVE_QUICK = [("ideal_firstbytes_1c", C(feat="time,async", inv=INV + " FirstBytesInv", ideal=True))]
POSITIVE_DEV = POSITIVE_QUICK + [
    ("dialfail_streamonly", C(nconn=2, feat="prio,dialfail", dev="DialFailStreamOnly", inv=INV + " NeighbourStrict")),
    ("ideal_firstbytes_2c", C(nconn=2, maxsess=4, feat="prio,fail,time", inv=INV + " FirstBytesInv", ideal=True)),
    ("ideal_firstbytes_2c_single", C(nconn=2, maxsess=4, single=True, feat="prio,time", inv=INV + " FirstBytesInv", ideal=True)),
]


UINV = "NoCross OrderInv TableSound QuiesceInv RenewInv SingleInv NoOrphan AtMostOne"


def CU(src="1,2", data=2, streams=3, sess=2, reply=1, single=False, dev="", inv=UINV):
    return {"SRC": src, "MAXDATA": data, "MAXSTREAM": streams, "MAXSESS": sess, "MAXREPLY": reply,
            "SINGLE": "TRUE" if single else "FALSE", "DEV": q(dev), "INV": inv}


# RouteUDP (spec/RelayUDP.tla): (tag, constants, expected violated invariant or None)
UDP_RUNS_QUICK = [
    ("udp_1src", CU(src="1", data=3, streams=3), None),
    ("udp_single", CU(src="1", data=3, streams=3, single=True, sess=3), None),
    # defect D22 (repaired in /repo 5369de6): deletion by key; the 11-step counter-example is the witness
    ("udp_neg_orphan_deletebykey", CU(dev="DeleteByKey", inv="NoOrphan"), "NoOrphan"),
    ("udp_neg_atmostone_deletebykey", CU(src="1", data=3, dev="DeleteByKey", inv="AtMostOne"), "AtMostOne"),
    ("udp_neg_sharedaddr", CU(dev="SharedAddr", inv="NoCross"), "NoCross"),
    ("udp_neg_nodelete", CU(dev="NoDelete", inv="TableSound QuiesceInv"), "TableSound"),
]
UDP_RUNS_THOROUGH = UDP_RUNS_QUICK + [
    ("udp_2src", CU(), None),
    ("udp_2src_single", CU(single=True, sess=3), None),
]


def mc_list(quick):
    if quick:
        return [("1c_async", C(feat="fail,dialfail,time,async"), 900),
                ("2c_prio_mux", C(nconn=2, feat="prio,dialfail,async"), 900),
                ("2c_prio_single", C(nconn=2, single=True, feat="prio,fail"), 900)]
    return [("1c_all_async", C(feat="fail,dialfail,time,reset,async"), 1800),
            ("1c_2x1_all_async", C(up=2, down=1, feat="fail,dialfail,time,reset,async"), 3000),
            ("1c_single_2x1_all_async", C(up=2, down=1, single=True, feat="fail,dialfail,time,reset,async"), 3000),
            ("2c_free", C(nconn=2), 3000),
            ("2c_prio_mux_all", C(nconn=2, feat="prio,fail,dialfail,time,reset,async"), 3600),
            ("2c_prio_single_all", C(nconn=2, single=True, feat="prio,fail,dialfail,time,async"), 3600)]


def gen_list(quick):
    n = (lambda a, b: a if quick else b)
    G = lambda **k: dict(C(**{x: y for x, y in k.items() if x not in ("depth",)}), DEPTH=k.get("depth", 6), CANON="TRUE")
    # (tag, constants, simulate num or None for BFS, sim depth)
    return [("bfs_1c", G(feat="fail,dialfail,time,reset,async", depth=n(5, 7)), None),
            ("bfs_1c_single", G(single=True, feat="fail,time,async", depth=n(5, 7)), None),
            ("sim_2c_mux", G(nconn=2, up=2, down=2, maxsess=3, feat="fail,dialfail,time,reset,async", depth=n(24, 40)), n(60, 1500)),
            ("sim_2c_mux_sto3", G(nconn=2, up=2, down=1, maxsess=3, sto=3, feat="fail,time,async", depth=n(24, 40)), n(40, 800)),
            ("sim_3c_mux", G(nconn=3, up=2, down=2, maxsess=3, feat="fail,dialfail,async", depth=n(30, 50)), n(50, 1200)),
            ("sim_2c_single", G(nconn=2, up=2, down=2, single=True, maxsess=2, feat="fail,dialfail,time,async", depth=n(24, 40)), n(50, 1200)),
            ("sim_3c_single", G(nconn=3, up=1, down=1, single=True, maxsess=3, sto=3, feat="fail,time,async", depth=n(30, 50)), n(40, 800))]


def _ev(tok):
    import re
    m = re.match(r"([A-Za-z]+?)(\d*)([cs]?)$", tok)
    a, n, side = m.group(1), int(m.group(2) or 0), m.group(3)
    if a == "Deliver":
        return {"a": a, "i": 0, "s": n, "side": side}
    if a == "TunnelFail":
        return {"a": a, "i": 0, "s": n, "side": ""}
    if a in ("ArmDialFail", "Advance"):
        return {"a": a, "i": 0, "s": 0, "side": ""}
    return {"a": a, "i": n, "s": 0, "side": ""}


# Scenarios that exhibit the named deviations of Relay.tla (modelled as the code behaves).  Each is generated by
# RelayScript, must show the deviation in the MODEL (expect(final observation)), and is replayed on the code like any other
# behaviour: no divergence = the code does exactly this.  (name, singleplex, STO, script, expect, what)
SCENARIOS = [
    ("EitherEndClosesBoth/A-server", False, 1,
     "LocalDial1 LocalWrite1 Deliver1s LocalWrite1 Deliver1s LocalClose1 Deliver1s ProxyWrite1 ProxyRead1 ProxyRead1",
     lambda o: o["gotUp"][0] == [11] and o["wroteUp"][0] == 2 and o["eofUp"][0] and not o["hurt"][0] and not o["owedUp"][0],
     "local application writes 2 units and closes; the proxy application, which has read nothing yet, writes once: serveSession's "
     "ReadFrom sees the stream closed, Copy closes the proxy connection, the second unit (held by the other copy direction) is lost"),
    ("EitherEndClosesBoth/A-client", False, 1,
     "LocalDial1 LocalWrite1 Deliver1s ProxyWrite1 Deliver1c ProxyWrite1 Deliver1c ProxyClose1 Deliver1c LocalWrite1 LocalRead1 LocalRead1",
     lambda o: o["gotDn"][0] == [11] and o["wroteDn"][0] == 2 and o["eofDn"][0] and not o["hurt"][0] and not o["owedDn"][0],
     "the mirror image on the client: the proxy application writes 2 units and closes, the local application writes once before reading"),
    ("EitherEndClosesBoth/C-singleplex", True, 1,
     "LocalDial1 LocalWrite1 Deliver1s LocalWrite1 LocalClose1 ProxyWrite1 ProxyRead1 ProxyRead1",
     lambda o: o["gotUp"][0] == [11] and o["wroteUp"][0] == 2 and o["ss"][0] == "closed" and not o["owedUp"][0],
     "singleplex: the client closes its session (and connection) right behind its last frames; a write of the server before it has read "
     "them fails, the server closes the session passively and the frames in flight are never read"),
    ("DialFailKillsSession", False, 1,
     "LocalDial1 LocalWrite1 Deliver1s ProxyRead1 ArmDialFail LocalDial2 LocalWrite2 Deliver1s Deliver1c",
     lambda o: o["lrel"][0] == "closed" and o["lapp"][0] == "open" and o["papp"][0] == "open" and o["kill"][0] == "dial",
     "the proxy dial for the stream of connection 2 fails: serveSession closes the whole session, the healthy connection 1 is closed with it"),
    ("SessionChosenAtAccept", False, 3,
     "LocalDial1 Advance Advance LocalWrite1",
     lambda o: o["lrel"][0] == "closed" and o["gotUp"][0] == [] and o["nsess"] == 1 and o["kill"][0] == "idle",
     "a local connection that sends its first bytes 30 s after it was accepted: its session has idled out, OpenStream fails, the connection is dropped"),
    ("SingleplexIdleLeak", True, 3,
     "LocalDial1 LocalClose1",
     lambda o: o["lrel"][0] == "closed" and o["cs"][0] == "open" and o["ss"][0] == "open",
     "singleplex: a connection that closes before its first byte leaves its session open (until the 30 s idle check)"),
    ("FirstWriteFails", False, 1,
     "ArmDialFail LocalDial1 LocalWrite1 Deliver1s LocalDial2 LocalWrite2",
     lambda o: o["lrel"][1] == "closed" and o["cst"][1] == "closed" and o["nsess"] == 1 and o["cs"][0] == "closed",
     "connection 2 is attached to a session the server has already closed (notice still in flight): OpenStream succeeds, the first write fails"),
]


def tlc_scenarios(ctx):
    out = []
    groups = {}
    for sc in SCENARIOS:
        groups.setdefault((sc[1], sc[2]), []).append(sc)
    for (single, sto), scs in groups.items():
        sf = os.path.join(ctx.work, "scripts_%s_%d.json" % (single, sto))
        with open(sf, "w") as fh:
            json.dump([[_ev(tok) for tok in sc[3].split()] for sc in scs], fh)
        cfg = C(nconn=2, up=3, down=3, single=single, maxsess=3, sto=sto, feat="fail,dialfail,time,reset,async")
        cfg.pop("INV")
        r = lib.run_tlc(ctx, "RelayScript", "RelayScript.cfg", cfg, env=dict(JVM_SHORT, VERIF_SCRIPT=sf), workers=1,
                        tag="script_%s_%d" % (single, sto), timeout=900)
        lib.require_ok(r, "RelayScript")
        got = {b["script"]: b for b in r.behaviours}
        for n, sc in enumerate(scs):
            b = got.get(n + 1)
            if b is None:
                raise lib.Inconclusive("scenario %s: the model does not enable the script" % sc[0])
            if not sc[4](b["steps"][-1]["obs"]):
                raise lib.Inconclusive("scenario %s: the model no longer shows the deviation: %s" % (sc[0], json.dumps(b["steps"][-1]["obs"])[:800]))
            b.pop("script")
            b.update(gen="scenario:" + sc[0], single=single, sto=sto, nconn=2)
            out.append(b)
    return out


def confluence(ctx, quick):
    """the replay takes the continuations of running goroutines in one canonical order; generated with EVERY order, behaviours
    with the same environment steps must carry the same observations (otherwise the real scheduler could legitimately differ)"""
    total = 0
    for tag, kw in [("1c", dict(feat="fail,dialfail,time,reset,async", depth=4 if quick else 6)),
                    ("2c", dict(nconn=2, feat="fail,dialfail,async", depth=5 if quick else 7)),
                    ("2c_single", dict(nconn=2, single=True, feat="fail,time,async", depth=5 if quick else 7))]:
        depth = kw.pop("depth")
        cfg = dict(C(**kw), DEPTH=depth, CANON="FALSE")
        if quick and tag == "2c_single":
            continue
        r = lib.run_tlc(ctx, "RelayGen", "RelayGen.cfg", cfg, tag="confl_" + tag, workers=4, timeout=1500, env=JVM_SHORT)
        lib.require_ok(r, "RelayGen confluence " + tag)
        seen = {}
        for b in r.behaviours:
            k = json.dumps([s["ev"] for s in b["steps"]], sort_keys=True)
            v = json.dumps([s["obs"] for s in b["steps"]], sort_keys=True)
            if seen.setdefault(k, v) != v:
                raise lib.Inconclusive("Relay is not confluent under the replay's granularity: two orders of continuations give different "
                                       "observations for the environment steps %s" % k[:600])
        total += len(seen)
    ctx.log("confluence: %d environment schedules, every order of continuations gives the same observations" % total)
    return total


def tlc_gen(ctx, tag, cfg, sim):
    r = lib.run_tlc(ctx, "RelayGen", "RelayGen.cfg", cfg, tag="gen_" + tag, simulate=sim, depth=400 if sim else None,
                    workers=4, timeout=1500, env=JVM_SHORT if ctx.quick() else JVM_LONG)
    lib.require_ok(r, "RelayGen " + tag)
    out = []
    for b in r.behaviours:
        b["gen"] = tag
        b["single"] = cfg["SINGLE"] == "TRUE"
        b["sto"] = int(cfg["STO"])
        b["nconn"] = int(cfg["NCONN"])
        out.append(b)
    return out


# the quick tier runs one negative configuration per invariant; the thorough tier all of them
QUICK_NEG = {"firstbytes_session_chosen_at_accept", "prefix_reorder", "crosstalk_wrongstream", "complete_strict_refuted", "neighbour_closeonzero", "neighbour_strict_refuted",
             "orphan_downcopy", "idle_norearm", "renew_noclosedcheck", "single_shared", "reach_firstwritefail"}


def model_check(ctx, quick):
    """exhaustive runs + negative configurations, in a pool; returns summary dict"""
    jobs = []
    pool = ThreadPoolExecutor(max_workers=5 if quick else 3)
    for tag, cfg, to in mc_list(quick):
        jobs.append(("mc", tag, None, pool.submit(lib.run_tlc, ctx, "Relay", "Relay_mc.cfg", cfg, tag="mc_" + tag, timeout=to,
                                                   workers=max(4, lib.NCPU // 2), env=JVM_LONG)))
    for tag, cfg, inv in NEGATIVES:
        if quick and tag not in QUICK_NEG:
            continue
        jobs.append(("neg", tag, inv, pool.submit(lib.run_tlc, ctx, "Relay", "Relay_mc.cfg", cfg, tag="neg_" + tag, timeout=600,
                                                   workers=2, expect_violation=True, env=JVM_SHORT)))
    for tag, cfg, inv in (UDP_RUNS_QUICK if quick else UDP_RUNS_THOROUGH):
        jobs.append(("neg" if inv else "mc", tag, inv, pool.submit(lib.run_tlc, ctx, "RelayUDP", "RelayUDP_mc.cfg", cfg, tag=tag, timeout=1800,
                                                                   workers=4, expect_violation=bool(inv), env=JVM_SHORT if inv else JVM_LONG)))
    if True:
        for tag, cfg in (POSITIVE_QUICK if quick else POSITIVE_DEV):
            jobs.append(("mc", tag, None, pool.submit(lib.run_tlc, ctx, "Relay", "Relay_mc.cfg", cfg, tag="mc_" + tag, timeout=900, workers=4,
                                                       env=JVM_SHORT)))
    return pool, jobs


def join_model(ctx, pool, jobs):
    summary = {"exhaustive": {}, "negatives": {}}
    for kind, tag, inv, f in jobs:
        r = f.result()
        if kind == "mc":
            lib.require_ok(r, "Relay " + tag)
            summary["exhaustive"][tag] = {"distinct": r.distinct, "generated": r.generated, "wall_s": round(r.wall, 1)}
            ctx.log("mc %-22s %9d distinct states %10d generated %6.1fs: all invariants hold" % (tag, r.distinct, r.generated, r.wall))
        else:
            if r.ok or r.violated != inv:
                raise lib.Inconclusive("Relay: negative configuration %s should violate %s, TLC says %s (vacuity)" % (tag, inv, r.violated))
            summary["negatives"][tag] = inv
    pool.shutdown()
    ctx.log("negatives: %d configurations, each violates its invariant" % len(summary["negatives"]))
    return summary


def go_replay(ctx, path, tag="replay", timeout=1500, firstbytes=True):
    return lib.run_go(ctx, "server", "TestVerifX02Replay", env={"VERIF_IN": path, "GOGC": "400", "X02_FIRSTBYTES": "1" if firstbytes else "0"}, timeout=7200 if timeout < 7200 else timeout, tag=tag,
                      harness_dirs=["server"], extra_args=["-v"])


def judge(ctx, res, expect_n=None):
    for v in res.get("violations", []):
        if v.get("key") in KEYS:
            ctx.violations.append(v)
        else:
            raise lib.Inconclusive("driver reported an unknown key %r" % v.get("key"))
    stats = res.get("stats", {})
    known = {k.get("key") for k in lib.load_known() if k.get("property") == ctx.pid}
    if [v for v in ctx.violations if v.get("key") not in known]:
        return stats
    if res.get("_died") or not res.get("complete", False):
        raise lib.Inconclusive("replay driver died (rc=%s) while running %s\n%s" % (
            res.get("_rc"), json.dumps(res.get("running"))[:600], res.get("_stdout_tail")))
    if stats.get("diverged", 0):
        raise lib.Inconclusive("model drift: %d of %d behaviours left the model's path without violating a statement about the code; first: %s" % (
            stats["diverged"], res.get("evaluations", 0), (res.get("notes") or ["?"])[0]))
    if expect_n is not None and res.get("evaluations", 0) != expect_n:
        raise lib.Inconclusive("replay driver executed %s of %d behaviours" % (res.get("evaluations"), expect_n))
    return stats


def run(ctx):
    quick = ctx.quick()
    inp = os.path.join(ctx.work, "behaviours.ndjson")
    bg = ThreadPoolExecutor(max_workers=3)
    gofut = bg.submit(go_replay, ctx, inp)           # builds while TLC works; the test waits for <input>.ready
    # RouteUDP (spec/RelayUDP.tla): scenarios on the real code with loopback sockets, real time
    # (own work directory: lib.run_go writes its overlay description to <work>/overlay.json, concurrent runs must not share it)
    uctx, pctx = copy.copy(ctx), copy.copy(ctx)
    uctx.work, pctx.work = os.path.join(ctx.work, "udp"), os.path.join(ctx.work, "udp_probe")
    os.makedirs(uctx.work)
    os.makedirs(pctx.work)
    udpfut = bg.submit(lib.run_go, uctx, "client", "TestVerifX02UDP", timeout=1200, harness_dirs=["client"], tag="udp")
    # thorough: look for the model's StaleDelete on the real code (a probe: it only counts, see x02.NOTES.md)
    probefut = None if quick else bg.submit(lib.run_go, pctx, "client", "TestVerifX02UDPStaleDelete", timeout=2400, harness_dirs=["client"],
                                            tag="udp_probe", env={"X02_UDP_ROUNDS": 800})
    # X02_PART=replay (debugging aid, e.g. for trying mutants on a busy machine): generators + replay only
    only_replay = os.environ.get("X02_PART") == "replay"
    try:
        pool, jobs = (ThreadPoolExecutor(max_workers=1), []) if only_replay else model_check(ctx, quick)
        behaviours = []
        gp = ThreadPoolExecutor(max_workers=3)
        gf = [(tag, gp.submit(tlc_gen, ctx, tag, cfg, sim)) for tag, cfg, sim in gen_list(quick)]
        gf.append(("scenarios", gp.submit(tlc_scenarios, ctx)))
        conf = gp.submit((lambda c, q_: 0) if only_replay else confluence, ctx, quick)
        per_gen = {}
        for tag, f in gf:
            bs = f.result()
            per_gen[tag] = len(bs)
            behaviours += bs
        n_conf = conf.result()
        gp.shutdown()
        # de-duplicate (simulation repeats short behaviours)
        seen, uniq = set(), []
        for b in behaviours:
            k = (b["single"], b["sto"], b["nconn"], json.dumps([s["ev"] for s in b["steps"]], sort_keys=True))
            if k not in seen:
                seen.add(k)
                uniq.append(b)
        lib.write_lines(inp, uniq)
        open(inp + ".ready", "w").close()
        ctx.log("behaviours: %s -> %d distinct" % (per_gen, len(uniq)))
        summary = join_model(ctx, pool, jobs)
    except BaseException:
        open(inp + ".ready", "w").close()            # let the waiting test end
        raise
    udp = udpfut.result()
    for v in udp.get("violations", []):
        if v.get("key") in KEYS:
            ctx.violations.append(v)
    ustats = udp.get("stats", {})
    res = gofut.result()
    stats = judge(ctx, res, expect_n=len(uniq) + 1)    # + the first-bytes scenario (known finding D23)
    known = {k.get("key") for k in lib.load_known() if k.get("property") == ctx.pid}
    if not [v for v in ctx.violations if v.get("key") not in known]:
        if udp.get("_died") or not udp.get("complete", False):
            raise lib.Inconclusive("UDP scenario driver died: %s" % udp.get("_stdout_tail"))
        if ustats.get("diverged", 0):
            raise lib.Inconclusive("UDP scenarios: %s" % "; ".join(udp.get("notes") or []))
    if ustats.get("skipped"):
        ctx.notes.append("loopback UDP not available: RouteUDP scenarios skipped")
    ctx.log("udp: %d scenario checks on the real RouteUDP, violations %d, stats %s" % (udp.get("evaluations", 0), len(udp.get("violations", [])), ustats))
    probe_stats = None
    if probefut is not None:
        try:
            pr = probefut.result()
            probe_stats = pr.get("stats", {})
            ctx.violations += [v for v in pr.get("violations", []) if v.get("key") in KEYS]
            ctx.log("udp probe without hook: %s" % probe_stats)
        except lib.Inconclusive as e:
            ctx.notes.append("UDP probe without hook did not finish: %s" % str(e)[:200])
    ctx.log("replay: %d behaviours, %d steps, diverged %d, violations %d" % (
        res.get("evaluations", 0), stats.get("steps", 0), stats.get("diverged", 0), len(res.get("violations", []))))
    if only_replay:
        ctx.notes.append("X02_PART=replay: model checking and negative configurations were skipped in this run")
    coverage = {"evaluations": res.get("evaluations", 0), "distinct_nontrivial": res.get("distinct_nontrivial", 0), "rule": RULE,
                "samples": res.get("samples", [])[:3], "traces_validated_against_impl": res.get("evaluations", 0),
                "exhaustive": not only_replay, "exhaustive_runs": summary["exhaustive"], "negatives": summary["negatives"],
                "behaviours_per_generator": per_gen,
                "confluence_schedules": n_conf, "deviation_scenarios_bound": [s[0] for s in SCENARIOS],
                "replay_stats": {k: v for k, v in stats.items() if not k.startswith("violations")},
                "udp_scenarios": {"checks": udp.get("evaluations", 0), "stats": ustats, "notes": udp.get("notes", [])},
                "udp_staledelete_probe": probe_stats}
    return lib.finish(ctx, LEVEL, coverage, ASSUME)


def replay(ctx, path):
    """re-runs the behaviour stored in a replay file (out/replays/X02-*.json) or an ndjson file of behaviours"""
    txt = open(path).read()
    behaviours = []
    try:
        obj = json.loads(txt)
        rep = obj.get("replay", obj)
        if isinstance(rep, dict) and str(rep.get("scenario", "")).startswith("first-bytes"):
            inp = os.path.join(ctx.work, "replay.ndjson")
            lib.write_lines(inp, [])
            open(inp + ".ready", "w").close()
            res = go_replay(ctx, inp, tag="replay_file")
            for v in res.get("violations", []):
                print("REPLAY-RESULT violation key=%s what=%s" % (v.get("key"), v.get("what")), flush=True)
            judge(ctx, res)
            return lib.finish(ctx, LEVEL, {"evaluations": res.get("evaluations", 0), "distinct_nontrivial": res.get("distinct_nontrivial", 0),
                                           "rule": "first-bytes scenario re-run", "samples": [], "traces_validated_against_impl": 1, "exhaustive": False}, ASSUME)
        if not isinstance(rep, dict) or not ("behaviour" in rep or "steps" in rep):
            # findings of the real-time UDP scenarios carry no behaviour: the scenarios are fixed, re-run them
            udp = lib.run_go(ctx, "client", "TestVerifX02UDP", timeout=1200, harness_dirs=["client"], tag="udp", extra_args=["-v"])
            for v in udp.get("violations", []):
                print("REPLAY-RESULT violation key=%s what=%s" % (v.get("key"), v.get("what")), flush=True)
                if v.get("key") in KEYS:
                    ctx.violations.append(v)
            return lib.finish(ctx, LEVEL, {"evaluations": udp.get("evaluations", 0), "distinct_nontrivial": udp.get("distinct_nontrivial", 0),
                                           "rule": "RouteUDP scenarios re-run", "samples": [], "traces_validated_against_impl": 0, "exhaustive": False}, ASSUME)
        behaviours = [rep["behaviour"]] if "behaviour" in rep else [rep]
    except json.JSONDecodeError:
        behaviours = [json.loads(l) for l in txt.splitlines() if l.strip()]
    inp = os.path.join(ctx.work, "replay.ndjson")
    lib.write_lines(inp, behaviours)
    open(inp + ".ready", "w").close()
    res = go_replay(ctx, inp, tag="replay_file", firstbytes=False)
    for v in res.get("violations", []):
        print("REPLAY-RESULT violation key=%s what=%s" % (v.get("key"), v.get("what")), flush=True)
    for n in res.get("notes", []) or []:
        print("REPLAY-RESULT note %s" % n, flush=True)
    stats = judge(ctx, res)
    print("REPLAY-RESULT behaviours=%d diverged=%d violations=%d" % (res.get("evaluations", 0), stats.get("diverged", 0), len(ctx.violations)), flush=True)
    return lib.finish(ctx, LEVEL, {"evaluations": res.get("evaluations", 0), "distinct_nontrivial": res.get("distinct_nontrivial", 0),
                                   "rule": "replay of " + os.path.basename(path), "samples": [], "traces_validated_against_impl": res.get("evaluations", 0),
                                   "exhaustive": False}, ASSUME)
