"""X05 (spec-coverage extra) - the server as a whole for its two kinds of clients (spec/AdminTunnel.tla):

* the administrator: first packet (AdminUID, session id 0) -> a session of its own whose streams are served by the
  user-management API (dispatchConnection's admin branch, http.Serve(sesh, APIRouterOf(manager)));
* ordinary users: GetUser / GetSession (AuthenticateUser, AuthoriseNewSession), serveSession, metering, upload rounds,
  TERMINATE answers.

What the administrator writes through the tunnel decides who may connect next and who is cut off at the next round.
C07 / C15 / C16 / C18 each look at one of these parts with the neighbours stubbed; this is their composition through the
real handshake, the real multiplexer, the real HTTP router, the real bolt store and the real panel.

1. TLC, exhaustive: AdminTunnel.tla for two users, session ids {0,1}, one admin handle, depth 6 (quick) / 7 (thorough):
   TypeOK, ApiOnlyForAdmin, CapRespected, ServedOnlyIfAllowed, CutOffAtRound, ApiLeavesSessionsAlone, RejectedUnchanged.
2. Negative configurations: ApiBySidZero / NoRecheckOnNewSession / NoCutOff each violate their property.
3. AdminTunnelGen.tla (-simulate): behaviours of 14 steps; harness/server/x05_test.go replays them on the real code and
   compares after every step: the verdict of the step (API status, served / redirected / hung / joined), the store read
   directly, the panel's live sessions, the clients' sessions, the usage queue.
4. Binding demonstration: a few behaviours with one falsified expected verdict must be noticed by the driver."""
import json
import os
import random
import re

import lib

LEVEL = "model_checking"
ASSUME = [
    "values are classes (credit big / exactly 1 / <= 0, expiry future / past, rate positive / zero); exact usage accounting is C16's",
    "one connection per first packet; the administrator's API client opens one stream per request (no keep-alive)",
    "clock pinned (Unix 1 000 000) for client, server and manager; in-memory network without faults",
    "an upload round is updateUsageQueue + commitUpdate called by the driver (the periodic goroutine is not started)",
    "which way a refusal looks (redirected to the web server / connection left open without an answer) and the usage "
    "queue are compared as model drift, not as verdicts",
]
KEYS = {"api-to-nonadmin", "admin-refused", "api-status", "api-body", "store-wrong", "served-unauthorised", "refused-authorised",
        "not-cut-off", "cut-off-wrongly", "bookkeeping", "echo-wrong"}
PROPS = "CapRespected ServedOnlyIfAllowed CutOffAtRound ApiLeavesSessionsAlone RejectedUnchanged"
NEG = [("ApiBySidZero", "ApiOnlyForAdmin", True), ("NoRecheckOnNewSession", "CapRespected", False), ("NoCutOff", "CutOffAtRound", False)]


def mc_subst(users, sids, handles, depth, maxadmin, dev="", invs="TypeOK ApiOnlyForAdmin", props=PROPS):
    return {"USERS": "{%s}" % ", ".join('"%s"' % u for u in users), "SIDS": "{%s}" % ", ".join(map(str, sids)),
            "HANDLES": "{%s}" % ", ".join(map(str, handles)), "DEPTH": depth, "MAXADMIN": maxadmin,
            "DEV": dev, "INVS": invs, "PROPS": props}


def behaviours_of(r):
    out, seen = [], set()
    for line in r.out.splitlines():
        if not line.startswith('<<"X05BEHAVIOUR"'):
            continue
        m = re.match(r'<<"X05BEHAVIOUR", (".*")>>$', line.strip())
        if not m:
            continue
        b = json.loads(json.loads(m.group(1)))
        key = json.dumps([(s["o"], s["h"], s["u"], s["s"], s["k"], s["v"]) for s in b["steps"]])
        if key in seen:
            continue
        seen.add(key)
        out.append(b)
    return out


def judge(ctx, res, expect_n):
    for v in res.get("violations", []):
        if v.get("key") in KEYS:
            ctx.violations.append(v)
        else:
            raise lib.Inconclusive("driver reported an unknown key %r" % v.get("key"))
    if ctx.violations:
        return
    if res.get("_died") or not res.get("complete", False):
        raise lib.Inconclusive("replay driver died (rc=%s) while running %s\n%s" % (
            res.get("_rc"), json.dumps(res.get("running"))[:600], res.get("_stdout_tail")))
    stats = res.get("stats", {})
    if stats.get("diverged", 0):
        raise lib.Inconclusive("model drift: %d behaviours left the model's path without violating a statement about the code; first: %s" % (
            stats["diverged"], (res.get("notes") or ["?"])[0]))
    if stats.get("behaviours", 0) != expect_n:
        raise lib.Inconclusive("replay driver executed %s of %d behaviours" % (stats.get("behaviours"), expect_n))


def run(ctx):
    quick = ctx.quick()
    # 1. exhaustive
    r = lib.require_ok(lib.run_tlc(ctx, "AdminTunnel", "AdminTunnel_mc.cfg", mc_subst(["u1", "u2"], [0, 1], [1], 6 if quick else 7, 3),
                                   tag="mc", timeout=1500), "AdminTunnel")
    ctx.log("AdminTunnel exhaustive: %d distinct states (%d generated, %.1fs): all properties hold" % (r.distinct, r.generated, r.wall))
    # 2. negatives
    negs = []
    for dev, prop, is_inv in NEG:
        sub = mc_subst(["u1"], [0, 1], [1], 6, 3, dev='"%s"' % dev, invs="TypeOK " + (prop if is_inv else ""), props=("" if is_inv else prop))
        v = lib.run_tlc(ctx, "AdminTunnel", "AdminTunnel_mc.cfg", sub, tag="neg_" + dev, workers=4, expect_violation=True)
        if v.ok or v.violated != prop:
            raise lib.Inconclusive("AdminTunnel with deviation %s is expected to violate %s (got %s): property vacuous?" % (dev, prop, v.violated))
        negs.append({"deviation": dev, "property": prop, "violated": True})
    ctx.log("negative configurations: %d/%d violate their property" % (len(negs), len(NEG)))
    # 3. behaviours
    gsub = {"USERS": '{"u1", "u2"}', "SIDS": "{0, 1, 2}", "HANDLES": "{1, 2}", "DEPTH": 14, "MAXADMIN": 6}
    g = lib.require_ok(lib.run_tlc(ctx, "AdminTunnelGen", "AdminTunnelGen.cfg", gsub, workers=1, simulate=30 if quick else 400, depth=15,
                                   tag="gen", timeout=1500), "AdminTunnelGen")
    behs = behaviours_of(g)
    rnd = random.Random(ctx.seed)
    rnd.shuffle(behs)
    behs = behs[:300 if quick else 6000]
    for b in behs:
        b["gen"] = "sim14"
    # 4. corrupted expectations (binding demonstration)
    corrupt = []
    for b in behs[:40]:
        idx = [i for i, s in enumerate(b["steps"]) if s["o"] == "uopen" or (s["o"] in ("get", "delete"))]
        if idx and len(corrupt) < 6:
            c = json.loads(json.dumps(b))
            c["corrupt"] = rnd.choice(idx) + 1
            corrupt.append(c)
    inp = os.path.join(ctx.work, "x05_behaviours.ndjson")
    lib.write_lines(inp, behs + corrupt)
    ctx.log("gen: %d distinct behaviours of 14 steps (+%d with a falsified verdict)" % (len(behs), len(corrupt)))
    res = lib.run_go(ctx, "server", "TestVerifX05Replay", env={"VERIF_IN": inp}, timeout=3000, tag="replay", prefixes=("x05",))
    judge(ctx, res, len(behs) + len(corrupt))
    stats = res.get("stats", {})
    if not ctx.violations and stats.get("corrupt_detected", 0) != len(corrupt):
        raise lib.Inconclusive("binding demonstration failed: %d of %d falsified verdicts were noticed" % (stats.get("corrupt_detected", 0), len(corrupt)))
    ctx.log("replay: %d behaviours, verdicts served/redirected/hung = %d/%d/%d, rounds %d, falsified verdicts noticed %d/%d, %d violations" % (
        len(behs), stats.get("verdict:served", 0), stats.get("verdict:redirected", 0), stats.get("verdict:hung", 0), stats.get("step:round", 0),
        stats.get("corrupt_detected", 0), len(corrupt), len(ctx.violations)))
    cov = {
        "evaluations": res.get("evaluations", 0),
        "distinct_nontrivial": res.get("distinct_nontrivial", 0),
        "rule": "TLC -simulate behaviours of AdminTunnelGen (14 steps: admin sessions, API requests through the tunnel, first and further "
                "connections of users, traffic, closes, upload rounds), de-duplicated by their step list; non-trivial = contains an upload "
                "round, a refusal or a further connection of a live session; counted by hashing the step list",
        "samples": res.get("samples", [])[:2],
        "traces_validated_against_impl": res.get("evaluations", 0),
        "exhaustive": False,
        "negative_configs": negs,
        "step_counts": {k[5:]: v for k, v in stats.items() if k.startswith("step:")},
        "open_verdicts": {k[8:]: v for k, v in stats.items() if k.startswith("verdict:")},
        "falsified_verdicts_noticed": "%d/%d" % (stats.get("corrupt_detected", 0), len(corrupt)),
        "checker_cmd": "tlc AdminTunnel.tla (AdminTunnel_mc.cfg); tlc -simulate AdminTunnelGen.tla; go test -run TestVerifX05Replay ./internal/server/",
    }
    return lib.finish(ctx, LEVEL, cov, ASSUME)


def replay(ctx, path):
    res = lib.run_go(ctx, "server", "TestVerifX05Replay", env={"VERIF_REPLAY": path}, timeout=600, tag="replay", prefixes=("x05",), extra_args=["-v"])
    print(json.dumps(res.get("violations", []), indent=1)[:4000])
    return 1 if res.get("violations") else 0
