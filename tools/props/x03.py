"""X03 - the server configuration is honoured as documented (spec/ServerConfig.tla, spec/ServerConfigGen.tla,
harness/server/x03_test.go for ParseConfig + InitState + IsBypass, harness/cmd/ck-server/x03_main_test.go for what package
main does with BindAddr and the Shadowsocks plugin environment: resolveBindAddr, parseSSBindAddr and main() itself, run as
a child process in a private network namespace and judged by its listening sockets)."""
import copy
import os
import re
from concurrent.futures import ThreadPoolExecutor

import lib

LEVEL = "exploration"
ASSUME = [
    "the documentation is README.md (section Configuration/Server, Setup/Server), example_config/ckserver.json, the usage text "
    "of ck-server (-c: 'path to the configuration file or its content'), the comments of cmd/ck-server/ck-server.go about the "
    ":443/:80 default and about harmonising BindAddr with the address of a Shadowsocks host, and the RedirAddr forms of "
    "internal/server/state_test.go; spec/ServerConfig.tla is a hand transcription of them",
    "three outcome classes (ServerConfig.tla): documented-accept (judged field by field), documented-reject (a value of the "
    "wrong shape: not base64, not a list, not a number, a ProxyBook value that is not a two-element array, an address that is "
    "not IP:PORT, no private key: an error is demanded) and undocumented (no expectation beyond 'no panic'; what the code does "
    "is recorded under coverage.observations)",
    "undocumented, because no document speaks about them: the length of PrivateKey / BypassUID / AdminUID values, protocol "
    "names other than tcp/udp (or in capitals), an empty ProxyBook address, RedirAddr absent / empty / '[v6]' / non-numeric "
    "port, CncMode, DatabasePath in a missing directory, IsBypass for arguments that are not 16 bytes. An AdminUID that is "
    "not a UID may be refused or ignored (README); if the configuration is accepted DatabasePath must have no effect and "
    "nobody may become an unrestricted user through it",
    "'keep-alive disabled' is judged at the consumer: net.Dialer.KeepAlive < 0",
    "RedirAddr and ProxyBook addresses are IP literals (the sandbox has no DNS; name resolution is not asserted)",
    "listening sockets are observed in /proc/<pid>/net/tcp{,6} of a ck-server main() running in its own network namespace; "
    "combinations whose addresses share a port are judged on the address list only (whether the OS lets them coexist is not "
    "documented); the ProxyBook entry 'shadowsocks' that plugin mode adds is stated in the spec but not observable without a "
    "client handshake",
    "encoding/json, encoding/base64 and package net of the Go runtime are trusted",
]

ALL = ["AdminUID", "DatabasePath", "BypassUID", "PrivateKey", "KeepAlive", "ProxyBook", "RedirAddr", "CncMode", "Source",
       "BindAddr", "Mode", "SSRemote"]
STATE = ALL[:10]          # what reaches ParseConfig + InitState
CORE = ["AdminUID", "DatabasePath", "BypassUID", "KeepAlive"]      # options whose effects meet in one output
CORE_T = CORE + ["PrivateKey", "CncMode"]
EXP_FIELDS = ["outcome", "redirHost", "redirPort", "proxyBook", "bypass", "privKey", "adminUID", "keepAlive", "panel", "dbFile", "bindRaw",
              "listen", "listenable", "pluginBook"]
SETS = {"proxyBook", "bypass", "listen", "pluginBook"}
NVALUES = {"ProxyBook": 19, "RedirAddr": 8, "PrivateKey": 6, "AdminUID": 6, "BypassUID": 11, "DatabasePath": 4, "KeepAlive": 5,
           "CncMode": 3, "Source": 2, "BindAddr": 13}
KEY_RE = re.compile(r"^(field:[A-Za-z]+(:[a-z0-9-]+)?|accepted-invalid:[A-Za-z]+:[a-z0-9]+|rejected-valid:([A-Za-z]+:[a-z0-9]+|baseline)"
                    r"|bypass:membership(:[a-z-]+)?|panic:[A-Za-z]+)$")

# package main is reached through the same overlay machinery: harness/cmd/ck-server -> /repo/internal/../cmd/ck-server
# (the permanent form of this line is one more entry in lib.PKG_ALIAS)
lib.PKG_ALIAS.setdefault("cmd/ck-server", "../cmd/ck-server")


def decode_row(line):
    left, right = line.split("|")
    cv, ev = left.split(","), right.split(",")
    if len(cv) != len(ALL) or len(ev) != len(EXP_FIELDS):
        raise lib.Inconclusive("unexpected row format from ServerConfigGen: %r" % line)
    exp = dict(zip(EXP_FIELDS, ev))
    for f in SETS:
        exp[f] = [] if exp[f] == "-" else exp[f].split("+")
    return {"cfg": dict(zip(ALL, cv)), "exp": exp}


def tla_set(xs):
    return "{" + ", ".join('"%s"' % x for x in xs) + "}"


def consts(free, maxdev, maxinvalid):
    return {"FREE": tla_set(free), "MAXDEV": maxdev, "MAXINVALID": maxinvalid}


def jvm(ctx):
    return {"JAVA_TOOL_OPTIONS": "-Xss64m -XX:TieredStopAtLevel=1 -XX:ParallelGCThreads=2 -Xmx%s" % ("2g" if ctx.quick() else "6g")}


def gen(ctx, tag, free, maxdev, maxinvalid, simulate=None, workers=4, timeout=1500):
    r = lib.run_tlc(ctx, "ServerConfigGen", "ServerConfigGen.cfg", consts(free, maxdev, maxinvalid), tag=tag,
                    workers=1 if simulate else workers, simulate=simulate, depth=len(ALL) + 2 if simulate else None,
                    timeout=timeout, env=jvm(ctx))
    lib.require_ok(r, tag)
    return tag, r


def check_keys(res, what):
    for v in res.get("violations", []):
        if not KEY_RE.match(v.get("key", "")):
            raise lib.Inconclusive("%s reported the unknown verdict key %r: harness and runner have drifted apart" % (what, v.get("key")))


def enumerate_rows(ctx, q, mc_dev):
    with ThreadPoolExecutor(max_workers=8) as ex:
        # 1. the table itself: totality, error-iff, the README sentences restated, exact bypass set, silence, the listening
        #    sockets (every address served, nothing twice), separability
        mc = ex.submit(lambda: lib.require_ok(
            lib.run_tlc(ctx, "ServerConfig", "ServerConfig_mc.cfg", consts(ALL, mc_dev, 2), workers=4, tag="mc", timeout=1500,
                        env=jvm(ctx)), "ServerConfig mc"))
        # 2. rows
        plan = [
            ("core", CORE if q else CORE_T, 99, 1, None),
            ("twise", STATE, 2 if q else 3, 2, None),
            ("bind", ["BindAddr", "Mode", "SSRemote"], 99, 2, None),
            ("sim_valid", STATE, 99, 0, 800 if q else 30000),
            ("sim_any", STATE, 99, 3, 300 if q else 10000),
        ]
        if not q:
            plan.append(("twise4", ["AdminUID", "DatabasePath", "BypassUID", "PrivateKey", "KeepAlive", "RedirAddr", "CncMode", "Source"], 4, 2, None))
        gens = [ex.submit(gen, ctx, *p) for p in plan]
        r = mc.result()
        ctx.log("model check ServerConfig (MaxDev=%d): %d distinct states" % (mc_dev, r.distinct))
        rows, bind_rows, seen, per_source = [], [], set(), {}
        for g in gens:
            tag, r = g.result()
            if tag == "bind":
                bind_rows = [decode_row(line) for line in sorted(set(r.behaviours))]
                per_source[tag] = {"emitted": len(r.behaviours), "rows": len(bind_rows), "tlc_distinct_states": r.distinct}
                ctx.log("gen bind: %d rows" % len(bind_rows))
                continue
            n0 = len(rows)
            for line in r.behaviours:
                if line in seen:
                    continue
                seen.add(line)
                rows.append(decode_row(line))
            per_source[tag] = {"emitted": len(r.behaviours), "new_rows": len(rows) - n0, "tlc_distinct_states": r.distinct}
            ctx.log("gen %s: %d rows emitted, %d new" % (tag, len(r.behaviours), len(rows) - n0))
    for need in ("core", "twise", "bind", "sim_valid"):
        if per_source[need]["emitted"] == 0:
            raise lib.Inconclusive("TLC run %s emitted no rows" % need)
    # the state harness also takes the standalone bind rows (RawConfig.BindAddr verbatim)
    state_rows = rows + [r for r in bind_rows if r["cfg"]["Mode"] == "standalone" and r["cfg"]["BindAddr"] != "example"
                         and ",".join(r["cfg"][o] for o in ALL) not in {",".join(x["cfg"][o] for o in ALL) for x in rows}]
    # oracle self-test: falsified expectations (KeepAlive, RedirPort, bypass set) must be noticed
    probe = [r for r in rows if r["exp"]["keepAlive"] == "N" and r["exp"]["outcome"] == "documented-accept" and r["exp"]["redirPort"] == "P"
             and "b3" not in r["exp"]["bypass"] and r["cfg"]["Source"] == "file"][:40]
    if not probe:
        raise lib.Inconclusive("no valid row with a positive KeepAlive and a RedirAddr port was generated")
    return state_rows, bind_rows, probe, per_source


def run(ctx):
    q = ctx.quick()
    mc_dev = 1 if q else 2
    variants = 2 if q else 3
    inp = os.path.join(ctx.work, "x03_rows.ndjson")
    binp = os.path.join(ctx.work, "x03_bind.ndjson")
    pin = os.path.join(ctx.work, "x03_probe.ndjson")
    # the two test binaries are built while TLC enumerates (the tests wait for <input>.ready, or leave on <input>.abort);
    # lib.run_go writes <work>/overlay.json, so the second one gets a work directory of its own (same evidence lists)
    ctx2 = copy.copy(ctx)
    ctx2.work = os.path.join(ctx.work, "main")
    os.makedirs(ctx2.work, exist_ok=True)
    gopool = ThreadPoolExecutor(max_workers=2)
    j1 = gopool.submit(lib.run_go, ctx, "server", "TestVerifX03Replay",
                       env={"VERIF_IN": inp, "VERIF_X03_VARIANTS": variants, "VERIF_X03_PROBE": pin, "VERIF_X03_WAIT": 1, "GOGC": "200"},
                       timeout=900 if q else 3000)
    j2 = gopool.submit(lib.run_go, ctx2, "cmd/ck-server", "TestVerifX03Main",
                       env={"VERIF_IN": binp, "VERIF_X03_VARIANTS": 1 if q else 3, "VERIF_X03_WAIT": 1}, timeout=900 if q else 3000)
    try:
        state_rows, bind_rows, probe, per_source = enumerate_rows(ctx, q, mc_dev)
        lib.write_lines(inp, state_rows)
        lib.write_lines(binp, bind_rows)
        lib.write_lines(pin, probe)
        for f in (inp, binp):
            open(f + ".ready", "w").close()
    except BaseException:
        for f in (inp, binp):
            open(f + ".abort", "w").close()
        gopool.shutdown(wait=True)
        raise
    res, mres = j1.result(), j2.result()
    gopool.shutdown()
    check_keys(res, "harness/server/x03_test.go")
    check_keys(mres, "harness/cmd/ck-server/x03_main_test.go")
    lib.collect_go(ctx, res)
    lib.collect_go(ctx, mres)
    stats, mstats = res["stats"], mres["stats"]
    if stats.get("probe:noticed", 0) != len(probe) or stats.get("probe:rows", 0) != len(probe):
        raise lib.Inconclusive("falsified expectations (KeepAlive, RedirPort, bypass set) were noticed on %s of %d probe rows: the "
                               "oracle is blind" % (stats.get("probe:noticed", 0), len(probe)))
    if stats.get("rows", 0) != len(state_rows):
        raise lib.Inconclusive("the state harness read %s of %d rows" % (stats.get("rows", 0), len(state_rows)))
    if mstats.get("rows", 0) != len(bind_rows) or mstats.get("process:started", 0) == 0:
        raise lib.Inconclusive("the ck-server harness read %s of %d rows and started %s server processes"
                               % (mstats.get("rows", 0), len(bind_rows), mstats.get("process:started", 0)))
    full = 1
    for n in NVALUES.values():
        full *= n
    cov = {
        "evaluations": res["evaluations"] + mres["evaluations"],
        "distinct_nontrivial": res["distinct_nontrivial"] + mres["distinct_nontrivial"],
        "rule": "rows = terminal states of ServerConfigGen: (core) the full product of %s with the other options at the example "
                "configuration; (twise) every combination of values of any %d of the %d options that reach ParseConfig/InitState, "
                "the rest at the example configuration, at most 2 documented-invalid values%s; (sim) uniformly random rows of the "
                "full product by TLC -simulate, once without invalid values and once with up to 3; (bind) the full product "
                "BindAddr x (standalone | plugin x SS_REMOTE_HOST class). Each state row is run with %d concretisations through "
                "ParseConfig + InitState + IsBypass (members, one-bit neighbours, an outsider, prefixes, extensions, the empty UID); "
                "each bind row through resolveBindAddr / parseSSBindAddr and through main() in a child process. non-trivial = "
                "differs from the example configuration; distinct = distinct abstract rows"
                % ("x".join(CORE if q else CORE_T), 2 if q else 3, len(STATE),
                   "" if q else "; (twise4) every 4-way combination of the 8 options that interact or fail", variants),
        "samples": res["samples"] + mres["samples"][:2],
        "traces_validated_against_impl": len(state_rows) + len(bind_rows),
        "rows_replayed": {"state": len(state_rows), "bind": len(bind_rows)},
        "rows_by_source": per_source,
        "rows_by_expected_outcome": {k[len("outcome:"):]: v for k, v in stats.items() if k.startswith("outcome:")},
        "harness_stats": {k: v for k, v in stats.items() if not k.startswith(("undoc:", "outcome:"))},
        "main_harness_stats": {k: v for k, v in mstats.items() if not k.startswith("undoc:")},
        "observations": {k[len("undoc:"):]: v for k, v in sorted(list(stats.items()) + list(mstats.items())) if k.startswith("undoc:")},
        "full_product_rows_state": full,
        "states": sum(r["distinct"] for r in ctx.tlc_runs),
        "transitions": sum(r["generated"] for r in ctx.tlc_runs),
        "exhaustive": True,
        "exhaustive_scope": "the decision table within the stated bounds (core product, t-wise, bind product), not the full product",
        "oracle_probe": "falsified KeepAlive / RedirPort / bypass-set expectations noticed on %d rows" % len(probe),
        "checker_cmd": "tlc ServerConfig.tla (ServerConfig_mc.cfg) / ServerConfigGen.tla + go test -run TestVerifX03Replay "
                       "./internal/server/ + go test -run TestVerifX03Main ./cmd/ck-server/",
    }
    ctx.notes.append("%d kinds of observation on undocumented inputs (not judged), see coverage.observations" % len(cov["observations"]))
    return lib.finish(ctx, LEVEL, cov, ASSUME)


def replay(ctx, path):
    import json
    rp = json.load(open(path)).get("replay") or {}
    if "bind" in rp:
        res = lib.run_go(ctx, "cmd/ck-server", "TestVerifX03Main", env={"VERIF_REPLAY": os.path.abspath(path)}, extra_args=["-v"])
    else:
        res = lib.run_go(ctx, "server", "TestVerifX03Replay", env={"VERIF_REPLAY": os.path.abspath(path)}, extra_args=["-v"])
    print(open(os.path.join(res["_out_dir"], "go.out")).read())
    return 0
