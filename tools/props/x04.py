"""X04 (spec-coverage extra) - the close protocol of one stream at the grain of the code's critical sections
(spec/StreamClose.tla): Write / Close / passive close racing on the closed flag, the write mutex, the session's stream
counter and a stalled connection. Mux.tla has these as single steps; the races that seeded changes s3-c01-1, s3-c03-1 and
s3-c03-2 introduced live inside them. TLC: the code's protocol satisfies every invariant, each named deviation violates
its own. Binding: the real-goroutine drivers that force those schedules on the real Stream / Session."""
import lib

LEVEL = "model_checking"
ASSUME = [
    "one stream, two writers, one local close, one passive close, one other stream that stays open; the connection is either stalled until released or free",
    "the mutex hands over to any waiter (Go's is roughly FIFO; the model is more liberal)",
    "the drivers force the schedules with a gated connection and spin barriers; a reader that does not return is a verdict only with goroutine-dump evidence",
]
INVS = "CountInv StaysUp AckedBeforeClose OneCloseFrame PassiveNeverWaitsForSender ReaderReleased PassiveEnabled"
NEG = [("CheckThenStore", "CountInv"), ("CheckThenStore", "StaysUp"), ("WriteCheckBeforeLock", "AckedBeforeClose"),
       ("PassiveTakesWriteM", "PassiveNeverWaitsForSender"), ("PassiveTakesWriteM", "PassiveEnabled")]


def run(ctx):
    r = lib.require_ok(lib.run_tlc(ctx, "StreamClose", "StreamClose_mc.cfg", {"DEV": "", "INVS": INVS}, tag="ideal", workers=2), "StreamClose")
    ctx.log("StreamClose, the code's protocol: %d distinct states, all invariants hold" % r.distinct)
    negs = []
    for dev, inv in NEG:
        v = lib.run_tlc(ctx, "StreamClose", "StreamClose_mc.cfg", {"DEV": '"%s"' % dev, "INVS": inv}, tag="neg_%s_%s" % (dev, inv),
                        workers=2, expect_violation=True)
        if v.ok or v.violated != inv:
            raise lib.Inconclusive("StreamClose with deviation %s is expected to violate %s (got %s): invariant vacuous?" % (dev, inv, v.violated))
        negs.append({"deviation": dev, "invariant": inv, "violated": True})
    ctx.log("negative configurations: %d/%d violate their invariant" % (len(negs), len(NEG)))
    cc = lib.run_go(ctx, "multiplex", "TestVerifMuxCloseVsCloseRace", timeout=900, tag="close_vs_close", prefixes=("c03", "shared"))
    lib.collect_go(ctx, cc)
    qd = lib.run_go(ctx, "multiplex", "TestVerifC03Queued", timeout=900, tag="queued", prefixes=("c03", "shared"))
    lib.collect_go(ctx, qd)
    ctx.log("drivers: close-vs-close %d rounds, queued/stalled %d scenarios, %d violations" % (
        cc["stats"].get("rounds", 0), qd["evaluations"], len(ctx.violations)))
    cov = {
        "evaluations": cc["evaluations"] + qd["evaluations"],
        "distinct_nontrivial": cc["distinct_nontrivial"] + qd["distinct_nontrivial"],
        "rule": "TLC: all reachable states of StreamClose.tla with Dev = {} and with each named deviation; drivers: a local Close racing "
                "the peer's closing frame of the same stream behind a spin barrier (counter vs table at rest, session must outlive the "
                "inactivity period), Write(A) stalled in the connection + Close queued + Write(B) queued, and the peer's close arriving "
                "while a local Write is stalled; non-trivial = every round (each forces one of the racing schedules)",
        "samples": cc["samples"][:1] + qd["samples"][:1] or [{"negative_configs": negs}],
        "traces_validated_against_impl": 0,
        "exhaustive": True,
        "negative_configs": negs,
        "close_vs_close_rounds": cc["stats"].get("rounds", 0),
        "checker_cmd": "tlc StreamClose.tla (StreamClose_mc.cfg) + go test -run 'TestVerifMuxCloseVsCloseRace|TestVerifC03Queued'",
    }
    return lib.finish(ctx, LEVEL, cov, ASSUME)


def replay(ctx, path):
    print(open(path).read())
    return 0
