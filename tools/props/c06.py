"""C06 - client and server agree on identity, options and session key (spec/Handshake*.tla).

1. Handshake.tla (symbolic crypto) is model-checked with Scope = "agree" (every option combination x clock offset
   strictly inside the window, honest network); thorough also with W = 3 and with Scope = "sound", MaxTamper = 2
   (KeyAgreement: whenever a client completes, under any tampering, it completed with the server's key and its own
   identity).
   Vacuity (HandshakeNeg.tla, one run): each deviation flag that stands for one of the layout mistakes the property
   is about (reply offsets, method field slicing, flag bit, session-id byte order) must break an agreement invariant.
2. HandshakeGen.tla exports every abstract case; the Go harness runs each for real N times (fresh ephemeral keys,
   nonces and uTLS extension orders) through RawConfig -> ProcessRawConfig -> Transport.Handshake against the real
   dispatchConnection and compares ClientInfo, session key and (sampled) end-to-end data flow.
"""
import concurrent.futures
import json
import os
import re

import lib

LEVEL = "exploration"
ASSUME = [
    "X25519, AES-GCM, uTLS's hello builder, crypto/tls (CDN terminator), gorilla/websocket and bbolt are trusted; the spec treats the primitives as perfect (symbolic terms)",
    "the acceptance window is read on the sealed whole-second timestamp: |stamp - server clock| < 180 s (a client clock 179.x s behind can seal a stamp exactly 180 s old, which the strict window refuses; that is the window of C07, not a disagreement)",
    "session ids are sampled as 0, 0x01020304, 0xffffffff; UIDs are random 16-byte strings incl. NUL / 0xff at the ends; method names of 1, 11 and 12 bytes without NUL bytes",
    "the CDN is a TLS terminator that forwards the byte stream unchanged",
    "multi-connection start: k = 2..4 connections of one new session are presented at the same instant (barrier) to k dispatchConnection goroutines; for database users the rig's user manager (the real LocalManager behind a wrapper) holds AuthoriseNewSession until k calls are in flight or 150 ms pass, which widens the lookup-to-registration window without a hook; all k keys must be equal and be the key of the one registered session, and requests over a client session spanning the k connections must be answered (until every connection carried client data, at most 16k requests)",
    "connections that join a session opened earlier are C15's subject",
]

DEVS = ["ReplyOffsetsMoved", "MethodSlice11", "FlagBitOther", "SidLittleEndian"]
JVM = {"JAVA_TOOL_OPTIONS": "-Xss64m -XX:ParallelGCThreads=2 -XX:TieredStopAtLevel=1"}
INV = "Agreement KeyAgreement Soundness AdminGate AdminReach"


def _sub(scope, maxt, dev="{{}}", inv=INV, w=2):
    return {"W": w, "MAXT": maxt, "SCOPE": scope, "DEV": dev, "INV": inv}


def neg_matrix(ctx, flags):
    """One TLC run in which every behaviour carries one deviation flag; returns {flag: set(invariants it breaks)}."""
    dev = "{" + ",".join('{"%s"}' % f for f in flags) + "}"
    r = lib.run_tlc(ctx, "HandshakeNeg", "HandshakeNeg.cfg", _sub("neg", 0, dev), tag="neg_matrix", workers=1, timeout=900, env=JVM)
    lib.require_ok(r, "neg_matrix")
    m = re.search(r'<<"NEGMATRIX", (".*")>>', r.out)
    if not m:
        raise lib.Inconclusive("HandshakeNeg printed no matrix")
    doc = json.loads(lib._unq(m.group(1)))
    out = {}
    for i, f in enumerate(doc["flags"]):
        out[f] = {doc["invs"][j] for j, v in enumerate(doc["matrix"][i]) if v == 1}
    return r, out


def run(ctx):
    q = ctx.quick()
    pool = concurrent.futures.ThreadPoolExecutor(max_workers=8)
    jobs = {}
    jobs["gen_agree"] = pool.submit(lib.run_tlc, ctx, "HandshakeGen", "HandshakeGen.cfg", _sub("agree", 0), tag="gen_agree",
                                    workers=4, timeout=900, env=JVM)
    if not q:
        jobs["mc_sound"] = pool.submit(lib.run_tlc, ctx, "Handshake", "Handshake_mc.cfg", _sub("sound", 2),
                                       tag="mc_sound", workers=4, timeout=900, env=JVM)
        jobs["mc_agree_w3"] = pool.submit(lib.run_tlc, ctx, "Handshake", "Handshake_mc.cfg", _sub("agree", 0, w=3),
                                          tag="mc_agree_w3", workers=4, timeout=900, env=JVM)
    negf = pool.submit(neg_matrix, ctx, DEVS)
    # the multi-connection start of one session: one critical section => one key; two steps => OneKey must break
    jobs["multi"] = pool.submit(lib.run_tlc, ctx, "HandshakeMulti", "HandshakeMulti.cfg", {"MAXK": 4, "ATOMIC": "TRUE", "INV": "OneKey MEmit"},
                                tag="multi", workers=1, timeout=900, env=JVM)
    multi_neg = pool.submit(lib.run_tlc, ctx, "HandshakeMulti", "HandshakeMulti.cfg", {"MAXK": 4, "ATOMIC": "FALSE", "INV": "OneKey"},
                            tag="multi_neg", workers=1, timeout=900, env=JVM, expect_violation=True)
    # `go test` is started now: compiling and linking the harness overlap with TLC; the test waits for <inp>.ready
    inp = os.path.join(ctx.work, "c06_cases.ndjson")
    gof = pool.submit(lambda: lib.run_go(ctx, "server", "TestVerifC06Replay", env={"VERIF_IN": inp, "VERIF_IN_WAIT": "1", "GOGC": "400"},
                                         timeout=3000, prefixes=("c06", "c07", "shared")))
    try:
        res = {k: f.result() for k, f in jobs.items()}
        negr, broken = negf.result()
        for d in DEVS:
            if not (broken.get(d, set()) & {"Agreement", "KeyAgreement", "Soundness"}):
                raise lib.Inconclusive("deviation %s breaks no agreement invariant in the model: the invariants would be vacuous" % d)
        ctx.log("vacuity: each of %s breaks %s (%d states, %.1fs)" % (DEVS, {d: sorted(broken[d]) for d in DEVS}, negr.distinct, negr.wall))
        for name, r in res.items():
            lib.require_ok(r, name)
            ctx.log("%s: invariants hold, %d distinct states (%.1fs)" % (name, r.distinct, r.wall))
        cases = [b for b in res["gen_agree"].behaviours if b["verdict"] == "must-accept" and not b["tampers"]]
        if len(cases) != len(res["gen_agree"].behaviours) or not cases:
            raise lib.Inconclusive("Scope=agree must consist of must-accept cases only (%d of %d)" % (len(cases), len(res["gen_agree"].behaviours)))
        mn = multi_neg.result()
        if mn.violated != "OneKey":
            raise lib.Inconclusive("lookup and registration as two steps do not break OneKey in HandshakeMulti (%s): vacuous" % mn.violated)
        multi = {b["k"]: b for b in res["multi"].behaviours}
        if sorted(multi) != [2, 3, 4] or any(b["keys"] != 1 or not b["registered"] for b in res["multi"].behaviours):
            raise lib.Inconclusive("HandshakeMulti must yield one key = the registered session's key for k = 2..4: %s" % res["multi"].behaviours[:5])
        ctx.log("multi-connection start: one key for k = 2..4 in every interleaving (%d states); two-step variant breaks OneKey" % res["multi"].distinct)
        lib.write_lines(inp, cases + list(multi.values()))
        open(inp + ".ready", "w").write("go")
    except BaseException:
        open(inp + ".ready", "w").write("abort")
        raise
    finally:
        pool.shutdown(wait=False)
    g = gof.result()
    lib.collect_go(ctx, g)
    gs = g["stats"]
    ctx.log("multi-connection starts: %d (connections %s), %d with several authorisations in flight at once" % (
        gs.get("multi_starts", 0), {k[-2:]: v for k, v in gs.items() if k.startswith("multi_connections_")},
        gs.get("multi_starts_with_several_authorisations_in_flight", 0)))
    ctx.log("replay: %d abstract cases, %d handshakes (%d direct, %d cdn), %d end-to-end probes, stuck=%d panics=%d, %.1fs" % (
        gs.get("abstract_cases", 0), g["evaluations"], gs.get("handshakes:direct", 0), gs.get("handshakes:cdn", 0),
        gs.get("probes", 0), gs.get("dispatch_stuck", 0), gs.get("dispatch_panics", 0), gs.get("replay_wall_ms", 0) / 1000.0))
    if gs.get("draws_cut_by_budget", 0):
        ctx.notes.append("wall budget reached: %d planned draws were not run; minimum draws per case: chrome/direct %s, fixed layouts %s" % (
            gs["draws_cut_by_budget"], gs.get("draws_min_chrome_direct"), gs.get("draws_min_fixed_layout")))
    if gs.get("dispatch_panics", 0):
        ctx.violations.append({"key": "panic", "what": "dispatchConnection panicked on a valid client handshake", "replay": g.get("notes")})
    for n in g.get("notes", []):
        ctx.notes.append(n)
    cov = {
        "evaluations": g["evaluations"],
        "distinct_nontrivial": g["distinct_nontrivial"],
        "rule": "abstract cases = every initial state of Handshake (Scope=agree): {bypass user u1, database user u2} x method-name length {1,11,12} x "
                "4 encryption methods x sid {0, 0x01020304, 0xffffffff} x unordered flag x 3 signatures x {direct, cdn} x sni {fixed, 'random', address literal (no server_name extension)} x stamp "
                "offset strictly inside the window {-1, 0, +1 tick = -179 s / -(180 s - 1 ns) / -(180 s - 1 ms), ~0, +179 s ...}, plus the admin user on "
                "4 encryption methods x 3 sids x 2 transports x 3 offsets; each case is run with fresh ephemeral keys, nonces, uTLS extension orders, "
                "spellings of the option values, server names and NumConn: chrome/direct (shuffled extensions) %s times (at least %s done), the fixed "
                "layouts %s times (at least %s done), %s draws cut by the wall budget; every run is a complete real handshake compared at both ends "
                "(non-trivial); distinct = distinct abstract cases" % (
                    gs.get("draws_target_chrome_direct"), gs.get("draws_min_chrome_direct"), gs.get("draws_target_fixed_layout"),
                    gs.get("draws_min_fixed_layout"), gs.get("draws_cut_by_budget", 0)),
        "samples": g["samples"],
        "traces_validated_against_impl": int(gs.get("abstract_cases", 0)),
        "handshakes": g["evaluations"],
        "end_to_end_probes": gs.get("probes", 0),
        "exhaustive": True,
        "checker_cmd": "tlc Handshake.tla (agree/sound) / HandshakeNeg.tla (4 deviation flags) / HandshakeGen.tla + go test -run TestVerifC06Replay",
        "harness_stats": gs,
    }
    return lib.finish(ctx, LEVEL, cov, ASSUME)


def replay(ctx, path):
    res = lib.run_go(ctx, "server", "TestVerifC06Replay", env={"VERIF_REPLAY": os.path.abspath(path)}, extra_args=["-v"],
                     prefixes=("c06", "c07", "shared"))
    print(open(os.path.join(res["_out_dir"], "go.out")).read())
    return 0
