"""C01 - tunnelled TCP streams deliver exactly the bytes written, in order, per stream (spec/Mux.tla)."""
import lib
from props import muxcommon as mx, muxprop

LEVEL = "model_checking"
ASSUME = [
    "connections are reliable FIFO byte streams (vnet); one TLS record = one Cloak frame (C05 decides the framing)",
    "exhaustive results hold for the stated constants (<= 3 connections, <= 2 streams, <= 2-3 units per direction)",
    "the connection a frame travels on is dictated by the replay through the verif-tagged pick hook",
    "AEAD/Salsa20 primitives trusted",
]
# violation keys of the replay driver that express C01
KEYS = {"bytes-wrong", "bytes-missing", "session-died", "write-refused", "open-refused", "read-blocked",
        "eof-early", "call-blocked", "accept-failed", "trace-rejected",
        "connector:early-return", "connector:stuck", "connector:no-pause", "connector:signature", "connector:dead-session"}


RULE = ("behaviours of MuxGen (API calls x delivery orders over gated connections; exhaustive BFS for 2 conns/1 stream/2 units "
        "per direction with writes split over 2 frames, TLC -simulate for 3 conns/2 streams, for lazy readers and for a connection added "
        "while frames are being sent) replayed on a real Session pair in a synctest bubble; each with an encryption method / unit-size "
        "concretisation; non-trivial = a record is delivered while an earlier one of the same direction is still in flight on another connection")


def run(ctx):
    q = ctx.quick()
    C = mx.cfg
    mcs = [("data_2c2s", C(nc=2, ns=2, units=2, maxwrite=2, extrainv="StaysUp"), 900),
           ("addconn", C(nc=2, ns=1, units=2, maxwrite=1, late="2", feat='"swrite","gates"', extrainv="StaysUp"), 900)]
    if not q:
        mcs += [("data_3c2s", C(nc=3, ns=2, units=2, maxwrite=2, extrainv="StaysUp"), 2400),
                ("data_2c2s_lazy", C(nc=2, ns=2, units=2, maxwrite=2, feat='"swrite","lazy"', extrainv="StaysUp"), 2400)]
    n = (lambda a, b: a if q else b)
    gens = [("2c1s", C(nc=2, ns=1, units=2, maxwrite=2), 30, 0, None, 2, {"allconc": not q}),
            ("3c2s", C(nc=3, ns=2, units=2, maxwrite=2, feat='"swrite","readfrom"'), 60, 0, n(250, 4000), 3, {}),
            ("2c2s_lazy", C(nc=2, ns=2, units=3, maxwrite=2, feat='"swrite","lazy"'), 60, 0, n(200, 3000), 2, {}),
            ("bigwrite", C(nc=2, ns=1, units=4, maxwrite=4, feat='"swrite"'), 40, 0, n(150, 2000), 2, {}),
            ("addconn", C(nc=2, ns=1, units=2, maxwrite=1, late="2", feat='"swrite","gates"'), 30, 0, n(200, 2000), 2,
             {"gates": True, "late": 1})]
    return muxprop.run_property(ctx, LEVEL, ASSUME, KEYS, mcs, gens, RULE, extra=addconn_race)


def addconn_race(ctx):
    """Two overlapping AddConnection calls: model (ideal passes, deviation AddConnNoMutex refuted) + real-goroutine gate run."""
    C = mx.cfg
    two = C(nc=3, ns=1, units=1, maxwrite=1, late="2,3", feat='"gates"', extrainv="StaysUp")
    mx.model_check(ctx, "addconn2", two)
    neg = lib.run_tlc(ctx, "Mux", "Mux_data.cfg", dict(two, DEV='"AddConnNoMutex"'), tag="mc_addconn2_nomutex", expect_violation=True)
    if neg.ok:
        raise lib.Inconclusive("Mux: unserialised adders no longer break StaysUp in the model (vacuity)")
    res = lib.run_go(ctx, "multiplex", "TestVerifC01AddConnRace", timeout=600)
    lib.collect_go(ctx, res)
    ctx.log("addconn race: %d rounds, %d violations" % (res["evaluations"], len(res.get("violations", []))))
    # a stream closed by both ends at once must not bring the session's active-stream counter to zero while another
    # stream is in use (the inactivity timer would then close a healthy session): shared stress, C01 takes its
    # "keeps working" verdict (session-died), the counter mismatch itself is C12's (count-mismatch)
    cc = lib.run_go(ctx, "multiplex", "TestVerifMuxCloseVsCloseRace", timeout=900, tag="close_vs_close")
    for v in cc.get("violations", []):
        if v.get("key") == "session-died":
            ctx.violations.append(v)
        else:
            ctx.notes.append("close-vs-close stress: %s (judged under C12)" % v.get("key"))
    if cc.get("_died"):
        raise lib.Inconclusive("close-vs-close stress died: %s" % cc.get("_stdout_tail"))
    ctx.log("close-vs-close race: %d rounds, %d violations" % (cc["stats"].get("rounds", 0), len(cc.get("violations", []))))
    # deep reordering backlogs of one stream (thousands of frames parked behind a late one; Reassembly.tla holds for every N:
    # ReassemblyIndProof): the C02 driver's deep rounds on the real streamBuffer; what does not come out is missing bytes here
    deep = lib.run_go(ctx, "multiplex", "TestVerifC02Trace", env={"C02_DEEP_ONLY": "1"}, timeout=900, tag="deep_backlog", prefixes=("c02", "shared"))
    for v in deep.get("violations", []):
        ctx.violations.append(dict(v, key="bytes-missing", what="deep reordering backlog: " + v.get("what", "")))
    if deep.get("_died") or not deep.get("complete", False):
        raise lib.Inconclusive("deep-backlog rounds died: %s" % deep.get("_stdout_tail"))
    ctx.log("deep backlogs: %d rounds, %d frames, %d violations" % (deep["stats"].get("deep_rounds", 0), deep["stats"].get("deep_frames", 0), len(deep.get("violations", []))))
    # more streams opened than the accept queue holds before the application accepts (AcceptBacklog.tla: the receive loops wait)
    la = lib.run_go(ctx, "multiplex", "TestVerifC01LateAcceptor", timeout=900, tag="late_acceptor")
    lib.collect_go(ctx, la)
    ctx.log("late acceptor: %d streams accepted and read to the end, %d violations" % (la["stats"].get("late_acceptor_streams", 0), len(la.get("violations", []))))
    # client.MakeSession's retry loop (spec/ClientSession.tla): every script of failed dials / failed handshakes, in a bubble
    beh = []
    for mode, br in (("direct", "chrome"), ("direct", "firefox"), ("direct", "safari")):
        g = lib.require_ok(lib.run_tlc(ctx, "ClientSessionGen", "ClientSessionGen.cfg", {"MAXFAIL": 3 if ctx.quick() else 4, "MODE": mode, "BROWSER": br},
                                       workers=2, tag="connector_%s" % br), "ClientSessionGen")
        beh += g.behaviours
    import os
    inp = lib.write_lines(os.path.join(ctx.work, "connector.ndjson"), beh)
    con = lib.run_go(ctx, "server", "TestVerifC01Connector", env={"VERIF_IN": inp}, timeout=900, tag="connector")
    lib.collect_go(ctx, con)
    if con["stats"].get("diverged"):
        raise lib.Inconclusive("connector scripts could not be followed: %s" % con.get("notes"))
    ctx.log("connector: %d scripts replayed, %d violations" % (len(beh), len(con.get("violations", []))))
    # end to end: real RouteTCP + MakeSession against real dispatchConnection/serveSession over a pumped, gated network
    rig = lib.run_go(ctx, "server", "TestVerifC01Rig", timeout=1500, tag="rig")
    lib.collect_go(ctx, rig)
    if rig["stats"].get("timeouts") and not rig.get("violations"):
        raise lib.Inconclusive("end-to-end rig: application connections did not finish: %s" % rig.get("notes"))
    tpath = os.path.join(rig["_out_dir"], "trace.ndjson")
    lines = open(tpath).read().splitlines()
    v = lib.run_tlc(ctx, "EchoTrace", "EchoTrace.cfg", workers=1, env={"VERIF_TRACE": tpath}, expect_violation=True, tag="echotrace", timeout=900)
    if not v.ok:
        ln = v.rejected_at or 1
        ctx.violations.append({"key": "trace-rejected", "what": "end-to-end application trace is not a behaviour of the per-stream FIFO: event %s (line %d)"
                               % (lines[ln - 1] if ln <= len(lines) else "?", ln), "replay": {"trace_tail": lines[max(0, ln - 10):ln]}})
    ctx.log("rig: %d scenarios, %d bytes echoed, %d events, trace accepted=%s" % (rig["evaluations"], rig["stats"].get("bytes_echoed", 0), len(lines), v.ok))
    return {"evaluations": res["evaluations"] + rig["evaluations"] + con["evaluations"],
            "distinct_nontrivial": res["distinct_nontrivial"] + rig["distinct_nontrivial"] + con["distinct_nontrivial"],
            "samples": res["samples"][:1] + rig["samples"][:1] + con["samples"][:1],
            "traces": res["evaluations"] + (rig["evaluations"] if v.ok else 0) + len(beh), "connector_scripts": len(beh),
            "addconn_race_stats": res["stats"], "rig_stats": {k: x for k, x in rig["stats"].items() if not k.startswith("violations")}}


replay = muxprop.replay_file
