"""C01 - tunnelled TCP streams deliver exactly the bytes written, in order, per stream (spec/Mux.tla)."""
import lib
from props import muxcommon as mx

LEVEL = "model_checking"
ASSUME = [
    "connections are reliable FIFO byte streams (vnet); one TLS record = one Cloak frame (C05 decides the framing)",
    "exhaustive results hold for the stated constants (<= 3 connections, <= 2 streams, <= 2-3 units per direction)",
    "the connection a frame travels on is dictated by the replay through the verif-tagged pick hook",
    "AEAD/Salsa20 primitives trusted",
]
# violation keys of the replay driver that express C01
KEYS = {"bytes-wrong", "bytes-missing", "session-died", "write-refused", "open-refused", "read-blocked",
        "eof-early", "call-blocked", "accept-failed"}


def run(ctx):
    q = ctx.quick()
    results = []
    # 1. exhaustive model check of the data path (ideal design: no deviation)
    mx.model_check(ctx, "data_2c2s", mx.cfg(nc=2, ns=2, units=2, maxwrite=2, extrainv="StaysUp"))
    if not q:
        mx.model_check(ctx, "data_3c2s", mx.cfg(nc=3, ns=2, units=2, maxwrite=2, extrainv="StaysUp"), timeout=1800)
        mx.model_check(ctx, "data_2c2s_lazy", mx.cfg(nc=2, ns=2, units=2, maxwrite=2, feat='"swrite","lazy"', extrainv="StaysUp"), timeout=1800)
    # 2. behaviours: all delivery orders for small constants, simulation for larger ones
    beh = mx.generate(ctx, "2c1s", mx.cfg(nc=2, ns=1, units=2, maxwrite=2), depth=30)
    results.append(mx.replay(ctx, "2c1s", beh, nc=2, allconc=not q))
    nb = len(beh)
    sims = [("3c2s", mx.cfg(nc=3, ns=2, units=2, maxwrite=2), 3, 300 if q else 4000),
            ("2c2s_lazy", mx.cfg(nc=2, ns=2, units=3, maxwrite=2, feat='"swrite","lazy"'), 2, 200 if q else 3000)]
    for name, c, nc, num in sims:
        b = mx.generate(ctx, name, c, depth=60, simulate=num)
        nb += len(b)
        results.append(mx.replay(ctx, name, b, nc=nc))
    for r in results:
        for v in r.get("violations", []):
            if v["key"] in KEYS:
                ctx.violations.append(v)
            else:
                ctx.notes.append("other-property observation %s: %s" % (v["key"], v["what"]))
        if r.get("_died"):
            raise lib.Inconclusive("replay driver died: " + r.get("_stdout_tail", ""))
    tot = mx.merge(results)
    if tot["diverged"] and not ctx.violations:
        raise lib.Inconclusive("model drift: %d behaviours could not be followed by the code without a property failure: %s"
                               % (tot["diverged"], tot["notes"][:3]))
    cov = {
        "evaluations": tot["evaluations"], "distinct_nontrivial": tot["distinct_nontrivial"],
        "rule": "behaviours of MuxGen (API calls x delivery orders over gated connections; exhaustive BFS for 2 conns/1 stream/2 units "
                "per direction with writes split over 2 frames, TLC -simulate for 3 conns/2 streams and for lazy readers) replayed on a "
                "real Session pair in a synctest bubble; each with an encryption method / unit-size concretisation; non-trivial = a record "
                "is delivered while an earlier one of the same direction is still in flight on another connection",
        "samples": tot["samples"][:4], "traces_validated_against_impl": nb, "exhaustive": True,
        "diverged": tot["diverged"],
    }
    return lib.finish(ctx, LEVEL, cov, ASSUME)


def replay(ctx, path):
    res = lib.run_go(ctx, "multiplex", "TestVerifMuxReplay", env={"VERIF_REPLAY": path})
    print(open(res["_out_dir"] + "/go.out").read())
    return 0
