"""C16 - usage is charged exactly once and exhausted or expired users are cut off (spec/UserPanel*.tla; shared
machinery in props/c17.py)."""
import lib
from props import c17 as panel
from props.c17 import op, cfg

LEVEL = "model_checking"
KEYS = ("nevermore", "exact", "cutoff")
ASSUME = [
    "'carried' is what crosses the connection pool of the user's sessions: bytes written on the message-mode verifkit links that are "
    "the sessions' only connections (frame bytes as seen by switchboard.send / deplex); handshake and record headers are outside",
    "the sessions exist before the behaviour starts (connections arriving during uploads are C15/C17's subject); their padded first "
    "frames are sent and uploaded during set-up, so that one traffic unit is a frame of constant size and the credits (seeded in "
    "units) reach zero exactly where the model's do; a session-closing notice is smaller than one unit",
    "top-up, set-to-zero, expiry change and deletion are single manager calls made between the steps of the other goroutines",
    "usage contained in a completed upload must be charged exactly once, also by the upload that terminates the user; only what "
    "crosses the pool after the final collection of a terminated record (incl. the closing notices of closeAllSessions), and what is "
    "uploaded for a deleted user, is not charged",
    "all users are limited users; rates are high enough for the token buckets never to delay",
    "exhaustive for <= 2 users x 2 sessions, <= 3 traffic units, two overlapping upload rounds, one reap of a session (including the "
    "last), one admin change; TLC -simulate beyond",
]
RULE = ("B1: maximal behaviours of UserPanelGen for programs of updateUsageQueue / commitUpdate goroutines (two overlapping rounds) "
        "and session reapers, goroutines parked at panel.update.lockedA, panel.commit.lockedQ, panel.commit.collected, "
        "panel.terminate.queued/closed and user.closesession.unlocked, traffic units and admin changes between steps; traffic really "
        "crosses switchboard.send / deplex of real sessions; credits are read back through the manager. B2: a really-concurrent "
        "stress (traffic writers, overlapping rounds, a reap) judged at rest. non-trivial = two goroutines inside an operation at once "
        "or one blocked; distinct = distinct (program, schedule)")

U, M = panel.U, panel.M
S11, S12, S21 = op("serve", 1, 1), op("serve", 1, 2), op("serve", 2, 1)
INV = "CreditGhost NeverMore Conservation ExactAtRest CutOff NoDeadlock Owned TerminatedHasNone"
GATES = ["lockedA", "lockedQ", "collected", "queued", "closed", "unlocked"]
ADMIN = ["topup", "expire", "delete"]


def run(ctx):
    q = ctx.quick()
    n = (lambda a, b: a if q else b)
    jobs = panel.Jobs(ctx)
    try:
        stress = lib.run_go(ctx, "server", "TestVerifC16Stress", env={"VERIF_C16_ROUNDS": n(6, 60)}, tag="stress",
                            prefixes=("c15", "c16", "c17", "shared"))
        if stress.get("_died"):
            raise lib.Inconclusive("driver died: " + stress.get("_stdout_tail", ""))
        panel.classify(ctx, stress, KEYS)
        ctx.log("stress: %d rounds, %d violations" % (stress["evaluations"], len(stress.get("violations", []))))
        # terminations overlapping upload rounds, exact accounting at rest (real goroutines; no schedule point exists between
        # the unlock of usageUpdateQueueM in updateUsageQueueForOne and the end of the function)
        term = lib.run_go(ctx, "server", "TestVerifC16TerminateStress", env={"VERIF_C16_TROUNDS": n(6, 30)}, tag="termstress",
                          prefixes=("c15", "c16", "c17", "shared"))
        if term.get("_died"):
            raise lib.Inconclusive("driver died: " + term.get("_stdout_tail", ""))
        panel.classify(ctx, term, KEYS)
        ctx.log("termination stress: %d rounds, %s cycles, %d violations" % (term["evaluations"], term.get("stats", {}).get("cycles"),
                                                                            len(term.get("violations", []))))
        # the collection step at the grain of the code's atomic operations (spec/ValveCollect.tla): metering goes on while
        # overlapping rounds collect; a swap keeps Conservation, load-then-store loses / double-charges
        vc = lib.require_ok(lib.run_tlc(ctx, "ValveCollect", "ValveCollect_mc.cfg", {"DEV": ""}, tag="valvecollect", workers=2), "ValveCollect")
        vneg = lib.run_tlc(ctx, "ValveCollect", "ValveCollect_mc.cfg", {"DEV": '"LoadThenStore"'}, tag="valvecollect_neg", workers=2, expect_violation=True)
        if vneg.ok or vneg.violated != "Conservation":
            raise lib.Inconclusive("ValveCollect with LoadThenStore should violate Conservation (got %s)" % vneg.violated)
        col = lib.run_go(ctx, "server", "TestVerifC16(Collect|Orphan)", tag="collect", timeout=900, prefixes=("c15", "c16", "c17", "shared"))
        if col.get("_died"):
            raise lib.Inconclusive("driver died: " + col.get("_stdout_tail", ""))
        panel.classify(ctx, col, KEYS)
        ctx.log("collection overlapping traffic: ValveCollect.tla %d states; %d upload rounds over %d metered bytes, %d violations" % (
            vc.distinct, col["stats"].get("collect_rounds", 0), col["stats"].get("metered_bytes", 0), len(col.get("violations", []))))
        # ---- model checking
        one = dict(nu=1, init=(11, 12), creds={1: 2})
        two = dict(nu=2, init=(11, 21), creds={1: 1, 2: 2})
        p1 = [(U, M, U, M), (S11, U, M), (S11, S12, U, M)]
        p2 = [(U, M, U, M), (S11, U, M)]
        jobs.mc("one_user", cfg(n(p1[:2], p1), inv=INV, traffic=n(2, 3), admin=ADMIN, maxadmin=1, **one), timeout=3000, workers=8)
        jobs.mc("two_users", cfg(n(p2[:1], p2), inv=INV, traffic=2, admin=n([], ADMIN), maxadmin=n(0, 1), **two), timeout=3000, workers=8)
        jobs.mc("ideal", cfg(p1[:2], inv=INV, dev=[], traffic=2, admin=ADMIN, maxadmin=1, **one), timeout=3000)
        # non-vacuity: a commit that does not reset the queue charges twice
        jobs.mc("neg_noreset", cfg([(U, M, U, M)], dev=panel.CODE_DEV + ["NoQueueReset"], inv="NeverMore", traffic=1, **one), expect="NeverMore")
        # ---- behaviours
        jobs.gen("round1", cfg([(U, M)], gates=GATES, depth=8, traffic=2, **one))
        jobs.gen("overlap", cfg([(U, M, U, M)], gates=GATES, depth=16, traffic=3, **one), simulate=n(120, 2500))
        jobs.gen("reap", cfg([(S11, U, M), (S11, S12, U, M)], gates=GATES, depth=18, traffic=3, admin=ADMIN, maxadmin=1, **one),
                 simulate=n(150, 3000))
        jobs.gen("two", cfg([(U, M, U, M), (S11, U, M, S21)], gates=GATES, depth=18, traffic=3, admin=ADMIN, maxadmin=1, **two),
                 simulate=n(120, 2000))
        gens = jobs.gens()
        for k in gens:
            if not gens[k]:
                raise lib.Inconclusive("TLC produced no behaviour for " + k)
        gens["round1"] = panel.thin(gens["round1"], n(150, 10 ** 9), ctx.seed)
        allb = [b for k in sorted(gens) for b in gens[k]]
        nterm = sum(1 for b in allb if any(x["cut"] for x in b["steps"][-1]["obs"]["obj"]))
        nrest = sum(1 for b in allb if any(b["steps"][-1]["obs"]["rest"]) and any(s["ev"]["a"] == "traffic" for s in b["steps"]))
        res = panel.replay_behaviours(ctx, allb)
        panel.classify(ctx, res, KEYS)
        mcs = jobs.wait_mc()
        div, unstable = panel.check_drift(ctx, [res])
        st = res.get("stats", {})
        cov = {
            "evaluations": res["evaluations"] + stress["evaluations"] + term["evaluations"],
            "distinct_nontrivial": res["distinct_nontrivial"] + stress["distinct_nontrivial"],
            "rule": RULE, "samples": (res.get("samples", []) + stress.get("samples", []))[:5],
            "traces_validated_against_impl": len(allb), "exhaustive": True,
            "behaviours_replayed": {k: len(gens[k]) for k in gens}, "replay_steps": st.get("steps", 0),
            "behaviours_with_terminating_upload": nterm, "behaviours_ending_at_rest_after_traffic": nrest,
            "stress": stress.get("stats", {}), "termination_stress": term.get("stats", {}), "code_dev": panel.CODE_DEV,
            "negative_configs": {k: mcs[k].violated for k in mcs if k.startswith("neg_")},
            "diverged": div, "unstable": unstable,
            "checker_cmd": "tlc UserPanel.tla / UserPanelGen.tla + go test -run 'TestVerifPanelReplay|TestVerifC16Stress'",
        }
        return lib.finish(ctx, LEVEL, cov, ASSUME)
    finally:
        jobs.close()


replay = panel.replay_file
