"""C20 - client configuration is honoured exactly as documented, in both input syntaxes
(spec/ClientConfig.tla, spec/ClientConfigGen.tla, harness/client/c20_test.go)."""
import copy
import json
import os
from concurrent.futures import ThreadPoolExecutor

import lib

LEVEL = "exploration"
ASSUME = [
    "the documentation is README.md (section Client), example_config/ckclient.json and the usage text of ck-client "
    "(-i -l -s -p -u); spec/ClientConfig.tla is a hand transcription of it, outputs it is silent about are "
    "'undocumented' and never judged (absent StreamTimeout/BrowserSig/Transport/NumConn/UDP/EncryptionMethod, unknown "
    "BrowserSig/Transport names)",
    "case variants of documented names (cdn/Cdn/Direct, FireFox, AES-GCM ...) denote the documented name (CaseFold=TRUE): "
    "the README writes `CDN` where the example file writes lower case and properties.jsonl quantifies over mixed-case names",
    "'keep-alive disabled' is judged at the consumer: net.Dialer.KeepAlive < 0 (cmd/ck-client/ck-client.go hands "
    "RemoteConnConfig.KeepAlive to net.Dialer unchanged)",
    "option strings are built the way SIP003 plugin hosts build them: key=value pairs joined by ';', with '\\', '=' and ';' "
    "inside values escaped by a backslash; only '\\=' occurs in the values used (base64 padding, '=' in CDNWsUrlPath)",
    "the four addresses reach ProcessRawConfig either as options or set on the RawConfig the way cmd/ck-client does; "
    "cmd/ck-client's own flag/env handling is not executed",
    "encoding/json, encoding/base64, net.JoinHostPort and net/url of the Go runtime are trusted",
    "the socket-level meaning of KeepAlive is read on Linux from the sockets ck-client's main() dials a loopback listener with "
    "(SO_KEEPALIVE, TCP_KEEPIDLE; the probe interval is not documented and only logged); main() runs in child processes of a "
    "package-main test binary, started in plugin mode (SS_* environment), with -c <file> and with -c <options>",
    "BrowserSig over retries: ClientHello signatures are classified by the size of the first flight (the C01 connector "
    "driver); the chrome -> firefox fallback is not in the README, it is judged only on the first attempt and otherwise "
    "taken from the comment in connector.go",
]

ALL = ["Transport", "BrowserSig", "CDNOriginHost", "CDNWsUrlPath", "RemoteHost", "NumConn", "KeepAlive",
       "StreamTimeout", "AlternativeNames", "EncryptionMethod", "UDP", "ServerName", "ProxyMethod", "UID",
       "PublicKey", "RemotePort", "LocalHost", "LocalPort"]
# options whose effects meet in one output (transport / websocket URL) or that the known defect lived in
CORE = ["Transport", "BrowserSig", "CDNOriginHost", "CDNWsUrlPath", "RemoteHost", "NumConn", "KeepAlive"]
CORE_T = CORE + ["StreamTimeout", "UDP"]
# output columns in the order ClientConfigGen!ExpFields prints them
EXP_FIELDS = ["outcome", "mode", "browser", "wsHost", "wsPath", "singleplex", "numConn", "keepAlive", "timeout",
              "names", "enc", "unordered", "dialer"]


# package main of ck-client is reached through the same overlay machinery as internal packages
lib.PKG_ALIAS.setdefault("cmd/ck-client", "../cmd/ck-client")


def sub_ctx(ctx, name):
    """lib.run_go writes <work>/overlay.json: concurrent go runs get work directories of their own (shared evidence lists)"""
    c = copy.copy(ctx)
    c.work = os.path.join(ctx.work, name)
    os.makedirs(c.work, exist_ok=True)
    return c


def main_part(ctx, q, rows_future):
    """the `dialer` column: rows KeepAlive x NumConn (x Transport) judged on ck-client's real main() in child processes"""
    _, r = rows_future.result()
    rows = [decode_row(line) for line in sorted(set(r.behaviours))]
    c = sub_ctx(ctx, "main")
    inp = lib.write_lines(os.path.join(c.work, "c20_main_rows.ndjson"), rows)
    res = lib.run_go(c, "cmd/ck-client", "TestVerifC20Main", env={"VERIF_IN": inp, "VERIF_C20_LAUNCHES": 1 if q else 3},
                     timeout=900 if q else 2400, tag="main")
    return rows, res


def connector_part(ctx, q, futures):
    """BrowserSig over retries: ClientSession scripts through C01's shared connector driver, configuration as text"""
    beh = []
    for f in futures:
        beh += f.result().behaviours
    c = sub_ctx(ctx, "connector")
    inp = lib.write_lines(os.path.join(c.work, "c20_connector.ndjson"), beh)
    res = lib.run_go(c, "server", "TestVerifC20Connector", env={"VERIF_IN": inp, "VERIF_C20_BOTH_SYNTAXES": 0 if q else 1},
                     timeout=900, tag="connector", prefixes=("c20", "c01", "shared"))
    return beh, res


def decode_row(line):
    """'<option values>|<expected outputs>' as printed by ClientConfigGen!Row -> {cfg: {...}, exp: {...}}"""
    left, right = line.split("|")
    cv, ev = left.split(","), right.split(",")
    if len(cv) != len(ALL) or len(ev) != len(EXP_FIELDS):
        raise lib.Inconclusive("unexpected row format from ClientConfigGen: %r" % line)
    exp = dict(zip(EXP_FIELDS, ev))
    exp["names"] = exp["names"].split("+")
    return {"cfg": dict(zip(ALL, cv)), "exp": exp}


def tla_set(xs):
    return "{" + ", ".join('"%s"' % x for x in xs) + "}"


def consts(free, maxdev, maxinvalid, casefold=True):
    return {"FREE": tla_set(free), "MAXDEV": maxdev, "MAXINVALID": maxinvalid,
            "CASEFOLD": "TRUE" if casefold else "FALSE"}


def jvm(ctx):
    # several small TLC runs share the machine: few GC threads and a bounded heap start (and finish) much faster
    # than the JVM defaults (16 GC threads, 1/4 of RAM) - measured 49 s -> 19 s for the t-wise run on a loaded box
    return {"JAVA_TOOL_OPTIONS": "-Xss64m -XX:ParallelGCThreads=2 -Xmx%s" % ("2g" if ctx.quick() else "6g")}


def gen(ctx, tag, free, maxdev, maxinvalid, simulate=None, workers=4, timeout=900):
    r = lib.run_tlc(ctx, "ClientConfigGen", "ClientConfigGen.cfg", consts(free, maxdev, maxinvalid), tag=tag,
                    workers=1 if simulate else workers, simulate=simulate, depth=len(ALL) + 2 if simulate else None,
                    timeout=timeout, env=jvm(ctx))
    lib.require_ok(r, tag)
    return tag, r


def run(ctx):
    q = ctx.quick()
    # 1. the table itself: totality, error-iff, the README sentences restated, silence, case-insensitivity and
    #    separability (each output depends on its own option only), under both readings of letter case
    mc_dev = 1 if q else 2
    jobs = []
    with ThreadPoolExecutor(max_workers=6) as ex:
        for cf in (True, False):
            jobs.append(ex.submit(lambda cf=cf: lib.require_ok(
                lib.run_tlc(ctx, "ClientConfig", "ClientConfig_mc.cfg", consts(ALL, mc_dev, 2, cf), workers=4,
                            tag="mc_casefold_%s" % cf, timeout=900, env=jvm(ctx)), "ClientConfig mc CaseFold=%s" % cf)))
        # 2. rows: exhaustive core + t-wise over all options (BFS), random rows of the full product (-simulate)
        plan = [
            ("core", CORE if q else CORE_T, 99, 1, None),
            ("twise", ALL, 3 if q else 4, 2, None),
            ("sim_valid", ALL, 99, 0, 1500 if q else 40000),
            ("sim_any", ALL, 99, 8, 500 if q else 10000),
        ]
        gens = [ex.submit(gen, ctx, *p) for p in plan]
        # 2b. timed behaviours of one proxy connection (spec/ClientTimeouts.tla): the behavioural meaning of StreamTimeout
        tl_steps = 4 if q else 6
        tl_job = ex.submit(lambda: lib.require_ok(lib.run_tlc(
            ctx, "ClientTimeoutsGen", "ClientTimeoutsGen.cfg", {"WAITS": "{1, 998, 3, 3000}", "MAXSTEPS": tl_steps},
            workers=2, tag="timeline", timeout=900, env=jvm(ctx)), "ClientTimeouts"))
        # 2c. the columns that only show outside ProcessRawConfig: what main() hands to net.Dialer (KeepAlive) and the
        #     signature of every ClientHello of MakeSession's retry loop (BrowserSig); small TLC runs first, then the two
        #     go runs proceed while the big enumerations are still going
        main_rows_job = ex.submit(gen, ctx, "main", ["KeepAlive", "NumConn"] if q else ["KeepAlive", "NumConn", "Transport"], 99, 0, None, 2)
        sess_jobs = [ex.submit(lambda br=br: lib.require_ok(lib.run_tlc(
            ctx, "ClientSessionGen", "ClientSessionGen.cfg", {"MAXFAIL": 2 if q else 3, "MODE": "direct", "BROWSER": br},
            workers=2, tag="session_%s" % br, timeout=900, env=jvm(ctx)), "ClientSessionGen")) for br in ("chrome", "firefox", "safari")]
        side = ThreadPoolExecutor(max_workers=2)
        main_job = side.submit(main_part, ctx, q, main_rows_job)
        conn_job = side.submit(connector_part, ctx, q, sess_jobs)
        for j in jobs:
            r = j.result()
            ctx.log("model check ClientConfig (MaxDev=%d): %d distinct states" % (mc_dev, r.distinct))
        rows, seen, per_source = [], set(), {}
        for g in gens:
            tag, r = g.result()
            n0 = len(rows)
            for line in r.behaviours:
                if line in seen:
                    continue
                seen.add(line)
                rows.append(decode_row(line))
            per_source[tag] = {"emitted": len(r.behaviours), "new_rows": len(rows) - n0, "tlc_distinct_states": r.distinct}
            ctx.log("gen %s: %d rows emitted, %d new" % (tag, len(r.behaviours), len(rows) - n0))
    if not rows:
        raise lib.Inconclusive("TLC produced no rows")
    for need in ("core", "twise", "sim_valid"):
        if per_source[need]["emitted"] == 0:
            raise lib.Inconclusive("TLC run %s emitted no rows" % need)
    inp = lib.write_lines(os.path.join(ctx.work, "c20_rows.ndjson"), rows)
    tl = tl_job.result()
    if not tl.behaviours:
        raise lib.Inconclusive("ClientTimeoutsGen emitted no behaviours")
    tin = lib.write_lines(os.path.join(ctx.work, "c20_timeline.ndjson"), tl.behaviours)
    tl_configs = 2 if q else 10
    ctx.log("timeline: %d behaviours of ClientTimeouts (<= %d steps, %d states)" % (len(tl.behaviours), tl_steps, tl.distinct))
    # 3. replay into the real ParseConfig + ProcessRawConfig, both syntaxes
    variants = 2 if q else 3
    #    ... and, in the same test binary, the proof that the oracle is alive: on up to 50 valid rows with a positive
    #    KeepAlive the expectation is falsified ("disabled"); the harness must notice every one of them
    probe = [r for r in rows if r["exp"]["keepAlive"] == "N" and r["exp"]["outcome"] == "ok"][:50]
    if not probe:
        raise lib.Inconclusive("no valid row with a positive KeepAlive was generated")
    pin = lib.write_lines(os.path.join(ctx.work, "c20_probe.ndjson"), probe)
    res = lib.run_go(ctx, "client", "TestVerifC20Replay",
                     env={"VERIF_IN": inp, "VERIF_C20_VARIANTS": variants, "VERIF_C20_PROBE": pin,
                          "VERIF_C20_TIMELINE": tin, "VERIF_C20_TIMELINE_CONFIGS": tl_configs})
    lib.collect_go(ctx, res)
    if res["stats"].get("timeline:evaluations", 0) < len(tl.behaviours):
        raise lib.Inconclusive("the timeline part replayed only %s evaluations of %d behaviours"
                               % (res["stats"].get("timeline:evaluations", 0), len(tl.behaviours)))
    if res["stats"].get("probe:noticed", 0) != len(probe) or res["stats"].get("probe:rows", 0) != len(probe):
        raise lib.Inconclusive("falsified expectation (KeepAlive) was noticed on %s of %d probe rows: the oracle is blind"
                               % (res["stats"].get("probe:noticed", 0), len(probe)))
    # 3b. the side runs
    main_rows, mres = main_job.result()
    scripts, cres = conn_job.result()
    side.shutdown()
    lib.collect_go(ctx, mres)
    lib.collect_go(ctx, cres)
    mstats, cstats = mres["stats"], cres["stats"]
    ok_rows = [r for r in main_rows if r["exp"]["outcome"] == "ok"]
    if mstats.get("main:no-loopback"):
        raise lib.Inconclusive("loopback TCP is not available: the dialer column cannot be observed (%s)" % mres.get("notes"))
    if mstats.get("main:child-failed") or mstats.get("main:children", 0) < len(ok_rows):
        raise lib.Inconclusive("ck-client main() harness: %s children failed, %s of %d rows judged: %s"
                               % (mstats.get("main:child-failed", 0), mstats.get("main:children", 0), len(ok_rows), mres.get("notes")))
    if cstats.get("connector:diverged") or cstats.get("connector:scripts", 0) < len(scripts):
        raise lib.Inconclusive("connector scripts could not be followed (%s of %d, diverged %s): %s"
                               % (cstats.get("connector:scripts", 0), len(scripts), cstats.get("connector:diverged", 0), cres.get("notes")))
    ctx.log("main(): %d children, %d dialed sockets inspected; connector: %d scripts" %
            (mstats.get("main:children", 0), mstats.get("main:sockets", 0), cstats.get("connector:scripts", 0)))
    stats = res["stats"]
    cov = {
        "evaluations": res["evaluations"] + mres["evaluations"] + cres["evaluations"],
        "distinct_nontrivial": res["distinct_nontrivial"] + mres["distinct_nontrivial"] + cres["distinct_nontrivial"],
        "rule": "rows = terminal states of ClientConfigGen: (core) the full product of %s with the other options at the "
                "example configuration; (twise) every combination of values of any %d options, the rest at the example "
                "configuration, at most 2 required fields missing/malformed; (sim) uniformly random rows of the full "
                "product by TLC -simulate, once with all required fields present and once unrestricted. Each row is run "
                "with %d concretisations x 2 syntaxes. non-trivial = differs from the example configuration; distinct = "
                "distinct abstract rows. Timeline: every maximal behaviour of ClientTimeoutsGen with <= %d steps (pauses of "
                "1, 998, 3 and 3000 thousandths of StreamTimeout, first bytes, upload, download), each replayed on the real "
                "RouteTCP under %d of 10 processed configurations (StreamTimeout 1, 7, 300, 0, absent x NumConn 4, 0) on a "
                "virtual clock. Dialer: rows KeepAlive x NumConn%s of ClientConfigGen, each run through ck-client's real main() in a child "
                "process (%d of the launch modes plugin / file / options per row), SO_KEEPALIVE and TCP_KEEPIDLE of every dialed socket "
                "read. BrowserSig over retries: every script of ClientSessionGen with <= %d failed attempts for chrome, firefox, "
                "safari replayed on MakeSession through the C01 connector driver, configuration as JSON file / option string" % ("x".join(CORE if q else CORE_T), 3 if q else 4, variants, tl_steps, tl_configs,
                                                                        "" if q else " x Transport", 1 if q else 3, 2 if q else 3),
        "samples": res["samples"] + mres["samples"][:2],
        "main_harness_stats": mstats,
        "connector_stats": cstats,
        "connector_scripts": len(scripts),
        "traces_validated_against_impl": len(rows) + len(tl.behaviours) + len(ok_rows) + len(scripts),
        "timeline_behaviours": len(tl.behaviours),
        "timeline_evaluations": stats.get("timeline:evaluations", 0),
        "rows_replayed": len(rows),
        "rows_by_source": per_source,
        "rows_by_expected_outcome": {k[len("outcome:"):]: v for k, v in stats.items() if k.startswith("outcome:")},
        "harness_stats": {k: v for k, v in stats.items() if not k.startswith(("undoc:", "outcome:"))},
        "undocumented_observed": {k[len("undoc:"):]: v for k, v in sorted(stats.items()) if k.startswith("undoc:")},
        "full_product_rows": 7 * 8 * 2 * 2 * 2 * 4 * 4 * 3 * 6 * 12 * 3 * 2 * 2 * 3 * 3 * 2 * 2 * 2,
        "states": sum(r["distinct"] for r in ctx.tlc_runs),
        "transitions": sum(r["generated"] for r in ctx.tlc_runs),
        "exhaustive": True,
        "exhaustive_scope": "the decision table within the stated bounds (core product and t-wise), not the full product",
        "oracle_probe": "falsified KeepAlive expectation noticed on %d rows" % len(probe),
        "checker_cmd": "tlc ClientConfig.tla (ClientConfig_mc.cfg) / ClientConfigGen.tla / ClientTimeoutsGen.tla + go test -run TestVerifC20Replay ./internal/client/ + go test -run TestVerifC20Main ./cmd/ck-client/ + "
                       "ClientSessionGen.tla + go test -run TestVerifC20Connector ./internal/server/",
    }
    return lib.finish(ctx, LEVEL, cov, ASSUME)


def replay(ctx, path):
    rp = json.load(open(path)).get("replay") or {}
    env = {"VERIF_REPLAY": os.path.abspath(path)}
    if "main" in rp:
        res = lib.run_go(ctx, "cmd/ck-client", "TestVerifC20Main", env=env, extra_args=["-v"])
    elif "connector" in rp:
        res = lib.run_go(ctx, "server", "TestVerifC20Connector", env=env, extra_args=["-v"], prefixes=("c20", "c01", "shared"))
    else:
        res = lib.run_go(ctx, "client", "TestVerifC20Replay", env=env, extra_args=["-v"])
    print(open(os.path.join(res["_out_dir"], "go.out")).read())
    return 0
