"""C08 - a captured handshake can never be replayed successfully (spec/ReplayCache*.tla).

1. ReplayCache.tla is model-checked exhaustively with the code-faithful constants (Dev = {}, R = 2W):
   AtMostOnce must hold.  Negative configurations prove the invariant is not vacuous: either deviation
   flag (the two defects fixed in /repo) and a retention one tick below 2(W-1) must each give a
   counter-example, R = 2(W-1) must still hold (the bound is tight).
2. ReplayCacheGen.tla exports histories (BFS: every history of the small bounds; -simulate: samples of the
   large bounds; EmitCex: every counter-example history of the deviating models) and the Go harness
   replays each of them on a real State inside a synctest bubble (real cleaner goroutines, real
   AuthFirstPacket, packets of the real client, both transports).
3. Altered copies (all single-bit flips, multi-bit flips, re-wrapping), gate and N-fold simultaneous runs.
"""
import concurrent.futures
import json
import os

import lib

LEVEL = "model_checking"
ASSUME = [
    "the server clock (State.WorldState.Now) is monotone; client clocks are within one model tick of it when the packet is sealed (a stamp further ahead is refused and consumed, never accepted twice)",
    "model time is ticks with W = 2; every tick length in [tolerance/2, tolerance) is a sound concretisation and eight of them (edges 177 s ... 181 s of the window, 358 s ... 362 s of the retention, sub-second phases) are replayed; the harness re-checks this arithmetic against the constants of the code under test",
    "a presentation that waits for the lock held by the sweep has no effect until it gets it (it reads the clock afterwards), so 'arrives during the sweep' and 'directly after the sweep' are one model history; the driver realises both",
    "two clean-ups closer than the 12 h period are allowed in the model (over-approximation); on the code each is the first firing of its own real UsedRandomCleaner goroutine",
    "X25519 public keys other than the client's own encoding and its bit-255 twin that give the same secret (u + p for u < 19) occur with probability 2^-250 and are not constructed",
    "AES-GCM and X25519 are trusted: a copy with a different sealed block does not authenticate",
    "AuthFirstPacket reads the clock twice (registerRandom, then decryptClientInfo); the model treats a presentation as one instant, i.e. the two reads are assumed less than 1 s apart (the margin the code keeps on top of 2*tolerance)",
]

BASE = {"W": 2, "R": 4, "H": 8, "NP": 2, "MP": 4, "MC": 2, "SK": 1, "DEV": "{}", "CAP": 2, "MF": 0, "INV": "TypeOK AtMostOnce Remembered"}


def _sub(**kw):
    d = dict(BASE)
    d.update(kw)
    return d


# several TLC instances run side by side: keep each JVM's helper threads few; short jobs stay in the C1 compiler
JVM_SMALL = {"JAVA_TOOL_OPTIONS": "-Xss64m -XX:ParallelGCThreads=2 -XX:TieredStopAtLevel=1"}
JVM_BIG = {"JAVA_TOOL_OPTIONS": "-Xss64m -XX:ParallelGCThreads=4"}


def _mc(ctx, tag, expect=None, **kw):
    # the negative configurations stop after a few hundred states: a few workers are enough
    return lib.run_tlc(ctx, "ReplayCache", "ReplayCache_mc.cfg", _sub(**kw), tag=tag, expect_violation=bool(expect),
                       workers=4 if expect else max(4, lib.NCPU // 2), timeout=1500,
                       env=JVM_SMALL if expect else JVM_BIG)


def _gen(ctx, tag, cex=False, simulate=None, depth=None, split=False, **kw):
    s = _sub(**kw)
    s["CEX"] = "TRUE" if cex else "FALSE"
    s["SPLIT"] = "TRUE" if split else "FALSE"
    s["INV"] = kw.get("INV", "TypeOK")
    r = lib.run_tlc(ctx, "ReplayCacheGen", "ReplayCacheGen.cfg", s, tag=tag, simulate=simulate, depth=depth,
                    workers=1 if simulate else 4, timeout=1500, env=JVM_SMALL)
    lib.require_ok(r, tag)
    for b in r.behaviours:
        b["src"] = tag
    return r


def run(ctx):
    q = ctx.quick()
    # 0. the statement at the level of the server's stable entry points (harness/server/api08_test.go): survives a change of
    # the replay cache's representation that the main harness (which reads the cache) would not compile against
    api = lib.run_go(ctx, "server", "TestVerifApi08", prefixes=("api08",), tag="api08", timeout=600)
    lib.collect_go(ctx, api)
    ctx.log("entry-point level: %d presentations pairs (same / other transport, bit 255, in turn / at once), %d violations" % (
        api["evaluations"], len(api.get("violations", []))))
    if api["stats"].get("none_accepted", 0):
        raise lib.Inconclusive("api08: genuine first packets did not authenticate: %s" % api.get("notes"))
    if [v for v in ctx.violations]:
        return lib.finish(ctx, LEVEL, {"evaluations": api["evaluations"], "distinct_nontrivial": api["distinct_nontrivial"],
                                       "rule": "entry-point level presentations only (the run stopped at the first stage)",
                                       "samples": api.get("samples", [])[:1] or [v.get("what") for v in ctx.violations[:1]],
                                       "traces_validated_against_impl": 0, "exhaustive": False}, ASSUME)
    jobs = {}
    pool = concurrent.futures.ThreadPoolExecutor(max_workers=4)

    def submit(name, fn, *a, **kw):
        jobs[name] = pool.submit(fn, ctx, name, *a, **kw)

    # ---- 1. model checking (the cleaner is CleanBegin / CleanVisit* / CleanEnd, time passes in between) --------
    if q:
        submit("mc_faithful", _mc, H=6)                                       # W=2 R=4, 2 packets, 4 presentations, 2 sweeps
        submit("mc_tight_holds", _mc, R=2, H=4)
    else:
        submit("mc_faithful", _mc, H=9, MP=5)
        submit("mc_faithful_3p", _mc, NP=3, H=4, MP=4)
        submit("mc_tight_holds", _mc, R=2, H=8)
        submit("mc_w3_faithful", _mc, W=3, R=6, SK=2, H=8)
        submit("mc_w3_tight_holds", _mc, W=3, R=4, SK=2, H=8)
        submit("neg_w3_retention_short", _mc, "AtMostOnce", W=3, R=3, SK=2, H=9, INV="TypeOK AtMostOnce")
        # client clocks ahead by the whole window: the stamp is refused and consumed first, never accepted twice
        submit("mc_skew_w", _mc, SK=2, INV="TypeOK AtMostOnce")
        submit("mc_skew_w_tight", _mc, SK=2, R=2, INV="TypeOK AtMostOnce")
    submit("neg_cleaner_purges_all", _mc, "AtMostOnce", DEV='{"CleanerPurgesAll"}', INV="TypeOK AtMostOnce")
    submit("neg_cache_key_raw", _mc, "AtMostOnce", DEV='{"CacheKeyRaw"}', INV="TypeOK AtMostOnce")
    submit("neg_retention_short", _mc, "AtMostOnce", R=1, INV="TypeOK AtMostOnce")
    submit("neg_cleaner_snapshot_swap", _mc, "AtMostOnce", DEV='{"CleanerSnapshotSwap"}', INV="TypeOK AtMostOnce")
    submit("neg_check_then_register", _mc, "AtMostOnce", DEV='{"CheckThenRegister"}', INV="TypeOK AtMostOnce")
    submit("neg_forget_when_full", _mc, "AtMostOnce", DEV='{"ForgetWhenFull"}', MF=2, INV="TypeOK AtMostOnce")
    if not q:  # foreign first packets take room in the faithful model too (and change nothing)
        submit("mc_foreign", _mc, MF=3, H=5, MP=3, MC=1)

    # ---- 2. histories --------------------------------------------------------------------------------
    small = dict(NP=1, H=3, MP=3, MC=2)
    if q:
        submit("bfs_r4", _gen, INV="TypeOK AtMostOnce", **small)                        # every in-window interplay
        submit("bfs_r2_evict", _gen, INV="TypeOK AtMostOnce", R=2, NP=1, H=4, MP=2, MC=1)  # presentation after eviction
        submit("bfs_split", _gen, INV="TypeOK AtMostOnce", split=True, NP=1, H=3, MP=3, MC=1)  # time passes inside the sweep
        sims = [("sim_r4", 4, 250), ("sim_r3", 3, 150), ("sim_r2", 2, 250)]
    else:
        submit("bfs_r4", _gen, INV="TypeOK AtMostOnce", NP=1, H=3, MP=4, MC=2)              # 25 872 histories
        submit("bfs_r4_evict", _gen, INV="TypeOK AtMostOnce", NP=1, H=6, MP=3, MC=1)        # 12 096
        submit("bfs_r2_evict", _gen, INV="TypeOK AtMostOnce", R=2, NP=1, H=4, MP=3, MC=2)   #  9 864
        submit("bfs_2p", _gen, INV="TypeOK AtMostOnce", NP=2, H=2, MP=3, MC=1)              # 43 728
        submit("bfs_split", _gen, INV="TypeOK AtMostOnce", split=True, R=2, NP=1, H=4, MP=3, MC=1)   # 10 920
        submit("bfs_split_2p", _gen, INV="TypeOK AtMostOnce", split=True, NP=2, H=1, MP=3, MC=1)     # 18 144
        sims = [("sim_r4", 4, 3000), ("sim_r3", 3, 1500), ("sim_r2", 2, 3000)]
    for name, r_, num in sims:
        submit(name, _gen, INV="TypeOK AtMostOnce", R=r_, simulate=num, depth=60)
    submit("sim_split", _gen, INV="TypeOK AtMostOnce", split=True, simulate=sims[0][2] // 2, depth=80)
    # every counter-example history of the deviating models (bounded) - replayed on the code as well
    submit("cex_cleaner_purges_all", _gen, cex=True, DEV='{"CleanerPurgesAll"}', **small)
    submit("cex_cache_key_raw", _gen, cex=True, DEV='{"CacheKeyRaw"}', NP=1, H=3, MP=3, MC=1)
    submit("cex_retention_short", _gen, cex=True, R=1, NP=1, H=4, MP=3, MC=2)
    # a presentation in the gap between the sweep's snapshot and its swap (needs a second block to be lost)
    submit("cex_snapshot_swap_2p", _gen, cex=True, split=True, DEV='{"CleanerSnapshotSwap"}', NP=2, H=1, MP=3, MC=1)
    # flood histories: foreign first packets between the acceptance of a packet and its replay
    flood_bounds = dict(NP=1, H=1, MP=2, MC=0, MF=2)
    submit("bfs_flood", _gen, INV="TypeOK AtMostOnce", **flood_bounds)
    submit("cex_forget_when_full", _gen, cex=True, DEV='{"ForgetWhenFull"}', **flood_bounds)
    if not q:
        submit("cex_cleaner_purges_all_2p", _gen, cex=True, DEV='{"CleanerPurgesAll"}', NP=2, H=2, MP=3, MC=1)
        submit("cex_cache_key_raw_2p", _gen, cex=True, DEV='{"CacheKeyRaw"}', NP=2, H=2, MP=3, MC=0)

    # the stress run needs no model output: start it now, next to TLC
    stress_f = pool.submit(lib.run_go, ctx, "server", "TestVerifC08(Stress|SweepStress)", None, 1500, None, False,
                           "TestVerifC08Stress")

    res = {}
    for name, f in jobs.items():
        res[name] = f.result()
    pool.shutdown(wait=False)

    for name, r in res.items():
        if name.startswith("mc_"):
            lib.require_ok(r, name)
            ctx.log("%s: AtMostOnce holds, %d distinct states (%.1fs)" % (name, r.distinct, r.wall))
        elif name.startswith("neg_"):
            if r.violated != "AtMostOnce":
                raise lib.Inconclusive("negative configuration %s did not violate AtMostOnce (got %s): the invariant "
                                       "would be vacuous" % (name, r.violated))
            ctx.log("%s: counter-example after %d distinct states, as required" % (name, r.distinct))
    behaviours, seen = [], set()
    floods = []
    per_src = {}
    for name, r in res.items():
        if not (name.startswith("bfs_") or name.startswith("sim_") or name.startswith("cex_")):
            continue
        n = 0
        for b in r.behaviours:
            k = json.dumps([b["dev"], b["r"], b["steps"]], sort_keys=True)
            if k in seen:
                continue
            seen.add(k)
            n += 1
            if name in ("bfs_flood", "cex_forget_when_full"):
                # worth a million insertions: an accepted packet, at least `cap` foreign bursts, the packet again
                acts = [st["a"] for st in b["steps"]]
                if acts.count("Foreign") >= b.get("cap", 2) and b["steps"][-1]["a"] == "Present" and \
                        any(st["a"] == "Present" and st["ok"] for st in b["steps"][:-1]) and \
                        acts.index("Foreign") > acts.index("Present"):
                    floods.append(b)
                continue
            behaviours.append(b)
        per_src[name] = n
        ctx.log("%s: %d histories" % (name, n))
        if n == 0:
            raise lib.Inconclusive("TLC produced no history for %s" % name)
    inp = lib.write_lines(os.path.join(ctx.work, "c08_histories.ndjson"), behaviours)
    per_flood_src = 1 if q else 4
    chosen = []
    for src in ("bfs_flood", "cex_forget_when_full"):
        cand = [b for b in floods if b["src"] == src]
        start = ctx.seed % max(1, len(cand))
        chosen += (cand[start:] + cand[:start])[:per_flood_src]
    if len(chosen) < 2:
        raise lib.Inconclusive("TLC produced no flood history")
    flood_inp = lib.write_lines(os.path.join(ctx.work, "c08_floods.ndjson"), chosen)
    # 2^20 + 2^16; thorough also 2^21 + 1 and 3 * 2^20 (bounds at other powers of two would show as well)
    flood_sizes = "1114112" if q else "1114112,2097153,3145728"

    # ---- 3. the code ---------------------------------------------------------------------------------
    g = lib.run_go(ctx, "server", "TestVerifC08(Replay|Variants|Gate|Flood)", tag="TestVerifC08Main", timeout=2400,
                   env={"VERIF_IN": inp, "VERIF_C08_CONCS": 2 if q else 4, "VERIF_FLOOD_IN": flood_inp,
                        "VERIF_C08_FLOOD_SIZES": flood_sizes, "VERIF_C08_FLOOD_VIA_AUTH": 2048 if q else 8192})
    lib.collect_go(ctx, g)
    # a presentation is not an instant at the dispatcher: slow first packets stalled across a clean-up (virtual clock)
    slow = lib.run_go(ctx, "server", "TestVerifC08SlowPacket", tag="slow_packet", timeout=900)
    lib.collect_go(ctx, slow)
    if slow["stats"].get("slow_first_not_accepted", 0):
        raise lib.Inconclusive("slow-packet stage: genuine handshakes were not accepted: %s" % slow.get("notes", [])[:2])
    ctx.log("slow first packets stalled across a clean-up: %d scenarios, %d violations" % (slow["stats"].get("slow_packet_scenarios", 0), len(slow.get("violations", []))))
    st = stress_f.result()
    if st.get("_died"):
        # a broken tree can take the process down (the Go runtime aborts on unsynchronised map writes);
        # that is not by itself a verdict on C08 - keep what was recorded
        for v in st.get("violations", []):
            ctx.violations.append(v)
        ctx.notes.append("stress run died: " + (st.get("_stdout_tail") or "")[-600:])
        if not ctx.violations:
            raise lib.Inconclusive("stress harness died mid-run: %s" % st.get("_stdout_tail"))
    else:
        lib.collect_go(ctx, st)
    gs = g["stats"]
    ctx.log("replay: %d histories, %d runs, %d presentations, %d in-window replay attempts, mismatches=%d, "
            "nc_diff=%d why_diff=%d, %d real clean-ups (%d evicting)" % (
                gs.get("histories", 0), sum(v for k, v in gs.items() if k.startswith("src:")),
                gs.get("presentations", 0), gs.get("replay_attempts_in_window", 0),
                gs.get("mismatch", 0), gs.get("nc_diff", 0), gs.get("why_diff", 0),
                gs.get("clean_steps", 0), gs.get("clean_steps_evicting", 0)))
    ctx.log("presentations that arrived while the real sweep was parked: %d (%d queued on the lock, %d ran during the sweep)" % (
        gs.get("early_presentations", 0), gs.get("early_queued_on_lock", 0), gs.get("early_ran_during_sweep", 0)))
    ctx.log("flood: %d runs, %d foreign first packets, %.1f s, heap peak %d MB" % (
        gs.get("flood_runs", 0), gs.get("flood_foreign_packets", 0), gs.get("flood_wall_ms", 0) / 1000.0,
        gs.get("flood_heap_mb_max", 0)))
    ctx.log("variants still authenticating on their own: %d; gate: %d schedule points x %d rounds, second presenter waited "
            "%d / returned %d; stress rounds %s" % (
                gs.get("variants_still_authenticating", 0), gs.get("gate_points", 0), gs.get("gate_rounds", 0),
                gs.get("gate_second_waited", 0), gs.get("gate_second_returned_while_first_parked", 0),
                {k: v for k, v in st.get("stats", {}).items() if "stress_rounds" in k}))
    reproduced = sum(v for k, v in gs.items() if k.startswith("cex_reproduced:"))
    if reproduced and not ctx.violations:
        raise lib.Inconclusive("counter-examples reproduced without a recorded violation")
    if gs.get("mismatch", 0) and not ctx.violations:
        raise lib.Inconclusive("model drift: on %d replay runs the code's accept/reject differs from ReplayCache "
                               "(Dev = {}) although the property held; notes: %s" % (gs["mismatch"], g.get("notes")))
    if gs.get("nc_diff", 0) or gs.get("why_diff", 0):
        ctx.notes.append("internal quantities differ from the model although accept/reject agrees: cache-entry count on %d "
                         "steps, error class on %d steps (logged, not a verdict: e.g. a tree that does not let a refused "
                         "packet consume its random)" % (gs.get("nc_diff", 0), gs.get("why_diff", 0)))
    for n in g.get("notes", []) + st.get("notes", []):
        ctx.notes.append(n)

    cov = {
        "evaluations": g["evaluations"] + st["evaluations"],
        "distinct_nontrivial": g["distinct_nontrivial"] + st["distinct_nontrivial"],
        "rule": "histories = every maximal path of ReplayCacheGen for the small bounds (%s; either byte variant, clean-ups at "
                "any phase, client skew -1..+1) + TLC -simulate paths of the model-checked bounds (2 blocks, clock 0..8, "
                "4 presentations, 2 clean-ups) + every counter-example history of the three deviating models (same small "
                "bounds, plus those of the snapshot-swap sweep) + histories whose sweeps are CleanBegin/CleanVisit/CleanEnd with time passing in between; each is run under %s of the 8 tick concretisations (one-block counter-example histories: all 8), transports alternating; where a presentation directly follows a sweep, one more run lets it ARRIVE while the real sweep is parked at a WorldState.Now() call (it queues on the lock) and releases the sweep afterwards; flood histories (an accepted packet, 2^20+2^16 and more distinct foreign first packets inside its window, the packet again) run on a real State with a hand-driven clock; non-trivial = "
                "a block is presented again after it was accepted (histories), an altered copy that still authenticates "
                "on its own (variants), every gate/stress round; distinct = distinct action lists / alterations" % (
                    "1 block: clock 0..3 x 3 presentations x 2 clean-ups, clock 0..4 x 3 x 1" if q else
                    "1 block: clock 0..3 x 4 presentations x 2 clean-ups, 0..6 x 3 x 1, 0..4 x 3 x 2; 2 blocks: clock 0..2 x 3 x 1",
                    "2 (rotating)" if q else "4 (rotating)"),
        "samples": g["samples"] + st["samples"],
        "traces_validated_against_impl": int(gs.get("histories", 0)),
        "histories_by_source": per_src,
        "replay_runs": sum(v for k, v in gs.items() if k.startswith("src:")),
        "counter_examples_of_deviating_models_replayed": sum(v for k, v in gs.items() if k.startswith("cex_")),
        "counter_examples_reproduced_on_code": reproduced,
        "exhaustive": True,
        "checker_cmd": "tlc ReplayCache.tla (mc + 6 negative configs) / ReplayCacheGen.tla + go test -run TestVerifC08",
        "harness_stats": {"main": gs, "stress": st.get("stats", {})},
    }
    return lib.finish(ctx, LEVEL, cov, ASSUME)


def replay(ctx, path):
    doc = json.load(open(path))
    kind = (doc.get("replay") or {}).get("kind", "history")
    test = {"history": "TestVerifC08Replay", "variant": "TestVerifC08Variants", "gate": "TestVerifC08Gate",
            "stress": "TestVerifC08Stress", "sweepstress": "TestVerifC08SweepStress", "flood": "TestVerifC08Flood"}.get(kind, "TestVerifC08Replay")
    res = lib.run_go(ctx, "server", test, env={"VERIF_REPLAY": os.path.abspath(path)}, extra_args=["-v"])
    print(open(os.path.join(res["_out_dir"], "go.out")).read())
    for v in res.get("violations", []):
        print("REPLAY-RESULT key=%r what=%r" % (v.get("key"), v.get("what")))
    return 0
