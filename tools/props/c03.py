"""C03 - closing a stream delivers everything written before it, then end-of-stream (spec/Mux.tla, feature "close")."""
from props import muxcommon as mx, muxprop

LEVEL = "model_checking"
ASSUME = [
    "connections are reliable FIFO (vnet); exhaustive for <= 2 connections, <= 2 streams, <= 2 units per direction",
    "Stream.Close is modelled as one step (it runs under the stream's write mutex); its interleaving with a concurrent Write is C13's gate test",
]
KEYS = {"bytes-wrong", "bytes-missing", "eof-early", "eof-missing", "read-blocked", "write-after-close", "call-blocked",
        "session-died", "close-not-last"}
RULE = ("behaviours of MuxGen with stream closes by either or both sides at any point (closing frame overtaking or trailing data on "
        "another connection is one of the delivery orders), parked readers, lazy readers and singleplex sessions; exhaustive BFS for "
        "2 conns/1 stream/1 unit each way, TLC -simulate beyond; non-trivial = contains a close, a parked read or an overtaking delivery")


def run(ctx):
    q = ctx.quick()
    C = mx.cfg
    mcs = [("close_2c1s", C(nc=2, ns=1, units=2, maxwrite=2, feat='"swrite","close","blockread"'), 900)]
    if not q:
        mcs += [("close_2c2s", C(nc=2, ns=2, units=1, maxwrite=1, feat='"swrite","close"'), 1800),
                ("close_lazy", C(nc=2, ns=1, units=2, maxwrite=1, feat='"swrite","close","lazy"'), 1800),
                ("close_single", C(nc=1, ns=2, units=2, maxwrite=1, single="TRUE", feat='"swrite","close","blockread"'), 1800)]
    gens = [("close_bfs", C(nc=2, ns=1, units=1, maxwrite=1, feat='"swrite","close"'), 30, 1, None, 2, {"allconc": not q}),
            ("close_block", C(nc=2, ns=1, units=2, maxwrite=2, feat='"swrite","close","blockread"'), 40, 1, 250 if q else 4000, 2, {}),
            ("close_lazy", C(nc=3, ns=2, units=2, maxwrite=1, feat='"swrite","close","lazy","readfrom"'), 60, 1, 200 if q else 3000, 3, {}),
            ("close_single", C(nc=1, ns=2, units=2, maxwrite=1, single="TRUE", feat='"swrite","close","blockread"'), 40, 1,
             150 if q else 2000, 1, {"singleplex": True})]
    return muxprop.run_property(ctx, LEVEL, ASSUME, KEYS, mcs, gens, RULE, extra=wake_race)


def wake_race(ctx):
    import lib
    res = lib.run_go(ctx, "multiplex", "TestVerifC03WakeRace", timeout=900)
    lib.collect_go(ctx, res)
    ctx.log("wake-up race: %d trials, %d violations" % (res["stats"].get("trials", 0), len(res.get("violations", []))))
    qd = lib.run_go(ctx, "multiplex", "TestVerifC03Queued", timeout=900, tag="queued")
    lib.collect_go(ctx, qd)
    ctx.log("queued / stalled sender scenarios: %d, %d violations, %d unjudged" % (qd["evaluations"], len(qd.get("violations", [])), qd["stats"].get("unjudged", 0)))
    # whether the peer is told about a close must not depend on the random draws inside the close (filler length of the
    # closing frame, padding of a stream's first frames): bulk closes on healthy sessions (driver shared with C13)
    cb = lib.run_go(ctx, "multiplex", "TestVerifC13CloseBulk", timeout=1200, tag="close_bulk", prefixes=("c13", "shared"))
    for v in cb.get("violations", []):
        ctx.violations.append(dict(v, key="eof-missing", what="the end of the stream never reaches the peer: " + v.get("what", "")))
    if cb.get("_died") or not cb.get("complete", False):
        raise lib.Inconclusive("bulk close driver died: %s" % cb.get("_stdout_tail"))
    ctx.log("close bulk: %d closes, %d violations" % (cb["stats"].get("bulk_closes", 0), len(cb.get("violations", []))))
    out = {"evaluations": res["stats"].get("trials", 0) + qd["evaluations"] + cb["evaluations"], "close_bulk_closes": cb["stats"].get("bulk_closes", 0), "distinct_nontrivial": res["distinct_nontrivial"], "samples": res["samples"][:1],
           "traces": 0, "wake_race_trials": res["stats"].get("trials", 0)}
    if not ctx.quick():
        # the receive pipe under the stream (spec/StreamPipe.tla, extra X01): every short schedule of Read / Write / the
        # closing frame's Close with parked readers, replayed on the real pipes; its end-of-stream and wake-up verdicts are
        # C03's (keys mapped by x01.C03_KEYMAP), the rest (deadlines, back-pressure) is reported under X01 only
        from props import x01
        pc = x01.stage(ctx)
        out["pipe_replay"] = {k: pc.get(k) for k in ("evaluations", "distinct_nontrivial", "traces_validated_against_impl")}
        out["evaluations"] += pc.get("evaluations", 0)
    return out


replay = muxprop.replay_file
