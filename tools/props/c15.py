"""C15 - connections join the right session; the per-user session cap is never exceeded (spec/UserPanel*.tla;
shared machinery in props/c17.py)."""
import lib
from props import c17 as panel
from props.c17 import op, cfg

LEVEL = "model_checking"
KEYS = ("onesession", "cap", "start")
ASSUME = [
    "connection admission is the sequence of dispatcher.go:231-252 (GetUser, hook dispatch.user.resolved, GetSession, CloseSession "
    "on error, reply key = sesh.GetSessionKey()) called directly on a real userPanel; the handshake in front of it is C06/C07's subject",
    "every user with a cap >= 1 keeps one long-lived session (id 0), so closures never concern a user's last session - that race is "
    "C17's; the two C17 schedules that end in two live sessions for one (UID, session id) are replayed as boundary scenarios because "
    "the statement of C15 is what they break",
    "SessionsCap is constant during a behaviour; credit and expiry change through the manager (top-up, set to zero, expire, un-expire)",
    "exhaustive for <= 4 simultaneous connections over 2 session ids x 2 users, caps 0..2; TLC -simulate beyond",
    "all users are limited users",
]
RULE = ("B1: maximal behaviours of UserPanelGen for programs of 3-5 connections (and re-opening goroutines) presenting 1-3 distinct "
        "(UID, session id) pairs, goroutines parked at dispatch.user.resolved, user.getsession.miss (inside the critical section), "
        "after a failed GetSession and at user.closesession.unlocked, credit/expiry changes between steps; exhaustive BFS for 3 "
        "connections, TLC -simulate for more. B2: waves of N in {2,8,32} really simultaneous admissions. non-trivial = two goroutines "
        "inside an operation at once or one blocked on sessionsM; distinct = distinct (program, schedule)")

A10, A20 = 10, 20  # long-lived sessions (user, id 0)
C11, C12, C21, C22 = op("conn", 1, 1), op("conn", 1, 2), op("conn", 2, 1), op("conn", 2, 2)
R11, R12 = op("connr", 1, 1), op("connr", 1, 2)
INV = "OneSession Cap NoStartWhenBroke NoDeadlock Owned TerminatedHasNone"
GATES = ["resolved", "miss", "failed", "unlocked"]
ADMIN = ["drain", "topup", "expire", "unexpire"]


def run(ctx):
    q = ctx.quick()
    n = (lambda a, b: a if q else b)
    jobs = panel.Jobs(ctx)
    try:
        # B2 first (no TLC input)
        conc = lib.run_go(ctx, "server", "TestVerifC15Concurrent", env={"VERIF_C15_ROUNDS": n(10, 150)}, tag="concurrent",
                          prefixes=("c15", "c16", "c17", "shared"))
        if conc.get("_died"):
            raise lib.Inconclusive("driver died: " + conc.get("_stdout_tail", ""))
        panel.classify(ctx, conc, KEYS)
        ctx.log("concurrent arrivals: %d waves, %d violations" % (conc["evaluations"], len(conc.get("violations", []))))
        # ---- model checking: user 1 cap 2 (room for one more session), user 2 cap 1 (full)
        caps = {1: 2, 2: 1}
        anch = dict(nu=2, init=(A10, A20), caps=caps)
        small = [(C11, C11, C12), (C11, C12, C21), (R11, C11, C12), (C11, C11, C11)]
        big = small + [(C11, C11, C12, C12), (R11, R12, C11, C12), (C11, C12, C21, C21), (R11, C11, C11, C12, C12)]
        jobs.mc("arrivals", cfg(n(small, big), inv=INV, admin=ADMIN, maxadmin=n(1, 2), **anch), timeout=3000)
        jobs.mc("arrivals_ideal", cfg(n(small, big), inv=INV, dev=[], admin=ADMIN, maxadmin=n(1, 2), **anch), timeout=3000)
        # cap 0: nobody ever gets a session (records come and go)
        jobs.mc("cap0", cfg([(C11, C11, C12)], caps={1: 0}, init=(), inv=INV + " OwnedModuloDev"), timeout=900)
        # non-vacuity: with the last-session race included the model does produce two sessions for one pair
        jobs.mc("neg_gap", cfg([(panel.S11, C12, C12)], dev=["UserLookupGap"], inv="OneSession"), expect="OneSession")
        jobs.mc("neg_getuser", cfg([(C11, C11, C12)], dev=panel.CODE_DEV + ["GetUserCheckThenAct"], init=(), caps={1: 2}, inv="OneSession"),
                expect="OneSession")
        # CloseSession that closes after the unlock (seeded change): the model must exceed the cap with it
        jobs.mc("neg_closeafter", cfg([(R11, C11, C12)], dev=panel.CODE_DEV + ["CloseAfterUnlock"], inv="Cap", **anch), expect="Cap")
        # exhaustion by usage: an upload round brings the credit to <= 0 (by up, by down, by both) or finds the user expired, the
        # user is terminated, and connections arrive before / during / after that
        exh = dict(nu=1, init=(A10,), caps={1: 2}, creds={1: 1}, traffic=2, admin=["expire"], maxadmin=1)
        exprog = [(panel.U, panel.M, C11), (panel.U, panel.M, C11, C11)]
        jobs.mc("exhaust", cfg(exprog, inv="NoStartWhenBroke NoDeadlock OwnedModuloDev CreditGhost NeverMore Conservation ExactAtRest", **exh),
                timeout=3000, workers=8)
        # ---- behaviours
        jobs.gen("exhaust", cfg(exprog, gates=["lockedQ", "collected", "closed", "resolved"], depth=16, **exh), simulate=n(120, 2000))
        # the session being closed parked at SetTerminalMsg's log line (schedule point "closing"), arrivals meanwhile
        jobs.gen("closeafter", cfg([(R11, C11, C12)], dev=panel.CODE_DEV + ["CloseAfterUnlock"], gates=["closing", "resolved"], depth=12, **anch),
                 mode="hypo", keep=lambda b: panel.transient(b, panel.obs_dup) or panel.transient(b, lambda o: panel.obs_over_cap(o, [2, 1])))
        jobs.gen("arrivals3", cfg([(C11, C11, C12), (C11, C11, C11)], gates=GATES, depth=12, **anch))
        jobs.gen("reopen", cfg([(R11, C11, C11)], gates=GATES, depth=n(10, 14), **anch), simulate=n(120, None))
        jobs.gen("admin", cfg([(C11, C12, C21, C11), (R11, C11, C12, C21)], gates=GATES, depth=16, admin=ADMIN, maxadmin=2, **anch),
                 simulate=n(100, 2000))
        jobs.gen("cap0", cfg([(C11, C11, C12)], caps={1: 0}, init=(), gates=GATES + ["closed"], depth=14), simulate=n(60, 600))
        if not q:
            jobs.gen("arrivals5", cfg([(C11, C11, C12, C12, C21), (C11, C11, C11, C11, C12)], gates=GATES, depth=18, **anch), simulate=2000)
        # boundary scenarios: the last-session race (C17's) seen through C15's statement
        jobs.gen("gap", cfg([(panel.S11, C12, C12)], gates=panel.CONN_GATES, depth=14), keep=panel.has_dup)
        jobs.gen("stale", cfg([(panel.S11, R12, C12, C12)], dev=panel.CODE_DEV + ["StaleTerminate"], gates=["unlocked"], depth=12),
                 mode="hypo", keep=lambda b: panel.has_dup(b) and panel.has_unowned(b, "stale-terminate"))
        # simultaneous FIRST connections of a user parked inside AuthenticateUser: on the unchanged tree GetUser holds
        # activeUsersM across it, so the second caller never gets there (hypothesis refuted)
        jobs.gen("getuser", cfg([(C11, C11, C12)], dev=panel.CODE_DEV + ["GetUserCheckThenAct"], init=(), caps={1: 2},
                                gates=["auth", "resolved"], depth=12),
                 mode="hypo", keep=lambda b: panel.has_dup(b) and panel.has_unowned(b, "getuser-check-then-act"))
        gens = jobs.gens()
        gens["getuser"] = panel.thin(gens["getuser"], n(60, 200), ctx.seed)
        gens["closeafter"] = panel.thin(gens["closeafter"], n(60, 300), ctx.seed)
        for k in gens:
            if not gens[k] and not (k == "gap" and "UserLookupGap" not in panel.CODE_DEV):
                raise lib.Inconclusive("TLC produced no behaviour for " + k)
        ngap = len(gens["gap"])
        gens["gap"] = panel.thin(gens["gap"], n(60, 10 ** 9), ctx.seed)
        gens["arrivals3"] = panel.thin(gens["arrivals3"], n(150, 10 ** 9), ctx.seed)
        allb = [b for k in sorted(gens) for b in gens[k]]
        res = panel.replay_behaviours(ctx, allb)
        panel.classify(ctx, res, KEYS)
        panel.require_reproduced(ctx, res, "onesession:lookup-gap-vs-terminate", len(gens["gap"]), "two live sessions for one (UID, session id)")
        mcs = jobs.wait_mc()
        div, unstable = panel.check_drift(ctx, [res])
        st = res.get("stats", {})
        cov = {
            "evaluations": res["evaluations"] + conc["evaluations"],
            "distinct_nontrivial": res["distinct_nontrivial"] + conc["distinct_nontrivial"],
            "rule": RULE, "samples": (res.get("samples", []) + conc.get("samples", []))[:5],
            "traces_validated_against_impl": len(allb), "exhaustive": True,
            "behaviours_replayed": {k: len(gens[k]) for k in gens}, "replay_steps": st.get("steps", 0),
            "model_counterexamples": {"lookup_gap_two_sessions": ngap},
            "hypotheses": {k: x for k, x in st.items() if k.startswith("hypothesis_")},
            "concurrent_waves": conc["evaluations"], "programs": [list(p) for p in n(small, big)], "caps": caps,
            "code_dev": panel.CODE_DEV, "negative_configs": {k: mcs[k].violated for k in mcs if k.startswith("neg_")},
            "diverged": div, "unstable": unstable,
            "checker_cmd": "tlc UserPanel.tla / UserPanelGen.tla + go test -run 'TestVerifPanelReplay|TestVerifC15Concurrent'",
        }
        return lib.finish(ctx, LEVEL, cov, ASSUME)
    finally:
        jobs.close()


replay = panel.replay_file
