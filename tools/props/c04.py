"""C04 - frame encoding round-trips, respects the size limit and keeps the wire format
(spec/FrameCodec.tla, spec/FrameCodecGen.tla, harness/kit/refcodec.go, harness/multiplex/c04_test.go)."""
import os
import re
from concurrent.futures import ThreadPoolExecutor
import lib

LEVEL = "exploration"
ASSUME = [
    "cryptographic primitives (AES-GCM, ChaCha20-Poly1305, Salsa20 of the Go standard library / x/crypto) are not modelled; "
    "they are symbolic in FrameCodec.tla and shared by Cloak and the reference codec",
    "harness/kit/refcodec.go, written from the layout in FrameCodec.tla, is the trusted definition of the Cloak v2 wire format",
    "the padding drawn inside obfuscate cannot be forced: every (case, length) is encoded with 3 draws and the observed "
    "padding is recovered from the output; the decoder is driven with pad = 0, mid, max through the reference encoder",
    "the on-wire limit is the value client and server configure (appDataMaxLength, parsed from internal/{client,server}/TLS.go); "
    "MaxPayload and the send buffer size are read from a Session built with it",
]
INVS = "TypeOK ExtraFits SizeInv RoundTrip NonceInv PlaceInv"


def wire_limits(ctx):
    """appDataMaxLength as configured by client and server, read from the tree under test."""
    vals = {}
    for side in ("client", "server"):
        p = os.path.join(lib.REPO, "internal", side, "TLS.go")
        try:
            m = re.search(r"appDataMaxLength\s*=\s*(\d+)", open(p).read())
        except OSError:
            m = None
        if m:
            vals[side] = int(m.group(1))
    if not vals:
        ctx.notes.append("appDataMaxLength not found in internal/{client,server}/TLS.go; using 16401")
        return [16401]
    return sorted(set(vals.values()))


def mc(ctx, tag, limit, lenmode, padmode, sids, seqs, slack=0, expect_violation=False, workers=None):
    return lib.run_tlc(ctx, "FrameCodec", "FrameCodec_mc.cfg",
                       {"LIMIT": limit, "LENMODE": lenmode, "PADMODE": padmode, "TAMPER": "none", "TAIL": "TRUE",
                        "SLACK": slack, "SIDS": sids, "SEQS": seqs, "INVS": INVS},
                       tag=tag, expect_violation=expect_violation, timeout=1500, workers=workers)


def run(ctx):
    q = ctx.quick()
    limits = wire_limits(ctx)
    pool = ThreadPoolExecutor(max_workers=4)   # the TLC runs are independent: they overlap each other and the Go replay
    small = max(2, lib.NCPU // 4)
    # 1. the arithmetic, exhaustively for a scaled limit: every length x every pad x 4 methods x both sides
    scaled = 275 if q else 300
    f_scaled = pool.submit(mc, ctx, "mc_scaled", scaled, "all", "all", "{0}" if q else "{0, 1}", "{4, 5}")
    # ... for the limit the code is configured with: boundary lengths x every pad (quick: x pad classes, in the generator run)
    f_real = [(lim, pool.submit(mc, ctx, "mc_real_%d" % lim, lim, "classes", "all", "{0}", "{4, 5}", 0, False, small))
              for lim in (limits[1:] if q else limits)]
    # 2. vacuity probe: a padding bound that lets the length byte wrap must be caught by the invariants
    f_probe = pool.submit(mc, ctx, "mc_probe_slack", scaled, "classes", "classes", "{0}", "{4, 5}", 1, True, 2)
    # 3. abstract cases (generator run at the configured limit, all C04 invariants checked there too)
    g = lib.require_ok(lib.run_tlc(ctx, "FrameCodecGen", "FrameCodecGen.cfg", {"LIMIT": limits[0], "TAMPER": "none", "TAIL": "TRUE"},
                                   tag="gen", workers=small), "FrameCodecGen")
    seen, cases = set(), []
    for b in g.behaviours:
        if b.get("prop") != "C04" or b.get("expect") != "yes":
            raise lib.Inconclusive("generator emitted an unexpected case: %r" % b)
        k = (b["method"], b["side"], b["padClass"], b["lenClass"], b["closing"], b["place"])
        if k not in seen:
            seen.add(k)
            cases.append(b)
    want = 4 * (3 + 3) * 4 * 3 * 2   # at-or-above: pad 0 (own encoder) + mid / max (a foreign encoder, EncodeForeign)
    if len(cases) != want:
        raise lib.Inconclusive("expected %d abstract cases from the generator, got %d" % (want, len(cases)))
    inp = lib.write_lines(os.path.join(ctx.work, "c04_cases.ndjson"), cases)
    ctx.log("abstract cases: %d" % len(cases))
    # 4. replay into the real codec, once per configured limit
    ev = nt = 0
    samples, stats = [], {}
    for lim in limits:
        res = lib.run_go(ctx, "multiplex", "TestVerifC04Replay", env={"VERIF_IN": inp, "VERIF_WIRE_LIMIT": lim},
                         tag="replay_%d" % lim, timeout=1500)
        lib.collect_go(ctx, res)
        ev += res["evaluations"]
        nt += res["distinct_nontrivial"]
        samples += res["samples"][:3]
        stats[str(lim)] = res["stats"]
        st = res["stats"]
        ctx.log("limit %d: code says MaxPayload=%s buffer=%s; %d encodes" % (
            lim, st.get("code:maxStreamUnitWrite"), st.get("code:streamSendBufferSize"), res["evaluations"]))
        if st.get("code:maxStreamUnitWrite") != lim - 14 - 255:
            ctx.notes.append("code's maxStreamUnitWrite=%s differs from the spec's Limit-14-255=%d (logged, the check used the code's value)"
                             % (st.get("code:maxStreamUnitWrite"), lim - 14 - 255))
    # 5. thorough only (a -race build costs 40-60 s): the concurrent first-use stage once more under the race detector.
    #    A race report alone is not a violation of C04 - it is recorded as a note; wrong bytes are violations as above.
    if not q:
        try:
            rr = lib.run_go(ctx, "multiplex", "TestVerifC04Concurrent", env={"VERIF_WIRE_LIMIT": limits[0], "VERIF_C04_ROUNDS": 1500},
                            race=True, tag="concurrent_race", timeout=1500)
            for v in rr.get("violations", []):
                ctx.violations.append(v)
            out = open(os.path.join(rr["_out_dir"], "go.out")).read()
            nrace = out.count("WARNING: DATA RACE")
            stats["race_run"] = {"data_race_reports": nrace, "encodes": rr["evaluations"]}
            if nrace:
                i = out.find("WARNING: DATA RACE")
                ctx.notes.append("race detector: %d report(s) while fresh codecs encoded their first frames concurrently (note only): %s"
                                 % (nrace, " | ".join(l.strip() for l in out[i:i + 1200].splitlines()[:12])))
        except lib.Inconclusive as e:
            ctx.notes.append("race-detector run of the concurrent stage not available: %s" % str(e)[:300])
    # join the model-checking runs
    r = lib.require_ok(f_scaled.result(), "FrameCodec Limit=%d" % scaled)
    ctx.log("model check Limit=%d (every length x every pad): %d distinct states" % (scaled, r.distinct))
    for lim, f in f_real:
        r = lib.require_ok(f.result(), "FrameCodec Limit=%d" % lim)
        ctx.log("model check Limit=%d (boundary lengths, all pads): %d distinct states" % (lim, r.distinct))
    v = f_probe.result()
    if v.violated not in ("ExtraFits", "SizeInv"):
        raise lib.Inconclusive("vacuity probe: PadSlack=1 does not violate ExtraFits/SizeInv (got %s)" % v.violated)
    cov = {
        "evaluations": ev,
        "distinct_nontrivial": nt,
        "rule": "abstract cases = terminal states of FrameCodecGen (4 methods x {below: pad 0/mid/max, at-or-above: pad 0 and, from a foreign encoder, mid/max} x "
                "length class {1, small, Max-1, Max} x closing {0,1,2} x placement {in, out}) = %d; each is expanded to %s "
                "payload lengths of its class, 3 padding draws each, stream id / sequence number rotating over "
                "{0,4,5,2^32-1,2^32,2^64-1,random} on the case's side of the threshold, a fresh random key per 256 lengths; "
                "then, per method, %d fresh Obfuscators (every 16th inside a fresh Session) whose first frames are encoded "
                "concurrently by 2..8 goroutines released by a barrier (both placements, lengths 1..Max), each message decoded by "
                "deobfuscate and the reference codec; finally a multi-frame Write and a ReadFrom run concurrently on one stream "
                "(interleaving forced by a gated connection, then free-running) and every wire message is decoded with the "
                "reference codec and matched against what each call handed over; distinct = (abstract case, payload length) "
                "resp. (method, k, length, placement)" % (len(cases), "every" if not q else "all <= 300, all within 300 of the maximum and 500 random",
                                                   6000 if q else 60000),
        "samples": samples,
        "traces_validated_against_impl": ev,
        "abstract_cases": len(cases),
        "wire_limits": limits,
        "exhaustive": not q,
        "exhaustive_scope": "TLC: all reachable states of the configs named in tlc_runs; Go: every payload length 1..MaxPayload of "
                            "every abstract case in the thorough tier (quick samples the middle lengths); padding draws, keys and "
                            "stream ids / sequence numbers are sampled in both tiers",
        "checker_cmd": "tlc FrameCodec.tla (FrameCodec_mc.cfg) / FrameCodecGen.tla + go test -run TestVerifC04Replay",
        "harness_stats": stats,
    }
    return lib.finish(ctx, LEVEL, cov, ASSUME)


def replay(ctx, path):
    res = lib.run_go(ctx, "multiplex", "TestVerifC04Replay", env={"VERIF_REPLAY": os.path.abspath(path),
                                                                    "VERIF_WIRE_LIMIT": wire_limits(ctx)[0]},
                     extra_args=["-v"])
    print(open(os.path.join(res["_out_dir"], "go.out")).read())
    return 0
