"""C17 - user bookkeeping never deadlocks and never loses track of a live session (spec/UserPanel*.tla).

Also the shared driver of the three properties carried by spec/UserPanel.tla (C15, C16, C17): configuration
helpers, TLC job pool, behaviour generation, replay through harness/server/shared_panel_test.go."""
import concurrent.futures as cf
import json
import os

import lib

LEVEL = "model_checking"

# deviations of the obvious design that the current tree still has (kept in step with the fix: commits in /repo)
CODE_DEV = ["UserLookupGap"]

KIND = {"conn": 1, "connr": 2, "serve": 3, "update": 4, "commit": 5}
ALL_GATES = ["auth", "closing", "resolved", "miss", "failed", "unlocked", "queued", "closed", "lockedA", "lockedQ", "collected"]

ASSUME = [
    "all users are limited users (bypass users and the admin UID are not modelled)",
    "every manager call is one atomic bolt transaction; read sections of activeUsersM/sessionsM never span a schedule point",
    "a session is reaped (CloseSession) at most once by the goroutine that serves it; the peer may close it at any time",
    "connection admission is the sequence of dispatcher.go:231-252 (GetUser, hook, GetSession, CloseSession on error) called "
    "directly; the TLS/WebSocket handshake in front of it is C06/C07's subject",
    "exhaustive for the goroutine programs listed in coverage.programs (<= 5 goroutines, <= 2 users, <= 3 session ids); larger "
    "programs by TLC -simulate",
    "B1 schedules are those in which at most one goroutine is blocked on a lock at a time (two only when that is the final "
    "deadlock), so that the run-on of a woken goroutine is deterministic",
]


def op(kind, u=0, s=0):
    return KIND[kind] * 100 + u * 10 + s


S11, C11, C12, R11, R12, U, M = op("serve", 1, 1), op("conn", 1, 1), op("conn", 1, 2), op("connr", 1, 1), op("connr", 1, 2), \
    op("update"), op("commit")


def prog(*ops):
    return "{" + ",".join(str((i + 1) * 1000 + o) for i, o in enumerate(ops)) + "}"


def nconn(progs):
    return max(sum(1 for o in p if o // 100 in (1, 2)) for p in progs)


def cfg(progs, nu=1, ns=2, caps=None, creds=None, init=(11,), traffic=0, admin=(), maxadmin=0, dev=None, inv="", gates=None,
        depth=None):
    """cfg-template substitutions for UserPanel_mc.cfg / UserPanelGen.cfg"""
    caps = caps or {u: 2 for u in range(1, nu + 1)}
    creds = creds or {u: 3 for u in range(1, nu + 1)}
    dev = CODE_DEV if dev is None else dev
    d = {"NU": nu, "NS": ns, "PROGS": ",".join(prog(*p) for p in progs),
         "CAPS": ",".join(str(u * 10 + c) for u, c in sorted(caps.items())),
         "CREDS": ",".join(str(u * 10 + c) for u, c in sorted(creds.items())),
         "INITSESS": ",".join(str(x) for x in sorted(init)), "MAXNEW": max(1, nconn(progs)),
         "MAXTRAFFIC": traffic, "ADMINOPS": ",".join('"%s"' % a for a in admin), "MAXADMIN": maxadmin,
         "DEV": ",".join('"%s"' % x for x in dev), "INV": inv}
    if gates is not None:
        d["GATES"] = ",".join('"%s"' % g for g in gates)
        d["DEPTH"] = depth
        d.pop("INV")
    d["_go"] = {"nu": nu, "caps": [caps[u] for u in range(1, nu + 1)], "creds": [creds[u] for u in range(1, nu + 1)],
                "init": sorted(init), "gates": list(gates or []), "traffic": traffic > 0, "dev": list(dev)}
    return d


def _tlc_subst(c):
    return {k: v for k, v in c.items() if not k.startswith("_")}


class Jobs:
    """TLC runs overlapped with each other and with the Go side (JVM start dominates the small ones)."""

    def __init__(self, ctx, parallel=6):
        self.ctx = ctx
        self.pool = cf.ThreadPoolExecutor(max_workers=parallel)
        self.futs = {}

    def mc(self, name, c, expect=None, timeout=900, workers=4):
        def run():
            r = lib.run_tlc(self.ctx, "UserPanel", "UserPanel_mc.cfg", _tlc_subst(c), tag="mc_" + name, timeout=timeout,
                            workers=workers, expect_violation=expect is not None)
            if expect is None:
                lib.require_ok(r, "UserPanel " + name)
            elif r.violated != expect:
                raise lib.Inconclusive("negative configuration %s: TLC was expected to violate %s, it reports %s" % (
                    name, expect, r.violated))
            self.ctx.log("mc %s: %d distinct / %d generated in %.0fs%s" % (
                name, r.distinct, r.generated, r.wall, "" if expect is None else " - %s violated as expected" % expect))
            return r
        self.futs["mc_" + name] = self.pool.submit(run)

    def gen(self, name, c, mode="strict", simulate=None, keep=None, workers=4, timeout=900):
        def run():
            r = lib.run_tlc(self.ctx, "UserPanelGen", "UserPanelGen.cfg", _tlc_subst(c), tag="gen_" + name, timeout=timeout,
                            simulate=simulate, depth=(8 * c["DEPTH"] + 80) if simulate else None,
                            workers=(1 if simulate else workers))
            lib.require_ok(r, "UserPanelGen " + name)
            beh = r.behaviours
            total = len(beh)
            if keep:
                beh = [b for b in beh if keep(b)]
            gocfg = dict(c["_go"], name=name, mode=mode)
            for b in beh:
                b["cfg"] = gocfg
            self.ctx.log("gen %s: %d behaviours%s in %.0fs" % (name, total, (" (%d kept)" % len(beh)) if keep else "", r.wall))
            return beh
        self.futs["gen_" + name] = self.pool.submit(run)

    def result(self, key):
        return self.futs[key].result()

    def gens(self):
        out = {}
        for k in list(self.futs):
            if k.startswith("gen_"):
                out[k[4:]] = self.futs[k].result()
        return out

    def wait_mc(self):
        return {k[3:]: f.result() for k, f in self.futs.items() if k.startswith("mc_")}

    def close(self):
        self.pool.shutdown(wait=False, cancel_futures=True)


def final_obs(b):
    return b["steps"][-1]["obs"] if b["steps"] else None


def has_unowned(b, why=None):
    o = final_obs(b)
    return bool(o) and any(x["live"] and not x["own"] and (why is None or x["why"] == why) for x in o["obj"])


def has_dup(b):
    o = final_obs(b)
    if not o:
        return False
    live = [(x["u"], x["s"]) for x in o["obj"] if x["live"]]
    return len(live) != len(set(live))


def transient(b, pred):
    """some settled moment of the behaviour (not only the last) satisfies pred(obs)"""
    return any(pred(st["obs"]) for st in b["steps"])


def obs_dup(o):
    live = [(x["u"], x["s"]) for x in o["obj"] if x["live"]]
    return len(live) != len(set(live))


def obs_over_cap(o, caps):
    n = {}
    for x in o["obj"]:
        if x["live"]:
            n[x["u"]] = n.get(x["u"], 0) + 1
    return any(c > caps[u - 1] for u, c in n.items())


def is_dead(b):
    o = final_obs(b)
    return bool(o) and o["dead"]


def thin(beh, n, seed):
    """deterministic sub-sample (keeps order)"""
    if len(beh) <= n:
        return beh
    import random
    rnd = random.Random(seed)
    idx = sorted(rnd.sample(range(len(beh)), n))
    return [beh[i] for i in idx]


def replay_behaviours(ctx, behaviours, tag="replay", timeout=1500):
    inp = lib.write_lines(os.path.join(ctx.work, "panel_%s.ndjson" % tag), behaviours)
    res = lib.run_go(ctx, "server", "TestVerifPanelReplay", env={"VERIF_IN": inp}, tag=tag, timeout=timeout,
                     prefixes=("c15", "c16", "c17", "shared"))
    st = res.get("stats", {})
    ctx.log("replay %s: %d behaviours, %d steps, %d violations recorded, %d diverged, %.1fs" % (
        tag, res["evaluations"], st.get("steps", 0), len(res.get("violations", [])), st.get("diverged", 0),
        st.get("replay_ms", 0) / 1000.0))
    if res.get("_died"):
        # the test binary was killed by the Go runtime (e.g. "concurrent map read and map write" on a Cloak goroutine).
        # That is not one of these properties' predicates; what was recorded before the crash still counts.
        msg = "replay driver died while running %s: %s" % (res.get("running"), res.get("_stdout_tail", "")[-1500:])
        if not res.get("violations") and not ctx.violations:
            raise lib.Inconclusive(msg)
        ctx.notes.append(msg)
    return res


def classify(ctx, res, prefixes):
    """violations of this property -> ctx.violations; the others are notes"""
    for v in res.get("violations", []):
        if v["key"].split(":")[0] in prefixes:
            ctx.violations.append(v)
        else:
            ctx.notes.append("observation outside this property (%s): %s" % (v["key"], v["what"]))


def check_drift(ctx, results):
    """A behaviour the code did not follow although no (unlisted) property failure explains it: the model is not the code's."""
    div = sum(r.get("stats", {}).get("diverged", 0) for r in results)
    unstable = sum(r.get("stats", {}).get("unstable", 0) for r in results)
    notes = [x for r in results for x in r.get("notes", []) if "diverged" in x]
    ctx.notes.extend(notes[:10])
    known = {k.get("key") for k in lib.load_known() if k.get("property") == ctx.pid}
    unlisted = [v for v in ctx.violations if v.get("key") not in known]
    if div and not unlisted:
        raise lib.Inconclusive("model drift: %d behaviours were not followed by the code although no property failed: %s" % (div, notes[:3]))
    return div, unstable


def require_reproduced(ctx, res, key, nbeh, what):
    """a counter-example of the code-faithful model must show on the code (else the model is not the code's)"""
    n = res.get("stats", {}).get("violations:" + key, 0)
    if nbeh and not n and not res.get("stats", {}).get("diverged", 0):
        raise lib.Inconclusive("model counter-example not reproduced on the code: %d behaviours in which the model has %s, "
                               "none showed it (%s)" % (nbeh, what, key))
    return n


def replay_file(ctx, path):
    res = lib.run_go(ctx, "server", "TestVerifPanelReplay", env={"VERIF_REPLAY": os.path.abspath(path)}, extra_args=["-v"],
                     prefixes=("c15", "c16", "c17", "shared"))
    print(open(os.path.join(res["_out_dir"], "go.out")).read())
    return 0


# ------------------------------------------------------------------------------------------------ C17

KEYS = ("deadlock", "owned", "terminated")
INV_IDEAL = "OneSession Cap NoStartWhenBroke CreditGhost NeverMore Conservation ExactAtRest CutOff NoDeadlock Owned TerminatedHasNone"
INV_CODE = "NoStartWhenBroke CreditGhost NeverMore Conservation ExactAtRest NoDeadlock OwnedModuloDev OwnedNoStale"
CONN_GATES = ["resolved", "miss", "failed", "unlocked", "queued", "closed"]
ROUND_GATES = ["lockedA", "lockedQ", "collected", "queued", "closed", "unlocked"]

RULE = ("B1: maximal behaviours of UserPanelGen (goroutine programs of connection admissions, session reaping, updateUsageQueue and "
        "commitUpdate; environment = which parked goroutine runs next); exhaustive BFS for the 3-goroutine programs, TLC -simulate for "
        "the larger ones; the counter-example schedules of the deviant configurations (lock order A->Q, stale terminate, GetUser check-then-act) are replayed "
        "on every run as hypotheses. B2: rounds of 2-6 operations started simultaneously on one panel, trace validated by "
        "UserPanelTrace. non-trivial = two goroutines inside an operation at the same time or one blocked on a lock; distinct = "
        "distinct (program, schedule)")


def trace_subst(maxnew):
    return {"NU": 2, "NS": 3, "SLOTS": ",".join(str(1000 * i) for i in range(1, 7)), "CAPS": "13,23", "CREDS": "19,29",
            "INITSESS": "11,21", "MAXNEW": maxnew, "DEV": ",".join('"%s"' % x for x in CODE_DEV),
            # a deviation the tree is known to have does not stop the validation: if the whole trace is accepted with
            # the remaining invariants, every unreachable session in it is explained by that deviation
            "INV": " ".join(["NoDeadlock", "OwnedModuloDev", "OwnedNoStale"] + ([] if "UserLookupGap" in CODE_DEV else ["OwnedNoGap"]))}


def run_trace(ctx, jobs, rounds, worlds=1):
    """B2: record really-concurrent runs (one trace per world), validate each with TLC"""
    tr = lib.run_go(ctx, "server", "TestVerifC17Trace", env={"VERIF_C17_ROUNDS": rounds, "VERIF_C17_WORLDS": worlds}, tag="trace",
                    timeout=900, prefixes=("c15", "c16", "c17", "shared"))
    if tr.get("_died"):
        raise lib.Inconclusive("trace driver died: " + tr.get("_stdout_tail", ""))
    traces = []
    for wi in range(worlds):
        tpath = os.path.join(tr["_out_dir"], "trace_%d.ndjson" % wi)
        if not os.path.exists(tpath):
            break
        lines = open(tpath).read().splitlines()
        nconns = sum(1 for x in lines if '"k":"conn"' in x)

        def validate(tpath=tpath, nconns=nconns, wi=wi):
            return lib.run_tlc(ctx, "UserPanelTrace", "UserPanelTrace.cfg", trace_subst(nconns + 2), workers=1,
                               env={"VERIF_TRACE": tpath}, expect_violation=True, tag="trace_%d" % wi, dfs=True, timeout=1500)
        traces.append((wi, lines, jobs.pool.submit(validate)))
    return tr, traces


WHY_INV = {"OwnedNoGap": "lookup-gap-vs-terminate", "OwnedNoStale": "stale-terminate-removes-new-record"}


def finish_trace(ctx, tr, traces):
    """maps what the driver saw at the quiescent moments to keys, using TLC's account of each world's trace"""
    seen = [x for x in tr.get("violations", [])]
    accepted, events, states = 0, 0, 0
    for wi, lines, fut in traces:
        v = fut.result()
        events += len(lines)
        states += v.distinct
        mine = [x for x in seen if x["key"] == "owned:b2" and (x.get("replay") or {}).get("world") == wi]
        ctx.log("trace %d: %d events, accepted=%s%s (%d states, %.0fs)" % (
            wi, len(lines), v.ok, "" if v.ok else " [%s]" % v.violated, v.distinct, v.wall))
        if v.ok:
            accepted += 1
            for x in mine:
                # accepted under OwnedModuloDev and OwnedNoStale: what is left is the deviation the tree is known to have
                x["key"] = "owned:lookup-gap-vs-terminate" if "UserLookupGap" in CODE_DEV else "owned:b2-unexplained"
                x["replay"]["explained_by"] = "trace accepted by UserPanelTrace with Dev=%s" % CODE_DEV
        elif v.violated in WHY_INV or v.violated == "OwnedModuloDev":
            if not mine:
                raise lib.Inconclusive("TLC finds %s violated on the recorded trace %d but the driver saw every live session owned" % (v.violated, wi))
            for x in mine:
                x["key"] = "owned:" + WHY_INV.get(v.violated, "unexplained")
                x["replay"]["tlc_invariant"] = v.violated
        elif v.violated == "NoDeadlock":
            raise lib.Inconclusive("trace validation: NoDeadlock violated on a trace that completed")
        else:
            line = v.rejected_at
            ev = lines[line - 1] if line and line <= len(lines) else "?"
            for x in mine:
                x["key"] = "owned:b2-unexplained"
            msg = ("recorded execution %d is not a behaviour of UserPanel with Dev=%s: event %s at line %s cannot be explained; "
                   "context: %s" % (wi, CODE_DEV, ev, line, lines[max(0, (line or 1) - 8):(line or 1)]))
            if not seen and not ctx.violations:
                # nothing in the run broke a property predicate: the model is not the code's (drift), not a verdict
                raise lib.Inconclusive(msg)
            ctx.notes.append(msg)
    for x in seen:
        if x["key"] == "owned:b2":
            x["key"] = "owned:b2-unexplained"
    classify(ctx, tr, KEYS)
    return accepted, events, states


def run(ctx):
    q = ctx.quick()
    n = (lambda a, b: a if q else b)
    jobs = Jobs(ctx)
    try:
        # ---- B2 first: it needs no TLC output; its validation joins the pool
        tr, traces = run_trace(ctx, jobs, 60, worlds=n(1, 6))
        # ---- model checking at lock-step granularity
        small = [(S11, C12, C12), (S11, R12, C12), (S11, C12, M), (S11, U, M), (U, U, M), (S11, C11, U), (S11, R12, M)]
        big = small + [(S11, R12, C12, C12), (S11, C12, C12, U, M), (S11, R12, C12, U, M), (U, M, U, M), (S11, C12, U, M, M)]
        huge = big + [(S11, R12, C12, C12, M), (S11, C12, C12, U, M, M), (S11, R12, R11, C12, U, M)]
        jobs.mc("ideal", cfg(n(big, huge), dev=[], inv=INV_IDEAL), timeout=3000, workers=8)
        jobs.mc("code", cfg(n(big, huge), inv=INV_CODE), timeout=3000, workers=8)
        # terminations ordered by an upload (the user expires through the admin API at some point)
        term = [(S11, C12, M), (S11, C12, C12, M), (S11, U, M, C12)]
        jobs.mc("code_term", cfg(n(term, term + [(S11, R12, C12, M, M), (S11, C12, U, M, M)]), inv=INV_CODE, admin=["expire", "unexpire"],
                                 maxadmin=n(1, 2)), timeout=3000, workers=8)
        jobs.mc("ideal_term", cfg(term, dev=[], inv=INV_IDEAL, admin=["expire", "unexpire"], maxadmin=n(1, 2)), timeout=3000)
        if not q:
            two = [(op("serve", 1, 1), op("serve", 2, 1), op("conn", 1, 2), op("conn", 2, 2), M),
                   (op("serve", 1, 1), op("conn", 2, 1), op("conn", 1, 2), U, M)]
            jobs.mc("code_2users", cfg(two, nu=2, init=(11, 21), inv=INV_CODE, admin=["expire"], maxadmin=1), timeout=3000, workers=8)
        # negative configurations: each named deviation must be found (non-vacuity)
        jobs.mc("neg_lockorder", cfg([(U, U, M)], dev=["PanelLockOrderAQ"], inv="NoDeadlock"), expect="NoDeadlock")
        jobs.mc("neg_gap", cfg([(S11, C12, C12)], dev=["UserLookupGap"], inv="Owned"), expect="Owned")
        jobs.mc("neg_stale", cfg([(S11, R12, C12, C12)], dev=["UserLookupGap", "StaleTerminate"], inv="OwnedNoStale"), expect="OwnedNoStale")
        jobs.mc("neg_getuser", cfg([(C11, C11, C12)], dev=CODE_DEV + ["GetUserCheckThenAct"], init=(), inv="OwnedNoGetUserRace"),
                expect="OwnedNoGetUserRace")
        # ---- behaviours
        # D9: every schedule of {reaper of the last session, two connections} - the model's Owned counter-examples among them
        jobs.gen("gap", cfg([(S11, C12, C12)], gates=n(["resolved", "unlocked", "closed"], CONN_GATES), depth=14))
        # hypotheses: the schedules of the two deviations the tree no longer has (they show on the trees before the fixes)
        jobs.gen("lockorder", cfg([(U, U, M)], dev=CODE_DEV + ["PanelLockOrderAQ"], gates=["lockedA", "lockedQ", "collected"], depth=12),
                 mode="hypo", keep=is_dead)
        jobs.gen("stale", cfg([(S11, R12, C12, C12)], dev=CODE_DEV + ["StaleTerminate"], gates=["unlocked"], depth=12),
                 mode="hypo", keep=lambda b: has_unowned(b, "stale-terminate"))
        # simultaneous FIRST connections of a user, parked inside AuthenticateUser (between GetUser's look-up and its store)
        jobs.gen("getuser", cfg([(C11, C11, C12)], dev=CODE_DEV + ["GetUserCheckThenAct"], init=(), gates=["auth", "resolved"], depth=12),
                 mode="hypo", keep=lambda b: has_unowned(b, "getuser-check-then-act"))
        # the general mix: rounds overlapping connects, reaps and terminations
        jobs.gen("rounds", cfg([(S11, U, M, U, M), (S11, C12, U, M), (S11, R12, U, M, C12)], gates=ROUND_GATES + ["resolved"], depth=20,
                               admin=["expire", "unexpire"], maxadmin=1), simulate=n(200, 3000))
        jobs.gen("mix2", cfg([(op("serve", 1, 1), op("serve", 2, 1), op("conn", 1, 2), op("connr", 2, 2), U, M)], nu=2, init=(11, 21),
                             gates=CONN_GATES + ["lockedQ"], depth=20, admin=["expire"], maxadmin=1), simulate=n(120, 2000))
        gens = jobs.gens()
        gens["getuser"] = thin(gens["getuser"], n(60, 200), ctx.seed)
        for name in ("lockorder", "stale", "gap", "getuser"):
            if not gens[name]:
                raise lib.Inconclusive("TLC produced no behaviour for " + name)
        gapcex = [b for b in gens["gap"] if has_unowned(b, "lookup-gap")]
        if "UserLookupGap" in CODE_DEV and not gapcex:
            raise lib.Inconclusive("the model with Dev=%s has no Owned counter-example among the gap behaviours" % CODE_DEV)
        gens["gap"] = thin(gapcex, n(120, 10 ** 9), ctx.seed) + thin([b for b in gens["gap"] if not has_unowned(b)], n(120, 10 ** 9), ctx.seed)
        allb = [b for k in ("lockorder", "stale", "getuser", "gap", "rounds", "mix2") for b in gens[k]]
        res = replay_behaviours(ctx, allb)
        classify(ctx, res, KEYS)
        require_reproduced(ctx, res, "owned:lookup-gap-vs-terminate", len(gapcex), "a live session on a record the panel no longer knows")
        tacc, tevents, tstates = finish_trace(ctx, tr, traces)
        mcs = jobs.wait_mc()
        div, unstable = check_drift(ctx, [res])
        st = res.get("stats", {})
        cov = {
            "evaluations": res["evaluations"] + tr["evaluations"],
            "distinct_nontrivial": res["distinct_nontrivial"] + tr["distinct_nontrivial"],
            "rule": RULE, "samples": (res.get("samples", []) + tr.get("samples", []))[:5],
            "traces_validated_against_impl": len(allb) + tacc, "exhaustive": True,
            "behaviours_replayed": {k: len(gens[k]) for k in gens}, "replay_steps": st.get("steps", 0),
            "model_counterexamples_replayed": {"lookup_gap": len(gapcex), "lockorder_hypotheses": len(gens["lockorder"]),
                                               "stale_hypotheses": len(gens["stale"]), "getuser_hypotheses": len(gens["getuser"])},
            "hypotheses": {k: x for k, x in st.items() if k.startswith("hypothesis_")},
            "trace_events_validated": tevents, "trace_worlds": len(traces), "trace_rounds": tr.get("stats", {}).get("rounds", 0),
            "programs": [list(p) for p in n(big, huge)] + [list(p) for p in term], "code_dev": CODE_DEV,
            "negative_configs": {k: mcs[k].violated for k in mcs if k.startswith("neg_")},
            "diverged": div, "unstable": unstable,
            "checker_cmd": "tlc UserPanel.tla / UserPanelGen.tla / UserPanelTrace.tla + go test -run 'TestVerifPanelReplay|TestVerifC17Trace'",
        }
        return lib.finish(ctx, LEVEL, cov, ASSUME)
    finally:
        jobs.close()


replay = replay_file
