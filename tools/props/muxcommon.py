"""Shared driver for the properties carried by spec/Mux.tla (C01, C03, C12, C13, C14)."""
import json
import os
import threading
from concurrent.futures import ThreadPoolExecutor
import lib

BASE = {"NC": 2, "NS": 1, "UNITS": 2, "MAXWRITE": 2, "UNORDERED": "FALSE", "SINGLE": "FALSE",
        "FEAT": '"swrite"', "DEV": "", "LATE": "", "EXTRAINV": "", "TIMEREP": "none"}

# deviations the current tree still has in the part of Cloak that Mux.tla models (all repaired by fix: commits)
CODE_DEV = ""
_lock = threading.Lock()
TLC_PAR = 5        # TLC processes side by side
TLC_WORKERS = 4    # worker threads each


def cfg(**kw):
    d = dict(BASE)
    d.update({k.upper(): v for k, v in kw.items()})
    return d


def model_check(ctx, name, subst, timeout=900, workers=TLC_WORKERS):
    r = lib.run_tlc(ctx, "Mux", "Mux_data.cfg", subst, tag="mc_" + name, timeout=timeout, workers=workers)
    lib.require_ok(r, "Mux " + name)
    with _lock:
        ctx.log("mc %s: %d distinct / %d generated in %.0fs" % (name, r.distinct, r.generated, r.wall))
    return r


def generate(ctx, name, subst, depth, noops=0, simulate=None, workers=TLC_WORKERS):
    s = dict(subst)
    s.pop("EXTRAINV", None)
    s["DEPTH"] = depth
    s["NOOPS"] = noops
    r = lib.run_tlc(ctx, "MuxGen", "MuxGen.cfg", s, tag="gen_" + name, simulate=simulate,
                    depth=(depth + 2) if simulate else None,
                    workers=(1 if simulate else workers), timeout=900)
    lib.require_ok(r, "MuxGen " + name)
    with _lock:
        ctx.log("gen %s: %d behaviours in %.0fs" % (name, len(r.behaviours), r.wall))
    return r.behaviours


def run_all(ctx, mcs, gens):
    """Runs all TLC jobs side by side, then ONE go test process that replays every behaviour file.
    mcs: (name, subst, timeout); gens: (name, subst, depth, noops, simulate|None, nc, opts). Returns (result, nbehaviours)."""
    jobs = []
    with ThreadPoolExecutor(max_workers=TLC_PAR) as ex:
        fm = [ex.submit(model_check, ctx, n, s, t) for (n, s, t) in mcs]
        fg = [(g, ex.submit(generate, ctx, g[0], g[1], g[2], g[3], g[4])) for g in gens]
        for f in fm:
            f.result()
        nb = 0
        for g, f in fg:
            beh = f.result()
            if not beh:
                raise lib.Inconclusive("no behaviours generated for " + g[0])
            nb += len(beh)
            name, nc, opts = g[0], g[5], g[6]
            path = lib.write_lines(os.path.join(ctx.work, "mux_%s.ndjson" % name), beh)
            jobs.append({"name": name, "file": path, "nc": nc, "unordered": bool(opts.get("unordered")),
                         "singleplex": bool(opts.get("singleplex")), "allconc": bool(opts.get("allconc")),
                         "gates": bool(opts.get("gates")), "timerep": opts.get("timerep", ""), "late": opts.get("late", 0)})
    jf = os.path.join(ctx.work, "mux_jobs.json")
    with open(jf, "w") as fh:
        json.dump(jobs, fh)
    res = lib.run_go(ctx, "multiplex", "TestVerifMuxReplay", env={"VERIF_JOBS": jf}, tag="replay", timeout=1800)
    st = res.get("stats", {})
    for j in jobs:
        ctx.log("replay %s: %d behaviours, %d violations, %d diverged" % (
            j["name"], st.get(j["name"] + ":behaviours", 0), st.get(j["name"] + ":violations", 0), st.get(j["name"] + ":diverged", 0)))
    return res, nb
