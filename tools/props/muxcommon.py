"""Shared driver for the properties carried by spec/Mux.tla (C01, C03, C12, C13, C14)."""
import os
import lib

BASE = {"NC": 2, "NS": 1, "UNITS": 2, "MAXWRITE": 2, "UNORDERED": "FALSE", "SINGLE": "FALSE",
        "FEAT": '"swrite"', "DEV": "", "LATE": "", "EXTRAINV": "", "TIMEREP": "none"}

# deviations the current tree still has (kept in step with the fix: commits in /repo)
CODE_DEV = ""


def cfg(**kw):
    d = dict(BASE)
    d.update({k.upper(): v for k, v in kw.items()})
    return d


def model_check(ctx, name, subst, timeout=900, simulate=None, depth=None):
    r = lib.run_tlc(ctx, "Mux", "Mux_data.cfg", subst, tag="mc_" + name, timeout=timeout,
                    simulate=simulate, depth=depth)
    lib.require_ok(r, "Mux " + name)
    ctx.log("mc %s: %d distinct / %d generated in %.0fs" % (name, r.distinct, r.generated, r.wall))
    return r


def generate(ctx, name, subst, depth, noops=0, simulate=None, workers=None):
    s = dict(subst)
    s.pop("EXTRAINV", None)
    s["DEPTH"] = depth
    s["NOOPS"] = noops
    r = lib.run_tlc(ctx, "MuxGen", "MuxGen.cfg", s, tag="gen_" + name, simulate=simulate,
                    depth=(depth + 2) if simulate else None,
                    workers=(1 if simulate else workers), timeout=900)
    lib.require_ok(r, "MuxGen " + name)
    ctx.log("gen %s: %d behaviours" % (name, len(r.behaviours)))
    return r.behaviours


def replay(ctx, name, behaviours, nc, unordered=False, singleplex=False, allconc=False, timeout=900,
           gates=False, timerep="", late=0):
    inp = lib.write_lines(os.path.join(ctx.work, "mux_%s.ndjson" % name), behaviours)
    env = {"VERIF_IN": inp, "VERIF_MUX_NC": nc, "VERIF_MUX_UNORDERED": "1" if unordered else "",
           "VERIF_MUX_SINGLEPLEX": "1" if singleplex else "", "VERIF_MUX_ALLCONC": "1" if allconc else "",
           "VERIF_MUX_GATES": "1" if gates else "", "VERIF_MUX_TIMEREP": timerep, "VERIF_MUX_LATE": late}
    res = lib.run_go(ctx, "multiplex", "TestVerifMuxReplay", env=env, tag="replay_" + name, timeout=timeout)
    div = res.get("stats", {}).get("diverged", 0)
    ctx.log("replay %s: %d evaluations, %d violations, %d diverged" % (
        name, res["evaluations"], len(res.get("violations", [])), div))
    return res


def merge(results):
    tot = {"evaluations": 0, "distinct_nontrivial": 0, "samples": [], "diverged": 0, "notes": [], "unstable": 0}
    for r in results:
        tot["evaluations"] += r["evaluations"]
        tot["distinct_nontrivial"] += r["distinct_nontrivial"]
        tot["samples"] += r.get("samples", [])[:2]
        tot["diverged"] += r.get("stats", {}).get("diverged", 0)
        tot["unstable"] += r.get("stats", {}).get("unstable", 0)
        tot["notes"] += r.get("notes", [])[:5]
    return tot
