"""X01 (spec-coverage extra) - the receive pipes of a stream: multiplex.streamBufferedPipe / datagramBufferedPipe.

spec/StreamPipe.tla (one action per critical section; Mode = stream | datagram) is model-checked exhaustively on small
constants (+ 8 negative configs that must violate NoLostWakeup / TimerCovers), spec/StreamPipeGen.tla emits behaviours
(BFS + -simulate) and harness/multiplex/x01_test.go replays them on the real pipes inside a testing/synctest bubble
(returned n / bytes / error of every call and the set of calls still parked are compared after every step), plus a
real-goroutine stress with goroutine-dump evidence.

recvBufferSizeLimit is a CONSTANT (1<<31 - 1) in the code, so Write's back-pressure is unreachable in a test.  The
"low limit" half of the replay builds the package with an overlay copy of recvBuffer.go in which that one declaration is
`var` instead of `const` (same value; nothing is written into the repository) and lowers it per behaviour.  The other
half runs on the untouched build with a model limit nobody reaches.

stage(ctx) = generation + replay only; it appends violations (for a caller other than X01 with that property's keys)."""
import copy
import json
import os
import re
import time
from concurrent.futures import ThreadPoolExecutor

import lib

LEVEL = "model_checking"
ASSUME = [
    "the pipe's mutex makes every loop body of Read/Write one atomic step; sync.Cond.Wait releases the mutex and parks atomically; "
    "the timer callback takes the mutex (fix 90f21f9), TimerUnlocked = FALSE",
    "exhaustive for <= 2 readers, <= 2 writers, payloads and targets of 0..2 units, <= 3 reads/writes/control calls, time 1..3",
    "Write back-pressure is exercised with recvBufferSizeLimit lowered through a build overlay (const -> var, same default)",
    "replayed behaviours never let the Go scheduler decide an outcome (no Write while two readers are parked, no Read while two writers are parked)",
]
KEYS = {"pipe-bytes-wrong", "pipe-eof-early", "pipe-eof-missing", "pipe-timeout-wrong", "pipe-lost-wakeup",
        "pipe-write-blocked-wrong", "pipe-write-result-wrong",
        # defect D19 (fixed by 90f21f9; StreamPipe.tla's negative config TimerUnlocked = TRUE): real-goroutine stress only,
        # on goroutine-dump evidence - an ordinary violation key
        "pipe-lost-wakeup:timer-fires-before-wait"}
# what a pipe-level finding means for C03 (end-of-stream / wake-up of blocked reads); the rest is outside C03's statement
C03_KEYMAP = {"pipe-bytes-wrong": "bytes-wrong", "pipe-eof-early": "eof-early", "pipe-eof-missing": "eof-missing",
              "pipe-lost-wakeup": "read-blocked"}
RULE = ("behaviours of StreamPipeGen (Read(cap) / Write(size) / closing-frame Write / Close / SetReadDeadline(now+d | zero) / "
        "Advance, up to 2 overlapping readers and 2 overlapping writers) for both pipes, each with the code's limit and with a "
        "limit of 0-2 units: all of them up to the BFS depth, TLC -simulate beyond; non-trivial = some call is parked, times "
        "out or hits a short buffer")
NOLIMIT = 1000000
TLCW = 3           # TLC workers per job; at most TLCJOBS jobs at a time (a JVM start is the dominant cost of the small ones)
TLCJOBS = 5
PFX = ("x01", "shared")

NEG = [("CloseWithoutBroadcast", "NoLostWakeup"), ("CloseSignal", "NoLostWakeup"), ("DeadlineNoBroadcast", "NoLostWakeup"),
       ("DeadlineNoBroadcast", "TimerCovers"), ("TimerNotRearmed", "NoLostWakeup"), ("TimerNotRearmed", "TimerCovers"),
       ("ReadNoBroadcast", "NoLostWakeup"), ("WriteNoBroadcast", "NoLostWakeup")]


def _set(xs):
    return "{" + ",".join(str(x) for x in xs) + "}"


def _mc_subst(mode, q, neg=False):
    big = not q and not neg
    return {"MODE": mode, "READERS": "{r1,r2}", "WRITERS": "{w1,w2}", "LIMIT": 1,
            "SIZES": _set([1, 2] if (mode == "stream" or not big) else [0, 1, 2]), "CAPS": _set([1, 2] if (mode == "stream" or not big) else [0, 1, 2]),
            "T": 3 if (big or neg) else 2, "DLS": _set([0, 1, 2] if neg else [0, 1]),
            "MAXW": 3 if (big or neg) else 2, "MAXR": 3 if big else 2, "MAXC": 3 if big else 2}


def _mc(ctx, mode):
    """the code (TimerUnlocked = FALSE: the timer broadcasts under the mutex): every invariant holds"""
    s = _mc_subst(mode, ctx.quick())
    s.update({"DEV": "{{}}", "UNLOCKED": "FALSE", "INVS": "NoLostWakeup TimerCovers"})
    r = lib.run_tlc(ctx, "StreamPipe", "StreamPipe_mc.cfg", s, tag="mc_" + mode, workers=TLCW if ctx.quick() else max(TLCW, lib.NCPU // 2), timeout=3000)
    lib.require_ok(r, "StreamPipe (%s)" % mode)
    return {"mode": mode, "timer_unlocked": False, "distinct": r.distinct, "generated": r.generated, "constants": s}


def _mc_unlocked(ctx, mode):
    """negative config TimerUnlocked = TRUE (the code before fix 90f21f9): everything but the deadline clause of (d) and (e) holds ..."""
    s = _mc_subst(mode, True)
    s.update({"DEV": "{{}}", "UNLOCKED": "TRUE", "INVS": "NoLostWakeupData"})
    r = lib.run_tlc(ctx, "StreamPipe", "StreamPipe_mc.cfg", s, tag="mc_unlocked_" + mode, workers=TLCW, timeout=1500)
    lib.require_ok(r, "StreamPipe with TimerUnlocked (%s)" % mode)
    return {"mode": mode, "timer_unlocked": True, "distinct": r.distinct, "generated": r.generated, "constants": s,
            "invariants": "all but NoLostWakeup's deadline clause and TimerCovers"}


def _neg_unlocked(ctx):
    """... and those two fail: TLC's schedule is the non-vacuity witness for (d)/(e) against an unlocked timer broadcast (D19)"""
    out = {}
    for inv in ("NoLostWakeup", "TimerCovers"):
        s = _mc_subst("stream", True)
        s.update({"DEV": "{{}}", "UNLOCKED": "TRUE", "INVS": inv, "READERS": "{r1}", "WRITERS": "{w1}"})
        r = lib.run_tlc(ctx, "StreamPipe", "StreamPipe_mc.cfg", s, tag="neg_TimerUnlocked_" + inv, workers=2, timeout=600, expect_violation=True)
        if r.violated != inv:
            raise lib.Inconclusive("StreamPipe with TimerUnlocked = TRUE is expected to violate %s (timer fires between "
                                   "broadcastAfter and Wait) but TLC reports %r: model changed" % (inv, r.violated))
        out[inv] = [re.sub(r"\s+", " ", " ".join(l for l in b.splitlines() if re.match(r"State|/\\ (pc|now|dl|timer) ", l)))
                    for b in r.cex]
    return out


def _neg(ctx, flag, inv, mode):
    s = _mc_subst(mode, True, neg=True)
    s.update({"FLAG": flag, "INV": inv})
    r = lib.run_tlc(ctx, "StreamPipe", "StreamPipe_neg.cfg", s, tag="neg_%s_%s" % (flag, inv), workers=3, timeout=600,
                    expect_violation=True)
    if r.violated != inv:
        raise lib.Inconclusive("negative config %s must violate %s but TLC reports %r: the invariant is vacuous or the model changed"
                               % (flag, inv, r.violated))
    return {"flag": flag, "invariant": inv, "violated": True, "distinct_until_cex": r.distinct}


def _gen(ctx, tag, mode, limit, depth, simulate, dev="{{}}", narrow=False):
    # narrow alphabet (one payload size, one target size): one step deeper for the timer / deadline interleavings
    units = "{1}" if narrow else ("{0,1,2,3}" if simulate else "{0,1,2}")
    s = {"MODE": mode, "READERS": "{1,2}", "WRITERS": "{11,12}", "LIMIT": limit, "SIZES": units, "CAPS": units,
         "T": depth + 2, "DLS": "{0,1,2}", "DEPTH": depth, "DEV": dev,
         # a deviating model (binding self-test, see x01.NOTES.md) is generated without the invariants it breaks
         "INVS": "PrefixInv Conservation EofFinal NoLostWakeup TimerCovers" if dev == "{{}}" else "PrefixInv Conservation"}
    r = lib.run_tlc(ctx, "StreamPipeGen", "StreamPipeGen.cfg", s, tag="gen_" + tag, simulate=simulate,
                    depth=(8 * depth + 8) if simulate else None, workers=(1 if simulate else TLCW), timeout=1500)
    lib.require_ok(r, "StreamPipeGen " + tag)
    return r.behaviours


def _dedup(bs, cap=None):
    seen, out = set(), []
    for b in bs:
        k = json.dumps(b, sort_keys=True)
        if k not in seen:
            seen.add(k)
            out.append(b)
            if cap and len(out) >= cap:
                break
    return out


def _low_overlay(ctx2):
    """overlay of the harness + recvBuffer.go with `const recvBufferSizeLimit` turned into `var` + the setter file"""
    src = os.path.join(lib.REPO, "internal", "multiplex", "recvBuffer.go")
    try:
        txt = open(src).read()
    except OSError as e:
        raise lib.Inconclusive("cannot read %s: %s" % (src, e))
    new, n = re.subn(r"(?m)^const(\s+recvBufferSizeLimit\s*=)", r"var\1", txt)
    if n != 1:
        raise lib.Inconclusive("recvBuffer.go no longer declares `const recvBufferSizeLimit = ...`: the low-limit build cannot be made")
    patched = os.path.join(ctx2.work, "recvBuffer_var.go")
    open(patched, "w").write(new)
    setter = os.path.join(ctx2.work, "x01_setlimit_test.go")
    open(setter, "w").write("//go:build verif\n\npackage multiplex\n\nfunc init() {\n\tx01SetLimit = func(n int) int { old := recvBufferSizeLimit; "
                            "recvBufferSizeLimit = n; return old }\n}\n")
    base = json.load(open(lib.make_overlay(ctx2, ["multiplex"], PFX)))
    base["Replace"][src] = patched
    base["Replace"][os.path.join(lib.REPO, "internal", "multiplex", "zzverif_x01_setlimit_test.go")] = setter
    path = os.path.join(ctx2.work, "overlay_low.json")
    json.dump(base, open(path, "w"), indent=1)
    return path


def _subctx(ctx, name):
    """same context (shared lists), own scratch directory: two `go test` builds may then run side by side"""
    c = copy.copy(ctx)
    c.work = os.path.join(ctx.work, name)
    os.makedirs(c.work, exist_ok=True)
    return c


def _replay_go(ctx, name, behaviours, low):
    c = _subctx(ctx, "go_" + name)
    inp = lib.write_lines(os.path.join(c.work, name + ".ndjson"), behaviours)
    extra = ["-overlay", _low_overlay(c)] if low else None
    res = lib.run_go(c, "multiplex", "TestVerifX01Replay", env={"VERIF_IN": inp}, tag="replay_" + name, extra_args=extra,
                     prefixes=PFX, timeout=1500)
    if res.get("_died"):
        raise lib.Inconclusive("replay driver died (%s): %s" % (name, res.get("_stdout_tail")))
    return res


def stage(ctx, keymap=None, pool=None, pool_more=None):
    """Generate behaviours and replay them on the code (no exhaustive model checking, no stress). Appends to
    ctx.violations; a caller other than X01 gets its own property's keys (default: C03's), the rest goes to ctx.notes."""
    q = ctx.quick()
    if keymap is None and ctx.pid != "X01":
        keymap = C03_KEYMAP
    bfs_d, sim_d = (3, 10) if q else (4, 14)
    sim_n = 60 if q else 1200
    lows = [1, 2] if q else [0, 1, 2]
    jobs = []
    for mode in ("stream", "datagram"):
        jobs.append(("real", mode, "bfs", NOLIMIT, bfs_d, None))
        jobs.append(("real", mode, "deep", NOLIMIT, bfs_d + 1, None))
        jobs.append(("real", mode, "sim", NOLIMIT, sim_d, sim_n))
        jobs.append(("low", mode, "bfs", lows[ctx.seed % len(lows)], bfs_d, None))
        for lim in (lows if not q else [lows[(ctx.seed + 1) % len(lows)]]):
            jobs.append(("low", mode, "sim", lim, sim_d, sim_n if q else sim_n // len(lows)))
    own = pool is None
    pool = pool or ThreadPoolExecutor(max_workers=TLCJOBS)
    try:
        futs = [(j, pool.submit(_gen, ctx, "%s_%s_%s_l%s" % (j[0], j[1], j[2], j[3] if j[3] < 1000 else "x"), j[1], j[3], j[4], j[5], "{{}}", j[2] == "deep"))
                for j in jobs]
        if pool_more:
            pool_more(pool)
        sets = {"real": [], "low": []}
        for j, f in futs:
            bs = f.result()
            if not bs:
                raise lib.Inconclusive("StreamPipeGen produced no behaviour for %r" % (j,))
            sets[j[0]] += bs if not (q and j[2] == "bfs") else bs[(ctx.seed * 37) % 5::2][:2500]
    finally:
        if own:
            pool.shutdown(wait=False)
    sets = {k: _dedup(v) for k, v in sets.items()}
    ctx.log("behaviours: %d with the code's limit, %d with a lowered limit" % (len(sets["real"]), len(sets["low"])))
    with ThreadPoolExecutor(max_workers=2) as ex:
        fr = ex.submit(_replay_go, ctx, "real", sets["real"], False)
        fl = ex.submit(_replay_go, ctx, "low", sets["low"], True)
        results = {"real": fr.result(), "low": fl.result()}
    cov = {"evaluations": 0, "distinct_nontrivial": 0, "samples": [], "traces_validated_against_impl": 0, "replay": {}}
    for name, res in results.items():
        for v in res.get("violations", []):
            if keymap is None:
                ctx.violations.append(v)
            elif v.get("key") in keymap:
                ctx.violations.append(dict(v, key=keymap[v["key"]], what="receive pipe (X01 %s): %s" % (v["key"], v.get("what"))))
            else:
                ctx.notes.append("X01 finding outside this property's statement: %s: %s" % (v.get("key"), v.get("what")))
        cov["evaluations"] += res["evaluations"]
        cov["distinct_nontrivial"] += res["distinct_nontrivial"]
        cov["samples"] += res["samples"][:1]
        cov["traces_validated_against_impl"] += len(sets[name])
        cov["replay"][name] = {"behaviours": len(sets[name]), "stats": res.get("stats", {}), "violations": len(res.get("violations", []))}
        ctx.log("replay %-4s: %d behaviours, %d evaluations, %d violations" % (name, len(sets[name]), res["evaluations"], len(res.get("violations", []))))
    return cov


def _stress(ctx):
    c = _subctx(ctx, "go_stress")
    res = lib.run_go(c, "multiplex", "TestVerifX01Stress", prefixes=PFX, timeout=900)
    lib.collect_go(ctx, res)
    return res


def run(ctx):
    q = ctx.quick()
    t0 = time.time()
    later = {}

    def more(pool):     # queued behind the generators: the replay needs those first
        later["mc"] = [pool.submit(_mc, ctx, m) for m in ("stream", "datagram")] + [pool.submit(_mc_unlocked, ctx, m) for m in (() if q else ("stream", "datagram"))]
        later["defect"] = pool.submit(_neg_unlocked, ctx)
        later["neg"] = [pool.submit(_neg, ctx, fl, inv, "datagram" if i % 2 else "stream") for i, (fl, inv) in enumerate(NEG)]

    with ThreadPoolExecutor(max_workers=1) as sx, ThreadPoolExecutor(max_workers=TLCJOBS) as pool:
        f_stress = sx.submit(_stress, ctx)       # builds the untouched package while TLC works
        cov = stage(ctx, pool=pool, pool_more=more)
        mcs = [f.result() for f in later["mc"]]
        defect = later["defect"].result()
        negs = [f.result() for f in later["neg"]]
        st = f_stress.result()
    for m in mcs:
        ctx.log("StreamPipe %-8s TimerUnlocked=%-5s exhaustive: %d distinct states (view without last/nret, symmetric threads)"
                % (m["mode"], m["timer_unlocked"], m["distinct"]))
    ctx.log("negative configs: %d/%d violate their invariant" % (len(negs) + len(defect), len(NEG) + 2))
    ctx.log("negative config TimerUnlocked=TRUE (code before fix 90f21f9) violates NoLostWakeup and TimerCovers: " + " | ".join(defect["NoLostWakeup"][-4:]))
    cov["negative_config_timer_unlocked"] = defect
    ctx.log("stress: %d trials (%d of them reads entered microseconds before their deadline), %d violations, %d unjudged"
            % (st["stats"].get("trials", 0), st["stats"].get("imminent_trials", 0), len(st.get("violations", [])), st["stats"].get("unjudged", 0)))
    cov.update({"rule": RULE, "exhaustive": True, "model_checked": mcs, "negative_configs": negs,
                "stress_trials": st["stats"].get("trials", 0), "stress_unjudged": st["stats"].get("unjudged", 0)})
    cov["evaluations"] += st["stats"].get("trials", 0)
    cov["distinct_nontrivial"] += st["distinct_nontrivial"]
    ctx.log("total %.1fs" % (time.time() - t0))
    return lib.finish(ctx, LEVEL, cov, ASSUME)


def replay(ctx, path):
    f = json.load(open(path))
    b = (f.get("replay") or {}).get("behaviour") or {}
    low = b.get("limit", NOLIMIT) < 1000
    c = _subctx(ctx, "go_replay")
    extra = ["-v"] + (["-overlay", _low_overlay(c)] if low else [])
    res = lib.run_go(c, "multiplex", "TestVerifX01Replay", env={"VERIF_REPLAY": os.path.abspath(path)}, extra_args=extra,
                     prefixes=PFX, tag="replay_file")
    print(open(res["_out_dir"] + "/go.out").read())
    return 1 if res.get("violations") else 0
