"""C02, inductive leg: Spec => []IndInv of spec/ReassemblyInd.tla for EVERY number of frames N.

stage(ctx) re-runs, under time-outs,
  (a) TLC: spec/ReassemblyEq.tla - the closed-form Drain of ReassemblyInd.tla equals the recursive Drain of
      Reassembly.tla on every argument (N <= 6), and the two specs refine each other (both directions);
  (b) tlapm: spec/ReassemblyIndProof.tla - IndInv is inductive for arbitrary N \\in Nat \\ {0}  [thorough tier];
  (c) Apalache: spec/apalache/ReassemblyIndApa.tla - Init => IndInv and IndInv /\\ Next => IndInv' for a
      symbolic N \\in 1..8 (cross-check of (b), independent tool chain)                         [thorough tier].
Cold cost measured on this box (16 cores, load average 30-130 from concurrent builders): (a) 20-35 s,
(b) 67-135 s, (c) 40 s + 150-165 s.  (b) and (c) therefore run in the thorough tier only; set
VERIF_C02_PROOF=1 to force them in the quick tier.

A failed or timed-out proof attempt says nothing about the Go code: every failure is lib.Inconclusive, never a
violation.  The binding of the spec to the code stays what c02.py does (replay + trace validation).
"""
import concurrent.futures as cf
import json
import os
import re
import shutil
import signal
import subprocess
import time

import lib

PROOF_FILES = ["ReassemblyInd.tla", "ReassemblyShim.tla", "ReassemblyIndProof.tla"]
APA_DIR = os.path.join(lib.SPEC, "apalache")


def _run(cmd, cwd, timeout, env=None):
    """subprocess with its own process group, so that a time-out also removes z3 / isabelle / java children."""
    e = dict(os.environ)
    e.pop("JAVA_TOOL_OPTIONS", None)
    if env:
        e.update(env)
    t0 = time.time()
    p = subprocess.Popen(cmd, cwd=cwd, env=e, stdout=subprocess.PIPE, stderr=subprocess.STDOUT, text=True,
                         errors="replace", start_new_session=True)
    try:
        out, _ = p.communicate(timeout=timeout)
    except subprocess.TimeoutExpired:
        try:
            os.killpg(p.pid, signal.SIGKILL)
        except OSError:
            pass
        p.communicate()
        raise lib.Inconclusive("%s timed out after %ds" % (cmd[0], timeout))
    return p.returncode, out, time.time() - t0


def _scratch(ctx, name, files):
    d = os.path.join(ctx.work, name)
    shutil.rmtree(d, ignore_errors=True)
    os.makedirs(d)
    for f in files:
        shutil.copy(f, d)
    return d


# ------------------------------------------------------------------------------------------ (a) TLC

def _tlc_equivalence(ctx, thorough):
    jobs = [("sweep", n) for n in (range(1, 7) if thorough else [6])]
    jobs += [("fwd", n) for n in ([6, 8] if thorough else [6])]
    jobs += [("bwd", n) for n in ([6, 8] if thorough else [6])]
    t0 = time.time()

    def one(job):
        kind, n = job
        r = lib.run_tlc(ctx, "ReassemblyEq", "ReassemblyEq_%s.cfg" % kind, {"N": n}, workers=4,
                        tag="eq_%s_%d" % (kind, n), timeout=600)
        if not r.ok:   # run_tlc returns (instead of raising) when an invariant / property is violated
            raise lib.Inconclusive("ReassemblyEq %s N=%d: %s violated - Reassembly.tla and ReassemblyInd.tla differ "
                                   "(spec drift, not a statement about the code)" % (kind, n, r.violated))
        return kind, n, r.distinct

    with cf.ThreadPoolExecutor(max_workers=4) as ex:
        res = list(ex.map(one, jobs))
    fwd = {n: d for k, n, d in res if k == "fwd"}
    bwd = {n: d for k, n, d in res if k == "bwd"}
    if fwd != bwd:
        raise lib.Inconclusive("ReassemblyEq: reachable state counts differ fwd=%s bwd=%s" % (fwd, bwd))
    return {"runs": ["%s N=%d: %d states" % r for r in res], "wall_s": round(time.time() - t0, 1)}


# ------------------------------------------------------------------------------------------ (b) tlapm

def _tlapm(ctx):
    d = _scratch(ctx, "c02ind_tlapm", [os.path.join(lib.SPEC, f) for f in PROOF_FILES])
    cache = os.path.join(d, "cache")           # fresh: nothing is taken from an earlier run
    t0 = time.time()
    last = ""
    # second pass: only the obligations that failed (back-end time-outs on a loaded box) are tried again,
    # with fewer threads and longer time limits; everything counted as proved was proved in THIS invocation
    for threads, stretch, tmo in ((str(lib.NCPU), "3", 900), ("4", "6", 480)):
        rc, out, _ = _run(["tlapm", "--threads", threads, "--stretch", stretch, "--cache-dir", cache,
                           "ReassemblyIndProof.tla"], d, tmo)
        last = out
        m = re.search(r"All (\d+) obligations? proved", out)
        if rc == 0 and m:
            with open(os.path.join(d, "tlapm.out"), "w") as fh:
                fh.write(out)
            return {"obligations_proved": int(m.group(1)), "obligations_failed": 0,
                    "theorems": ["IndInvInvariant: Spec => []IndInv", "OriginalInvariants"],
                    "wall_s": round(time.time() - t0, 1)}
    m = re.search(r"(\d+)/(\d+) obligations? failed", last)
    what = ("%s of %s obligations unproved" % m.groups()) if m else "\n".join(last.splitlines()[-15:])
    raise lib.Inconclusive("tlapm did not re-establish the proof of ReassemblyIndProof.tla: " + what)


# ------------------------------------------------------------------------------------------ (c) Apalache

def _apalache_one(ctx, name, init, length, timeout):
    d = _scratch(ctx, "c02ind_apa_" + name,
                 [os.path.join(lib.SPEC, "ReassemblyInd.tla"), os.path.join(APA_DIR, "ReassemblyShim.tla"),
                  os.path.join(APA_DIR, "ReassemblyIndApa.tla")])
    rc, out, wall = _run(["apalache-mc", "check", "--cinit=ConstInit", "--init=" + init, "--inv=IndInv",
                          "--length=%d" % length, "ReassemblyIndApa.tla"], d, timeout)
    with open(os.path.join(d, "apalache.out"), "w") as fh:
        fh.write(out)
    if rc == 0 and "The outcome is: NoError" in out:
        m = re.search(r"Checker reports no error up to computation length (\d+)", out)
        return {"check": name, "outcome": "NoError", "length": int(m.group(1)) if m else length,
                "wall_s": round(wall, 1)}
    if "The outcome is: Error" in out:
        raise lib.Inconclusive("Apalache %s: IndInv is NOT inductive for some N in 1..8 (counter-example in %s) - "
                               "spec drift, not a statement about the code" % (name, d))
    raise lib.Inconclusive("Apalache %s failed (rc=%d):\n%s" % (name, rc, "\n".join(out.splitlines()[-12:])))


def _apalache(ctx):
    t0 = time.time()
    with cf.ThreadPoolExecutor(max_workers=2) as ex:
        a = ex.submit(_apalache_one, ctx, "base", "Init", 0, 600)
        b = ex.submit(_apalache_one, ctx, "step", "IndInit", 1, 1200)
        res = [a.result(), b.result()]
    return {"runs": res, "n_range": "1..8 (symbolic)", "wall_s": round(time.time() - t0, 1)}


# ------------------------------------------------------------------------------------------ entry

def stage(ctx):
    """Re-runs the inductive argument.  Returns {"method", "result", "obligations", "wall_s", ...};
    raises lib.Inconclusive on any tool failure / time-out / disagreement (never records a violation)."""
    t0 = time.time()
    thorough = not ctx.quick()
    proofs = thorough or os.environ.get("VERIF_C02_PROOF") == "1"
    out = {}
    with cf.ThreadPoolExecutor(max_workers=3) as ex:
        futs = {"tlc_equivalence": ex.submit(_tlc_equivalence, ctx, thorough)}
        if proofs:
            futs["tlaps"] = ex.submit(_tlapm, ctx)
            futs["apalache"] = ex.submit(_apalache, ctx)
        errs = []
        for k, f in futs.items():
            try:
                out[k] = f.result()
            except lib.Inconclusive as e:
                errs.append("%s: %s" % (k, e))
            except Exception as e:                      # tool missing, scratch dir removed by a clean-up, ...
                errs.append("%s: %r" % (k, e))
    if errs:
        raise lib.Inconclusive("C02 inductive leg: " + " | ".join(errs))
    if proofs:
        method = ("TLAPS proof for every N in Nat\\{0} (ReassemblyIndProof.tla) + Apalache inductive check for symbolic "
                  "N in 1..8 + TLC equivalence of ReassemblyInd.tla with Reassembly.tla (N<=6 sweep, N<=8 refinement)")
        result = "proved"
        obligations = {"tlaps_proved": out["tlaps"]["obligations_proved"], "tlaps_failed": 0,
                       "apalache": ["%s: %s" % (r["check"], r["outcome"]) for r in out["apalache"]["runs"]],
                       "tlc": out["tlc_equivalence"]["runs"]}
    else:
        method = ("TLC equivalence of ReassemblyInd.tla with Reassembly.tla only (quick tier); the TLAPS / Apalache "
                  "re-check of the inductive proof runs in the thorough tier (cold cost 1-3 min) or with VERIF_C02_PROOF=1")
        result = "equivalence-checked; proof not re-run in this tier"
        obligations = {"tlc": out["tlc_equivalence"]["runs"]}
    res = {"method": method, "result": result, "obligations": obligations, "wall_s": round(time.time() - t0, 1),
           "legs": out}
    ctx.log("c02_ind: %s in %.0fs" % (result, res["wall_s"]))
    ctx.notes.append("c02_ind: %s; %s (%.0fs)" % (result, json.dumps(obligations), res["wall_s"]))
    return res
